/-
  Soundness of the may-held analysis within a skeleton: every acquisition made by any execution
  of a skeleton that passes the balance check, while some mutex is held (or held with a deferred
  unlock), is an edge the analysis lists.  (What a callee takes is the callee's own skeleton; how
  callees are resolved stays a heuristic of `GV.Race.Order`.)
-/
import GV.Race.Order
namespace GV.Race.Order
open GV.Race.Balance

/-- mutexes physically held: taken and not released, with or without a deferred unlock -/
def phys (st : St) : List String := st.held ++ st.dfr

/-- executions together with the acquisitions they make: (a mutex held at that moment, the mutex taken) -/
inductive RunE : LS → St → Exit → St → List (String × String) → Prop
  | skip (st) : RunE .skip st .fall st []
  | lock (l st) : RunE (.lock l) st .fall { st with held := l :: st.held } ((phys st).map (fun x => (x, l)))
  | unlock (l st) : RunE (.unlock l) st .fall { st with held := st.held.erase l } []
  | deferUnlock (l st) : RunE (.deferUnlock l) st .fall { held := st.held.erase l, dfr := l :: st.dfr } []
  | call (f st) : RunE (.call f) st .fall st []
  | callPanic (f st) : safe f = false → RunE (.call f) st .panic st []
  | ret (st) : RunE .ret st .ret st []
  | brk (st) : RunE .brk st .brk st []
  | cont (st) : RunE .cont st .cont st []
  | seqFall {a b st st1 e st2 e1 e2} : RunE a st .fall st1 e1 → RunE b st1 e st2 e2 → RunE (.seq a b) st e st2 (e1 ++ e2)
  | seqExit {a b st e st1 e1} : RunE a st e st1 e1 → e ≠ .fall → RunE (.seq a b) st e st1 e1
  | iteL {a b st e st1 e1} : RunE a st e st1 e1 → RunE (.ite a b) st e st1 e1
  | iteR {a b st e st1 e1} : RunE b st e st1 e1 → RunE (.ite a b) st e st1 e1
  | loopZero (b st) : RunE (.loop b) st .fall st []
  | loopNext {b st e st1 e2 st2 e1 e2'} : RunE b st e st1 e1 → (e = .fall ∨ e = .cont) → RunE (.loop b) st1 e2 st2 e2' →
      RunE (.loop b) st e2 st2 (e1 ++ e2')
  | loopBrk {b st st1 e1} : RunE b st .brk st1 e1 → RunE (.loop b) st .fall st1 e1
  | loopExit {b st e st1 e1} : RunE b st e st1 e1 → (e = .ret ∨ e = .panic) → RunE (.loop b) st e st1 e1

theorem RunE.toRun {s st e st' evs} (h : RunE s st e st' evs) : Run s st e st' := by
  induction h with
  | skip st => exact .skip st
  | lock l st => exact .lock l st
  | unlock l st => exact .unlock l st
  | deferUnlock l st => exact .deferUnlock l st
  | call f st => exact .call f st
  | callPanic f st hf => exact .callPanic f st hf
  | ret st => exact .ret st
  | brk st => exact .brk st
  | cont st => exact .cont st
  | seqFall _ _ ih1 ih2 => exact .seqFall ih1 ih2
  | seqExit _ hne ih => exact .seqExit ih hne
  | iteL _ ih => exact .iteL ih
  | iteR _ ih => exact .iteR ih
  | loopZero b st => exact .loopZero b st
  | loopNext _ hfc _ ih1 ih2 => exact .loopNext ih1 hfc ih2
  | loopBrk _ ih => exact .loopBrk ih
  | loopExit _ hrp ih => exact .loopExit ih hrp

/-- `a` is dominated by `b` as a multiset -/
def Le (a b : List String) : Prop := ∀ x, a.count x ≤ b.count x

theorem Le.refl (a : List String) : Le a a := fun _ => Nat.le_refl _
theorem Le.trans {a b c : List String} (h1 : Le a b) (h2 : Le b c) : Le a c := fun x => Nat.le_trans (h1 x) (h2 x)
theorem Le.append_right {a b : List String} (c : List String) (h : Le a b) : Le a (b ++ c) := fun x => by
  rw [List.count_append]; exact Nat.le_trans (h x) (Nat.le_add_right _ _)
theorem Le.append_left {a b : List String} (c : List String) (h : Le a b) : Le a (c ++ b) := fun x => by
  rw [List.count_append]; exact Nat.le_trans (h x) (Nat.le_add_left _ _)
theorem Le.append {a b c d : List String} (h1 : Le a b) (h2 : Le c d) : Le (a ++ c) (b ++ d) := fun x => by
  rw [List.count_append, List.count_append]; exact Nat.add_le_add (h1 x) (h2 x)
theorem Le.mem {a b : List String} (h : Le a b) {x : String} (hx : x ∈ a) : x ∈ b := by
  have := h x
  have hp : 0 < a.count x := List.count_pos_iff.2 hx
  exact List.count_pos_iff.1 (by omega)

theorem phys_lock (l : String) (st : St) : phys { st with held := l :: st.held } = l :: phys st := rfl

theorem le_erase {a h : List String} {l : String} (hle : Le a h) (hl : l ∈ a) (a' : List String)
    (hc : ∀ x, a'.count x = if x = l then a.count x - 1 else a.count x) : Le a' (h.erase l) := by
  intro x
  rw [hc x]
  by_cases hx : x = l
  · subst hx
    simp only [if_true, List.count_erase_self]
    have := hle x; omega
  · simp only [hx, if_false]
    rw [List.count_erase_of_ne hx]; exact hle x

theorem count_phys_unlock (st : St) (l x : String) :
    (phys { st with held := st.held.erase l }).count x =
      if x = l then (if l ∈ st.held then (phys st).count x - 1 else (phys st).count x) else (phys st).count x := by
  unfold phys
  simp only [List.count_append]
  by_cases hx : x = l
  · subst hx
    simp only [if_true, List.count_erase_self]
    by_cases hm : x ∈ st.held
    · simp only [hm, if_true]
      have : 0 < st.held.count x := List.count_pos_iff.2 hm
      omega
    · simp only [hm, if_false]
      have : st.held.count x = 0 := List.count_eq_zero.2 hm
      omega
  · simp only [hx, if_false]; rw [List.count_erase_of_ne hx]

theorem count_phys_defer (st : St) (l x : String) (hm : l ∈ st.held) :
    (phys { held := st.held.erase l, dfr := l :: st.dfr }).count x = (phys st).count x := by
  unfold phys
  simp only [List.count_append, List.count_cons]
  by_cases hx : x = l
  · subst hx
    simp only [List.count_erase_self, beq_self_eq_true, if_true]
    have : 0 < st.held.count x := List.count_pos_iff.2 hm
    omega
  · have hne : (l == x) = false := by simp [Ne.symm hx]
    simp only [hne, Bool.false_eq_true, if_false]
    rw [List.count_erase_of_ne hx]; omega

/-- growth: an execution of a checked skeleton ends holding at most what it held plus what the skeleton takes -/
theorem grow {s st e st'} (hr : Run s st e st') : ∀ outs, chk s st = some outs → Le (phys st') (phys st ++ takesL s) := by
  induction hr with
  | skip st => intro _ _; simp [takesL]; exact Le.refl _
  | lock l st =>
    intro _ _ x
    simp only [phys_lock, takesL, List.count_append, List.count_cons, List.count_nil]; omega
  | unlock l st =>
    intro _ _ x
    rw [count_phys_unlock]
    simp only [takesL, List.append_nil]
    split
    · split <;> omega
    · exact Nat.le_refl _
  | deferUnlock l st =>
    intro outs h x
    simp only [chk] at h
    split at h
    · rename_i hc
      rw [count_phys_defer st l x (by simpa using hc)]
      simp [takesL]
    · cases h
  | call f st => intro _ _; simp [takesL]; exact Le.refl _
  | callPanic f st _ => intro _ _; simp [takesL]; exact Le.refl _
  | ret st => intro _ _; simp [takesL]; exact Le.refl _
  | brk st => intro _ _; simp [takesL]; exact Le.refl _
  | cont st => intro _ _; simp [takesL]; exact Le.refl _
  | @seqFall a b st st1 e st2 h1 _ iha ihb =>
    intro outs h
    cases ha : chk a st with
    | none => simp [chk, ha] at h
    | some oa =>
      rw [chk_seq ha] at h
      have hm := chk_sound h1 oa ha
      cases hb : chk b st1 with
      | none => rw [bindOuts_none hm hb] at h; cases h
      | some ob =>
        have g1 := iha oa ha
        have g2 := ihb ob hb
        intro x
        have := g1 x; have := g2 x
        simp only [takesL, List.count_append] at *
        omega
  | @seqExit a b st e st1 _ _ iha =>
    intro outs h
    cases ha : chk a st with
    | none => simp [chk, ha] at h
    | some oa =>
      intro x
      have := iha oa ha x
      simp only [takesL, List.count_append] at *
      omega
  | @iteL a b st e st1 _ iha =>
    intro outs h; simp only [chk] at h
    cases ha : chk a st with
    | none => simp [ha] at h
    | some oa =>
      intro x
      have := iha oa ha x
      simp only [takesL, List.count_append] at *
      omega
  | @iteR a b st e st1 _ ihb =>
    intro outs h; simp only [chk] at h
    cases ha : chk a st with
    | none => simp [ha] at h
    | some oa =>
      cases hb : chk b st with
      | none => simp [ha, hb] at h
      | some ob =>
        intro x
        have := ihb ob hb x
        simp only [takesL, List.count_append] at *
        omega
  | loopZero b st => intro _ _; exact Le.append_right _ (Le.refl _)
  | @loopNext b st e st1 e2 st2 h1 hfc _ ihb ihl =>
    intro outs h
    cases hb : chk b st with
    | none => simp [chk, hb] at h
    | some ob =>
      obtain ⟨hall, _⟩ := chk_loop_inv hb h
      have hm := chk_sound h1 ob hb
      have hst : st1 = st := by
        have := List.all_eq_true.1 hall _ hm
        simp only [hfc, if_true, decide_eq_true_eq] at this
        exact this
      subst hst
      exact ihl outs h
  | @loopBrk b st st1 _ ihb =>
    intro outs h
    cases hb : chk b st with
    | none => simp [chk, hb] at h
    | some ob => exact ihb ob hb
  | @loopExit b st e st1 _ _ ihb =>
    intro outs h
    cases hb : chk b st with
    | none => simp [chk, hb] at h
    | some ob => exact ihb ob hb


theorem le_phys_unlock {st : St} {h : List String} {l : String} (hle : Le (phys st) h) (hm : l ∈ st.held) :
    Le (phys { st with held := st.held.erase l }) (h.erase l) := by
  intro x
  rw [count_phys_unlock]
  by_cases hx : x = l
  · subst hx
    simp only [if_true, hm, List.count_erase_self]
    have := hle x; omega
  · simp only [hx, if_false]
    rw [List.count_erase_of_ne hx]; exact hle x

/-- **Soundness of the analysis within a skeleton.**  For every execution of a skeleton the balance
    check vouches for, started with at most `h` held: every acquisition it makes while something is
    held is among the edges, and if it falls through, what it still holds is among what the analysis
    says may be held. -/
theorem walkS_sound (calls : List String → String → List (String × String)) {s st e st' evs}
    (hr : RunE s st e st' evs) :
    ∀ outs, chk s st = some outs → ∀ h, Le (phys st) h →
      (∀ ev ∈ evs, ev ∈ (walkS calls s h).1) ∧ (e = .fall → Le (phys st') (walkS calls s h).2) := by
  induction hr with
  | skip st => intro _ _ h hle; exact ⟨by simp, fun _ => hle⟩
  | lock l st =>
    intro _ _ h hle
    refine ⟨?_, fun _ => ?_⟩
    · intro ev hev
      simp only [List.mem_map] at hev
      obtain ⟨x, hx, rfl⟩ := hev
      simp only [walkS, List.mem_map]
      exact ⟨x, hle.mem hx, rfl⟩
    · intro x
      simp only [phys_lock, walkS, List.count_cons]
      have := hle x; omega
  | unlock l st =>
    intro outs hc h hle
    refine ⟨by simp, fun _ => ?_⟩
    simp only [chk] at hc
    split at hc
    · rename_i hm
      exact le_phys_unlock hle (by simpa using hm)
    · cases hc
  | deferUnlock l st =>
    intro outs hc h hle
    refine ⟨by simp, fun _ => ?_⟩
    simp only [chk] at hc
    split at hc
    · rename_i hm
      intro x
      rw [count_phys_defer st l x (by simpa using hm)]
      exact hle x
    · cases hc
  | call f st => intro _ _ h hle; exact ⟨by simp, fun _ => hle⟩
  | callPanic f st _ => intro _ _ h hle; exact ⟨by simp, fun he => by cases he⟩
  | ret st => intro _ _ h hle; exact ⟨by simp, fun he => by cases he⟩
  | brk st => intro _ _ h hle; exact ⟨by simp, fun he => by cases he⟩
  | cont st => intro _ _ h hle; exact ⟨by simp, fun he => by cases he⟩
  | @seqFall a b st st1 e st2 e1 e2 h1 _ iha ihb =>
    intro outs hc h hle
    cases ha : chk a st with
    | none => simp [chk, ha] at hc
    | some oa =>
      rw [chk_seq ha] at hc
      have hm := chk_sound h1.toRun oa ha
      cases hb : chk b st1 with
      | none => rw [bindOuts_none hm hb] at hc; cases hc
      | some ob =>
        obtain ⟨ga, gah⟩ := iha oa ha h hle
        obtain ⟨gb, gbh⟩ := ihb ob hb _ (gah rfl)
        refine ⟨?_, fun he => gbh he⟩
        intro ev hev
        simp only [walkS, List.mem_append] at hev ⊢
        rcases hev with h | h
        · exact Or.inl (ga ev h)
        · exact Or.inr (gb ev h)
  | @seqExit a b st e st1 e1 _ hne iha =>
    intro outs hc h hle
    cases ha : chk a st with
    | none => simp [chk, ha] at hc
    | some oa =>
      obtain ⟨ga, _⟩ := iha oa ha h hle
      refine ⟨?_, fun he => absurd he hne⟩
      intro ev hev
      simp only [walkS, List.mem_append]
      exact Or.inl (ga ev hev)
  | @iteL a b st e st1 e1 _ iha =>
    intro outs hc h hle; simp only [chk] at hc
    cases ha : chk a st with
    | none => simp [ha] at hc
    | some oa =>
      obtain ⟨ga, gah⟩ := iha oa ha h hle
      refine ⟨?_, fun he => ?_⟩
      · intro ev hev; simp only [walkS, List.mem_append]; exact Or.inl (ga ev hev)
      · simp only [walkS]; exact Le.append_right _ (gah he)
  | @iteR a b st e st1 e1 _ ihb =>
    intro outs hc h hle; simp only [chk] at hc
    cases ha : chk a st with
    | none => simp [ha] at hc
    | some oa =>
      cases hb : chk b st with
      | none => simp [ha, hb] at hc
      | some ob =>
        obtain ⟨gb, gbh⟩ := ihb ob hb h hle
        refine ⟨?_, fun he => ?_⟩
        · intro ev hev; simp only [walkS, List.mem_append]; exact Or.inr (gb ev hev)
        · simp only [walkS]; exact Le.append_left _ (gbh he)
  | loopZero b st =>
    intro _ _ h hle
    exact ⟨by simp, fun _ => by simp only [walkS]; exact Le.append_right _ hle⟩
  | @loopNext b st e st1 e2 st2 e1 e2' h1 hfc _ ihb ihl =>
    intro outs hc h hle
    cases hb : chk b st with
    | none => simp [chk, hb] at hc
    | some ob =>
      obtain ⟨hall, _⟩ := chk_loop_inv hb hc
      have hm := chk_sound h1.toRun ob hb
      have hst : st1 = st := by
        have := List.all_eq_true.1 hall _ hm
        simp only [hfc, if_true, decide_eq_true_eq] at this
        exact this
      subst hst
      obtain ⟨gb, _⟩ := ihb ob hb h hle
      obtain ⟨gl, glh⟩ := ihl outs hc h hle
      refine ⟨?_, glh⟩
      intro ev hev
      rcases List.mem_append.1 hev with h | h
      · simpa only [walkS] using gb ev h
      · exact gl ev h
  | @loopBrk b st st1 e1 h1 ihb =>
    intro outs hc h hle
    cases hb : chk b st with
    | none => simp [chk, hb] at hc
    | some ob =>
      obtain ⟨gb, _⟩ := ihb ob hb h hle
      refine ⟨fun ev hev => by simpa only [walkS] using gb ev hev, fun _ => ?_⟩
      simp only [walkS]
      exact Le.trans (grow h1.toRun ob hb) (Le.append hle (Le.refl _))
  | @loopExit b st e st1 e1 _ hrp ihb =>
    intro outs hc h hle
    cases hb : chk b st with
    | none => simp [chk, hb] at hc
    | some ob =>
      obtain ⟨gb, _⟩ := ihb ob hb h hle
      exact ⟨fun ev hev => by simpa only [walkS] using gb ev hev, fun he => by rcases hrp with h | h <;> (subst h; cases he)⟩

/-- for a whole function (entered with nothing held) that passes the balance check: every
    acquisition of every execution is an edge of the analysis -/
theorem acquisitions_are_edges (calls : List String → String → List (String × String)) {body : LS}
    (hl : leakFree body = true) {e st' evs} (hr : RunE body ⟨[], []⟩ e st' evs) :
    ∀ ev ∈ evs, ev ∈ (walkS calls body []).1 := by
  unfold leakFree at hl
  cases hc : chk body ⟨[], []⟩ with
  | none => simp [hc] at hl
  | some outs => exact (walkS_sound calls hr outs hc [] (Le.refl _)).1


theorem mem_dedup {x : String × String} : ∀ {l : List (String × String)}, x ∈ l → x ∈ dedup l
  | [], h => by cases h
  | y :: rest, h => by
    simp only [dedup]
    rcases List.mem_cons.1 h with rfl | hr
    · split
      · rename_i hc; exact mem_dedup (by simpa using hc)
      · exact List.mem_cons_self
    · split
      · exact mem_dedup hr
      · exact List.mem_cons_of_mem _ (mem_dedup hr)

/-- every acquisition, made while something is held, by any execution of any unit that passes the
    balance check is an edge of the acquisition order computed for the whole source -/
theorem acquisitions_in_edges (N : Names) (sums : List Sum) (units : List (String × LS)) (name : String) (body : LS)
    (hm : (name, body) ∈ units) (hl : leakFree body = true) {e st' evs} (hr : RunE body ⟨[], []⟩ e st' evs) :
    ∀ ev ∈ evs, ev ∈ edges N sums units := by
  intro ev hev
  unfold edges
  apply mem_dedup
  rw [List.mem_flatMap]
  exact ⟨(name, body), hm, acquisitions_are_edges _ hl hr ev hev⟩

end GV.Race.Order
