/-
  Lock balance (C09, C17, C18, C19): every way out of a function — falling off its end, a return,
  a panic inside a call — leaves none of the mutexes it took held (a deferred Unlock counts as
  released at the exit).  A lock left held would make the next user of the data context, the pool
  or a conc block wait forever.

  The lock skeleton of every function that touches a mutex is regenerated from the source
  (GV/Generated/Balance.lean); `chk` is an abstract interpreter over it that tracks the held set
  exactly and demands that a loop body returns to the state it started from; `chk_sound` proves
  that it over-approximates every execution (`Run`) of the skeleton.
-/
namespace GV.Race.Balance

inductive LS
  | skip
  | lock (l : String)
  | unlock (l : String)
  | deferUnlock (l : String)
  | call (f : String)         -- may panic unless `f` is one of `safeCallees`
  | ret
  | brk
  | cont
  | seq (a b : LS)
  | ite (a b : LS)            -- either branch
  | loop (body : LS)          -- any number of iterations
deriving Repr, DecidableEq

inductive Exit | fall | ret | brk | cont | panic
deriving Repr, DecidableEq

/-- `held`: mutexes taken and not yet released, without a deferred Unlock; `dfr`: mutexes whose
    Unlock is deferred (released when the function is left, however it is left) -/
structure St where
  held : List String
  dfr  : List String
deriving Repr, DecidableEq

/-- callees that neither panic nor block: built-ins and formatting -/
def safeCallees : List String :=
  ["len", "append", "make", "int", "delete", "fmt.Sprintf", "errors.New", "reflect.ValueOf", "wg.Done", "wg.Add",
   -- context/data_context.go: total by its guards (IsValid, CanAddr, CanInterface before Interface())
   "detachBasicValue"]

def safe (f : String) : Bool := safeCallees.contains f

/-- all executions of a skeleton -/
inductive Run : LS → St → Exit → St → Prop
  | skip (st) : Run .skip st .fall st
  | lock (l st) : Run (.lock l) st .fall { st with held := l :: st.held }
  | unlock (l st) : Run (.unlock l) st .fall { st with held := st.held.erase l }
  | deferUnlock (l st) : Run (.deferUnlock l) st .fall { held := st.held.erase l, dfr := l :: st.dfr }
  | call (f st) : Run (.call f) st .fall st
  | callPanic (f st) : safe f = false → Run (.call f) st .panic st
  | ret (st) : Run .ret st .ret st
  | brk (st) : Run .brk st .brk st
  | cont (st) : Run .cont st .cont st
  | seqFall {a b st st1 e st2} : Run a st .fall st1 → Run b st1 e st2 → Run (.seq a b) st e st2
  | seqExit {a b st e st1} : Run a st e st1 → e ≠ .fall → Run (.seq a b) st e st1
  | iteL {a b st e st1} : Run a st e st1 → Run (.ite a b) st e st1
  | iteR {a b st e st1} : Run b st e st1 → Run (.ite a b) st e st1
  | loopZero (b st) : Run (.loop b) st .fall st
  | loopNext {b st e st1 e2 st2} : Run b st e st1 → (e = .fall ∨ e = .cont) → Run (.loop b) st1 e2 st2 →
      Run (.loop b) st e2 st2
  | loopBrk {b st st1} : Run b st .brk st1 → Run (.loop b) st .fall st1
  | loopExit {b st e st1} : Run b st e st1 → (e = .ret ∨ e = .panic) → Run (.loop b) st e st1

def bindOuts (outs : List (Exit × St)) (k : St → Option (List (Exit × St))) : Option (List (Exit × St)) :=
  match outs with
  | [] => some []
  | (e, s) :: rest =>
    match bindOuts rest k with
    | none => none
    | some r =>
      if e = .fall then
        match k s with
        | some o => some (o ++ r)
        | none => none
      else some ((e, s) :: r)

def loopOut (x : Exit × St) : Option (Exit × St) :=
  match x.1 with
  | .brk => some (.fall, x.2)
  | .ret => some (.ret, x.2)
  | .panic => some (.panic, x.2)
  | _ => none

/-- the abstract interpreter: every outcome of the skeleton from `st`, or `none` when it cannot
    vouch for it (a mutex taken twice, released without being held, a loop body that does not come
    back to its starting state) -/
def chk : LS → St → Option (List (Exit × St))
  | .skip, st => some [(.fall, st)]
  | .lock l, st => if st.held.contains l || st.dfr.contains l then none else some [(.fall, { st with held := l :: st.held })]
  | .unlock l, st => if st.held.contains l then some [(.fall, { st with held := st.held.erase l })] else none
  | .deferUnlock l, st =>
    if st.held.contains l then some [(.fall, { held := st.held.erase l, dfr := l :: st.dfr })] else none
  | .call f, st => if safe f then some [(.fall, st)] else some [(.fall, st), (.panic, st)]
  | .ret, st => some [(.ret, st)]
  | .brk, st => some [(.brk, st)]
  | .cont, st => some [(.cont, st)]
  | .seq a b, st =>
    match chk a st with
    | some oa => bindOuts oa (chk b)
    | none => none
  | .ite a b, st =>
    match chk a st, chk b st with
    | some oa, some ob => some (oa ++ ob)
    | _, _ => none
  | .loop b, st =>
    match chk b st with
    | some ob =>
      if ob.all (fun x => if x.1 = .fall ∨ x.1 = .cont then decide (x.2 = st) else true) = true then
        some ((.fall, st) :: ob.filterMap loopOut)
      else none
    | none => none

theorem bindOuts_fall {outs : List (Exit × St)} {k r s o x}
    (h : bindOuts outs k = some r) (hm : (Exit.fall, s) ∈ outs) (hk : k s = some o) (hx : x ∈ o) : x ∈ r := by
  induction outs generalizing r with
  | nil => cases hm
  | cons y rest ih =>
    obtain ⟨e, s'⟩ := y
    simp only [bindOuts] at h
    cases hr : bindOuts rest k with
    | none => simp [hr] at h
    | some r' =>
      rw [hr] at h
      simp only at h
      rcases List.mem_cons.1 hm with heq | hin
      · cases heq
        simp only [if_true] at h
        rw [hk] at h; cases h
        exact List.mem_append_left _ hx
      · have := ih hr hin
        by_cases he : e = .fall
        · simp only [he, if_true] at h
          cases hks : k s' with
          | none => simp [hks] at h
          | some o' => rw [hks] at h; cases h; exact List.mem_append_right _ this
        · simp only [he, if_false] at h; cases h; exact List.mem_cons_of_mem _ this

theorem bindOuts_exit {outs : List (Exit × St)} {k r e s}
    (h : bindOuts outs k = some r) (hm : (e, s) ∈ outs) (he : e ≠ .fall) : (e, s) ∈ r := by
  induction outs generalizing r with
  | nil => cases hm
  | cons y rest ih =>
    obtain ⟨e', s'⟩ := y
    simp only [bindOuts] at h
    cases hr : bindOuts rest k with
    | none => simp [hr] at h
    | some r' =>
      rw [hr] at h
      simp only at h
      rcases List.mem_cons.1 hm with heq | hin
      · cases heq
        simp only [he, if_false] at h; cases h; exact List.mem_cons_self
      · have := ih hr hin
        by_cases he' : e' = .fall
        · simp only [he', if_true] at h
          cases hks : k s' with
          | none => simp [hks] at h
          | some o' => rw [hks] at h; cases h; exact List.mem_append_right _ this
        · simp only [he', if_false] at h; cases h; exact List.mem_cons_of_mem _ this

theorem bindOuts_none {outs : List (Exit × St)} {k s}
    (hm : (Exit.fall, s) ∈ outs) (hk : k s = none) : bindOuts outs k = none := by
  induction outs with
  | nil => cases hm
  | cons y rest ih =>
    obtain ⟨e', s'⟩ := y
    simp only [bindOuts]
    rcases List.mem_cons.1 hm with heq | hin
    · cases heq
      cases hrr : bindOuts rest k with
      | none => rfl
      | some r' => simp [hk]
    · rw [ih hin]

def loopInv (st : St) (ob : List (Exit × St)) : Bool :=
  ob.all (fun x => if x.1 = .fall ∨ x.1 = .cont then decide (x.2 = st) else true)

theorem chk_seq {a b : LS} {st : St} {oa} (ha : chk a st = some oa) : chk (.seq a b) st = bindOuts oa (chk b) := by
  simp only [chk, ha]

theorem chk_loop {b : LS} {st : St} {ob} (hb : chk b st = some ob) :
    chk (.loop b) st = if loopInv st ob = true then some ((.fall, st) :: ob.filterMap loopOut) else none := by
  simp only [chk, hb, loopInv]
  rfl

theorem chk_loop_inv {b : LS} {st : St} {ob outs} (hb : chk b st = some ob) (h : chk (.loop b) st = some outs) :
    loopInv st ob = true ∧ outs = (.fall, st) :: ob.filterMap loopOut := by
  rw [chk_loop hb] at h
  by_cases hall : loopInv st ob = true
  · rw [if_pos hall] at h; cases h; exact ⟨hall, rfl⟩
  · rw [if_neg hall] at h; cases h

/-- **Soundness of the interpreter**: every execution's outcome is among those it lists. -/
theorem chk_sound {s : LS} {st : St} {e : Exit} {st' : St} (hr : Run s st e st') :
    ∀ outs, chk s st = some outs → (e, st') ∈ outs := by
  induction hr with
  | skip st => intro outs h; simp [chk] at h; subst h; simp
  | lock l st =>
    intro outs h; simp only [chk] at h
    split at h
    · cases h
    · cases h; simp
  | unlock l st =>
    intro outs h; simp only [chk] at h
    split at h
    · cases h; simp
    · cases h
  | deferUnlock l st =>
    intro outs h; simp only [chk] at h
    split at h
    · cases h; simp
    · cases h
  | call f st => intro outs h; simp only [chk] at h; split at h <;> cases h <;> simp
  | callPanic f st hf => intro outs h; simp only [chk, hf] at h; cases h; simp
  | ret st => intro outs h; simp [chk] at h; subst h; simp
  | brk st => intro outs h; simp [chk] at h; subst h; simp
  | cont st => intro outs h; simp [chk] at h; subst h; simp
  | @seqFall a b st st1 e st2 _ _ iha ihb =>
    intro outs h
    cases ha : chk a st with
    | none => simp [chk, ha] at h
    | some oa =>
      rw [chk_seq ha] at h
      have hm := iha oa ha
      cases hb : chk b st1 with
      | none => rw [bindOuts_none hm hb] at h; cases h
      | some ob => exact bindOuts_fall h hm hb (ihb ob hb)
  | @seqExit a b st e st1 _ hne iha =>
    intro outs h
    cases ha : chk a st with
    | none => simp [chk, ha] at h
    | some oa => rw [chk_seq ha] at h; exact bindOuts_exit h (iha oa ha) hne
  | @iteL a b st e st1 _ iha =>
    intro outs h; simp only [chk] at h
    cases ha : chk a st with
    | none => simp [ha] at h
    | some oa =>
      cases hb : chk b st with
      | none => simp [ha, hb] at h
      | some ob => rw [ha, hb] at h; cases h; exact List.mem_append_left _ (iha oa ha)
  | @iteR a b st e st1 _ ihb =>
    intro outs h; simp only [chk] at h
    cases ha : chk a st with
    | none => simp [ha] at h
    | some oa =>
      cases hb : chk b st with
      | none => simp [ha, hb] at h
      | some ob => rw [ha, hb] at h; cases h; exact List.mem_append_right _ (ihb ob hb)
  | loopZero b st =>
    intro outs h
    cases hb : chk b st with
    | none => simp [chk, hb] at h
    | some ob => obtain ⟨_, rfl⟩ := chk_loop_inv hb h; simp
  | @loopNext b st e st1 e2 st2 _ hfc _ ihb ihl =>
    intro outs h
    cases hb : chk b st with
    | none => simp [chk, hb] at h
    | some ob =>
      obtain ⟨hall, _⟩ := chk_loop_inv hb h
      have hm := ihb ob hb
      have hst : st1 = st := by
        have := List.all_eq_true.1 hall _ hm
        simp only [hfc, if_true, decide_eq_true_eq] at this
        exact this
      subst hst
      exact ihl outs h
  | @loopBrk b st st1 _ ihb =>
    intro outs h
    cases hb : chk b st with
    | none => simp [chk, hb] at h
    | some ob =>
      obtain ⟨_, rfl⟩ := chk_loop_inv hb h
      refine List.mem_cons_of_mem _ (List.mem_filterMap.2 ⟨_, ihb ob hb, ?_⟩)
      simp [loopOut]
  | @loopExit b st e st1 _ hrp ihb =>
    intro outs h
    cases hb : chk b st with
    | none => simp [chk, hb] at h
    | some ob =>
      obtain ⟨_, rfl⟩ := chk_loop_inv hb h
      refine List.mem_cons_of_mem _ (List.mem_filterMap.2 ⟨_, ihb ob hb, ?_⟩)
      rcases hrp with h | h <;> subst h <;> simp [loopOut]

/-- the decidable obligation for one function: the interpreter vouches for its skeleton, and every
    outcome is a proper way out (no stray break / continue) with no mutex still held -/
def leakFree (body : LS) : Bool :=
  match chk body ⟨[], []⟩ with
  | some outs => outs.all (fun x => decide (x.2.held = []) && (x.1 == .fall || x.1 == .ret || x.1 == .panic))
  | none => false

/-- **No lock is left behind**: however a function whose skeleton passes the check is left —
    normally, by a return, by a panic in a callee — it holds none of the mutexes it took. -/
theorem leakFree_sound {body : LS} (h : leakFree body = true) {e : Exit} {st' : St}
    (hr : Run body ⟨[], []⟩ e st') : st'.held = [] ∧ (e = .fall ∨ e = .ret ∨ e = .panic) := by
  unfold leakFree at h
  cases hc : chk body ⟨[], []⟩ with
  | none => simp [hc] at h
  | some outs =>
    rw [hc] at h
    have hm := chk_sound hr outs hc
    have := List.all_eq_true.1 h _ hm
    simp only [Bool.and_eq_true, decide_eq_true_eq, Bool.or_eq_true, beq_iff_eq] at this
    exact ⟨this.1, by rcases this.2 with (h | h) | h <;> simp [h]⟩

/-- Non-vacuity: the skeleton of `getGengine` (two nested sections, early returns that release
    first, an endless retry loop) passes; the same with one early release forgotten does not. -/
example :
    let good : LS := .loop (.seq (.lock "a") (.seq (.lock "b")
      (.seq (.ite (.seq (.unlock "b") (.seq (.unlock "a") .ret)) .skip) (.seq (.unlock "b") (.unlock "a")))))
    let bad : LS := .loop (.seq (.lock "a") (.seq (.lock "b")
      (.seq (.ite (.seq (.unlock "b") .ret) .skip) (.seq (.unlock "b") (.unlock "a")))))
    leakFree good = true ∧ leakFree bad = false := by decide

end GV.Race.Balance
