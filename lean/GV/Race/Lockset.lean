/-
  Data-race freedom by lock discipline (C19).

  Traces of lock acquisitions, releases and memory accesses by threads; happens-before is the
  transitive closure of program order and release → later acquisition of the same lock.  If
  every access to a location is made while its thread holds one fixed lock (the location's
  guard), any two accesses to it by different threads are ordered by happens-before: no data
  race — for any number of threads, locks, locations and events.
-/
namespace GV.Race

inductive Ev
  | acq (t l : Nat)
  | rel (t l : Nat)
  | acc (t x : Nat) (w : Bool)
deriving Repr, DecidableEq, Inhabited

def Ev.thread : Ev → Nat | .acq t _ => t | .rel t _ => t | .acc t _ _ => t

abbrev Locks := Nat → Option Nat

def stepL (h : Locks) : Ev → Locks
  | .acq t l => fun k => if k = l then some t else h k
  | .rel _ l => fun k => if k = l then none else h k
  | .acc _ _ _ => h

/-- who holds which lock after the first `k` events -/
def holderAt (tr : List Ev) (k : Nat) : Locks := (tr.take k).foldl stepL (fun _ => none)

/-- mutex semantics: a lock is acquired only when free and released only by its holder -/
def WF (tr : List Ev) : Prop :=
  ∀ k (hk : k < tr.length),
    match tr[k] with
    | .acq _ l => holderAt tr k l = none
    | .rel t l => holderAt tr k l = some t
    | .acc _ _ _ => True

theorem holderAt_succ (tr : List Ev) (k : Nat) (hk : k < tr.length) :
    holderAt tr (k + 1) = stepL (holderAt tr k) tr[k] := by
  unfold holderAt
  rw [List.take_succ_eq_append_getElem hk, List.foldl_append]
  rfl

/-- happens-before on positions of the trace -/
inductive HB (tr : List Ev) : Nat → Nat → Prop
  | po {i j} (hij : i < j) (hj : j < tr.length) (h : (tr[i]'(Nat.lt_trans hij hj)).thread = tr[j].thread) : HB tr i j
  | sw {i j t t' l} (hij : i < j) (hj : j < tr.length) (hi : tr[i]'(Nat.lt_trans hij hj) = .rel t l) (hjj : tr[j] = .acq t' l) : HB tr i j
  | trans {i j k} : HB tr i j → HB tr j k → HB tr i k

/-- Lemma A: a lock held by `t` at position `i` and not held by `t` at a later position `j` was
    released by `t` in between. -/
theorem released_between (tr : List Ev) (hw : WF tr) (g t : Nat) (i : Nat) :
    ∀ j, i ≤ j → j ≤ tr.length → holderAt tr i g = some t → holderAt tr j g ≠ some t →
      ∃ r, i ≤ r ∧ r < j ∧ ∃ (hr : r < tr.length), tr[r] = .rel t g := by
  intro j
  induction j with
  | zero =>
    intro hij _ h1 h2
    have : i = 0 := by omega
    subst this; exact absurd h1 h2
  | succ n ih =>
    intro hij hj h1 h2
    by_cases hin : i = n + 1
    · subst hin; exact absurd h1 h2
    · have hn : n < tr.length := by omega
      by_cases hh : holderAt tr n g = some t
      · -- the change happens at position n
        rw [holderAt_succ tr n hn] at h2
        have hwf := hw n hn
        cases he : tr[n] with
        | acq t' l =>
          rw [he] at h2 hwf
          simp only [stepL] at h2
          by_cases hl : g = l
          · subst hl; simp only at hwf; rw [hwf] at hh; cases hh
          · simp only [hl, ite_false] at h2; exact absurd hh h2
        | rel t' l =>
          rw [he] at h2 hwf
          by_cases hl : g = l
          · subst hl
            simp only at hwf
            rw [hwf] at hh
            have : t' = t := by simpa using hh
            subst this
            exact ⟨n, by omega, by omega, hn, he⟩
          · simp only [stepL, hl, ite_false] at h2; exact absurd hh h2
        | acc t' x w =>
          rw [he] at h2
          simp only [stepL] at h2; exact absurd hh h2
      · obtain ⟨r, h3, h4, h5⟩ := ih (by omega) (by omega) h1 hh
        exact ⟨r, h3, by omega, h5⟩

/-- Lemma B: the holder of a lock acquired it at an earlier position and has held it since. -/
theorem acquired_before (tr : List Ev) (g t : Nat) :
    ∀ j, j ≤ tr.length → holderAt tr j g = some t →
      ∃ a, a < j ∧ (∃ (ha : a < tr.length), tr[a] = .acq t g) ∧ ∀ k, a < k → k ≤ j → holderAt tr k g = some t := by
  intro j
  induction j with
  | zero => intro _ h; simp [holderAt] at h
  | succ n ih =>
    intro hj h
    have hn : n < tr.length := by omega
    have hs := holderAt_succ tr n hn
    cases he : tr[n] with
    | acq t' l =>
      by_cases hl : g = l
      · subst hl
        rw [hs, he] at h
        simp only [stepL, ite_true] at h
        have : t' = t := by simpa using h
        subst this
        refine ⟨n, by omega, ⟨hn, he⟩, ?_⟩
        intro k hk1 hk2
        have : k = n + 1 := by omega
        subst this
        rw [hs, he]; simp [stepL]
      · have hprev : holderAt tr n g = some t := by
          rw [hs, he] at h; simpa [stepL, hl] using h
        obtain ⟨a, h1, h2, h3⟩ := ih (by omega) hprev
        refine ⟨a, by omega, h2, ?_⟩
        intro k hk1 hk2
        by_cases hkn : k = n + 1
        · subst hkn; exact h
        · exact h3 k hk1 (by omega)
    | rel t' l =>
      by_cases hl : g = l
      · subst hl
        rw [hs, he] at h
        simp [stepL] at h
      · have hprev : holderAt tr n g = some t := by
          rw [hs, he] at h; simpa [stepL, hl] using h
        obtain ⟨a, h1, h2, h3⟩ := ih (by omega) hprev
        refine ⟨a, by omega, h2, ?_⟩
        intro k hk1 hk2
        by_cases hkn : k = n + 1
        · subst hkn; exact h
        · exact h3 k hk1 (by omega)
    | acc t' x w =>
      have hprev : holderAt tr n g = some t := by
        rw [hs, he] at h; simpa [stepL] using h
      obtain ⟨a, h1, h2, h3⟩ := ih (by omega) hprev
      refine ⟨a, by omega, h2, ?_⟩
      intro k hk1 hk2
      by_cases hkn : k = n + 1
      · subst hkn; exact h
      · exact h3 k hk1 (by omega)

/-- **Lock discipline is sound.** Two accesses made under the same lock are ordered by
    happens-before. -/
theorem guarded_ordered (tr : List Ev) (hw : WF tr) (g : Nat) (i j : Nat) (hij : i < j) (hj : j < tr.length)
    (t1 t2 x1 x2 : Nat) (w1 w2 : Bool)
    (hi : tr[i]'(Nat.lt_trans hij hj) = .acc t1 x1 w1) (hjj : tr[j] = .acc t2 x2 w2)
    (h1 : holderAt tr i g = some t1) (h2 : holderAt tr j g = some t2) : HB tr i j := by
  by_cases ht : t1 = t2
  · subst ht
    exact .po hij hj (by rw [hi, hjj]; rfl)
  · obtain ⟨a, ha1, ⟨ha2, ha3⟩, ha4⟩ := acquired_before tr g t2 j (Nat.le_of_lt hj) h2
    -- i ≤ a: otherwise t2 would hold g at i
    have hia : i ≤ a := by
      rcases Nat.lt_or_ge a i with hc | hc
      · have := ha4 i hc (by omega)
        rw [h1] at this
        exact absurd (by simpa using this) ht
      · exact hc
    have hfree : holderAt tr a g = none := by
      have := hw a ha2
      rw [ha3] at this; exact this
    obtain ⟨r, hr1, hr2, hr3, hr4⟩ := released_between tr hw g t1 i a hia (Nat.le_of_lt ha2) h1 (by rw [hfree]; simp)
    have hir : i < r := by
      rcases Nat.lt_or_ge i r with h | h
      · exact h
      · have : r = i := by omega
        subst this
        rw [hi] at hr4; cases hr4
    have hp1 : HB tr i r := .po hir hr3 (by rw [hi, hr4]; rfl)
    have hs : HB tr r a := .sw hr2 ha2 hr4 ha3
    have hp2 : HB tr a j := .po ha1 hj (by rw [ha3, hjj]; rfl)
    exact .trans (.trans hp1 hs) hp2

/-- a data race: two accesses to one location by different threads, one of them a write, not
    ordered by happens-before in either direction -/
def Race (tr : List Ev) (i j : Nat) : Prop :=
  ∃ (hi : i < tr.length) (hj : j < tr.length) (t1 t2 x : Nat) (w1 w2 : Bool),
    tr[i] = .acc t1 x w1 ∧ tr[j] = .acc t2 x w2 ∧ t1 ≠ t2 ∧ (w1 = true ∨ w2 = true) ∧ ¬ HB tr i j ∧ ¬ HB tr j i

/-- the discipline: every access to `x` is made while holding `guard x` -/
def Guarded (tr : List Ev) (guard : Nat → Nat) (x : Nat) : Prop :=
  ∀ k (hk : k < tr.length) t w, tr[k] = .acc t x w → holderAt tr k (guard x) = some t

/-- **C19 (discipline D1).** A location all of whose accesses are guarded has no data race. -/
theorem no_race_of_guarded (tr : List Ev) (hw : WF tr) (guard : Nat → Nat) (x : Nat) (hg : Guarded tr guard x)
    (i j : Nat) : ¬ (∃ (hi : i < tr.length) (hj : j < tr.length) (t1 t2 : Nat) (w1 w2 : Bool),
      tr[i] = .acc t1 x w1 ∧ tr[j] = .acc t2 x w2 ∧ ¬ HB tr i j ∧ ¬ HB tr j i ∧ i ≠ j) := by
  rintro ⟨hi, hj, t1, t2, w1, w2, e1, e2, n1, n2, hne⟩
  rcases Nat.lt_or_ge i j with h | h
  · exact n1 (guarded_ordered tr hw (guard x) i j h hj t1 t2 x x w1 w2 e1 e2 (hg i hi t1 w1 e1) (hg j hj t2 w2 e2))
  · have h' : j < i := by omega
    exact n2 (guarded_ordered tr hw (guard x) j i h' hi t2 t1 x x w2 w1 e2 e1 (hg j hj t2 w2 e2) (hg i hi t1 w1 e1))

end GV.Race
