/-
  Lock order (C17: no deadlock among the pool's and the data context's mutexes).

  (1) `no_wait_cycle`: if every thread only ever waits for a mutex that ranks strictly above every
      mutex it holds, there is no cycle of threads each waiting for a mutex the next one holds — any
      number of threads and mutexes.
  (2) `edges`: the acquisition order the regenerated lock skeletons (GV/Generated/Balance.lean)
      exhibit — "l taken while h may be held", within a function and through the callees it names
      (resolved by method name, over-approximating) — computed by a may-held analysis.
  (3) the obligation (GV/Props/Locks.lean): every edge goes up in `rank`.

  (2) is an analysis, not a theorem about the Go code: its soundness (every acquisition of every
  execution is an edge) is argued in DESIGN.md, not proved.
-/
import GV.Race.Balance
namespace GV.Race.Order
open GV.Race.Balance

/-! ### (1) ranked acquisition excludes wait cycles -/

/-- a snapshot of a system of threads: what each holds and what it waits for -/
structure Snap (T L : Type) where
  holds : T → L → Prop
  waits : T → L → Prop

/-- `chain s rank ts`: each thread of the list waits for a mutex that the next one holds -/
def Linked {T L : Type} (s : Snap T L) : List T → Prop
  | a :: b :: rest => (∃ l, s.waits a l ∧ s.holds b l) ∧ Linked s (b :: rest)
  | _ => True

/-- the discipline: a thread waits only for mutexes ranking above everything it holds -/
def Ranked {T L : Type} (s : Snap T L) (rank : L → Nat) : Prop :=
  ∀ t h w, s.holds t h → s.waits t w → rank h < rank w

/-- along a chain the rank of what is waited for strictly increases -/
theorem linked_rank_increases {T L : Type} (s : Snap T L) (rank : L → Nat) (hr : Ranked s rank) :
    ∀ (ts : List T) (a : T) (la : L), Linked s (a :: ts) → s.waits a la →
      ∀ z ∈ ts, ∀ lz, s.waits z lz → (∀ x ∈ a :: ts, ∀ l l', s.waits x l → s.waits x l' → l = l') → rank la < rank lz := by
  intro ts
  induction ts with
  | nil => intro a la _ _ z hz; cases hz
  | cons b rest ih =>
    intro a la hl hwa z hz lz hwz huniq
    obtain ⟨⟨l, hwl, hbl⟩, hrest⟩ := hl
    have hla : l = la := huniq a (List.mem_cons_self) l la hwl hwa
    subst hla
    rcases List.mem_cons.1 hz with rfl | hzr
    · exact hr _ _ _ hbl hwz
    · -- b waits for something too (it is linked to the next thread, or it is z's predecessor)
      match rest, hrest, hzr with
      | c :: rest', hrest', hzr' =>
        have hkeep := hrest'
        obtain ⟨⟨lb, hwb, _⟩, _⟩ := hkeep
        have h1 : rank l < rank lb := hr _ _ _ hbl hwb
        have h2 := ih b lb hrest' hwb z hzr' lz hwz
          (fun x hx => huniq x (List.mem_cons_of_mem _ hx))
        omega

/-- **No cycle of waiting threads.**  If each thread waits for at most one mutex (a blocked thread
    waits for exactly one) and the ranked discipline holds, then no chain of threads, each waiting for
    a mutex the next holds, closes into a cycle. -/
theorem no_wait_cycle {T L : Type} (s : Snap T L) (rank : L → Nat) (hr : Ranked s rank)
    (huniq : ∀ x l l', s.waits x l → s.waits x l' → l = l')
    (a : T) (ts : List T) (hl : Linked s (a :: ts ++ [a])) (la : L) (hwa : s.waits a la) : False := by
  have h := linked_rank_increases s rank hr (ts ++ [a]) a la (by simpa using hl) hwa a (by simp) la hwa
    (fun x _ => huniq x)
  omega

/-! ### (2) the acquisition order of the skeletons -/

/-- call-graph summary of one function (regenerated for every function of the analysed files, with
    or without lock operations): type and method name ("" for a plain function), receiver variable,
    mutexes taken directly, callees named — on the function's own thread (`go` closures excluded) -/
structure Sum where
  name : String
  typ : String
  method : String
  recv : String
  takes : List String
  callees : List String

def lookupS {α : Type} (k : String) : List (String × α) → Option α
  | (k', v) :: rest => if k' = k then some v else lookupS k rest
  | [] => none

/-- tables the translator provides so that no string has to be taken apart here -/
structure Names where
  calleeComps : List (String × List String)   -- `gp.ruleBuilder.RemoveRules` ↦ its components
  lockField   : List (String × String)        -- `gp.updateLock` ↦ `updateLock`
  unitBase    : List (String × String)        -- a function literal `f$n` ↦ `f`

/-- candidates a call `f`, made inside `caller`, may resolve to: `v.M` with `v` the caller's own
    receiver variable is a method of the caller's type; any other `x.….M` is a method `M` of another
    type; a bare `f` is a plain function -/
def resolve (N : Names) (sums : List Sum) (caller : Sum) (f : String) : List Sum :=
  match lookupS f N.calleeComps with
  | none => []
  | some comps =>
    let m := comps.getLast?.getD ""
    sums.filter (fun s =>
      s.method == m &&
      (match comps with
       | [_] => s.typ == ""
       | [v, _] => if v == caller.recv && caller.recv != "" then s.typ == caller.typ else (s.typ != caller.typ && s.typ != "")
       | _ => s.typ != caller.typ && s.typ != ""))

/-- mutexes that may be taken by the call `f` made inside `caller`, transitively to depth `d` -/
def calleeTakes (N : Names) (sums : List Sum) : Nat → Sum → String → List String
  | 0, _, _ => []
  | d + 1, caller, f =>
    (resolve N sums caller f).flatMap (fun s => s.takes ++ s.callees.flatMap (calleeTakes N sums d s))

/-- mutexes a skeleton takes itself, anywhere -/
def takesL : LS → List String
  | .lock l => [l]
  | .seq a b => takesL a ++ takesL b
  | .ite a b => takesL a ++ takesL b
  | .loop b => takesL b
  | _ => []

/-- May-held analysis of a lock skeleton: `(edges, what may be held after the skeleton falls
    through)`.  A deferred unlock keeps the mutex held to the end; after a loop everything its body
    takes counts as possibly held (a `break` may leave it from the middle); `calls h f`: the edges
    attributed to the call `f` made while `h` may be held.  Sound within a skeleton:
    `GV.Race.Order.walkS_sound` (OrderSound.lean). -/
def walkS (calls : List String → String → List (String × String)) : LS → List String → List (String × String) × List String
  | .lock l, h => (h.map (fun x => (x, l)), l :: h)
  | .unlock l, h => ([], h.erase l)
  | .call f, h => (calls h f, h)
  | .seq a b, h =>
    let r1 := walkS calls a h
    let r2 := walkS calls b r1.2
    (r1.1 ++ r2.1, r2.2)
  | .ite a b, h =>
    let r1 := walkS calls a h
    let r2 := walkS calls b h
    (r1.1 ++ r2.1, r1.2 ++ r2.2)
  | .loop b, h => ((walkS calls b h).1, h ++ takesL b)
  | _, h => ([], h)

/-- what a call made while `h` may be held contributes: every mutex the callee may take, after each of `h` -/
def callEdges (N : Names) (sums : List Sum) (caller : Sum) (depth : Nat) (h : List String) (f : String) :
    List (String × String) :=
  if h.isEmpty then [] else (calleeTakes N sums depth caller f).flatMap (fun l => h.map (fun x => (x, l)))

def dedup : List (String × String) → List (String × String)
  | [] => []
  | x :: rest => if rest.contains x then dedup rest else x :: dedup rest

/-- the caller's summary of a unit (a function literal `f$n` belongs to `f`) -/
def sumOf (N : Names) (sums : List Sum) (unit : String) : Sum :=
  let base := (lookupS unit N.unitBase).getD unit
  (sums.find? (fun s => s.name == base)).getD ⟨base, "", "", "", [], []⟩

/-- the acquisition order exhibited by all units that touch a mutex -/
def edges (N : Names) (sums : List Sum) (units : List (String × LS)) : List (String × String) :=
  dedup (units.flatMap (fun u => (walkS (callEdges N sums (sumOf N sums u.1) 3) u.2 []).1))

/-- the same mutex is reached as `gp.updateLock`, `builder.buildLock`, …: ranked by field name -/
def rank (N : Names) (l : String) : Nat :=
  let f := (lookupS l N.lockField).getD l
  if f == "updateLock" || f == "getEngineLock" then 0
  else if f == "buildLock" || f == "runningLock" || f == "additionLock" then 1
  else if f == "lockBase" then 2
  else if f == "lockVars" then 3
  else if f == "lock" then 4          -- the engine's result-map mutex
  else if f == "errLock" then 5       -- local to one fan-out
  else 100

def ordered (N : Names) (sums : List Sum) (units : List (String × LS)) : Bool :=
  (edges N sums units).all (fun e => decide (rank N e.1 < rank N e.2))

end GV.Race.Order
