/-
  C17 — Pool capacity: at most max in flight, waiters proceed, instances are never lost.

  Model: GV.Pool.Cap, the transition system of getGengine / putGengineLocked / the deferred
  clean-up, for any number of clients, any min ≤ max and every interleaving.  That every
  Execute* method of the pool installs the clean-up as a deferred function right after a
  successful prepare (so it runs on normal return, rule error and panic alike) and that
  getGengine / putGengineLocked have the modelled shape are facts regenerated from the source
  (`GV.Generated.Pool`).  Liveness (a spinning caller eventually gets the lock) is enabledness
  plus scheduler fairness, which is assumed.
-/
import GV.Pool.Cap
import GV.Generated.Pool
namespace GV.Props.C17
open GV.Pool.Cap

theorem C17_at_most_max {min max : Nat} (h : min ≤ max) {s : CSt} (hr : Reach min max s) : s.held.length ≤ max :=
  at_most_max h hr

theorem C17_no_double_hand_out {min max : Nat} (h : min ≤ max) {s : CSt} (hr : Reach min max s) : (tags s).Nodup :=
  no_double_hand_out h hr

theorem C17_one_holder {min max : Nat} (h : min ≤ max) {s : CSt} (hr : Reach min max s) (c1 c2 t : Nat)
    (h1 : (c1, t) ∈ s.held) (h2 : (c2, t) ∈ s.held) : c1 = c2 := one_holder h hr c1 c2 t h1 h2

/-- every instance is handed back: with nothing in flight all `max` instances are available -/
theorem C17_never_lost {min max : Nat} (h : min ≤ max) {s : CSt} (hr : Reach min max s)
    (h1 : s.held = []) (h2 : s.pend = []) : (s.free ++ s.add).Perm (List.range max) := all_back h hr h1 h2

theorem C17_waits_not_fails (min : Nat) (s : CSt) (c : Nat) (hc : ∀ p ∈ s.held, p.1 ≠ c)
    (h : s.free ≠ [] ∨ s.add ≠ []) : ∃ t, Step min s t := acquire_enabled min s c hc h

theorem C17_no_deadlock {min : Nat} (s : CSt) (h : s.held ≠ [] ∨ s.pend ≠ []) : ∃ t, Step min s t := progress s h

/-! regenerated facts about engine/gengine_pool.go -/
open GV.Generated.Pool

/-- every pool execution method releases its instance in a deferred function installed right
    after a successful prepare, deleting the request's keys first -/
theorem C17_methods_release : methods.all PoolMethod.WF = true := by decide

theorem C17_get_put_shape : getPopsFreeHead && getPopsAddHead && getNeverFails && putAppendsByKind = true := by decide

/-- Non-vacuity: the initial state of a (2,4) pool is reachable and conserves the four tags. -/
example : tags (init 2 4) = [0, 1, 2, 3] := by decide

end GV.Props.C17
