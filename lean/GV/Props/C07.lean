/-
  C07 — Hot updates are atomic per execution and visible to every later execution.

  Model: GV.Pool.Upd (updaters and requests around updateLock), any number of instances,
  updaters and requests, every interleaving, including updates issued from inside a running
  rule.  The model's two premises are facts regenerated from engine/gengine_pool.go on every
  run: an execution takes its rule container once, under updateLock, into a request-private
  rule builder (`prepareSnapshots`), and no management operation writes into a container that
  may already be published (`inPlaceStores = []`); every management operation holds updateLock
  from entry to return (`updatesLocked`).  The engine's execution methods read the container
  only through the rule builder they are given (skeletons of C04 / C05 / C13).
-/
import GV.Pool.Upd
import GV.Generated.Pool
namespace GV.Props.C07
open GV.Pool.Upd GV.Generated.Pool

/-- regenerated premises of the model -/
theorem C07_snapshot_once : prepareSnapshots = true := by decide
theorem C07_copy_on_write : inPlaceStores = [] := by decide
theorem C07_updates_locked : updatesLocked = true := by decide

/-- Atomic: the container an execution runs is a single installed version — the one all
    instances agreed on when it was taken. -/
theorem C07_one_version {max : Nat} {s : USt} (hr : Reach max s) (h : s.lock = none) (t : Nat)
    (ht : t < s.slots.length) : s.slots.getD t 0 = s.master := snap_is_master hr h t ht

/-- Visible: once an update call has returned, every execution that starts afterwards, on any
    engine instance, runs that version or a later one. -/
theorem C07_visible {max : Nat} {s : USt} (hr : Reach max s) (h : s.lock = none) (t : Nat)
    (ht : t < s.slots.length) (u v : Nat) (hd : (u, v) ∈ s.done) : v ≤ s.slots.getD t 0 :=
  visible_after_return hr h t ht u v hd

/-- An execution that took its container before an update started ran an earlier version. -/
theorem C07_earlier {max : Nat} {s : USt} (hr : Reach max s) (r w : Nat) (hs : (r, w) ∈ s.snaps) :
    w < s.master + 1 := earlier_runs_earlier hr r w hs

theorem C07_all_instances {max : Nat} {s : USt} (hr : Reach max s) (h : s.lock = none) :
    ∀ x ∈ s.slots, x = s.master := all_instances_agree hr h

/-- Non-vacuity: an update on a two-instance pool followed by a snapshot is a run of the system. -/
example : ∃ s, Reach 2 s ∧ s.lock = none ∧ (7, 1) ∈ s.done ∧ (3, 1) ∈ s.snaps := by
  refine ⟨_, .step (.step (.step (.step (.step .init (.begin _ 7 rfl)) (.publish _ 7 1 0 rfl (by decide)))
    (.publish _ 7 1 1 rfl (by decide))) (.finish _ 7 1 2 rfl (by decide))) (.snap _ 3 1 rfl (by decide)), rfl, ?_, ?_⟩
  · simp
  · simp [init, List.getD]

end GV.Props.C07
