/-
  C15 — Rule locals are private to one execution of one rule.

  In the model an execution's locals are the `vars` component threaded through that execution
  only; `ruleExecute` starts from the empty table whatever the incoming one holds.  That
  RuleEntity.Execute really allocates a table per execution (also for concurrent executions of
  one rule entity) is what the correspondence runs check: sequences of rules and repeated
  executions reusing local names, and barrier-synchronised concurrent executions of one entity.
-/
import GV.Eval.RefStmtThm
import GV.Generated.Facts
namespace GV.Props.C15
open GV.Eval

/-- Locals start undefined: the outcome of an execution does not depend on what an earlier rule,
    an earlier call or another execution left in its table. -/
theorem C15_fresh_locals (P : Params) (env : Env) (vs : List (String × Val)) (body : Stmts) :
    ruleExecute P { env with vars := vs } body = ruleExecute P env body := rfl

theorem C15_fresh_locals_ref (P : Params) (env : Env) (vs : List (String × Val)) (body : RBlock) :
    denoteRule P { env with vars := vs } body = denoteRule P env body := rfl

/-- reading a local that this execution never assigned fails with a not-found error -/
theorem C15_unassigned_read_fails (env : Env) (n : String) (hn : splitDots n = [n])
    (hb : env.lookupBase n = none) : getValue { env with vars := [] } n = .err none := by
  have : ({ env with vars := [] } : Env).lookupBase n = none := hb
  simp [getValue, hn, this, Env.lookupVar]

/-- injected names are shared by all rules of the call: what a rule wrote through an injected
    name is what the next rule reads (the table of injected objects is passed on, the locals not) -/
def runRules (P : Params) (env : Env) : List RBlock → List RuleOut × Env
  | [] => ([], env)
  | b :: rest =>
    let r := denoteRule P env b
    let (outs, e') := runRules P { r.env with vars := [] } rest
    (r :: outs, e')

theorem C15_injected_shared (P : Params) (env : Env) (b : RBlock) (rest : List RBlock) :
    (runRules P env (b :: rest)).1.tail = (runRules P { (denoteRule P env b).env with vars := [] } rest).1 := by
  simp [runRules]

/-- locals are consulted only after the injected table -/
theorem C15_injected_wins (e : Env) (n : String) (o : Obj) (v : Val) (hn : splitDots n = [n])
    (h : e.lookupBase n = some o) : getValue (e.setVar n v) n = .ok (o.asVal (baseIndex e n)) := by
  have : (e.setVar n v).lookupBase n = some o := h
  simp only [getValue, hn]
  rw [this]
  rfl

/-- Where the code's rule-local table comes from and who gets hold of it, regenerated from
    internal/base and context on every run: `RuleEntity.Execute` hands a table made on the spot to
    the rule's statements; nothing keeps a reference to it in a field, a package variable or a
    composite literal; it is passed on only to `Evaluate` and the data context's accessors.  So the
    table of one execution is unreachable from any other execution — also a concurrent one of the
    same rule entity — which is what the model assumes by construction. -/
theorem C15_locals_provenance :
    GV.Generated.Facts.localsArg = "make(map[string]reflect.Value)" ∧
    GV.Generated.Facts.varsStores = [] ∧
    GV.Generated.Facts.varsPassedTo =
      ["Evaluate", "ExecFunc", "ExecMethod", "ExecThreeLevel", "GetValue", "SetMapVarValue", "SetValue"] := by decide

/-- The rule tree is shared by all executions — sequential, concurrent, on every engine instance —
    and no method of internal/base other than the parser's `Accept*` setters assigns to a field of
    the node it is called on (regenerated; the three stores of `KnowledgeContext.ClearRules` are the
    container's, accounted for by C07's copy-on-write fact).  So nothing an execution computes — an
    argument list, an error message, a counter — can be left in the tree for another execution to
    find, which is what the model assumes by evaluating an immutable AST. -/
theorem C15_rule_tree_read_only :
    GV.Generated.Facts.nodeWrites =
      ["KnowledgeContext.ClearRules: k.RuleEntities =", "KnowledgeContext.ClearRules: k.SortRules =",
       "KnowledgeContext.ClearRules: k.SortRulesIndexMap ="] := by decide

end GV.Props.C15
