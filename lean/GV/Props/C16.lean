/-
  C16 — Pool management operations and queries agree with the denoted rule set.

  Model: GV.Pool.Mgmt (UpdatePooledRules, UpdatePooledRulesIncremental, RemoveRules,
  ClearPoolRules, SetExecModel, the queries, what an execution on instance i runs), over the rule
  container model of C08, for any number of instances and any finite operation sequence, with
  the compiler as a parameter (C10) and Go's map iteration order as a parameter (C08).
-/
import GV.Pool.MgmtThm
namespace GV.Props.C16
open GV.KC GV.Pool

/-- After any finite sequence of management operations the pool satisfies its invariant (master
    and every instance — initial and additional — hold well-formed containers denoting the same
    set), denotes what the sequence denotes, and every operation answered as specified. -/
theorem C16_history (ops : List MOp) (s : PoolM) (h : PInv s) (hw : ∀ op ∈ ops, op.WF) :
    PInv (run s ops).1 ∧ absP (run s ops).1 = (Spec.run (absP s) ops).1 ∧
    (run s ops).2 = (Spec.run (absP s) ops).2 := history_refines ops s h hw

/-- a freshly constructed pool satisfies the invariant -/
theorem C16_init (order : List KRule) (max model : Nat) (hn : NodupNames order) : PInv (init order max model) :=
  init_inv order max model hn

/-- no such sequence panics -/
theorem C16_no_panic (s : PoolM) (op : MOp) (h : PInv s) (hw : op.WF) : (step s op).2 ≠ .panic := by
  rw [(step_refines s op h hw).2.2]
  exact spec_never_panics _ op

/-- queries answer from the denoted set -/
theorem C16_exist (s : PoolM) (h : PInv s) (n : String) : qExist s n = ((absP s).rules n).isSome := qExist_agrees s h n
theorem C16_rule (s : PoolM) (h : PInv s) (n : String) : qRule s n = (absP s).rules n := qRule_agrees s h n

/-- executions on every engine instance run exactly the denoted set, in salience order -/
theorem C16_exec (s : PoolM) (h : PInv s) (i : Nat) (hi : i < s.slots.length) (r : KRule) :
    r ∈ execOn s i ↔ (absP s).rules r.name = some r := execOn_agrees s h i hi r
theorem C16_exec_sorted (s : PoolM) (h : PInv s) (i : Nat) (hi : i < s.slots.length) :
    (execOn s i).Pairwise (fun a b => a.sal ≥ b.sal) := execOn_sorted s h i hi

/-- clearing yields an empty pool whose executions run nothing … -/
theorem C16_clear (s : PoolM) (i : Nat) : (step s .clear).1.clear = true ∧ execOn (step s .clear).1 i = [] :=
  cleared_runs_nothing s i

/-- … and a later update, full or incremental, brings it back into service -/
theorem C16_back_in_service_full (s : PoolM) (order : List KRule) (hne : order.isEmpty = false) :
    (step (step s .clear).1 (.full (some order))).2 = .ok ∧
    (absP (step (step s .clear).1 (.full (some order))).1).rules = Spec.full order := by
  simp [step, hne, absP, PoolM.publish, buildFull_abs]

theorem C16_back_in_service_incr (s : PoolM) (order : List KRule) (hne : order.isEmpty = false)
    (hn : NodupNames order) :
    (step (step s .clear).1 (.incr (some order))).2 = .ok ∧
    (absP (step (step s .clear).1 (.incr (some order))).1).rules = Spec.incr (fun _ => none) order := by
  simp only [step, hne, Bool.false_eq_true, ite_false, Option.getD_none, absP, PoolM.publish, true_and]
  rw [buildIncr_abs _ order empty_inv hn, abs_empty]

/-- the execution model is validated -/
theorem C16_model_validated (s : PoolM) (m : Nat) :
    (step s (.setModel m)).2 = .ok ↔ (m = 1 ∨ m = 2 ∨ m = 3 ∨ m = 4) := by
  simp only [step, validModel]
  by_cases h : (m == 1 || m == 2 || m == 3 || m == 4) = true
  · simp only [h, ite_true, true_iff]
    have : ((m = 1 ∨ m = 2) ∨ m = 3) ∨ m = 4 := by simpa using h
    omega
  · simp only [h]
    constructor
    · intro hh; cases hh
    · intro hh
      have : ((m = 1 ∨ m = 2) ∨ m = 3) ∨ m = 4 := by omega
      exact absurd (by simpa using this) h

/-- Non-vacuity: a three-instance pool with two rules satisfies the invariant's premises. -/
example : NodupNames [(⟨"a", 1, 0⟩ : KRule), ⟨"b", 1, 0⟩] := by simp [NodupNames, names]

end GV.Props.C16
