/-
  C12 — Selected-rule calls run exactly the named rules, in the promised order.
-/
import GV.Orch.Conf.ExecuteSelectedRules
import GV.Orch.Conf.ExecuteSelectedRulesWithControl
import GV.Orch.Conf.ExecuteSelectedRulesWithControlAsGivenSortedName
import GV.Orch.Conf.ExecuteSelectedRulesWithControlAndStopTag
import GV.Orch.Conf.ExecuteSelectedRulesWithControlAndStopTagAsGivenSortedName
import GV.Orch.Conf.ExecuteSelectedRulesConcurrent
import GV.Orch.Conf.ExecuteSelectedRulesMixModel
import GV.Orch.Conf.ExecuteSelectedRulesInverseMixModel
import GV.Orch.Conf.ExecuteSelectedNSortMConcurrent
import GV.Orch.Conf.ExecuteSelectedNConcurrentMSort
import GV.Orch.Conf.ExecuteSelectedNConcurrentMConcurrent
import GV.Props.C04Lemmas
namespace GV.Props.C12
open GV.Orch GV.Generated.Orch

theorem C12_ExecuteSelectedRules : Conforms ExecuteSelectedRules .ExecuteSelectedRules := All.conf_ExecuteSelectedRules
theorem C12_ExecuteSelectedRulesWithControl :
    Conforms ExecuteSelectedRulesWithControl .ExecuteSelectedRulesWithControl := All.conf_ExecuteSelectedRulesWithControl
theorem C12_AsGivenSortedName :
    Conforms ExecuteSelectedRulesWithControlAsGivenSortedName .ExecuteSelectedRulesWithControlAsGivenSortedName :=
  All.conf_ExecuteSelectedRulesWithControlAsGivenSortedName
theorem C12_AndStopTag :
    Conforms ExecuteSelectedRulesWithControlAndStopTag .ExecuteSelectedRulesWithControlAndStopTag :=
  All.conf_ExecuteSelectedRulesWithControlAndStopTag
theorem C12_AndStopTagAsGivenSortedName :
    Conforms ExecuteSelectedRulesWithControlAndStopTagAsGivenSortedName
      .ExecuteSelectedRulesWithControlAndStopTagAsGivenSortedName :=
  All.conf_ExecuteSelectedRulesWithControlAndStopTagAsGivenSortedName
theorem C12_Concurrent : Conforms ExecuteSelectedRulesConcurrent .ExecuteSelectedRulesConcurrent :=
  All.conf_ExecuteSelectedRulesConcurrent
theorem C12_MixModel : Conforms ExecuteSelectedRulesMixModel .ExecuteSelectedRulesMixModel :=
  All.conf_ExecuteSelectedRulesMixModel
theorem C12_InverseMixModel :
    Conforms ExecuteSelectedRulesInverseMixModel .ExecuteSelectedRulesInverseMixModel :=
  All.conf_ExecuteSelectedRulesInverseMixModel
theorem C12_NSortMConcurrent : Conforms ExecuteSelectedNSortMConcurrent .ExecuteSelectedNSortMConcurrent :=
  All.conf_ExecuteSelectedNSortMConcurrent
theorem C12_NConcurrentMSort : Conforms ExecuteSelectedNConcurrentMSort .ExecuteSelectedNConcurrentMSort :=
  All.conf_ExecuteSelectedNConcurrentMSort
theorem C12_NConcurrentMConcurrent :
    Conforms ExecuteSelectedNConcurrentMConcurrent .ExecuteSelectedNConcurrentMConcurrent :=
  All.conf_ExecuteSelectedNConcurrentMConcurrent

/-! ### Clauses -/

/-- The selection is the list of named rules that exist, in the caller's order; unknown names
    are skipped. -/
theorem selected_mem (cfg : Cfg) (r : Rule) (h : r ∈ selected cfg) :
    ∃ n ∈ cfg.names, lookupRule cfg.entities n = some r := by
  simpa [selected] using h

/-- Never an unselected rule: a selected rule carries one of the given names. -/
theorem selected_named (cfg : Cfg) (r : Rule) (h : r ∈ selected cfg) : r.name ∈ cfg.names := by
  obtain ⟨n, hn, hl⟩ := selected_mem cfg r h
  have := List.find?_some hl
  have hname : r.name = n := by simpa using this
  rw [hname]; exact hn

/-- as-given variants run exactly the selection, in exactly the caller's order (prefix on stop). -/
theorem as_given_order (cfg : Cfg) (b s : Bool) : (sortFamily cfg (selected cfg) b s).flatten <+: selected cfg :=
  C04.trace_prefix cfg _ b s

/-- sorted variants run a permutation-prefix of the selection in non-increasing salience order. -/
theorem sorted_order (cfg : Cfg) (b s : Bool) :
    ((sortFamily cfg (sortDesc (selected cfg)) b s).flatten).Pairwise (fun a b => a.sal ≥ b.sal) :=
  C04.trace_sorted cfg _ b s (C04.sortDesc_sorted _)

/-- No named rule exists ⇒ the call fails without running anything (sorted and as-given variants). -/
theorem none_found_fails (cfg : Cfg) (h : selected cfg = []) (hrb : cfg.rbNil = false) :
    spec .ExecuteSelectedRulesWithControl cfg = none ∧
    spec .ExecuteSelectedRulesWithControlAsGivenSortedName cfg = none ∧
    spec .ExecuteSelectedRulesConcurrent cfg = none ∧
    spec .ExecuteSelectedRulesInverseMixModel cfg = none := by
  simp [spec, h, hrb]

/-- Selected N-M: an unknown name or a wrong number of names ⇒ error, nothing runs. -/
theorem nm_strict (cfg : Cfg) (hrb : cfg.rbNil = false)
    (h : cfg.n + cfg.m ≠ cfg.names.length ∨ ∃ n ∈ cfg.names, lookupRule cfg.entities n = none) :
    spec .ExecuteSelectedNSortMConcurrent cfg = none ∧ spec .ExecuteSelectedNConcurrentMSort cfg = none ∧
    spec .ExecuteSelectedNConcurrentMConcurrent cfg = none := by
  have : (nmGuardsOk cfg cfg.sorted.length && decide (cfg.n + cfg.m = cfg.names.length)
      && cfg.names.all (fun n => (lookupRule cfg.entities n).isSome)) = false := by
    rcases h with h | ⟨n, hn, hl⟩
    · simp [h]
    · have : cfg.names.all (fun n => (lookupRule cfg.entities n).isSome) = false := by
        apply List.all_eq_false.mpr; exact ⟨n, hn, by simp [hl]⟩
      simp [this]
  simp [spec, hrb, this]

end GV.Props.C12
