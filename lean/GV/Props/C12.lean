import GV.Orch.Spec
namespace GV.Props.C12
end GV.Props.C12
