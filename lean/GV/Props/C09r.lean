/-
  C09 (rule level) — a rule body cannot make RuleEntity.Execute panic or run forever.

  The interpreter model is total (structural recursion + loop fuel bounded by `maxExecuteNum`),
  so "never runs forever" is its termination proof, accepted by the kernel; the fuel is
  sufficient (`forLoop` stops by its own counter before the fuel runs out: `C09_fuel_irrelevant`).
  With the recover at the rule entry point (a fact regenerated from the source:
  `recover_at_rule_entry`) no outcome is a panic.
-/
import GV.Eval.RefStmtThm
import GV.Generated.Facts
namespace GV.Props.C09r
open GV.Eval

/-- regenerated from internal/base/rule_entity.go, assignment.go, function_call.go,
    method_call.go, three_level_call.go on every run -/
theorem recover_at_rule_entry : GV.Generated.Facts.recoverSites.contains "RuleEntity.Execute" = true := by decide
theorem recover_at_calls :
    (["Assignment.Evaluate", "FunctionCall.Evaluate", "MethodCall.Evaluate", "ThreeLevelCall.Evaluate"].all
      (fun s => GV.Generated.Facts.recoverSites.contains s)) = true := by decide
theorem loop_bound_positive : 0 < GV.Generated.Facts.maxExecuteNum := by decide
theorem sentinels_distinct : GV.Generated.Facts.sentinelsDistinct = true := by decide

/-- No rule text and no injected data make the rule's execution panic: every fault is an error. -/
theorem C09_rule_no_panic (P : Params) (hr : P.ruleRecover = true) (env : Env) (body : Stmts) :
    (ruleExecute P env body).outcome ≠ "panic" := by
  unfold ruleExecute ruleOutOf
  split <;> simp [hr]

/-- … and an uncited fault is still an error (non-nil), not a success -/
theorem C09_panic_is_error (P : Params) (hr : P.ruleRecover = true) (env e : Env) (body : Stmts)
    (h : evalStmts P { env with vars := [] } body = (.panic, e)) :
    (ruleExecute P env body).outcome = "err" := by
  simp [ruleExecute, ruleOutOf, h, hr]

/-- an unbounded `for` loop is cut off with an error after `maxLoop` iterations -/
theorem C09_unbounded_loop_errors (maxLoop : Nat) (cond : Env → Res Val × Env) (b : Env → SRes × Env)
    (step : Env → Res Unit × Env)
    (hc : ∀ e, cond e = (.ok (.b true), e)) (hb : ∀ e, b e = (.normal, e)) (hs : ∀ e, step e = (.ok (), e)) :
    ∀ (fuel count : Nat) (env : Env), fuel + count = maxLoop + 1 →
      forLoop maxLoop cond (some b) step fuel count env = (.err none, env) := by
  intro fuel
  induction fuel with
  | zero => intro count env _; simp [forLoop]
  | succ n ih =>
    intro count env hfc
    unfold forLoop
    by_cases hm : count + 1 > maxLoop
    · simp [hm]
    · simp only [hm, ite_false, hc, Val.bool?, hb, hs]
      exact ih (count + 1) env (by omega)

/-- the fuel the model gives the loop is never what stops it: with `maxLoop + 1 - count` fuel the
    counter check fires first -/
theorem C09_fuel_irrelevant (maxLoop : Nat) (cond : Env → Res Val × Env) (b : Option (Env → SRes × Env))
    (step : Env → Res Unit × Env) :
    ∀ (fuel count : Nat) (env : Env), fuel + count = maxLoop + 1 →
      forLoop maxLoop cond b step (fuel + 1) count env = forLoop maxLoop cond b step fuel count env := by
  intro fuel
  induction fuel with
  | zero =>
    intro count env h
    have : count + 1 > maxLoop := by omega
    simp [forLoop, this]
  | succ n ih =>
    intro count env h
    have h' := ih (count + 1)
    unfold forLoop
    split
    · rfl
    · split
      · rfl
      · rfl
      · split
        · rfl
        · rfl
        · split
          · rfl
          · split
            · rfl
            · rfl
            · rfl
            · rfl
            · split
              · rw [h' _ (by omega)]
              · rfl
              · rfl
            · split
              · rw [h' _ (by omega)]
              · rfl
              · rfl

end GV.Props.C09r
