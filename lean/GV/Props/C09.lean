/-
  C09 — Rule faults are contained (engine level): no execution method panics, whatever the
  rules' outcomes (a failing rule is an outcome with `fails = true`): no write to a nil result
  map, no nil rule dereference, no statement outside the recognised idioms.  Proved for every
  `ResultsWF` skeleton; the extracted ones are (`C11.wf_*`).  Hang freedom of the fan-outs
  (Add = number of goroutines, Done on all paths, Wait) is part of `Conforms` (C05, C13).
  Rule level (evaluator): GV.Props.C09r.
-/
import GV.Props.C11
namespace GV.Props.C09
open GV.Orch GV.Generated.Orch

theorem C09_engine_no_panic (name : String) (sk : Skel) (hm : (name, sk) ∈ GV.Generated.Orch.all) (cfg : Cfg)
    (hrb : cfg.rbNil = false) : (run sk cfg).2 ≠ .panicked :=
  (results_exact sk (C11.wf_all _ hm) cfg hrb).2

/-- A nil rule builder is rejected with an error, not a panic. -/
theorem C09_nil_builder (name : String) (sk : Skel) (hm : (name, sk) ∈ GV.Generated.Orch.all) (cfg : Cfg)
    (hrb : cfg.rbNil = true) : (run sk cfg).2 = .retErr := by
  have hwf := C11.wf_all _ hm
  simp only [ResultsWF, Bool.and_eq_true, decide_eq_true_eq] at hwf
  have hsk : sk = [⟨[], .retIf .rbNil .err⟩, ⟨[], .reset⟩] ++ sk.drop 2 := by
    rw [← hwf.1, List.take_append_drop]
  rw [hsk]
  simp [run, evalCond, hrb, retFin]

end GV.Props.C09
