import GV.Orch.Spec
namespace GV.Props.C09
end GV.Props.C09
