/-
  C09 — Rule faults are contained (engine level): no execution method panics, whatever the
  rules' outcomes; the error policy is followed.  (Rule level: GV.Props.C09 in Eval.)
-/
import GV.Orch.AllConform
namespace GV.Props.C09
open GV.Orch GV.Generated.Orch

/-- No method ends in a panic (nil result map, nil rule dereference, unknown statement),
    for any configuration satisfying the caller's contract. -/
theorem C09_engine_no_panic (m : Method) (cfg : Cfg) (hp : Pre cfg) :
    (run (All.skelOf m) cfg).2 ≠ .panicked := by
  have h := congrArg Obs.fin (All.conforms_all m cfg hp)
  simp only [obsOf, expectObs] at h
  rw [h]
  split <;> simp

/-- Every fan-out is well formed (Add = number of goroutines, Done on every path, Wait). -/
theorem C09_engine_no_hang (m : Method) (cfg : Cfg) (hp : Pre cfg) :
    (run (All.skelOf m) cfg).1.parOk = true := by
  have h := congrArg Obs.parOk (All.conforms_all m cfg hp)
  simpa [obsOf, expectObs] using h

/-- A failing rule is reported: the call returns an error iff a rule that ran failed
    (or the call was rejected up front). -/
theorem C09_engine_error_reported (m : Method) (cfg : Cfg) (hp : Pre cfg) :
    (run (All.skelOf m) cfg).2 = (if (expect m cfg).err then .retErr else .retOk) := by
  have h := congrArg Obs.fin (All.conforms_all m cfg hp)
  simpa [obsOf, expectObs] using h

end GV.Props.C09
