import GV.Eval.Eval
namespace GV.Props.C02
end GV.Props.C02
