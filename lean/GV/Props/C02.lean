/-
  C02 — Statements follow the reference control-flow and assignment semantics.

  `C02_rule_refines`: for every well-formed program, every environment and arbitrary primitives,
  the interpreter (model of Statements / IfStmt / ElseIf / Else / ForStmt / ForRangeStmt /
  Break / Continue / Return / Assignment / ConcStatement `.Evaluate` and RuleEntity.Execute) run
  on the AST the listener builds computes the reference meaning `denoteRule` of the program.
  The clause theorems below read the statement's sentences off that reference meaning.
-/
import GV.Eval.RefStmtThm
import GV.Eval.FactsParams
namespace GV.Props.C02
open GV.Eval

theorem C02_rule_refines (P : Params) (env : Env) (body : RBlock) (hw : body.WF = true) :
    ruleExecute P env (lowerB body) = denoteRule P env body := rule_refines P env body hw

/-- **End to end, for the code as it is now** (recover sites and loop bound regenerated from the
    source): executing a rule — the interpreter with the code's own primitives, on the AST the
    listener builds — ends in the same environment (host state, observer trace), with the same
    outcome, return flag and value as the reference semantics with the reference primitives, for
    every well-formed program with well-kinded literals and every well-kinded environment. -/
theorem C02_end_to_end (body : RBlock) (hw : body.WF = true) (hl : body.LitWK = true) (env : Env) (he : EnvWK env) :
    (ruleExecute factsParams env (lowerB body)).env = (denoteRule (refParamsOf factsParams) env body).env ∧
    (ruleExecute factsParams env (lowerB body)).outcome = (denoteRule (refParamsOf factsParams) env body).outcome ∧
    (ruleExecute factsParams env (lowerB body)).flag = (denoteRule (refParamsOf factsParams) env body).flag ∧
    (ruleExecute factsParams env (lowerB body)).val = (denoteRule (refParamsOf factsParams) env body).val :=
  facts_end_to_end body hw hl env he

/-- the invariant behind it: statements keep the environment well kinded -/
theorem C02_env_stays_well_kinded (P Q : Params) (hr : Rel P Q) (hrec : Recovers P) (b : RBlock) (hw : b.WF = true)
    (hl : b.LitWK = true) (env : Env) (he : EnvWK env) : EnvWK (denoteB Q env b).2 :=
  (denoteB_sim P Q hr hrec b hw hl env he).2

/-- the executable check of well-kindedness the correspondence driver applies to every case is sound -/
theorem C02_wk_check_sound (e : Env) (h : e.wkb = true) : EnvWK e := env_wkb_sound e h

/-- Statements run in source order: the second statement starts in the state the first left. -/
theorem C02_source_order (P : Params) (env e1 : Env) (s : RS) (rest : RSList)
    (h : denoteS P env s = (.normal, e1)) : denoteSL P env (.cons s rest) = denoteSL P e1 rest := by
  simp [denoteSL, h]

/-- `return` ends the rule at once from any depth: no later statement has an effect.
    (a statement that returns, breaks, continues or fails ends every enclosing list) -/
theorem C02_return_ends_list (P : Params) (env e1 : Env) (s : RS) (rest : RSList) (v : Val)
    (h : denoteS P env s = (.ret v, e1)) : denoteSL P env (.cons s rest) = (.ret v, e1) := by
  simp [denoteSL, h]

theorem C02_return_ends_block (P : Params) (env e1 : Env) (stmts : RSList) (ret : RRet) (v : Val)
    (h : denoteSL P env stmts = (.ret v, e1)) : denoteB P env (.mk stmts ret) = (.ret v, e1) := by
  simp [denoteB, h]

theorem C02_return_leaves_if (P : Params) (env e1 e2 : Env) (c : RE) (thn : RBlock) (el : RElifs) (v : Val)
    (hc : denote P env true c = (.ok (.b true), e1)) (hb : denoteB P e1 thn = (.ret v, e2)) :
    denoteS P env (.ifs c thn el) = (.ret v, e2) := by
  simp [denoteS, hc, condOf, Val.bool?, hb]

theorem C02_return_leaves_for (maxLoop : Nat) (cond : Env → Res Val × Env) (b : Env → SRes × Env)
    (step : Env → Res Unit × Env) (fuel count : Nat) (env e1 e2 : Env) (v : Val)
    (hm : ¬ count + 1 > maxLoop) (hc : cond env = (.ok (.b true), e1)) (hb : b e1 = (.ret v, e2)) :
    forLoop maxLoop cond (some b) step (fuel + 1) count env = (.ret v, e2) := by
  simp [forLoop, hm, hc, Val.bool?, hb]

theorem C02_return_value (P : Params) (env e1 e2 : Env) (stmts : RSList) (x : RE) (v : Val)
    (h : denoteSL P env stmts = (.normal, e1)) (hx : denote P e1 true x = (.ok v, e2)) :
    denoteB P env (.mk stmts (.expr x)) = (.ret v, e2) := by
  simp [denoteB, h, hx]

/-- exactly the first branch whose condition is true runs … -/
theorem C02_if_true (P : Params) (env e1 : Env) (c : RE) (thn : RBlock) (el : RElifs)
    (hc : denote P env true c = (.ok (.b true), e1)) :
    denoteS P env (.ifs c thn el) = denoteB P e1 thn := by
  simp [denoteS, hc, condOf, Val.bool?]

theorem C02_if_false (P : Params) (env e1 : Env) (c : RE) (thn : RBlock) (el : RElifs)
    (hc : denote P env true c = (.ok (.b false), e1)) :
    denoteS P env (.ifs c thn el) = denoteElifs P e1 el := by
  simp [denoteS, hc, condOf, Val.bool?]

theorem C02_elif_true (P : Params) (env e1 : Env) (c : RE) (b : RBlock) (rest : RElifs)
    (hc : denote P env true c = (.ok (.b true), e1)) :
    denoteElifs P env (.cons c b rest) = denoteB P e1 b := by
  simp [denoteElifs, hc, condOf, Val.bool?]

theorem C02_elif_false (P : Params) (env e1 : Env) (c : RE) (b : RBlock) (rest : RElifs)
    (hc : denote P env true c = (.ok (.b false), e1)) :
    denoteElifs P env (.cons c b rest) = denoteElifs P e1 rest := by
  simp [denoteElifs, hc, condOf, Val.bool?]

/-- … otherwise the `else` branch if present, otherwise nothing -/
theorem C02_else (P : Params) (env : Env) (b : RBlock) : denoteElifs P env (.els b) = denoteB P env b := by
  simp [denoteElifs]
theorem C02_no_else (P : Params) (env : Env) : denoteElifs P env .nil = (.normal, env) := by
  simp [denoteElifs]

/-- `for`: the condition is tested before every iteration (false: the body does not run) -/
theorem C02_for_tests_first (maxLoop : Nat) (cond : Env → Res Val × Env) (b : Option (Env → SRes × Env))
    (step : Env → Res Unit × Env) (fuel count : Nat) (env e1 : Env)
    (hm : ¬ count + 1 > maxLoop) (hc : cond env = (.ok (.b false), e1)) :
    forLoop maxLoop cond b step (fuel + 1) count env = (.normal, e1) := by
  simp [forLoop, hm, hc, Val.bool?]

/-- the step runs after every iteration, also after `continue` -/
theorem C02_for_step_after_normal (maxLoop : Nat) (cond : Env → Res Val × Env) (b : Env → SRes × Env)
    (step : Env → Res Unit × Env) (fuel count : Nat) (env e1 e2 e3 : Env)
    (hm : ¬ count + 1 > maxLoop) (hc : cond env = (.ok (.b true), e1)) (hb : b e1 = (.normal, e2))
    (hs : step e2 = (.ok (), e3)) :
    forLoop maxLoop cond (some b) step (fuel + 1) count env = forLoop maxLoop cond (some b) step fuel (count + 1) e3 := by
  simp [forLoop, hm, hc, Val.bool?, hb, hs]

theorem C02_for_step_after_continue (maxLoop : Nat) (cond : Env → Res Val × Env) (b : Env → SRes × Env)
    (step : Env → Res Unit × Env) (fuel count : Nat) (env e1 e2 e3 : Env)
    (hm : ¬ count + 1 > maxLoop) (hc : cond env = (.ok (.b true), e1)) (hb : b e1 = (.cont, e2))
    (hs : step e2 = (.ok (), e3)) :
    forLoop maxLoop cond (some b) step (fuel + 1) count env = forLoop maxLoop cond (some b) step fuel (count + 1) e3 := by
  simp [forLoop, hm, hc, Val.bool?, hb, hs]

/-- `break` ends the innermost loop only: the loop statement itself completes normally, so the
    enclosing list (and any enclosing loop) goes on -/
theorem C02_break_innermost (maxLoop : Nat) (cond : Env → Res Val × Env) (b : Env → SRes × Env)
    (step : Env → Res Unit × Env) (fuel count : Nat) (env e1 e2 : Env)
    (hm : ¬ count + 1 > maxLoop) (hc : cond env = (.ok (.b true), e1)) (hb : b e1 = (.brk, e2)) :
    forLoop maxLoop cond (some b) step (fuel + 1) count env = (.normal, e2) := by
  simp [forLoop, hm, hc, Val.bool?, hb]

theorem C02_range_break (setKey : Env → Val → Res Env) (b : Env → SRes × Env) (k : Val) (ks : List Val)
    (env e1 e2 : Env) (hk : setKey env k = .ok e1) (hb : b e1 = (.brk, e2)) :
    rangeLoop setKey (some b) (k :: ks) env = (.normal, e2) := by
  simp [rangeLoop, hk, hb]

/-- a loop never lets `break` / `continue` escape -/
theorem C02_for_absorbs (maxLoop : Nat) (cond : Env → Res Val × Env) (b : Option (Env → SRes × Env))
    (step : Env → Res Unit × Env) : ∀ (fuel count : Nat) (env : Env),
    (forLoop maxLoop cond b step fuel count env).1 ≠ .brk ∧ (forLoop maxLoop cond b step fuel count env).1 ≠ .cont := by
  intro fuel
  induction fuel with
  | zero => intro count env; simp [forLoop]
  | succ n ih =>
    intro count env
    unfold forLoop
    repeat' split
    all_goals first
      | exact ih _ _
      | simp

theorem C02_range_absorbs (setKey : Env → Val → Res Env) (b : Option (Env → SRes × Env)) :
    ∀ (ks : List Val) (env : Env),
    (rangeLoop setKey b ks env).1 ≠ .brk ∧ (rangeLoop setKey b ks env).1 ≠ .cont := by
  intro ks
  induction ks with
  | nil => intro env; simp [rangeLoop]
  | cons k ks ih =>
    intro env
    unfold rangeLoop
    repeat' split
    all_goals first
      | exact ih _
      | simp

/-- `forRange` visits each index / key exactly once, in order: with a body that completes
    (normally or by `continue`), the loop is the fold of "bind the key, run the body" over the keys -/
theorem C02_range_each_once (setKey : Env → Val → Res Env) (b : Env → SRes × Env)
    (hb : ∀ e, (b e).1 = .normal ∨ (b e).1 = .cont) (hk : ∀ e k, ∃ e', setKey e k = .ok e') :
    ∀ (ks : List Val) (env : Env),
    rangeLoop setKey (some b) ks env =
      (.normal, ks.foldl (fun e k => match setKey e k with | .ok e1 => (b e1).2 | _ => e) env) := by
  intro ks
  induction ks with
  | nil => intro env; simp [rangeLoop]
  | cons k ks ih =>
    intro env
    obtain ⟨e1, h1⟩ := hk env k
    have hb1 := hb e1
    unfold rangeLoop
    simp only [h1, List.foldl_cons]
    rcases hbe : b e1 with ⟨r, e2⟩
    rw [hbe] at hb1
    simp only at hb1
    rcases hb1 with rfl | rfl <;> exact ih e2

/-- the keys of a slice / array are its indexes 0 … len-1, those of a map its keys -/
theorem C02_range_keys_slice (env : Env) (n : String) (isArr : Bool) (k : K) (elems : List Val)
    (hn : splitDots n = [n]) (h : env.lookupBase n = some (.slice false isArr k elems)) :
    rangeKeys env n = some ((List.range elems.length).map (fun i => Val.i .int (Int64.ofNat i))) := by
  simp [rangeKeys, hn, h]

/-- `=` / `:=` bind a local; it is visible from then on regardless of block nesting (one flat
    map of locals per rule execution: blocks pass the environment through) -/
theorem C02_assign_binds_local (e : Env) (n : String) (v : Val) (hn : splitDots n = [n])
    (hb : e.lookupBase n = none) :
    setValue e n v = .ok (e.setVar n v) := by
  simp [setValue, hn, hb]

theorem find_setAssoc (l : List (String × Val)) (n : String) (v : Val) :
    (setAssoc l n v).find? (fun p => p.1 == n) = some (n, v) := by
  unfold setAssoc
  split
  · rename_i h
    induction l with
    | nil => simp at h
    | cons p ps ih =>
      cases hp : (p.1 == n)
      · have h' : ps.any (fun p => p.1 == n) = true := by
          simpa only [List.any_cons, hp, Bool.false_or] using h
        have := ih h'
        simp only [List.map_cons, hp, Bool.false_eq_true, ite_false, List.find?_cons]
        exact this
      · simp only [List.map_cons, hp, ite_true, List.find?_cons, BEq.rfl]
  · rename_i h
    have hnone : List.find? (fun p => p.1 == n) l = none := by
      rw [List.find?_eq_none]
      intro x hx hxn
      exact h (List.any_eq_true.mpr ⟨x, hx, hxn⟩)
    simp [List.find?_append, hnone]

theorem C02_local_visible (e : Env) (n : String) (v : Val) (hn : splitDots n = [n]) (hb : e.lookupBase n = none) :
    getValue (e.setVar n v) n = .ok v := by
  have h1 : (e.setVar n v).lookupBase n = none := by simpa [Env.setVar, Env.lookupBase] using hb
  have h2 : (e.setVar n v).lookupVar n = some v := by
    simp only [Env.setVar, Env.lookupVar, find_setAssoc, Option.map_some]
  simp [getValue, hn, h1, h2]

/-- Non-vacuity: a program with nested loops, break, continue, compound assignment and return is
    well-formed, and the theorem's equation is between non-trivial runs. -/
example :
    let body : RBlock := .mk (.cons (.for 2 ⟨2, .var "i", .set, .lit 2 (.i .int64 0)⟩ ⟨2, .var "i", .add, .lit 2 (.i .int64 1)⟩
        (.cmp 2 .lt (.var 2 "i") (.lit 2 (.i .int64 3)))
        (.mk (.cons (.ifs (.cmp 3 .eq (.var 3 "i") (.lit 3 (.i .int64 1))) (.mk (.cons .cont .nil) .none) .nil)
              (.cons (.assign ⟨4, .var "s", .set, .var 4 "i"⟩) .nil)) .none)) .nil) (.expr (.var 6 "s"))
    body.WF = true := by decide

end GV.Props.C02
