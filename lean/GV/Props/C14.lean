/-
  C14 — Stop tag: once set, no further rule starts.
-/
import GV.Orch.Conf.ExecuteWithStopTagDirect
import GV.Orch.Conf.ExecuteMixModelWithStopTagDirect
import GV.Orch.Conf.ExecuteSelectedRulesWithControlAndStopTag
import GV.Orch.Conf.ExecuteSelectedRulesWithControlAndStopTagAsGivenSortedName
import GV.Props.C04Lemmas
namespace GV.Props.C14
open GV.Orch GV.Generated.Orch

theorem C14_ExecuteWithStopTagDirect : Conforms ExecuteWithStopTagDirect .ExecuteWithStopTagDirect :=
  All.conf_ExecuteWithStopTagDirect
theorem C14_ExecuteMixModelWithStopTagDirect :
    Conforms ExecuteMixModelWithStopTagDirect .ExecuteMixModelWithStopTagDirect :=
  All.conf_ExecuteMixModelWithStopTagDirect
theorem C14_SelectedAndStopTag :
    Conforms ExecuteSelectedRulesWithControlAndStopTag .ExecuteSelectedRulesWithControlAndStopTag :=
  All.conf_ExecuteSelectedRulesWithControlAndStopTag
theorem C14_SelectedAndStopTagAsGiven :
    Conforms ExecuteSelectedRulesWithControlAndStopTagAsGivenSortedName
      .ExecuteSelectedRulesWithControlAndStopTagAsGivenSortedName :=
  All.conf_ExecuteSelectedRulesWithControlAndStopTagAsGivenSortedName

theorem takeThrough_congr (p q : α → Bool) (l : List α) (h : ∀ x ∈ l, p x = q x) :
    takeThrough p l = takeThrough q l := by
  induction l with
  | nil => rfl
  | cons a l ih =>
    have ha := h a (by simp)
    simp only [takeThrough, ha]
    split
    · rfl
    · rw [ih (fun x hx => h x (by simp [hx]))]

/-- If the tag is never set the sorted variants behave exactly like the variants without a tag. -/
theorem never_set_sorted (cfg : Cfg) (order : List Rule) (b : Bool) (h : ∀ r ∈ order, stops cfg r = false) :
    sortFamily cfg order b true = sortFamily cfg order b false := by
  unfold sortFamily
  congr 1
  apply takeThrough_congr
  intro r hr
  simp [seqStop, h r hr]

theorem never_set_mix (cfg : Cfg) (order : List Rule) (h : ∀ r ∈ order, stops cfg r = false) :
    mixFamily cfg order true = mixFamily cfg order false := by
  cases order with
  | nil => rfl
  | cons f rest => simp [mixFamily, h f (by simp)]

/-- Sorted variants: the rule that sets the tag completes and is the last one to run. -/
theorem stop_is_last (cfg : Cfg) (order : List Rule) (b : Bool) (pre post : List Rule) (r : Rule)
    (ho : order = pre ++ r :: post) (hpre : ∀ x ∈ pre, seqStop cfg (!b) true x = false)
    (hr : stops cfg r = true) :
    (sortFamily cfg order b true).flatten = pre ++ [r] := by
  subst ho
  simp only [sortFamily, singletons_flatten]
  induction pre with
  | nil => simp [takeThrough, seqStop, hr]
  | cons a pre ih =>
    have ha := hpre a (by simp)
    simp only [List.cons_append, takeThrough, ha]
    simp
    exact ih (fun x hx => hpre x (by simp [hx]))

/-- Mix variant: none of the remaining rules runs if the first rule set the tag. -/
theorem mix_stop (cfg : Cfg) (f : Rule) (rest : List Rule) (h : stops cfg f = true) :
    mixFamily cfg (f :: rest) true = [[f]] := by simp [mixFamily, h]

end GV.Props.C14
