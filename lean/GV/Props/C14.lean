import GV.Orch.Spec
namespace GV.Props.C14
end GV.Props.C14
