/-
  C08 — Rule-set algebra: full build, incremental build and removal compose correctly.
-/
import GV.KC.Refine
namespace GV.Props.C08
open GV.KC

/-- Any finite history leaves a container that satisfies the invariant and denotes the history. -/
theorem C08_history (ops : List Op) (hw : ∀ op ∈ ops, op.WF) :
    Inv (ops.foldl applyOp KC.empty) ∧
    abs (ops.foldl applyOp KC.empty) = ops.foldl Spec.applyOp (fun _ => none) :=
  history_refines ops hw

/-- Names stay unique; the sorted slice holds exactly the installed rules. -/
theorem C08_names_unique (kc : KC) (h : Inv kc) : NodupNames kc.entities ∧ NodupNames kc.sort := ⟨h.uniqE, h.uniqS⟩
theorem C08_same_rules (kc : KC) (h : Inv kc) (r : KRule) : r ∈ kc.sort ↔ r ∈ kc.entities := h.same r

/-- The sort model runs the set in non-increasing order of the current saliences (with C04). -/
theorem C08_sort_order (kc : KC) (h : Inv kc) : kc.sort.Pairwise (fun a b => a.sal ≥ b.sal) := h.sorted

/-- Existence queries agree with the set. -/
theorem C08_exists_agrees (kc : KC) (h : Inv kc) (n : String) :
    (abs kc n).isSome = kc.sort.any (fun r => r.name == n) := exists_agrees kc h n

/-- The three clauses of the statement, one operation at a time. -/
theorem C08_full_replaces (order : List KRule) : abs (buildFull order) = Spec.full order := rfl
theorem C08_incr_merges (kc : KC) (order : List KRule) (h : Inv kc) (hn : NodupNames order) (n : String) :
    abs (buildIncr kc order) n = (get order n).or (abs kc n) := by
  rw [buildIncr_abs kc order h hn]; rfl
theorem C08_remove_deletes (kc : KC) (ns : List String) (p : List KRule → List KRule) (n : String) :
    abs (removeRules kc ns p) n = if ns.contains n then none else abs kc n := by
  rw [removeRules_abs]; rfl

/-- Binary-search insertion keeps the slice sorted (both return shapes of BinarySearch). -/
theorem C08_insert_sorted (re : List KRule) (v : KRule) (hs : Sorted re) :
    Sorted (insertAt re (insertPos re v.sal) v) := insert_sorted re v hs

/-- Non-vacuity: a concrete three-operation history is well formed. -/
example : ∀ op ∈ [Op.full [⟨"a", 1, 1⟩, ⟨"b", 1, 2⟩], Op.incr [⟨"b", 3, 3⟩, ⟨"c", 1, 4⟩], Op.remove ["a"] id], op.WF := by
  intro op h
  simp at h
  rcases h with rfl | rfl | rfl
  · simp [Op.WF, NodupNames, names]
  · simp [Op.WF, NodupNames, names]
  · intro l; exact List.Perm.refl _

end GV.Props.C08
