/-
  C05 — Mix, inverse-mix, N-M models: stage barriers hold, scheduled rules run once.

  (1) Every mixed method's extracted skeleton conforms to the reference semantics: which
      rules are scheduled, in which stage, under both error policies, for all n, m, rule sets
      and failing subsets; every fan-out has Add = number of goroutines, Done on all paths and
      a Wait before the next stage (`parOk`, part of `Conforms`).
  (2) `barrier`: for such a stage plan, under every interleaving of the goroutines, the event
      history is one complete segment per stage in stage order: every rule of stage i has
      ended before any rule of stage j > i starts, each scheduled rule starts and ends exactly
      once, nothing else runs.
-/
import GV.Orch.Conf.ExecuteMixModel
import GV.Orch.Conf.ExecuteSelectedRulesMixModel
import GV.Orch.Conf.ExecuteInverseMixModel
import GV.Orch.Conf.ExecuteSelectedRulesInverseMixModel
import GV.Orch.Conf.ExecuteNSortMConcurrent
import GV.Orch.Conf.ExecuteNConcurrentMSort
import GV.Orch.Conf.ExecuteNConcurrentMConcurrent
import GV.Orch.Conf.ExecuteSelectedNSortMConcurrent
import GV.Orch.Conf.ExecuteSelectedNConcurrentMSort
import GV.Orch.Conf.ExecuteSelectedNConcurrentMConcurrent
import GV.Orch.Sched
namespace GV.Props.C05
open GV.Orch GV.Generated.Orch

theorem C05_ExecuteMixModel : Conforms ExecuteMixModel .ExecuteMixModel := All.conf_ExecuteMixModel
theorem C05_ExecuteSelectedRulesMixModel :
    Conforms ExecuteSelectedRulesMixModel .ExecuteSelectedRulesMixModel := All.conf_ExecuteSelectedRulesMixModel
theorem C05_ExecuteInverseMixModel : Conforms ExecuteInverseMixModel .ExecuteInverseMixModel :=
  All.conf_ExecuteInverseMixModel
theorem C05_ExecuteSelectedRulesInverseMixModel :
    Conforms ExecuteSelectedRulesInverseMixModel .ExecuteSelectedRulesInverseMixModel :=
  All.conf_ExecuteSelectedRulesInverseMixModel
theorem C05_ExecuteNSortMConcurrent : Conforms ExecuteNSortMConcurrent .ExecuteNSortMConcurrent :=
  All.conf_ExecuteNSortMConcurrent
theorem C05_ExecuteNConcurrentMSort : Conforms ExecuteNConcurrentMSort .ExecuteNConcurrentMSort :=
  All.conf_ExecuteNConcurrentMSort
theorem C05_ExecuteNConcurrentMConcurrent :
    Conforms ExecuteNConcurrentMConcurrent .ExecuteNConcurrentMConcurrent := All.conf_ExecuteNConcurrentMConcurrent
theorem C05_ExecuteSelectedNSortMConcurrent :
    Conforms ExecuteSelectedNSortMConcurrent .ExecuteSelectedNSortMConcurrent :=
  All.conf_ExecuteSelectedNSortMConcurrent
theorem C05_ExecuteSelectedNConcurrentMSort :
    Conforms ExecuteSelectedNConcurrentMSort .ExecuteSelectedNConcurrentMSort :=
  All.conf_ExecuteSelectedNConcurrentMSort
theorem C05_ExecuteSelectedNConcurrentMConcurrent :
    Conforms ExecuteSelectedNConcurrentMConcurrent .ExecuteSelectedNConcurrentMConcurrent :=
  All.conf_ExecuteSelectedNConcurrentMConcurrent

/-- The barrier, for every stage plan and every interleaving. -/
theorem C05_barrier {stages : List (List Name)} {s : Sched.LSt} (h : Sched.Reach stages s)
    (hfin : s.idx = stages.length) : ∃ segs, s.hist = segs.flatten ∧ Sched.SegsOk stages segs :=
  Sched.barrier h hfin

theorem C05_counter_exact {stages : List (List Name)} {s : Sched.LSt} (h : Sched.Reach stages s) :
    s.wg = s.todo.length + s.spawned.length + s.running.length := Sched.counter_exact h

theorem C05_progress {stages : List (List Name)} {s : Sched.LSt} (h : Sched.Reach stages s)
    (hlt : s.idx < stages.length) : ∃ t, Sched.Step stages s t := Sched.progress h hlt

/-- The trace checker used against the implementation accepts only histories of that shape. -/
theorem C05_checker_sound (stages : List (List Name)) (evs : List Ev) (h : acceptsTrace stages evs = true) :
    ∃ segs, evs = segs.flatten ∧ Sched.SegsOk stages segs := Sched.acceptsTrace_sound stages evs h

/-! ### Clauses of the statement, read off the reference semantics -/

/-- mix: nothing else runs if the first rule fails. -/
theorem mix_first_fails (cfg : Cfg) (f : Rule) (rest : List Rule) (h : fails cfg f = true) :
    mixFamily cfg (f :: rest) false = [[f]] := by simp [mixFamily, h]

/-- mix: otherwise the first rule alone, then all the others in one concurrent stage. -/
theorem mix_first_ok (cfg : Cfg) (f : Rule) (rest : List Rule) (h : fails cfg f = false) :
    mixFamily cfg (f :: rest) false = [f] :: parStage rest := by simp [mixFamily, h]

/-- inverse-mix with more than two rules: the last rule runs iff none of the others failed. -/
theorem inverse_last (cfg : Cfg) (order : List Rule) (h : 2 < order.length) :
    inverseFamily cfg order =
      if (order.take (order.length - 1)).any (fails cfg) then [order.take (order.length - 1)]
      else [order.take (order.length - 1)] ++ singletons (order.drop (order.length - 1)) := by
  have : ¬ order.length ≤ 2 := by omega
  simp [inverseFamily, this]

theorem takeThrough_sublist (p : α → Bool) (l : List α) : (takeThrough p l).Sublist l := by
  induction l with
  | nil => simp [takeThrough]
  | cons a l ih =>
    unfold takeThrough
    split
    · simp
    · exact ih.cons₂ a

theorem stage_sublist (cfg : Cfg) (rs : List Rule) :
    (sortFamily cfg rs cfg.b false).flatten.Sublist rs := by
  simp [sortFamily]; exact takeThrough_sublist _ _

/-- N-M: only rules of the window (the first n+m of the order) ever run, stage one before
    stage two. -/
theorem nm_window (cfg : Cfg) (order : List Rule) (k1 k2 : StageKind) :
    (nmFamily cfg order k1 k2).flatten.Sublist
      (order.take cfg.n.toNat ++ (order.drop cfg.n.toNat).take cfg.m.toNat) := by
  have s1 : ∀ k rs, (stageRun cfg k rs).flatten.Sublist rs := by
    intro k rs; cases k
    · exact stage_sublist cfg rs
    · simp [stageRun]
  rw [nmFamily_eq]
  split
  · exact (s1 k1 _).trans (List.sublist_append_left _ _)
  · rw [List.flatten_append]
    exact List.Sublist.append (s1 k1 _) (s1 k2 _)

/-- Non-vacuity of the barrier theorem: a two-stage plan has a reachable final state. -/
example : ∃ s, Sched.Reach [["a"], ["b"]] s ∧ s.idx = 2 := by
  have r0 := Sched.Reach.init (stages := [["a"], ["b"]])
  have r1 := r0.step (.spawn _ "a" (by simp [Sched.init, Sched.stageAt]))
  have r2 := r1.step (.start _ "a" (by simp))
  have r3 := r2.step (.finish _ "a" (by simp))
  have r4 := r3.step (.pass _ (by simp [Sched.init, Sched.stageAt]) (by simp [Sched.init, Sched.stageAt]) (by simp [Sched.init]))
  have r5 := r4.step (.spawn _ "b" (by simp [Sched.init, Sched.stageAt]))
  have r6 := r5.step (.start _ "b" (by simp))
  have r7 := r6.step (.finish _ "b" (by simp))
  have r8 := r7.step (.pass _ (by simp [Sched.init, Sched.stageAt]) (by simp [Sched.init, Sched.stageAt]) (by simp [Sched.init]))
  exact ⟨_, r8, rfl⟩

end GV.Props.C05
