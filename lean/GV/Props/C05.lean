import GV.Orch.Spec
namespace GV.Props.C05
end GV.Props.C05
