/-
  C04 — Sort model: strict priority order, exactly once, and the documented error policy.

  `Execute`, `ExecuteSelectedRules`, `ExecuteSelectedRulesWithControl`: the skeleton extracted
  from engine/gengine.go (GV.Generated.Orch, regenerated on every run) is an instance of the
  sorted-family template, and the template conforms to the reference semantics `spec`
  for every configuration: every rule set, every outcome assignment, both policies.
  "One at a time": every stage of the plan is a singleton, and by `Sched.barrier` the events of
  consecutive stages never overlap.  That the installed list itself is sorted is C08's invariant.
-/
import GV.Orch.Conf.Execute
import GV.Orch.Conf.ExecuteSelectedRules
import GV.Orch.Conf.ExecuteSelectedRulesWithControl
import GV.Orch.Sched
import GV.Props.C04Lemmas
namespace GV.Props.C04
open GV.Orch GV.Generated.Orch

theorem C04_Execute : Conforms Execute .Execute := All.conf_Execute
theorem C04_ExecuteSelectedRules : Conforms ExecuteSelectedRules .ExecuteSelectedRules := All.conf_ExecuteSelectedRules
theorem C04_ExecuteSelectedRulesWithControl :
    Conforms ExecuteSelectedRulesWithControl .ExecuteSelectedRulesWithControl := All.conf_ExecuteSelectedRulesWithControl

/-- Non-vacuity: a concrete three-rule configuration satisfies `Pre`. -/
example : Pre { sorted := [⟨"a", 3⟩, ⟨"b", 3⟩, ⟨"c", -1⟩], entities := [⟨"c", -1⟩, ⟨"a", 3⟩, ⟨"b", 3⟩],
                out := fun n => if n = "b" then ⟨false, none, true, false⟩ else ⟨true, some 1, false, false⟩ } := by
  refine ⟨rfl, rfl, ?_, ?_⟩
  · intro n; simp; split <;> simp
  · decide

end GV.Props.C04
