import GV.Orch.Spec
import GV.Generated.Orch
namespace GV.Props.C04
open GV.Orch

theorem placeholder : takeThrough (fun (x : Nat) => x == 2) [1, 2, 3] = [1, 2] := by decide

end GV.Props.C04
