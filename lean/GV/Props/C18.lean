/-
  C18 — conc blocks join before the next statement and lose no effect or error.

  (1) Effects: the reference meaning `denoteConc` runs every child exactly once and fails, after
      all of them, iff one failed (`rule_refines` ties the interpreter to it).
  (2) Join: ConcStatement.Evaluate is one fan-out `wg.Add(n)`, n goroutines each ending in
      `wg.Done()`, `wg.Wait()`: the one-stage instance of the WaitGroup transition system of
      GV.Orch.Sched.  In every interleaving the block is passed only after every child started
      and ended exactly once.
  Children of one block are independent in the programs the correspondence run generates
  (distinct targets), so the sequential order of the model is one of the equivalent orders; data
  races between children touching the same object are the program's, not the engine's (C19).
-/
import GV.Eval.RefStmtThm
import GV.Orch.Sched
import GV.Generated.Facts
namespace GV.Props.C18
open GV.Eval

/-- the state after running all children, whatever their outcomes -/
def runAll (P : Params) (items : List RConcItem) (env : Env) : Env :=
  items.foldl (fun e it => (denoteConcItem P e it).2) env

theorem recov_no_panic (c : Option Nat) (b : Bool) (hb : b = true) (r : Res Unit × Env) :
    (match r with | (.panic, e) => ((if b then Res.err c else Res.panic : Res Unit), e) | o => o).1 ≠ .panic := by
  rcases r with ⟨x, e⟩
  cases x <;> simp [hb]

/-- with the recover the code installs, an assignment never lets a panic out … -/
theorem assignCore_no_panic (P : Params) (ha : P.assignRecover = true) (line : Nat) (var : String)
    (mapv : Option MapV) (aop : AsOp) (rhs : Res Val × Env) :
    (assignCore P line var mapv aop rhs).1 ≠ .panic := by
  unfold assignCore
  exact recov_no_panic _ _ ha _

/-- … nor does a call -/
theorem finishCall_no_panic (P : Params) (hf : P.funcRecover = true)
    (hm : P.methodRecover = true) (ht : P.threeRecover = true) (kind : CallKind) (line : Nat) (name : String)
    (r : Res (List Val) × Env) : (finishCall P kind line name r).1 ≠ .panic := by
  rcases r with ⟨x, e⟩
  cases kind <;> cases x <;> simp [finishCall, hf, hm, ht] <;> split <;> simp

theorem item_no_panic (P : Params) (ha : P.assignRecover = true) (hf : P.funcRecover = true)
    (hm : P.methodRecover = true) (ht : P.threeRecover = true) (env : Env) (it : RConcItem) (hw : it.WF = true) :
    (denoteConcItem P env it).1 ≠ .panic := by
  cases it with
  | assign a => exact assignCore_no_panic P ha _ _ _ _ _
  | call c =>
    cases c <;> simp [RConcItem.WF, RE.isCall] at hw
    rename_i l kind n args
    have := finishCall_no_panic P hf hm ht kind l n (denoteArgs P env args)
    simp only [denoteConcItem, denote, nv_false]
    rcases h : finishCall P kind l n (denoteArgs P env args) with ⟨r, e⟩
    rw [h] at this
    cases r <;> simp_all

/-- Each child runs exactly once, in every case: the state after the block is the state after
    all children — also when some of them failed. -/
theorem C18_all_children_run (P : Params) (ha : P.assignRecover = true) (hf : P.funcRecover = true)
    (hm : P.methodRecover = true) (ht : P.threeRecover = true) :
    ∀ (items : List RConcItem) (env : Env) (failed : Option (Option Nat)), items.all RConcItem.WF = true →
      (denoteConc P items env failed).2 = runAll P items env := by
  intro items
  induction items with
  | nil => intro env failed _; simp [denoteConc, runAll]
  | cons it rest ih =>
    intro env failed hw
    simp only [List.all_cons, Bool.and_eq_true] at hw
    have hnp := item_no_panic P ha hf hm ht env it hw.1
    simp only [denoteConc, runAll, List.foldl_cons]
    rcases h : denoteConcItem P env it with ⟨r, e1⟩
    rw [h] at hnp
    cases r with
    | ok u => simpa [runAll] using ih e1 failed hw.2
    | err c => simpa [runAll] using ih e1 (firstErr failed c) hw.2
    | panic => simp at hnp

/-- once a child has failed the block fails, with the first error recorded, whatever follows -/
theorem C18_failed_stays (P : Params) (ha : P.assignRecover = true) (hf : P.funcRecover = true)
    (hm : P.methodRecover = true) (ht : P.threeRecover = true) :
    ∀ (items : List RConcItem) (env : Env) (c : Option Nat), items.all RConcItem.WF = true →
      (denoteConc P items env (some c)).1 = .err c := by
  intro items
  induction items with
  | nil => intro env c _; simp [denoteConc, concOut]
  | cons it rest ih =>
    intro env c hw
    simp only [List.all_cons, Bool.and_eq_true] at hw
    have hnp := item_no_panic P ha hf hm ht env it hw.1
    simp only [denoteConc]
    rcases h : denoteConcItem P env it with ⟨r, e1⟩
    rw [h] at hnp
    cases r with
    | ok u => exact ih e1 c hw.2
    | err c' => simpa [firstErr] using ih e1 c hw.2
    | panic => simp at hnp

/-- If any child fails the block fails (with that child's error if it is the only or first one)
    — after all of them have finished (`C18_all_children_run`) — wherever it stands in the block. -/
theorem C18_child_error_fails_block (P : Params) (ha : P.assignRecover = true) (hf : P.funcRecover = true)
    (hm : P.methodRecover = true) (ht : P.threeRecover = true)
    (pre : List RConcItem) (it : RConcItem) (post : List RConcItem) (env : Env)
    (hw : (pre ++ it :: post).all RConcItem.WF = true)
    (hfail : ∃ c, (denoteConcItem P (runAll P pre env) it).1 = .err c) :
    ∃ c, (denoteConc P (pre ++ it :: post) env none).1 = .err c := by
  have gen : ∀ (pre : List RConcItem) (env : Env) (failed : Option (Option Nat)),
      (pre ++ it :: post).all RConcItem.WF = true →
      (∃ c, (denoteConcItem P (runAll P pre env) it).1 = .err c) →
      ∃ c, (denoteConc P (pre ++ it :: post) env failed).1 = .err c := by
    intro pre
    induction pre with
    | nil =>
      intro env failed hw ⟨c, hc⟩
      simp only [List.nil_append, List.all_cons, Bool.and_eq_true] at hw
      simp only [List.nil_append, denoteConc]
      simp only [runAll, List.foldl_nil] at hc
      rcases h : denoteConcItem P env it with ⟨r, e1⟩
      rw [h] at hc
      simp only at hc
      subst hc
      cases failed with
      | none => exact ⟨c, C18_failed_stays P ha hf hm ht post e1 c hw.2⟩
      | some f => exact ⟨f, C18_failed_stays P ha hf hm ht post e1 f hw.2⟩
    | cons p ps ih =>
      intro env failed hw hc
      have hw' := hw
      simp only [List.cons_append, List.all_cons, Bool.and_eq_true] at hw'
      have hnp := item_no_panic P ha hf hm ht env p hw'.1
      simp only [List.cons_append, denoteConc]
      simp only [runAll, List.foldl_cons] at hc
      rcases h : denoteConcItem P env p with ⟨r, e1⟩
      rw [h] at hnp hc
      cases r with
      | ok u => exact ih e1 failed hw'.2 hc
      | err c => exact ih e1 _ hw'.2 hc
      | panic => simp at hnp
  exact gen pre env none hw hfail

/-- if no child fails the block succeeds -/
theorem C18_all_ok (P : Params) :
    ∀ (items : List RConcItem) (env : Env),
      (∀ (pre : List RConcItem) (it : RConcItem) (post : List RConcItem), items = pre ++ it :: post →
        ∃ u, (denoteConcItem P (runAll P pre env) it).1 = .ok u) →
      (denoteConc P items env none).1 = .ok () := by
  intro items
  induction items with
  | nil => intro env _; simp [denoteConc, concOut]
  | cons it rest ih =>
    intro env h
    obtain ⟨u, hu⟩ := h [] it rest rfl
    simp only [runAll, List.foldl_nil] at hu
    simp only [denoteConc]
    rcases hh : denoteConcItem P env it with ⟨r, e1⟩
    rw [hh] at hu
    simp only at hu
    subst hu
    simp only
    apply ih e1
    intro pre it' post heq
    have := h (it :: pre) it' post (by rw [heq]; rfl)
    simpa [runAll, hh] using this

/-! ### Join -/
open GV.Orch GV.Orch.Sched

/-- Whatever the interleaving of the children's goroutines, when `wg.Wait()` has been passed
    every child has started exactly once and ended exactly once: the statement after the block
    starts only after all of them have finished. -/
theorem C18_join (children : List Name) (s : LSt) (h : Reach [children] s) (hfin : s.idx = 1) :
    (starts s.hist).Perm children ∧ (ends s.hist).Perm children := by
  obtain ⟨segs, hh, hs⟩ := barrier h (by simpa using hfin)
  cases hs with
  | cons hseg hrest =>
    cases hrest
    simp only [List.flatten_cons, List.flatten_nil, List.append_nil] at hh
    rw [hh]; exact hseg

/-- `Wait` cannot be passed while a child is still to start or to finish. -/
theorem C18_no_early_pass (children : List Name) (s : LSt) (h : Reach [children] s) (hwg : s.wg = 0) :
    s.todo = [] ∧ s.spawned = [] ∧ s.running = [] := by
  have := counter_exact h
  rw [hwg] at this
  refine ⟨?_, ?_, ?_⟩ <;> apply List.length_eq_zero_iff.mp <;> omega

/-- a conc block keeps nothing in its own node between executions (its error list, its lock and
    its WaitGroup are locals of `Evaluate`): no method of internal/base writes to the node it is
    called on (regenerated) -/
theorem C18_block_node_read_only :
    GV.Generated.Facts.nodeWrites =
      ["KnowledgeContext.ClearRules: k.RuleEntities =", "KnowledgeContext.ClearRules: k.SortRules =",
       "KnowledgeContext.ClearRules: k.SortRulesIndexMap ="] := by decide

end GV.Props.C18
