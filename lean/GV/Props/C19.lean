/-
  C19 — gengine's own state is free of data races under its concurrent contract.

  (1) `C19_discipline_sound`: in every well-formed trace, a location all of whose accesses are
      made under one fixed mutex has no data race (happens-before = program order + release →
      acquisition), for any number of threads, locks, locations and events.
  (2) `C19_table`: the lock table regenerated from engine/, context/ and builder/ on every run —
      for every access to the pool's free lists, cleared flag, execution model, master and
      per-instance rule builders, the data context's injected table and local store, the rule
      builder's container and the engine's result map: the mutexes held at that point — puts
      every access under its location's guard.  Exempt are the accesses to the result map made
      by the goroutine that owns the engine at that point: the allocation before a fan-out and
      the read after the call returned (hand-off by fork / join: barrier theorem of C05 / C13).
  Immutable-after-publication data (a compiled AST, a published rule container: C07's
  copy-on-write fact, the api map) is not in the table.
  Partial: the Go memory model and the extractor's lock-region analysis are trusted; what the
  table does not list is covered only by the race-detector runs of the correspondence check.
-/
import GV.Race.Lockset
import GV.Generated.Locks
import GV.Generated.Pool
namespace GV.Props.C19
open GV.Race GV.Generated.Locks

theorem C19_discipline_sound (tr : List Ev) (hw : WF tr) (guard : Nat → Nat) (x : Nat) (hg : Guarded tr guard x)
    (i j : Nat) : ¬ (∃ (hi : i < tr.length) (hj : j < tr.length) (t1 t2 : Nat) (w1 w2 : Bool),
      tr[i] = .acc t1 x w1 ∧ tr[j] = .acc t2 x w2 ∧ ¬ HB tr i j ∧ ¬ HB tr j i ∧ i ≠ j) :=
  no_race_of_guarded tr hw guard x hg i j

theorem C19_guarded_ordered (tr : List Ev) (hw : WF tr) (g : Nat) (i j : Nat) (hij : i < j) (hj : j < tr.length)
    (t1 t2 x1 x2 : Nat) (w1 w2 : Bool)
    (hi : tr[i]'(Nat.lt_trans hij hj) = .acc t1 x1 w1) (hjj : tr[j] = .acc t2 x2 w2)
    (h1 : holderAt tr i g = some t1) (h2 : holderAt tr j g = some t2) : HB tr i j :=
  guarded_ordered tr hw g i j hij hj t1 t2 x1 x2 w1 w2 hi hjj h1 h2

/-- the guard of each tracked location -/
def guardOf : String → String
  | "pool.freeGengines" => "gp.runningLock"
  | "pool.additionGengines" => "gp.additionLock"
  | "pool.clear" => "gp.updateLock"
  | "pool.execModel" => "gp.updateLock"
  | "pool.ruleBuilder" => "gp.updateLock"
  | "pool.rbSlice" => "gp.updateLock"
  | "dc.base" => "dc.lockBase"
  | "dc.Vars" => "dc.lockVars"
  | "builder.Kc" => "builder.buildLock"
  | "engine.returnResult" => "g.lock"
  | _ => "?"

/-- owner accesses: the engine's result map is allocated by the calling goroutine before any
    goroutine of the call exists and read after all of them were joined -/
def ownerAccess (a : Access) : Bool := a.loc == "engine.returnResult" && a.fn != "addResult"

def rowOk (a : Access) : Bool := a.held.contains (guardOf a.loc) || ownerAccess a

theorem C19_table : accesses.all rowOk = true := by decide

/-- the published rule containers are immutable (copy-on-write), so reading them needs no lock -/
theorem C19_containers_immutable : GV.Generated.Pool.inPlaceStores = [] := by decide

/-- Non-vacuity: a two-thread trace in which both accesses hold lock 0 is well-formed and guarded. -/
example : WF [.acq 1 0, .acc 1 5 true, .rel 1 0, .acq 2 0, .acc 2 5 true, .rel 2 0] := by
  intro k hk
  have : k = 0 ∨ k = 1 ∨ k = 2 ∨ k = 3 ∨ k = 4 ∨ k = 5 := by simp at hk; omega
  rcases this with rfl | rfl | rfl | rfl | rfl | rfl <;> simp [holderAt, stepL]

end GV.Props.C19
