/-
  Clauses of the sorted-family reference semantics (shared by C04, C12, C14); independent of
  the extracted code.
-/
import GV.Orch.Conform
namespace GV.Props.C04
open GV.Orch

/-! ### The clauses of the property, read off the reference semantics -/

/-- Selection sorts by non-increasing salience and keeps exactly the selected rules. -/
theorem sortDesc_sorted (l : List Rule) : (sortDesc l).Pairwise (fun a b => a.sal ≥ b.sal) := by
  have h := List.pairwise_mergeSort (le := fun (a b : Rule) => decide (a.sal ≥ b.sal))
    (by intro a b c; simp; omega) (by intro a b; simp; omega) l
  simpa [sortDesc] using h

theorem sortDesc_perm (l : List Rule) : (sortDesc l).Perm l := List.mergeSort_perm _ _

theorem takeThrough_prefix (p : α → Bool) (l : List α) : takeThrough p l <+: l := by
  induction l with
  | nil => simp [takeThrough]
  | cons a l ih =>
    unfold takeThrough
    split
    · exact ⟨l, rfl⟩
    · obtain ⟨t, ht⟩ := ih; exact ⟨t, by simp [ht]⟩

theorem takeThrough_all (p : α → Bool) (l : List α) (h : ∀ x ∈ l, p x = false) : takeThrough p l = l := by
  induction l with
  | nil => rfl
  | cons a l ih =>
    have := h a (by simp)
    simp [takeThrough, this]
    exact ih (fun x hx => h x (by simp [hx]))

/-- continue-on-error: every rule runs, in order. -/
theorem continue_runs_all (cfg : Cfg) (order : List Rule) :
    (sortFamily cfg order true false).flatten = order := by
  simp [sortFamily, seqStop, takeThrough_all]

/-- stop-on-error: the run is the prefix of the order ending at the first failing rule. -/
theorem stop_at_first_failure (cfg : Cfg) (order : List Rule) :
    (sortFamily cfg order false false).flatten = takeThrough (fails cfg) order := by
  simp [sortFamily]
  congr 1
  funext r; simp [seqStop]

/-- In both policies the executed rules are a prefix of the order: no rule runs twice, none
    runs out of order, and (prefix of a sorted list) saliences are non-increasing. -/
theorem trace_prefix (cfg : Cfg) (order : List Rule) (b s : Bool) :
    (sortFamily cfg order b s).flatten <+: order := by
  simp [sortFamily]; exact takeThrough_prefix _ _

theorem trace_sorted (cfg : Cfg) (order : List Rule) (b s : Bool)
    (h : order.Pairwise (fun a b => a.sal ≥ b.sal)) :
    ((sortFamily cfg order b s).flatten).Pairwise (fun a b => a.sal ≥ b.sal) :=
  h.sublist (trace_prefix cfg order b s).sublist

/-- The call reports an error exactly when an executed rule failed. -/
theorem err_iff_failed (m : Method) (cfg : Cfg) (st : List (List Rule)) (h : spec m cfg = some st) :
    (expect m cfg).err = st.flatten.any (fails cfg) := by
  simp [expect, h]

/-- One at a time: the plan of a sorted model consists of singleton stages. -/
theorem stages_singletons (cfg : Cfg) (order : List Rule) (b s : Bool) :
    ∀ st ∈ sortFamily cfg order b s, st.length = 1 := by
  intro st h
  simp [sortFamily, singletons] at h
  obtain ⟨r, _, rfl⟩ := h
  rfl

end GV.Props.C04
