/-
  C03 — Injected data is read, written and called faithfully.

  The data layer (`GV.Eval.Store`, `execFunc`, `prepArgs`, `castTo`: models of
  context/data_context.go and internal/core/execute.go, tied to the code by the correspondence
  runs over injected structs, pointers, maps, slices, arrays, functions and methods) satisfies
  the statement's sentences, for every environment and value.
-/
import GV.Eval.Eval
namespace GV.Props.C03
open GV.Eval

/-- A name that is injected always refers to the injected object, even if a local of the same
    name exists: reads … -/
theorem C03_injected_first_read (e : Env) (n : String) (o : Obj) (hn : splitDots n = [n])
    (h : e.lookupBase n = some o) (vs : List (String × Val)) :
    getValue { e with vars := vs } n = .ok (o.asVal (baseIndex e n)) := by
  have : ({ e with vars := vs } : Env).lookupBase n = some o := h
  simp [getValue, hn, this, baseIndex]

/-- … and writes go to the injected object and leave the locals alone -/
theorem C03_injected_first_write (e e' : Env) (n : String) (o : Obj) (v : Val) (hn : splitDots n = [n])
    (h : e.lookupBase n = some o) (hs : setValue e n v = .ok e') : e'.vars = e.vars := by
  simp only [setValue, hn, h] at hs
  repeat' split at hs
  all_goals first
    | (simp only [Res.ok.injEq] at hs; subst hs; rfl)
    | (simp at hs)

/-- a plain local assignment never touches injected data -/
theorem C03_local_write_frame (e : Env) (n : String) (v : Val) : (e.setVar n v).base = e.base := rfl

theorem find_map_other {β : Type} (l : List (String × β)) (n m : String) (v : β) (hnm : (n == m) = false) :
    (l.map (fun p => if p.1 == n then (n, v) else p)).find? (fun p => p.1 == m) = l.find? (fun p => p.1 == m) := by
  induction l with
  | nil => rfl
  | cons p ps ih =>
    simp only [List.map_cons, List.find?_cons]
    cases hp : (p.1 == n)
    · simp only [Bool.false_eq_true, ite_false]
      cases hq : (p.1 == m)
      · exact ih
      · rfl
    · have hpn := eq_of_beq hp
      have hq : (p.1 == m) = false := by rw [hpn]; exact hnm
      simp only [ite_true, hnm, hq]
      exact ih

theorem setAssoc_other {β : Type} (l : List (String × β)) (n m : String) (v : β) (h : (m == n) = false) :
    (setAssoc l n v).find? (fun p => p.1 == m) = l.find? (fun p => p.1 == m) := by
  have hnm : (n == m) = false := by
    cases hh : (n == m)
    · rfl
    · have := eq_of_beq hh; subst this; simp at h
  unfold setAssoc
  split
  · exact find_map_other l n m v hnm
  · simp [List.find?_append, hnm]

/-- everything not assigned stays untouched: a write through name `n` leaves every other
    injected object as it was -/
theorem C03_write_frame (e : Env) (n m : String) (o : Obj) (h : (m == n) = false) :
    (e.setBase n o).lookupBase m = e.lookupBase m := by
  simp only [Env.setBase, Env.lookupBase, setAssoc_other _ _ _ _ h]

/-- a field write stores the converted value in that field and keeps the other fields -/
theorem C03_field_write (fields : List (String × Field)) (f : String) (cur v nv : Val)
    (hf : fields.find? (fun p => p.1 == f) = some (f, .scalar cur)) (hc : convTo cur.kind v true = some nv) :
    setField (.struct true fields) f v = .ok (.struct true (setAssoc fields f (.scalar nv))) := by
  simp [setField, hf, hc]

theorem C03_field_other (fields : List (String × Field)) (f g : String) (x : Field) (h : (g == f) = false) :
    getField (.struct true (setAssoc fields f x)) g = getField (.struct true fields) g := by
  simp only [getField, setAssoc_other _ _ _ _ h]

/-- a struct injected by value is not assignable: the write is an error, not a silent no-op -/
theorem C03_value_struct_not_settable (fields : List (String × Field)) (f : String) (cur v : Val)
    (hf : fields.find? (fun p => p.1 == f) = some (f, .scalar cur)) :
    setField (.struct false fields) f v = .err none := by
  simp [setField, hf]

/-- conversions: within the class the value is narrowed to the target's width … -/
theorem C03_conv_signed (k k' : K) (x : Int64) (hk : k.isSigned = true) (c : Bool) :
    convTo k (.i k' x) c = some (.i k (narrowI k x)) := by
  simp [convTo, hk]

theorem C03_conv_unsigned (k k' : K) (x : UInt64) (hs : k.isSigned = false) (hk : k.isUnsigned = true) (c : Bool) :
    convTo k (.u k' x) c = some (.u k (narrowU k x)) := by
  simp [convTo, hk, hs]

/-- … and for struct fields and pointer-injected scalars also between the classes -/
theorem C03_conv_cross_u2i (k k' : K) (x : UInt64) (hk : k.isSigned = true) :
    convTo k (.u k' x) true = some (.i k (narrowI k x.toInt64)) := by
  simp [convTo, hk]

theorem C03_conv_cross_i2f (k k' : K) (x : Int64) (hs : k.isSigned = false) (hu : k.isUnsigned = false)
    (hk : k.isFloat = true) :
    convTo k (.i k' x) true = some (.f k (narrowF k x.toFloat)) := by
  simp [convTo, hk, hs, hu]

/-- a negative value is not representable in an unsigned target: no value is stored -/
theorem C03_conv_neg_unsigned (k k' : K) (x : Int64) (hs : k.isSigned = false) (hk : k.isUnsigned = true)
    (hx : x < 0) : convTo k (.i k' x) true = none := by
  have : ¬ x ≥ 0 := by
    intro h; exact absurd hx (Int64.not_lt.mpr h)
  simp [convTo, hk, hs, this]

/-- narrowing keeps a representable value -/
theorem C03_narrow_int8 (x : Int64) (h1 : -128 ≤ x.toInt) (h2 : x.toInt ≤ 127) :
    narrowI .int8 x = x := by
  simp only [narrowI]
  apply Int64.toInt_inj.mp
  rw [Int8.toInt_toInt64, Int64.toInt_toInt8]
  exact Int.bmod_eq_of_le (by omega) (by omega)

theorem C03_narrow_int16 (x : Int64) (h1 : -32768 ≤ x.toInt) (h2 : x.toInt ≤ 32767) :
    narrowI .int16 x = x := by
  simp only [narrowI]
  apply Int64.toInt_inj.mp
  rw [Int16.toInt_toInt64, Int64.toInt_toInt16]
  exact Int.bmod_eq_of_le (by omega) (by omega)

theorem C03_narrow_int32 (x : Int64) (h1 : -2147483648 ≤ x.toInt) (h2 : x.toInt ≤ 2147483647) :
    narrowI .int32 x = x := by
  simp only [narrowI]
  apply Int64.toInt_inj.mp
  rw [Int32.toInt_toInt64, Int64.toInt_toInt32]
  exact Int.bmod_eq_of_le (by omega) (by omega)

theorem C03_narrow_uint8 (x : UInt64) (h : x.toNat < 256) : narrowU .uint8 x = x := by
  simp only [narrowU]
  apply UInt64.toNat_inj.mp
  rw [UInt8.toNat_toUInt64, UInt64.toNat_toUInt8]
  exact Nat.mod_eq_of_lt h

theorem C03_narrow_uint16 (x : UInt64) (h : x.toNat < 65536) : narrowU .uint16 x = x := by
  simp only [narrowU]
  apply UInt64.toNat_inj.mp
  rw [UInt16.toNat_toUInt64, UInt64.toNat_toUInt16]
  exact Nat.mod_eq_of_lt h

theorem C03_narrow_uint32 (x : UInt64) (h : x.toNat < 4294967296) : narrowU .uint32 x = x := by
  simp only [narrowU]
  apply UInt64.toNat_inj.mp
  rw [UInt32.toNat_toUInt64, UInt64.toNat_toUInt32]
  exact Nat.mod_eq_of_lt h

/-- arguments are passed positionally, each converted to the declared parameter kind -/
theorem C03_args_positional (k : K) (ks : List K) (v a : Val) (vs as : List Val)
    (hk : (k.isSigned || k.isUnsigned || k.isFloat) = true) (hc : castTo k v = some a)
    (hr : prepArgs ks vs = some as) : prepArgs (k :: ks) (v :: vs) = some (a :: as) := by
  simp [prepArgs, hk, hc, hr]

theorem C03_args_count (ks : List K) (vs as : List Val) (h : prepArgs ks vs = some as) :
    as.length = ks.length ∧ vs.length = ks.length := by
  induction ks generalizing vs as with
  | nil => cases vs <;> simp [prepArgs] at h; subst h; simp
  | cons k ks ih =>
    cases vs with
    | nil => simp [prepArgs] at h
    | cons v vs =>
      simp only [prepArgs] at h
      split at h
      · rename_i a rest _ hrest
        simp at h; subst h
        have := ih vs rest hrest
        simp [this.1, this.2]
      · simp at h

/-- the call yields the function's first result -/
theorem C03_call_result (env : Env) (name x y : String)
    (hl : env.lookupBase name = some (.func "cat")) :
    execFunc env name [.s x, .s y] = (.ok (.s (x ++ y)), env) := by
  simp [execFunc, hl, funcParams, prepArgs, applyFunc, K.isSigned, K.isUnsigned, K.isFloat, Val.kind]

/-- the zero value for a missing map key -/
theorem C03_missing_key_zero (env : Env) (l : Nat) (n s : String) (keyK elemK : K) (ptr : Bool)
    (entries : List (Val × Val)) (hn : splitDots n = [n])
    (hb : env.lookupBase n = some (.map ptr keyK elemK entries)) (hk : keyK = .string)
    (hm : entries.find? (fun p => valEq p.1 (.s s)) = none) :
    evalMapV env ⟨⟨l, 0⟩, n, .str s⟩ = .ok (zeroOf elemK) := by
  subst hk
  simp [evalMapV, getValue, hn, hb, Val.kind, hm]

end GV.Props.C03
