/-
  Goroutine hygiene of every fan-out site (supports C05 / C13: stage barriers; C18: conc blocks;
  C11: results filed under the right rule; C19), regenerated from engine/gengine.go,
  engine/gengine_pool.go and internal/base/conc_statement.go on every run.

  The WaitGroup transition systems (`GV.Orch.Sched`, C18's one-stage instance) assume that a
  spawned child signals `Done` exactly once, at its end, and works on its own rule / statement.
  These are the facts that make the code an instance.
-/
import GV.Generated.Conc
namespace GV.Props.Fanout
open GV.Generated.Conc

/-- No goroutine closure refers to a variable of an enclosing loop: the module is `go 1.13`, where a
    loop variable is one variable for all iterations, so a closure that captured it would run (or
    file its result under) whatever the loop has moved on to. -/
theorem no_loop_variable_captured : loopCaptures = [] := by decide

/-- `Done()` is only ever called from inside the goroutine it accounts for. -/
theorem done_only_in_goroutines : doneOutsideGo = [] := by decide

/-- The WaitGroup is raised only by the goroutine that later waits, before it spawns anything: an
    `Add` made by a spawned goroutine (a launcher counting the workers it starts) can come after
    the waiter has seen the counter at zero, and the block then ends before those workers have. -/
theorem add_only_before_spawn : addInsideGo = [] := by decide

/-- Every worker closure signals `Done` exactly once, as a top-level statement of the closure, not
    deferred and with no `return` in front of it; the four launcher closures of a conc block (which
    only start the workers of one kind of child) and the pool's hand-back goroutine signal none. -/
theorem closures_signal_once :
    closures = [
      ⟨"engine/gengine.go:ExecuteConcurrent$1", 1, false, false⟩,
      ⟨"engine/gengine.go:ExecuteMixModel$1", 1, false, false⟩,
      ⟨"engine/gengine.go:ExecuteMixModelWithStopTagDirect$1", 1, false, false⟩,
      ⟨"engine/gengine.go:ExecuteSelectedRulesConcurrent$1", 1, false, false⟩,
      ⟨"engine/gengine.go:ExecuteSelectedRulesMixModel$1", 1, false, false⟩,
      ⟨"engine/gengine.go:ExecuteInverseMixModel$1", 1, false, false⟩,
      ⟨"engine/gengine.go:ExecuteSelectedRulesInverseMixModel$1", 1, false, false⟩,
      ⟨"engine/gengine.go:ExecuteNSortMConcurrent$1", 1, false, false⟩,
      ⟨"engine/gengine.go:ExecuteNConcurrentMSort$1", 1, false, false⟩,
      ⟨"engine/gengine.go:ExecuteNConcurrentMConcurrent$1", 1, false, false⟩,
      ⟨"engine/gengine.go:ExecuteNConcurrentMConcurrent$2", 1, false, false⟩,
      ⟨"engine/gengine.go:ExecuteSelectedNSortMConcurrent$1", 1, false, false⟩,
      ⟨"engine/gengine.go:ExecuteSelectedNConcurrentMSort$1", 1, false, false⟩,
      ⟨"engine/gengine.go:ExecuteSelectedNConcurrentMConcurrent$1", 1, false, false⟩,
      ⟨"engine/gengine.go:ExecuteSelectedNConcurrentMConcurrent$2", 1, false, false⟩,
      ⟨"engine/gengine.go:ExecuteDAGModel$1", 1, false, false⟩,
      ⟨"engine/gengine_pool.go:putGengineLocked$1", 0, false, false⟩,
      ⟨"internal/base/conc_statement.go:Evaluate$1", 101, false, false⟩,
      ⟨"internal/base/conc_statement.go:Evaluate$2", 1, false, false⟩,
      ⟨"internal/base/conc_statement.go:Evaluate$3", 101, false, false⟩,
      ⟨"internal/base/conc_statement.go:Evaluate$4", 1, false, false⟩,
      ⟨"internal/base/conc_statement.go:Evaluate$5", 101, false, false⟩,
      ⟨"internal/base/conc_statement.go:Evaluate$6", 1, false, false⟩,
      ⟨"internal/base/conc_statement.go:Evaluate$7", 101, false, false⟩,
      ⟨"internal/base/conc_statement.go:Evaluate$8", 1, false, false⟩] := by decide

end GV.Props.Fanout
