/-
  C20 — Error messages point at the line of the construct that failed.

  Reference trees carry the line of each construct's first token; `lower*` copies it into the AST
  node (what the listener does: aspect `shape-pos` of the correspondence run compares the
  positions the real listener recorded with these), and the interpreter cites the node's own
  line (`rule_refines`, `lowerX_correct`).  The clauses below read the cited line off the
  reference semantics.
-/
import GV.Eval.RefStmtThm
import GV.Eval.Cites
import GV.Generated.Listener
namespace GV.Props.C20
open GV.Eval

/-- **General.** Whenever the error of a failed rule cites a line, it is the line of a construct
    of that rule — for every program, environment and primitives … -/
theorem C20_cited_line_is_a_construct (P : Params) (env : Env) (body : RBlock) (c : Nat)
    (h : (denoteRule P env body).cite = some c) : c ∈ body.lines := denoteRule_cites P env body c h

/-- … also for the interpreter run on the AST the listener builds -/
theorem C20_interpreter_cites (P : Params) (env : Env) (body : RBlock) (hw : body.WF = true) (c : Nat)
    (h : (ruleExecute P env (lowerB body)).cite = some c) : c ∈ body.lines := ruleExecute_cites P env body hw c h

/-- an error raised inside an expression cites a line of that expression -/
theorem C20_expression_cites (P : Params) (e : RE) (env : Env) (x : Bool) (c : Nat) (e' : Env)
    (h : denote P env x e = (.err (some c), e')) : c ∈ e.lines := denote_cites P e env x c e' h

/-- an assignment's own errors cite the assignment's line -/
theorem C20_assignment_cites (P : Params) (line : Nat) (var : String) (mapv : Option MapV) (aop : AsOp)
    (rhs : Res Val × Env) (c : Nat) (e' : Env) (h : assignCore P line var mapv aop rhs = (.err (some c), e')) :
    c = line ∨ ∃ e2, rhs = (.err (some c), e2) := assignCore_cite P line var mapv aop rhs c e' h

/-- every node of the lowered AST carries the line of the construct it was built from -/
def Expr.line : Expr → Nat | .mk p _ _ _ _ _ _ _ => p.line
def MathE.line : MathE → Nat | .mk p _ _ _ _ => p.line

theorem C20_expr_line (e : RE) : Expr.line (lowerX e) = e.line := by
  cases e with
  | not l a => cases a <;> simp [lowerX, Expr.line, RE.line, pos0]
  | paren l a => simp only [lowerX]; split <;> simp [Expr.line, RE.line, pos0]
  | _ => simp [lowerX, Expr.line, RE.line, pos0]

theorem C20_math_line (e : RE) : MathE.line (lowerM e) = e.line := by
  cases e <;> simp [lowerM, MathE.line, RE.line, pos0]

theorem C20_assign_line (a : RAssign) : (lowerAssign a).pos.line = a.line := rfl

/-- arithmetic faults cite the line of the arithmetic expression -/
theorem C20_arith_fault (P : Params) (env e1 e2 : Env) (x : Bool) (l : Nat) (op : AOp) (a b : RE) (p q : Val)
    (ha : denote P env false a = (.ok p, e1)) (hb : denote P e1 false b = (.ok q, e2))
    (hf : P.arith op p q = .err) : denote P env x (.ar l op a b) = (.err (some l), e2) := by
  cases x <;> simp [denote, ha, hb, hf, aritOut, nv, needValue]

/-- comparison type faults cite the line of the comparison -/
theorem C20_cmp_fault (P : Params) (env e1 e2 : Env) (x : Bool) (l : Nat) (op : COp) (a b : RE) (p q : Val)
    (ha : denote P env true a = (.ok p, e1)) (hb : denote P e1 true b = (.ok q, e2))
    (hf : P.cmp op p q = none) : denote P env x (.cmp l op a b) = (.err (some l), e2) := by
  simp [denote, ha, hb, hf]

/-- logic type faults cite the line of the `&&` / `||` expression -/
theorem C20_logic_fault (P : Params) (env e1 e2 : Env) (x : Bool) (l : Nat) (op : LOp) (a b : RE) (p q : Val)
    (ha : denote P env true a = (.ok p, e1)) (hb : denote P e1 true b = (.ok q, e2))
    (hf : p.bool? = none ∨ q.bool? = none) : denote P env x (.log l op a b) = (.err (some l), e2) := by
  simp only [denote, ha, hb]
  cases p <;> cases q <;> simp_all [Val.bool?]

/-- failing calls cite the line of the call: an error of the callee or of the lookup, and (with
    the recover the code installs) a panic inside it -/
theorem C20_call_error (P : Params) (kind : CallKind) (l : Nat) (name : String) (vs : List Val) (e1 e2 : Env)
    (c : Option Nat)
    (h : (match kind with | .func => execFunc e1 name vs | .method => execMethod e1 name vs | .three => execThree e1 name vs)
          = (.err c, e2)) :
    finishCall P kind l name (.ok vs, e1) = (.err (some l), e2) := by
  cases kind <;> simp only [finishCall] <;> simp only at h <;> first | rw [h] | simp_all

theorem C20_call_panic (P : Params) (hf : P.funcRecover = true) (hm : P.methodRecover = true) (ht : P.threeRecover = true)
    (kind : CallKind) (l : Nat) (name : String) (vs : List Val) (e1 e2 : Env)
    (h : (match kind with | .func => execFunc e1 name vs | .method => execMethod e1 name vs | .three => execThree e1 name vs)
          = (.panic, e2)) :
    finishCall P kind l name (.ok vs, e1) = (.err (some l), e2) := by
  cases kind <;> simp only [finishCall] <;> simp only at h <;> first | (rw [h]; simp [hf, hm, ht]) | simp_all

/-- failing assignments cite the line of the assignment: a fault while storing (unknown or
    unassignable target, conversion fault), or any uncited fault (panic) in its right-hand side -/
theorem C20_assign_rhs_panic (P : Params) (hr : P.assignRecover = true) (line : Nat) (var : String)
    (mapv : Option MapV) (aop : AsOp) (e : Env) :
    assignCore P line var mapv aop (.panic, e) = (.err (some line), e) := by
  simp [assignCore, hr]

theorem C20_assign_store_error (P : Params) (line : Nat) (var : String) (hv : var ≠ "") (v : Val) (e : Env)
    (c : Option Nat) (h : setValue e var v = .err c) :
    assignCore P line var none .set (.ok v, e) = (.err (some line), e) := by
  simp [assignCore, assignNew, assignStore, hv, h]

/-- an error raised inside the right-hand side keeps the line it cited (the innermost failing
    construct), the assignment does not overwrite it -/
theorem C20_assign_keeps_inner (P : Params) (line : Nat) (var : String) (mapv : Option MapV) (aop : AsOp)
    (e : Env) (c : Option Nat) :
    assignCore P line var mapv aop (.err c, e) = (.err c, e) := by
  simp [assignCore]

/-- Every position the listener records in a node — for assignments, expressions, arithmetic
    expressions, atoms, the three kinds of call, element accesses, `for` and `forRange` — is the line
    and column of the construct's FIRST token (`ctx.GetStart()`), regenerated from
    internal/iparser/gengine_parser_listener.go on every run: this is what `lower*` assumes when it
    copies the line of a reference tree's first token into the node. -/
theorem C20_positions_from_start_token :
    GV.Generated.Listener.positions.all (fun p =>
      (p.2.1 == "LineNum" && p.2.2 == "ctx.GetStart().GetLine()") ||
      (p.2.1 == "Column" && p.2.2 == "ctx.GetStart().GetColumn()")) = true := by decide

theorem C20_positioned_constructs :
    (GV.Generated.Listener.positions.filter (fun p => p.2.1 == "LineNum")).map (·.1) =
      ["ExitAssignment", "ExitExpression", "ExitExpressionAtom", "ExitForRangeStmt", "ExitForStmt", "ExitFunctionCall",
       "ExitMapVar", "ExitMathExpression", "ExitMethodCall", "ExitThreeLevelCall"] := by decide

end GV.Props.C20
