/-
  C01, first clause — text to tree: `*` `/` bind tighter than `+` `-`, arithmetic tighter than
  comparison, comparison tighter than `&&` / `||` (one level), every binary operator associates to
  the left, parentheses override.

  The model (`GV.Eval.Parse`) is ANTLR's precedence-climbing form of the two left-recursive rules,
  over tokens in which an atom is one token.  Its precedence table is regenerated on every run
  from the generated parser; the theorems below are about that table.  That the model reads token
  strings like the real parser — on arbitrary bracketings, also redundant ones, and on strings it
  should reject — is the correspondence run `eval/parse`.
-/
import GV.Eval.ParseThm
import GV.Eval.ParseSound
import GV.Eval.GrammarTab
import GV.Eval.LowerThm
namespace GV.Props.C01p
open GV.Eval GV.Eval.GrammarIR

/-- The two rules of the generated parser (internal/iantlr/alr/gengine_parser.go), translated on
    every run, have the shape the model is written for: primaries, operator alternatives,
    precedence predicates and the levels of the recursive calls. -/
theorem C01_parser_regenerated :
    GV.Generated.Grammar.expression = expectedExpression ∧ GV.Generated.Grammar.mathExpression = expectedMath := by
  decide

/-- The precedence table read off the generated parser is the one the language asks for … -/
theorem C01_precedence_table : genTab = refTab := by decide

/-- … and the one ANTLR's numbering assigns to the alternatives of the grammar file as it is now
    (internal/iantlr/gengine.g4): grammar and generated parser agree. -/
theorem C01_grammar_file_agrees :
    tabOfG4 GV.Generated.Grammar.expressionAlts GV.Generated.Grammar.mathExpressionAlts = genTab := by decide

theorem C01_left_assoc : genTab.LeftAssoc := by decide

/-- **Round trip.**  Every tree that carries brackets exactly where an operand binds looser than
    its operator (or, on the right, as loosely) is what the parser reads from the tree's tokens —
    any shape, depth and bracketing, redundant brackets included. -/
theorem C01_parse_roundtrip (t : RE) (hc : Canon refTab t = true) : parseTop genTab (render t) = some t := by
  rw [C01_precedence_table]; exact parseTop_render refTab (by decide) t hc

/-- **Converse.**  Whatever the parser reads from a token string is a canonical tree whose tokens
    are that string: no accepted text is read against the precedence rules. -/
theorem C01_parse_sound (ts : List Tok) (hw : ToksWF ts) (t : RE) (h : parseTop genTab ts = some t) :
    render t = ts ∧ Canon refTab t = true := by
  rw [C01_precedence_table] at h; exact parseTop_sound refTab (by decide) ts hw t h

/-- The accepted token strings are exactly the token strings of canonical trees … -/
theorem C01_accepts_iff (ts : List Tok) (hw : ToksWF ts) (t : RE) :
    parseTop genTab ts = some t ↔ (render t = ts ∧ Canon refTab t = true) := by
  rw [C01_precedence_table]; exact parseTop_iff refTab (by decide) ts hw t

/-- … and no text has two readings. -/
theorem C01_unique_reading (t u : RE) (ht : Canon refTab t = true) (hu : Canon refTab u = true)
    (h : render t = render u) : t = u := render_injective refTab (by decide) t u ht hu h

/-- Text to value: the interpreter, run on what the listener builds from what the parser reads,
    computes the reference meaning of the tree. -/
theorem C01_text_to_value (P : Params) (env : Env) (t : RE) (hc : Canon refTab t = true) (hw : t.WF = true) :
    (parseTop genTab (render t)).map (fun t' => evalExpr P env (lowerX t')) = some (denote P env true t) := by
  rw [C01_parse_roundtrip t hc]; simp [lowerX_correct P env t hw]

/-! What `Canon refTab` asks, spelled out for each operator class. -/

/-- operands of `*` `/`: a `+` `-` node needs brackets on either side, a `*` `/` node on the right -/
theorem C01_canon_md (l : Nat) (op : AOp) (a b : RE) (h : op.isMd = true) :
    Canon refTab (.ar l op a b) = (a.isMath && b.isMath && decide (4 ≤ lvlM refTab a) && decide (5 ≤ lvlM refTab b) &&
      decide (l = a.line) && Canon refTab a && Canon refTab b) := by
  simp only [Canon, PrecTab.arP, PrecTab.arR, h, if_true]
  rfl

/-- operands of `+` `-`: on the left anything arithmetic, on the right no bare `+` `-` node -/
theorem C01_canon_pm (l : Nat) (op : AOp) (a b : RE) (h : op.isMd = false) :
    Canon refTab (.ar l op a b) = (a.isMath && b.isMath && decide (3 ≤ lvlM refTab a) && decide (4 ≤ lvlM refTab b) &&
      decide (l = a.line) && Canon refTab a && Canon refTab b) := by
  simp only [Canon, PrecTab.arP, PrecTab.arR, h, Bool.false_eq_true, if_false]
  rfl

theorem C01_levels :
    (∀ l a b, lvlM refTab (.ar l .mul a b) = 4 ∧ lvlM refTab (.ar l .div a b) = 4 ∧
              lvlM refTab (.ar l .add a b) = 3 ∧ lvlM refTab (.ar l .sub a b) = 3) ∧
    (∀ l op a b, lvlX refTab (.cmp l op a b) = 4 ∧ lvlX refTab (.log l .and a b) = 3 ∧ lvlX refTab (.log l .or a b) = 3) ∧
    (∀ l e, lvlM refTab (.paren l e) = refTab.top ∧ lvlX refTab (.paren l e) = refTab.top ∧ 5 ≤ refTab.top) := by
  refine ⟨fun _ _ _ => ⟨rfl, rfl, rfl, rfl⟩, fun _ _ _ _ => ⟨rfl, rfl, rfl⟩, fun _ _ => ⟨rfl, rfl, by decide⟩⟩

/-! The sentences of the property on the smallest texts that tell them apart (x, y, z, w: any atoms). -/

/-- `*` `/` bind tighter than `+` `-` -/
theorem C01_mul_over_add (x y z : RE) :
    parseTop genTab [.atom x, .ar .add, .atom y, .ar .mul, .atom z] = some (.ar x.line .add x (.ar y.line .mul y z)) ∧
    parseTop genTab [.atom x, .ar .div, .atom y, .ar .sub, .atom z] = some (.ar x.line .sub (.ar x.line .div x y) z) := by
  rw [C01_precedence_table]; exact ⟨rfl, rfl⟩

/-- every binary operator associates to the left -/
theorem C01_left_associative (x y z : RE) :
    parseTop genTab [.atom x, .ar .sub, .atom y, .ar .sub, .atom z] = some (.ar x.line .sub (.ar x.line .sub x y) z) ∧
    parseTop genTab [.atom x, .ar .div, .atom y, .ar .mul, .atom z] = some (.ar x.line .mul (.ar x.line .div x y) z) ∧
    parseTop genTab [.atom x, .cmp .lt, .atom y, .cmp .eq, .atom z] = some (.cmp x.line .eq (.cmp x.line .lt x y) z) ∧
    parseTop genTab [.atom x, .log .and, .atom y, .log .and, .atom z] = some (.log x.line .and (.log x.line .and x y) z) := by
  rw [C01_precedence_table]; exact ⟨rfl, rfl, rfl, rfl⟩

/-- `&&` and `||` share one level: whichever comes first is applied first -/
theorem C01_and_or_one_level (x y z : RE) :
    parseTop genTab [.atom x, .log .or, .atom y, .log .and, .atom z] = some (.log x.line .and (.log x.line .or x y) z) ∧
    parseTop genTab [.atom x, .log .and, .atom y, .log .or, .atom z] = some (.log x.line .or (.log x.line .and x y) z) := by
  rw [C01_precedence_table]; exact ⟨rfl, rfl⟩

/-- arithmetic binds tighter than comparison, comparison tighter than `&&` / `||` -/
theorem C01_arith_cmp_logic (x y z w : RE) :
    parseTop genTab [.atom x, .ar .add, .atom y, .cmp .gt, .atom z, .ar .mul, .atom w] =
      some (.cmp x.line .gt (.ar x.line .add x y) (.ar z.line .mul z w)) ∧
    parseTop genTab [.atom x, .cmp .gt, .atom y, .log .and, .atom z, .cmp .le, .atom w] =
      some (.log x.line .and (.cmp x.line .gt x y) (.cmp z.line .le z w)) ∧
    parseTop genTab [.atom x, .log .or, .atom y, .cmp .ne, .atom z, .ar .sub, .atom w] =
      some (.log x.line .or x (.cmp y.line .ne y (.ar z.line .sub z w))) := by
  rw [C01_precedence_table]; exact ⟨rfl, rfl, rfl⟩

/-- parentheses override, at both levels; `!` applies to the atom or bracket that follows it -/
theorem C01_parentheses_override (x y z : RE) (l l' : Nat) :
    parseTop genTab [.lp l, .atom x, .ar .add, .atom y, .rp, .ar .mul, .atom z] =
      some (.ar l .mul (.paren l (.ar x.line .add x y)) z) ∧
    parseTop genTab [.atom x, .ar .sub, .lp l, .atom y, .ar .sub, .atom z, .rp] =
      some (.ar x.line .sub x (.paren l (.ar y.line .sub y z))) ∧
    parseTop genTab [.atom x, .log .and, .lp l, .atom y, .log .or, .atom z, .rp] =
      some (.log x.line .and x (.paren l (.log y.line .or y z))) ∧
    parseTop genTab [.not l, .atom x, .log .and, .atom y] = some (.log l .and (.not l x) y) ∧
    parseTop genTab [.not l, .lp l', .atom x, .log .and, .atom y, .rp] = some (.not l (.paren l' (.log x.line .and x y))) := by
  rw [C01_precedence_table]; exact ⟨rfl, rfl, rfl, rfl, rfl⟩

/-- what is not an expression is rejected: a dangling operator, an unbalanced bracket, two atoms
    in a row, `!` in front of an operator -/
theorem C01_rejects (x y : RE) (l : Nat) :
    parseTop genTab [.atom x, .ar .add] = none ∧ parseTop genTab [.lp l, .atom x] = none ∧
    parseTop genTab [.atom x, .atom y] = none ∧ parseTop genTab [.atom x, .rp] = none ∧
    parseTop genTab [.not l, .cmp .gt, .atom x] = none ∧
    parseTop genTab [.lp l, .atom x, .cmp .gt, .atom y, .rp, .ar .add, .atom x] = none := by
  rw [C01_precedence_table]; exact ⟨rfl, rfl, rfl, rfl, rfl, rfl⟩

/-- Non-vacuity: `(1 + 2) * 3 - 4 / 2 > 6 && !(p || q)` is canonical, and its reading is that tree. -/
example :
    let one : RE := .lit 1 (.i .int64 1)
    let t : RE := .log 1 .and
      (.cmp 1 .gt (.ar 1 .sub (.ar 1 .mul (.paren 1 (.ar 1 .add one one)) one) (.ar 1 .div one one)) one)
      (.not 1 (.paren 1 (.log 1 .or (.var 1 "p") (.var 1 "q"))))
    Canon refTab t = true ∧ t.WF = true := by decide

end GV.Props.C01p
