/-
  C06 — Pool requests are isolated from each other.

  (1) one holder per engine instance and its private data context, request keys present only
      while their request holds the instance (GV.Pool.Cap, every interleaving);
  (2) each execute call starts from a fresh result map and writes exactly the results of the
      rules it ran (C11's theorem over the regenerated skeletons), so the map handed back holds
      only values computed by that request on that instance;
  (3) regenerated facts: every pool method deletes exactly the keys it injected, in the deferred
      clean-up, before the instance is handed back.
  The rule bodies' reads and writes go through the instance's private data context (C03 / C15).
-/
import GV.Pool.Cap
import GV.Generated.Pool
import GV.Props.C11
namespace GV.Props.C06
open GV.Pool.Cap

/-- a wrapper's data context holds the request keys of its current holder only -/
theorem C06_keys_owner {min max : Nat} (h : min ≤ max) {s : CSt} (hr : Reach min max s) (t c : Nat) :
    (t, c) ∈ s.keys ↔ (c, t) ∈ s.held := keys_owner h hr t c

/-- once a call has returned (its instance is idle or on its way back) none of the data it
    injected is visible to any later request -/
theorem C06_idle_clean {min max : Nat} (h : min ≤ max) {s : CSt} (hr : Reach min max s) (t : Nat)
    (hidle : t ∈ s.free ∨ t ∈ s.add ∨ t ∈ s.pend) (c : Nat) : (t, c) ∉ s.keys := idle_wrapper_clean h hr t hidle c

theorem C06_one_holder {min max : Nat} (h : min ≤ max) {s : CSt} (hr : Reach min max s) (c1 c2 t : Nat)
    (h1 : (c1, t) ∈ s.held) (h2 : (c2, t) ∈ s.held) : c1 = c2 := one_holder h hr c1 c2 t h1 h2

/-- every engine execution method allocates a fresh result map before running anything (so a map
    handed back earlier is never written again) and writes exactly what its rules returned -/
theorem C06_fresh_result_map (name : String) (sk : GV.Orch.Skel) (hm : (name, sk) ∈ GV.Generated.Orch.all) :
    GV.Orch.ResultsWF sk = true := GV.Props.C11.wf_all _ hm

open GV.Generated.Pool
theorem C06_keys_deleted : methods.all PoolMethod.WF = true := by decide

end GV.Props.C06
