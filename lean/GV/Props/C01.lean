/-
  C01 — Expressions evaluate per the DSL's arithmetic, comparison and logic semantics.

  Layers: (a) the primitives of the code (`goArith`: the interpreter of internal/core/math.go's
  decision table, regenerated from the source on every run; `goCmp`: hand-written model of the
  comparison block of Expression.Evaluate; both tied by the correspondence runs) equal the
  reference primitives for all operand values of all kinds; (b) the interpreter run on the AST
  shape the listener builds (`lowerX`) computes the reference meaning `denote` of the tree — for
  every tree, every environment, and arbitrary primitives.  Text -> tree (precedence,
  associativity, parentheses) is ANTLR's generated parser: the correspondence run renders
  reference trees with minimal parentheses and compares the AST the real listener builds with
  `lowerX` of the tree (aspect `shape`).
-/
import GV.Eval.ValThm
import GV.Eval.LowerThm
import GV.Eval.FactsParams
import GV.Generated.Math
import GV.Generated.Listener
import GV.Generated.Cmp
namespace GV.Props.C01
open GV.Eval

/-- Arithmetic: for all operand values of all kinds `core.Add/Sub/Mul/Div` (a panic turned into
    an error by the enclosing recover) compute the reference semantics. -/
theorem C01_arith (op : AOp) (a b : Val) (ha : a.WK = true) (hb : b.WK = true) :
    (goArith op a b).recovered = refArith op a b := arith_correct op a b ha hb

/-- internal/core/math.go, translated to a table on every run, is the table `goArith` interprets
    (string concatenation case, zero-divisor guards, the nine kind-prefix rows of each of Add, Sub,
    Mul, Div with their operand conversions) -/
theorem C01_math_go_regenerated : GV.Generated.Math.tables = MathIR.expected := by decide

/-- … so the arithmetic theorem is about the code as it is now -/
theorem C01_arith_regenerated (op : AOp) (a b : Val) (ha : a.WK = true) (hb : b.WK = true) :
    (MathIR.tblArith GV.Generated.Math.tables op a b).recovered = refArith op a b := by
  rw [C01_math_go_regenerated]
  exact arith_correct op a b ha hb

/-- Comparison: the comparison block computes the reference semantics (`none`: error). -/
theorem C01_cmp (op : COp) (a b : Val) (ha : a.WK = true) (hb : b.WK = true) :
    goCmp op a b = refCmp op a b := cmp_correct op a b ha hb

/-- Integer comparisons are exact over the whole signed and unsigned 64-bit ranges. -/
theorem C01_int_cmp_exact (x y : NumClass) (p q : Int) (hx : x.toInt? = some p) (hy : y.toInt? = some q) :
    goCmpInt x y = cmpInt p q := goCmpInt_exact x y p q hx hy

/-- Expression trees: operand order, `!`, parentheses, the arithmetic / expression split, call
    arguments — the interpreter on the listener's shape computes the reference meaning. -/
theorem C01_expression (P : Params) (env : Env) (e : RE) (hw : e.WF = true) :
    evalExpr P env (lowerX e) = denote P env true e := lowerX_correct P env e hw

theorem C01_math (P : Params) (env : Env) (e : RE) (hm : e.isMath = true) (hw : e.WF = true) :
    evalMath P env (lowerM e) = denote P env false e := lowerM_correct P env e hm hw

/-- **End to end.** On every well-kinded environment the meaning of a well-formed expression
    with the CODE's arithmetic and comparison and with the REFERENCE primitives agree: same
    environment afterwards, same value — or both fail (never a value on one side only). -/
theorem C01_end_to_end (P : Params) (ha : P.arith = goArith) (hc : P.cmp = goCmp) (e : RE) (hl : e.LitWK = true)
    (env : Env) (x : Bool) (he : EnvWK env) :
    SimGood (denote P env x e) (denote { P with arith := refArith, cmp := refCmp } env x e) :=
  denote_sim P _ (rel_go_ref P ha hc) e hl env x he

/-- … hence the interpreter on the listener's AST shape computes the reference value -/
theorem C01_interpreter_reference (P : Params) (ha : P.arith = goArith) (hc : P.cmp = goCmp) (e : RE)
    (hw : e.WF = true) (hl : e.LitWK = true) (env : Env) (he : EnvWK env) :
    SimGood (evalExpr P env (lowerX e)) (denote { P with arith := refArith, cmp := refCmp } env true e) := by
  rw [lowerX_correct P env e hw]
  exact C01_end_to_end P ha hc e hl env true he

/-- every value the data layer hands to the primitives is well kinded (what `C01_arith` and
    `C01_cmp` ask of their operands) -/
theorem C01_operands_well_kinded (env : Env) (he : EnvWK env) (n : String) (v : Val) (h : getValue env n = .ok v) :
    v.WK = true := getValue_wk env he n v h

/-! Clauses of the statement, read off the reference semantics. -/

/-- 64-bit wrapping integer arithmetic with truncating division. -/
theorem C01_int_wraps (op : AOp) (k k' : K) (x y : Int64) (h : ¬ (op = .div ∧ y = 0)) :
    refArith op (.i k x) (.i k' y) = .ok (.i .int64 (op.i64 x y)) := by
  unfold refArith
  cases op <;> simp_all [Val.num?, NumClass.isZero]

/-- a float operand promotes the operation to float64 -/
theorem C01_float_promotes (op : AOp) (k k' : K) (x : Int64) (y : Float) (h : ¬ (op = .div ∧ (y == 0.0) = true)) :
    refArith op (.i k x) (.f k' y) = .ok (.f .float64 (op.flt x.toFloat y)) := by
  unfold refArith
  cases op <;> simp_all [Val.num?, NumClass.isZero, NumClass.toFloat]

/-- `+` concatenates strings; no other operator accepts them -/
theorem C01_string_concat (x y : String) : refArith .add (.s x) (.s y) = .ok (.s (x ++ y)) := rfl
theorem C01_string_only_add (op : AOp) (x y : String) (h : op ≠ .add) : refArith op (.s x) (.s y) = .err := by
  cases op <;> simp_all [refArith]

/-- division by zero never yields a value -/
theorem C01_div_zero (a : Val) (k : K) : refArith .div a (.i k 0) = .err := by
  unfold refArith
  cases a <;> simp [Val.num?, NumClass.isZero]

/-- an ill-typed operation never yields a value -/
theorem C01_bool_arith (op : AOp) (p : Bool) (b : Val) : refArith op (.b p) b = .err := by
  unfold refArith; cases b <;> simp [Val.num?]

/-- `!` negates booleans -/
theorem C01_not (P : Params) (env : Env) (l l' : Nat) (n : String) (p : Bool)
    (h : getValue env n = .ok (.b p)) :
    (denote P env true (.not l (.var l' n))).1 = .ok (.b (!p)) := by
  simp [denote, nv, h, notOf]

/-- both operands of a binary operator are evaluated, left one first, and a failing left operand
    ends the evaluation -/
theorem C01_left_first (P : Params) (env : Env) (l : Nat) (op : COp) (a b : RE) (c : Option Nat) (e1 : Env)
    (h : denote P env true a = (.err c, e1)) : denote P env true (.cmp l op a b) = (.err c, e1) := by
  simp [denote, h]

/-- Non-vacuity: `1 + 2 * 3 > 6 && !false` is well-formed and evaluates to true. -/
example :
    let e : RE := .log 1 .and (.cmp 1 .gt (.ar 1 .add (.lit 1 (.i .int64 1)) (.ar 1 .mul (.lit 1 (.i .int64 2)) (.lit 1 (.i .int64 3)))) (.lit 1 (.i .int64 6)))
      (.not 1 (.lit 1 (.b false)))
    e.WF = true := by decide

/-- The comparison and logical blocks of `Expression.Evaluate`, translated on every run: the operator
    tables of the three operand classes (for numbers as the set of three-way outcomes each operator
    accepts, computed from the source's predicate on `c`), the float three-way switch, the dispatch
    between the float and the exact integer path, `compareIntegers` / `toFloat64` / the kind predicates
    case by case, and the statements of the `&&` / `||` block (both operands evaluated, then
    combined) are the ones `goCmp` and the interpreter's logical case were written from. -/
theorem C01_cmp_regenerated : GV.Generated.Cmp.tables = CmpIR.expected := by rfl

/-- … and the model's operator semantics (`COp.holds` over the three-way outcome) is what those
    tables say, for every operator and outcome, numbers and strings alike. -/
theorem C01_cmp_operator_tables (op : COp) (o : Ord3) :
    CmpIR.numHolds GV.Generated.Cmp.tables op o = some (op.holds o) ∧
    CmpIR.strHolds GV.Generated.Cmp.tables op o = some (op.holds o) ∧
    CmpIR.boolOps GV.Generated.Cmp.tables = ["==", "!="] := by
  rw [C01_cmp_regenerated]
  exact ⟨CmpIR.numHolds_expected op o, CmpIR.strHolds_expected op o, CmpIR.boolOps_expected⟩

/-- `@name`, `@desc` and `@sal` are the enclosing rule's own: the listener clears what it remembers
    of the previous rule's header when it enters a rule (regenerated from `EnterRuleEntity`), so a rule
    without a description or salience clause reads the empty string and 0, not its predecessor's. -/
theorem C01_rule_header_reset :
    GV.Generated.Listener.ruleEntityResets = ["g.ruleDescription = \"\"", "g.ruleName = \"\"", "g.salience = 0"] := by decide

end GV.Props.C01
