/-
  C13 — DAG model: layers are barriers, unknown names skipped, failure stops the rest.
-/
import GV.Orch.Conf.ExecuteDAGModel
import GV.Orch.Sched
namespace GV.Props.C13
open GV.Orch GV.Generated.Orch

theorem C13_ExecuteDAGModel : Conforms ExecuteDAGModel .ExecuteDAGModel := All.conf_ExecuteDAGModel

/-- Layers are barriers, under every interleaving inside a layer. -/
theorem C13_layers {stages : List (List Name)} {s : Sched.LSt} (h : Sched.Reach stages s)
    (hfin : s.idx = stages.length) : ∃ segs, s.hist = segs.flatten ∧ Sched.SegsOk stages segs :=
  Sched.barrier h hfin

/-- Each named existing rule of a layer runs once per occurrence; unknown names are skipped. -/
theorem layer_rules (cfg : Cfg) (layer : List Name) (rest : List (List Name)) :
    ∃ tail, dagFamily cfg (layer :: rest) = parStage (layer.filterMap (lookupRule cfg.entities)) ++ tail := by
  unfold dagFamily
  simp only []
  split
  · exact ⟨[], by simp⟩
  · exact ⟨_, rfl⟩

/-- If any rule of a layer fails no later layer starts. -/
theorem failure_stops (cfg : Cfg) (layer : List Name) (rest : List (List Name))
    (h : (layer.filterMap (lookupRule cfg.entities)).any (fails cfg) = true) :
    dagFamily cfg (layer :: rest) = parStage (layer.filterMap (lookupRule cfg.entities)) := by
  simp [dagFamily, h]

theorem no_failure_continues (cfg : Cfg) (layer : List Name) (rest : List (List Name))
    (h : (layer.filterMap (lookupRule cfg.entities)).any (fails cfg) = false) :
    dagFamily cfg (layer :: rest) =
      parStage (layer.filterMap (lookupRule cfg.entities)) ++ dagFamily cfg rest := by
  simp [dagFamily, h]

/-- The call returns an error iff some executed rule failed. -/
theorem err_iff (cfg : Cfg) (hrb : cfg.rbNil = false) :
    (expect .ExecuteDAGModel cfg).err = (dagFamily cfg cfg.dag).flatten.any (fails cfg) := by
  simp [expect, spec, hrb]

end GV.Props.C13
