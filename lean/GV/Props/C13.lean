import GV.Orch.Spec
namespace GV.Props.C13
end GV.Props.C13
