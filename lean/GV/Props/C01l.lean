/-
  C01 (token level): theorems about the lexer model GV.Eval.Lex.
-/
import GV.Eval.Lex
namespace GV.Props.C01l
open GV.Eval.Lex

/-- One step consumes a non-empty prefix of the input and leaves the rest untouched. -/
theorem lexOne_split {cs : List Char} {t : Tok} {r : List Char} (h : lexOne cs = some (t, r)) :
    t.text ++ r = cs ∧ t.text ≠ [] ∧ r.length < cs.length := by
  unfold lexOne at h
  split at h
  · rename_i k n _
    split at h
    · rename_i hg
      simp only [Option.some.injEq, Prod.mk.injEq] at h
      obtain ⟨rfl, rfl⟩ := h
      refine ⟨List.take_append_drop n cs, ?_, ?_⟩
      · intro he
        have := congrArg List.length he
        simp only [List.length_take, List.length_nil] at this
        omega
      · simp only [List.length_drop]; omega
    · cases h
  · cases h

/-- Lexing loses, invents and reorders nothing: the texts of all items (tokens, white space and
    comments) followed by the unread remainder are the input, for every fuel. -/
theorem lexFuel_partition (f : Nat) (cs : List Char) :
    ((lexFuel f cs).1.map Tok.text).flatten ++ (lexFuel f cs).2 = cs := by
  induction f generalizing cs with
  | zero => simp [lexFuel]
  | succ f ih =>
    cases cs with
    | nil => simp [lexFuel]
    | cons c cs =>
      simp only [lexFuel]
      cases h : lexOne (c :: cs) with
      | none => simp
      | some p =>
        obtain ⟨t, r⟩ := p
        have hs := lexOne_split h
        have := ih r
        simp only [List.map_cons, List.flatten_cons, List.append_assoc]
        rw [this]; exact hs.1

/-- The fuel `lexAll` uses is enough: it stops only at the end of the text or at a position where no
    token starts (a token recognition error). -/
theorem lexFuel_stops (f : Nat) (cs : List Char) (hf : cs.length ≤ f) :
    (lexFuel f cs).2 = [] ∨ lexOne (lexFuel f cs).2 = none := by
  induction f generalizing cs with
  | zero =>
    have : cs = [] := List.eq_nil_of_length_eq_zero (by omega)
    subst this; simp [lexFuel]
  | succ f ih =>
    cases cs with
    | nil => simp [lexFuel]
    | cons c cs =>
      simp only [lexFuel]
      cases h : lexOne (c :: cs) with
      | none => right; simpa using h
      | some p =>
        obtain ⟨t, r⟩ := p
        have hs := lexOne_split h
        have hr : r.length ≤ f := by simp at hf; have := hs.2.2; simp at this; omega
        simpa using ih r hr

/-- **C01 (token level), partition.** A text the lexer accepts is exactly the concatenation of its
    items: every character belongs to exactly one token, white-space run or comment, in order. -/
theorem C01_lex_partition (cs : List Char) (h : lexOk cs = true) :
    ((lexAll cs).1.map Tok.text).flatten = cs := by
  have := lexFuel_partition cs.length cs
  unfold lexOk at h
  have h2 : (lexAll cs).2 = [] := by simpa using h
  unfold lexAll at h2 ⊢
  rw [h2] at this; simpa using this

/-- **C01 (token level), errors.** A text the lexer rejects has a position, after the items read so
    far, at which no token rule matches. -/
theorem C01_lex_reject (cs : List Char) (h : lexOk cs = false) :
    ∃ rest, rest ≠ [] ∧ lexOne rest = none ∧ ((lexAll cs).1.map Tok.text).flatten ++ rest = cs := by
  refine ⟨(lexAll cs).2, ?_, ?_, lexFuel_partition _ _⟩
  · intro he; simp [lexOk, he] at h
  · rcases lexFuel_stops cs.length cs (Nat.le_refl _) with h1 | h1
    · simp [lexOk, lexAll, h1] at h
    · exact h1

/-! ### Maximal munch for the open-ended token classes -/

theorem takeWhile_append_stop (p : Char → Bool) (n rest : List Char) (hn : ∀ c ∈ n, p c = true)
    (hr : ∀ c r, rest = c :: r → p c = false) : (n ++ rest).takeWhile p = n := by
  induction n with
  | nil =>
    cases rest with
    | nil => rfl
    | cons c r => simp [hr c r rfl]
  | cons a n ih =>
    have ha := hn a (by simp)
    simp only [List.cons_append, List.takeWhile_cons, ha, ite_true]
    rw [ih (fun c hc => hn c (by simp [hc]))]

theorem lexLen_name (c : Char) (t : List Char) (hc : isNameStart c = true) (hws : isWs c = false) :
    lexLen (c :: t) = some (lexName (c :: t)) := by
  simp [lexLen, hc, hws]

theorem lexLen_digit (c : Char) (t : List Char) (hc : c.isDigit = true) (hns : isNameStart c = false)
    (hws : isWs c = false) : lexLen (c :: t) = some (lexNumber (c :: t)) := by
  simp [lexLen, hc, hws, hns]

/-- A name followed by something that neither continues it nor starts a dotted part is one token:
    the keyword its lower-cased spelling names, otherwise SIMPLENAME. -/
theorem C01_lex_name (c : Char) (n rest : List Char) (hc : isNameStart c = true) (hws : isWs c = false)
    (hn : ∀ d ∈ c :: n, isNameChar d = true)
    (hr : ∀ d r, rest = d :: r → isNameChar d = false ∧ d ≠ '.') :
    lexOne (c :: n ++ rest) = some (⟨kwOf (c :: n), c :: n⟩, rest) := by
  have htw : ((c :: n) ++ rest).takeWhile isNameChar = c :: n :=
    takeWhile_append_stop _ _ _ hn (fun d r h => (hr d r h).1)
  have hlen : nameLen (c :: n ++ rest) = (c :: n).length := by
    unfold nameLen; rw [htw]
  have hdrop : (c :: n ++ rest).drop (c :: n).length = rest := by
    exact List.drop_left
  have htake : (c :: n ++ rest).take (c :: n).length = c :: n := by
    exact List.take_left
  have hname : lexName (c :: n ++ rest) = (kwOf (c :: n), (c :: n).length) := by
    unfold lexName
    simp only [hlen, hdrop, htake]
    split
    · exact absurd rfl (hr _ _ rfl).2
    · rfl
  unfold lexOne
  rw [show c :: n ++ rest = c :: (n ++ rest) from rfl, lexLen_name c _ hc hws,
      show c :: (n ++ rest) = c :: n ++ rest from rfl, hname]
  simp only []
  have hpos : 0 < (c :: n).length ∧ (c :: n).length ≤ (c :: n ++ rest).length := by
    simp
  rw [if_pos hpos, htake, hdrop]

/-- A digit string followed by something that is not a digit, a point or an exponent letter is one INT
    token - in particular a sign is never part of it (the parser's `integer : MINUS? INT`). -/
theorem C01_lex_int (c : Char) (n rest : List Char) (hn : ∀ d ∈ c :: n, d.isDigit = true)
    (hr : ∀ d r, rest = d :: r → d.isDigit = false ∧ d ≠ '.' ∧ d ≠ 'e' ∧ d ≠ 'E') :
    lexOne (c :: n ++ rest) = some (⟨.int, c :: n⟩, rest) := by
  have hc : c.isDigit = true := hn c (by simp)
  have hws : isWs c = false := by
    unfold isWs; unfold Char.isDigit at hc
    simp only [Bool.and_eq_true, decide_eq_true_eq] at hc
    have h1 : c ≠ ' ' := by intro h; subst h; revert hc; decide
    have h2 : c ≠ '\t' := by intro h; subst h; revert hc; decide
    have h3 : c ≠ '\n' := by intro h; subst h; revert hc; decide
    have h4 : c ≠ '\r' := by intro h; subst h; revert hc; decide
    simp [h1, h2, h3, h4]
  have hns : isNameStart c = false := by
    unfold Char.isDigit at hc
    simp only [Bool.and_eq_true, decide_eq_true_eq] at hc
    cases h : isNameStart c with
    | false => rfl
    | true =>
      exfalso
      unfold isNameStart Char.isAlpha at h
      simp only [Bool.or_eq_true] at h
      rcases h with (h | h) | h
      · unfold Char.isUpper at h
        simp only [Bool.and_eq_true, decide_eq_true_eq] at h
        exact absurd (UInt32.le_trans h.1 hc.2) (by decide)
      · unfold Char.isLower at h
        simp only [Bool.and_eq_true, decide_eq_true_eq] at h
        exact absurd (UInt32.le_trans h.1 hc.2) (by decide)
      · have : c = '_' := by simpa using h
        subst this; revert hc; decide
  have htw : ((c :: n) ++ rest).takeWhile Char.isDigit = c :: n :=
    takeWhile_append_stop _ _ _ hn (fun d r h => (hr d r h).1)
  have hlen : digitsLen (c :: n ++ rest) = (c :: n).length := by
    unfold digitsLen; rw [htw]
  have hdrop : (c :: n ++ rest).drop (c :: n).length = rest := by
    exact List.drop_left
  have htake : (c :: n ++ rest).take (c :: n).length = c :: n := by
    exact List.take_left
  have hexp : expLen rest = none := by
    cases rest with
    | nil => rfl
    | cons d r =>
      obtain ⟨_, _, h3, h4⟩ := hr d r rfl
      simp [expLen, h3, h4]
  have hnum : lexNumber (c :: n ++ rest) = (.int, (c :: n).length) := by
    unfold lexNumber
    simp only [hlen, hdrop]
    split
    · exact absurd rfl (hr _ _ rfl).2.1
    · simp [hexp]
  unfold lexOne
  rw [show c :: n ++ rest = c :: (n ++ rest) from rfl, lexLen_digit c _ hc hns hws,
      show c :: (n ++ rest) = c :: n ++ rest from rfl, hnum]
  simp only []
  have hpos : 0 < (c :: n).length ∧ (c :: n).length ≤ (c :: n ++ rest).length := by
    simp
  rw [if_pos hpos, htake, hdrop]

end GV.Props.C01l
