/-
  C01 (token level): theorems about the lexer model GV.Eval.Lex.
-/
import GV.Eval.Lex
import GV.Generated.Lexer
namespace GV.Props.C01l
open GV.Eval.Lex

/-- One step consumes a non-empty prefix of the input and leaves the rest untouched. -/
theorem lexOne_split {cs : List Char} {t : Tok} {r : List Char} (h : lexOne cs = some (t, r)) :
    t.text ++ r = cs ∧ t.text ≠ [] ∧ r.length < cs.length := by
  unfold lexOne at h
  split at h
  · rename_i k n _
    split at h
    · rename_i hg
      simp only [Option.some.injEq, Prod.mk.injEq] at h
      obtain ⟨rfl, rfl⟩ := h
      refine ⟨List.take_append_drop n cs, ?_, ?_⟩
      · intro he
        have := congrArg List.length he
        simp only [List.length_take, List.length_nil] at this
        omega
      · simp only [List.length_drop]; omega
    · cases h
  · cases h

/-- Lexing loses, invents and reorders nothing: the texts of all items (tokens, white space and
    comments) followed by the unread remainder are the input, for every fuel. -/
theorem lexFuel_partition (f : Nat) (cs : List Char) :
    ((lexFuel f cs).1.map Tok.text).flatten ++ (lexFuel f cs).2 = cs := by
  induction f generalizing cs with
  | zero => simp [lexFuel]
  | succ f ih =>
    cases cs with
    | nil => simp [lexFuel]
    | cons c cs =>
      simp only [lexFuel]
      cases h : lexOne (c :: cs) with
      | none => simp
      | some p =>
        obtain ⟨t, r⟩ := p
        have hs := lexOne_split h
        have := ih r
        simp only [List.map_cons, List.flatten_cons, List.append_assoc]
        rw [this]; exact hs.1

/-- The fuel `lexAll` uses is enough: it stops only at the end of the text or at a position where no
    token starts (a token recognition error). -/
theorem lexFuel_stops (f : Nat) (cs : List Char) (hf : cs.length ≤ f) :
    (lexFuel f cs).2 = [] ∨ lexOne (lexFuel f cs).2 = none := by
  induction f generalizing cs with
  | zero =>
    have : cs = [] := List.eq_nil_of_length_eq_zero (by omega)
    subst this; simp [lexFuel]
  | succ f ih =>
    cases cs with
    | nil => simp [lexFuel]
    | cons c cs =>
      simp only [lexFuel]
      cases h : lexOne (c :: cs) with
      | none => right; simpa using h
      | some p =>
        obtain ⟨t, r⟩ := p
        have hs := lexOne_split h
        have hr : r.length ≤ f := by simp at hf; have := hs.2.2; simp at this; omega
        simpa using ih r hr

/-- **C01 (token level), partition.** A text the lexer accepts is exactly the concatenation of its
    items: every character belongs to exactly one token, white-space run or comment, in order. -/
theorem C01_lex_partition (cs : List Char) (h : lexOk cs = true) :
    ((lexAll cs).1.map Tok.text).flatten = cs := by
  have := lexFuel_partition cs.length cs
  unfold lexOk at h
  have h2 : (lexAll cs).2 = [] := by simpa using h
  unfold lexAll at h2 ⊢
  rw [h2] at this; simpa using this

/-- **C01 (token level), errors.** A text the lexer rejects has a position, after the items read so
    far, at which no token rule matches. -/
theorem C01_lex_reject (cs : List Char) (h : lexOk cs = false) :
    ∃ rest, rest ≠ [] ∧ lexOne rest = none ∧ ((lexAll cs).1.map Tok.text).flatten ++ rest = cs := by
  refine ⟨(lexAll cs).2, ?_, ?_, lexFuel_partition _ _⟩
  · intro he; simp [lexOk, he] at h
  · rcases lexFuel_stops cs.length cs (Nat.le_refl _) with h1 | h1
    · simp [lexOk, lexAll, h1] at h
    · exact h1

/-! ### Maximal munch for the open-ended token classes -/

theorem takeWhile_append_stop (p : Char → Bool) (n rest : List Char) (hn : ∀ c ∈ n, p c = true)
    (hr : ∀ c r, rest = c :: r → p c = false) : (n ++ rest).takeWhile p = n := by
  induction n with
  | nil =>
    cases rest with
    | nil => rfl
    | cons c r => simp [hr c r rfl]
  | cons a n ih =>
    have ha := hn a (by simp)
    simp only [List.cons_append, List.takeWhile_cons, ha, ite_true]
    rw [ih (fun c hc => hn c (by simp [hc]))]

theorem lexLen_name (c : Char) (t : List Char) (hc : isNameStart c = true) (hws : isWs c = false) :
    lexLen (c :: t) = some (lexName (c :: t)) := by
  simp [lexLen, hc, hws]

theorem lexLen_digit (c : Char) (t : List Char) (hc : c.isDigit = true) (hns : isNameStart c = false)
    (hws : isWs c = false) : lexLen (c :: t) = some (lexNumber (c :: t)) := by
  simp [lexLen, hc, hws, hns]

/-- A name followed by something that neither continues it nor starts a dotted part is one token:
    the keyword its lower-cased spelling names, otherwise SIMPLENAME. -/
theorem C01_lex_name (c : Char) (n rest : List Char) (hc : isNameStart c = true) (hws : isWs c = false)
    (hn : ∀ d ∈ c :: n, isNameChar d = true)
    (hr : ∀ d r, rest = d :: r → isNameChar d = false ∧ d ≠ '.') :
    lexOne (c :: n ++ rest) = some (⟨kwOf (c :: n), c :: n⟩, rest) := by
  have htw : ((c :: n) ++ rest).takeWhile isNameChar = c :: n :=
    takeWhile_append_stop _ _ _ hn (fun d r h => (hr d r h).1)
  have hlen : nameLen (c :: n ++ rest) = (c :: n).length := by
    unfold nameLen; rw [htw]
  have hdrop : (c :: n ++ rest).drop (c :: n).length = rest := by
    exact List.drop_left
  have htake : (c :: n ++ rest).take (c :: n).length = c :: n := by
    exact List.take_left
  have hname : lexName (c :: n ++ rest) = (kwOf (c :: n), (c :: n).length) := by
    unfold lexName
    simp only [hlen, hdrop, htake]
    split
    · exact absurd rfl (hr _ _ rfl).2
    · rfl
  unfold lexOne
  rw [show c :: n ++ rest = c :: (n ++ rest) from rfl, lexLen_name c _ hc hws,
      show c :: (n ++ rest) = c :: n ++ rest from rfl, hname]
  simp only []
  have hpos : 0 < (c :: n).length ∧ (c :: n).length ≤ (c :: n ++ rest).length := by
    simp
  rw [if_pos hpos, htake, hdrop]

/-- A digit string followed by something that is not a digit, a point or an exponent letter is one INT
    token - in particular a sign is never part of it (the parser's `integer : MINUS? INT`). -/
theorem C01_lex_int (c : Char) (n rest : List Char) (hn : ∀ d ∈ c :: n, d.isDigit = true)
    (hr : ∀ d r, rest = d :: r → d.isDigit = false ∧ d ≠ '.' ∧ d ≠ 'e' ∧ d ≠ 'E') :
    lexOne (c :: n ++ rest) = some (⟨.int, c :: n⟩, rest) := by
  have hc : c.isDigit = true := hn c (by simp)
  have hws : isWs c = false := by
    unfold isWs; unfold Char.isDigit at hc
    simp only [Bool.and_eq_true, decide_eq_true_eq] at hc
    have h1 : c ≠ ' ' := by intro h; subst h; revert hc; decide
    have h2 : c ≠ '\t' := by intro h; subst h; revert hc; decide
    have h3 : c ≠ '\n' := by intro h; subst h; revert hc; decide
    have h4 : c ≠ '\r' := by intro h; subst h; revert hc; decide
    simp [h1, h2, h3, h4]
  have hns : isNameStart c = false := by
    unfold Char.isDigit at hc
    simp only [Bool.and_eq_true, decide_eq_true_eq] at hc
    cases h : isNameStart c with
    | false => rfl
    | true =>
      exfalso
      unfold isNameStart Char.isAlpha at h
      simp only [Bool.or_eq_true] at h
      rcases h with (h | h) | h
      · unfold Char.isUpper at h
        simp only [Bool.and_eq_true, decide_eq_true_eq] at h
        exact absurd (UInt32.le_trans h.1 hc.2) (by decide)
      · unfold Char.isLower at h
        simp only [Bool.and_eq_true, decide_eq_true_eq] at h
        exact absurd (UInt32.le_trans h.1 hc.2) (by decide)
      · have : c = '_' := by simpa using h
        subst this; revert hc; decide
  have htw : ((c :: n) ++ rest).takeWhile Char.isDigit = c :: n :=
    takeWhile_append_stop _ _ _ hn (fun d r h => (hr d r h).1)
  have hlen : digitsLen (c :: n ++ rest) = (c :: n).length := by
    unfold digitsLen; rw [htw]
  have hdrop : (c :: n ++ rest).drop (c :: n).length = rest := by
    exact List.drop_left
  have htake : (c :: n ++ rest).take (c :: n).length = c :: n := by
    exact List.take_left
  have hexp : expLen rest = none := by
    cases rest with
    | nil => rfl
    | cons d r =>
      obtain ⟨_, _, h3, h4⟩ := hr d r rfl
      simp [expLen, h3, h4]
  have hnum : lexNumber (c :: n ++ rest) = (.int, (c :: n).length) := by
    unfold lexNumber
    simp only [hlen, hdrop]
    split
    · exact absurd rfl (hr _ _ rfl).2.1
    · simp [hexp]
  unfold lexOne
  rw [show c :: n ++ rest = c :: (n ++ rest) from rfl, lexLen_digit c _ hc hns hws,
      show c :: (n ++ rest) = c :: n ++ rest from rfl, hnum]
  simp only []
  have hpos : 0 < (c :: n).length ∧ (c :: n).length ≤ (c :: n ++ rest).length := by
    simp
  rw [if_pos hpos, htake, hdrop]

/-! ### The fixed tokens: operators, punctuation, implicit literals, keywords -/

/-- Every token whose text the grammar fixes, with the kind the lexer must give it. -/
def fixedTokens : List (String × K) :=
  [("+", .plus), ("-", .minus), ("/", .div), ("*", .mul), ("==", .equals), (">", .gt), ("<", .lt),
   (">=", .gte), ("<=", .lte), ("!=", .noteq), ("!", .not), (":=", .assign), ("=", .set),
   ("+=", .pluseq), ("-=", .minuseq), ("*=", .muleq), ("/=", .diveq), ("[", .lsq), ("]", .rsq),
   (";", .semi), ("{", .lbrace), ("}", .rbrace), ("(", .lbr), (")", .rbr), (".", .dot),
   ("&&", .and), ("||", .or), (",", .comma), ("@name", .atName), ("@id", .atId), ("@desc", .atDesc),
   ("@sal", .atSal)] ++ keywords

def lexesAlone (p : String × K) : Bool :=
  tokens (p.1.toList ++ [' ']) == [⟨p.2, p.1.toList⟩] && tokens p.1.toList == [⟨p.2, p.1.toList⟩]
    && lexOk p.1.toList

/-- Each fixed token, alone or followed by a blank, is read as exactly one token of its kind (the
    whole finite table, decided by the kernel). -/
theorem C01_lex_fixed : fixedTokens.all lexesAlone = true := by decide

/-- Keywords are case-insensitive and win over SIMPLENAME at equal length; one more name character
    makes a name (longest match). -/
theorem C01_lex_keyword_examples :
    tokens "RuLe".toList = [⟨.rule, "RuLe".toList⟩] ∧
    tokens "rules".toList = [⟨.simplename, "rules".toList⟩] ∧
    tokens "forRange".toList = [⟨.forrange, "forRange".toList⟩] ∧
    tokens "for Range".toList = [⟨.for_, "for".toList⟩, ⟨.simplename, "Range".toList⟩] ∧
    tokens "if.x".toList = [⟨.dotted, "if.x".toList⟩] := by decide

/-- Literals (the atoms C01's expressions are built from): a sign is its own token; `1.5e3`, `.5`
    and `1.e5` are one real literal each; `1.` and `1e` are not; `"a""b"` is one string. -/
theorem C01_lex_literal_examples :
    tokens "1-2".toList = [⟨.int, ['1']⟩, ⟨.minus, ['-']⟩, ⟨.int, ['2']⟩] ∧
    tokens "-1.5e3".toList = [⟨.minus, ['-']⟩, ⟨.real, "1.5e3".toList⟩] ∧
    tokens ".5".toList = [⟨.real, ".5".toList⟩] ∧
    tokens "1.e5".toList = [⟨.real, "1.e5".toList⟩] ∧
    tokens "1.".toList = [⟨.int, ['1']⟩, ⟨.dot, ['.']⟩] ∧
    tokens "1e".toList = [⟨.int, ['1']⟩, ⟨.simplename, ['e']⟩] ∧
    tokens "\"a\"\"b\"".toList = [⟨.string, "\"a\"\"b\"".toList⟩] ∧
    tokens "a.b.c.d".toList = [⟨.ddotted, "a.b.c".toList⟩, ⟨.dot, ['.']⟩, ⟨.simplename, ['d']⟩] ∧
    lexOk "\"abc".toList = false ∧ lexOk "a # b".toList = false ∧ lexOk "x = 1 // c".toList = true ∧
    tokens "x // c\ny".toList = [⟨.simplename, ['x']⟩, ⟨.simplename, ['y']⟩] := by decide

/-- The name and integer theorems are not vacuous. -/
example : lexOne ("ab1".toList ++ " + 2".toList) = some (⟨.simplename, "ab1".toList⟩, " + 2".toList) := by decide
example : lexOne ("42".toList ++ ")".toList) = some (⟨.int, "42".toList⟩, ")".toList) := by decide

/-! ### Obligations over the regenerated lexer tables (GV.Generated.Lexer) -/

open GV.Generated.Lexer

/-- Every kind of the model in the order of the generated lexer's token types. -/
def allKinds : List K :=
  [.comma, .atName, .atId, .atDesc, .atSal, .nil, .rule, .and, .or, .conc, .if_, .else_, .return_,
   .for_, .break_, .forrange, .continue_, .true_, .false_, .null, .salience, .begin_, .end_,
   .simplename, .int, .plus, .minus, .div, .mul, .equals, .gt, .lt, .gte, .lte, .noteq, .not,
   .assign, .set, .pluseq, .minuseq, .muleq, .diveq, .lsq, .rsq, .semi, .lbrace, .rbrace, .lbr,
   .rbr, .dot, .string, .dotted, .ddotted, .real]

def kOfName (s : String) : Option K := allKinds.find? (fun k => k.name == s)
def unquote (s : String) : String := String.ofList (s.toList.drop 1).dropLast
def typeName (p : String × String) : String := if p.1 == "" then p.2 else p.1

/-- The token types of the running lexer are the model's kinds, in the same order, followed by the
    two skipped rules. -/
theorem C01_lex_kinds_regenerated :
    goTokenTypes.map typeName = allKinds.map K.name ++ ["SL_COMMENT", "WS"] := by decide

def litOk (p : String × String) : Bool :=
  p.2 == "" || (match kOfName (typeName p) with
    | some k => lexesAlone (unquote p.2, k)
    | none => false)

/-- Every token type the running lexer reports with a literal text is read by the model, from that
    text alone or followed by a blank, as one token of that type. -/
theorem C01_lex_literals_regenerated : goTokenTypes.all litOk = true := by decide

/-- The grammar's keyword rules are the model's keyword table (same words, same kinds, same order). -/
theorem C01_lex_keywords_regenerated :
    g4Keywords.map (fun p => (p.2, kOfName p.1)) = keywords.map (fun p => (p.1, some p.2)) := by decide

/-- The bodies of all other lexer rules of gengine.g4 the model was written from. -/
def expectedRules : List (String × String) := [
  ("fragment DEC_DIGIT", "[0-9]"),
  ("fragment EXPONENT_NUM_PART", "('E'|'e')'-'?DEC_DIGIT+"),
  ("AND", "'&&'"),
  ("OR", "'||'"),
  ("SIMPLENAME", "('a'..'z'|'A'..'Z'|'_')+(('0'..'9')|('a'..'z'|'A'..'Z')|'_')*"),
  ("INT", "'0'..'9'+"),
  ("PLUS", "'+'"),
  ("MINUS", "'-'"),
  ("DIV", "'/'"),
  ("MUL", "'*'"),
  ("EQUALS", "'=='"),
  ("GT", "'>'"),
  ("LT", "'<'"),
  ("GTE", "'>='"),
  ("LTE", "'<='"),
  ("NOTEQUALS", "'!='"),
  ("NOT", "'!'"),
  ("ASSIGN", "':='"),
  ("SET", "'='"),
  ("PLUSEQUAL", "'+='"),
  ("MINUSEQUAL", "'-='"),
  ("MULTIEQUAL", "'*='"),
  ("DIVEQUAL", "'/='"),
  ("LSQARE", "'['"),
  ("RSQARE", "']'"),
  ("SEMICOLON", "';'"),
  ("LR_BRACE", "'{'"),
  ("RR_BRACE", "'}'"),
  ("LR_BRACKET", "'('"),
  ("RR_BRACKET", "')'"),
  ("DOT", "'.'"),
  ("DQUOTA_STRING", "'\"'('\\\\'.|'\"\"'|~('\"'|'\\\\'))*'\"'"),
  ("DOTTEDNAME", "SIMPLENAMEDOTSIMPLENAME"),
  ("DOUBLEDOTTEDNAME", "SIMPLENAMEDOTSIMPLENAMEDOTSIMPLENAME"),
  ("REAL_LITERAL", "(DEC_DIGIT+)?'.'DEC_DIGIT+|DEC_DIGIT+'.'EXPONENT_NUM_PART|(DEC_DIGIT+)?'.'(DEC_DIGIT+EXPONENT_NUM_PART)|DEC_DIGIT+EXPONENT_NUM_PART"),
  ("SL_COMMENT", "'//'.*?'\\n'->skip"),
  ("WS", "[ \\t\\n\\r]+->skip")
]

theorem C01_lex_rules_regenerated : g4Rules = expectedRules := by rfl

/-- Priority: the implicit literals come first, and the generated lexer orders the token rules as the
    grammar file does - every keyword before SIMPLENAME, INT before REAL_LITERAL. -/
theorem C01_lex_priority_regenerated :
    goRuleNames.take 5 = ["T__0", "T__1", "T__2", "T__3", "T__4"] ∧
    goRuleNames.filter (fun n => g4Order.contains n) = g4Order ∧
    g4Order = (allKinds.drop 5).map K.name ++ ["SL_COMMENT", "WS"] := by decide

/-! ### Blank-separated texts: the lexer returns exactly the tokens that were written -/

/-- A token text is self-delimiting before a blank: whatever follows the blank, the lexer reads
    exactly this text as one token of this kind. -/
def Delim (t : Tok) : Prop :=
  (∀ rest, lexOne (t.text ++ ' ' :: rest) = some (t, ' ' :: rest)) ∧ t.kind ≠ .skip

/-- the text of a token list: every token followed by one blank -/
def spaced : List Tok → List Char
  | [] => []
  | t :: ts => t.text ++ ' ' :: spaced ts

theorem spaced_head_not_ws (ts : List Tok) (h : ∀ t ∈ ts, Delim t) :
    ∀ c r, spaced ts = c :: r → isWs c = false := by
  intro c r hs
  cases ts with
  | nil => simp [spaced] at hs
  | cons t ts =>
    have hd := (h t (by simp)).1 (spaced ts)
    have hk := (h t (by simp)).2
    simp only [spaced] at hs
    rw [hs] at hd
    -- were c white space, the token read would be a skip
    cases hw : isWs c with
    | false => rfl
    | true =>
      exfalso
      unfold lexOne lexLen at hd
      simp only [hw, ite_true] at hd
      split at hd
      · simp only [Option.some.injEq, Prod.mk.injEq] at hd
        exact hk (by rw [← hd.1])
      · cases hd

theorem lexOne_blank (rest : List Char) (h : ∀ c r, rest = c :: r → isWs c = false) :
    lexOne (' ' :: rest) = some (⟨.skip, [' ']⟩, rest) := by
  have htw : (' ' :: rest).takeWhile isWs = [' '] := by
    have := takeWhile_append_stop isWs [' '] rest (by decide) h
    simpa using this
  unfold lexOne lexLen
  have hws : isWs ' ' = true := by decide
  simp only [hws, ite_true, htw, List.length_singleton]
  have hpos : 0 < 1 ∧ 1 ≤ (' ' :: rest).length := by simp
  rw [if_pos hpos]; rfl

/-- **C01 (token level), round trip.** Writing self-delimiting tokens with one blank after each and
    lexing the text gives back exactly those tokens, for every fuel that covers the text. -/
theorem lexFuel_spaced (ts : List Tok) (h : ∀ t ∈ ts, Delim t) (f : Nat) (hf : (spaced ts).length ≤ f) :
    (lexFuel f (spaced ts)).2 = [] ∧
    (lexFuel f (spaced ts)).1.filter (fun t => t.kind != .skip) = ts := by
  induction ts generalizing f with
  | nil => cases f <;> simp [spaced, lexFuel]
  | cons t ts ih =>
    have hd := (h t (by simp)).1 (spaced ts)
    have hk := (h t (by simp)).2
    have hrest : ∀ t' ∈ ts, Delim t' := fun t' ht' => h t' (by simp [ht'])
    have hsplit := C01l.lexOne_split hd
    -- two steps: the token, then the blank
    have hlen : (spaced (t :: ts)).length = t.text.length + 1 + (spaced ts).length := by
      simp [spaced]; omega
    have htne : t.text ≠ [] := hsplit.2.1
    have htl : 0 < t.text.length := List.length_pos_iff.mpr htne
    obtain ⟨f1, rfl⟩ : ∃ f1, f = f1 + 2 := ⟨f - 2, by omega⟩
    have hb := lexOne_blank (spaced ts) (spaced_head_not_ws ts hrest)
    have hne : spaced (t :: ts) ≠ [] := by simp [spaced]
    have step1 : lexFuel (f1 + 2) (spaced (t :: ts)) =
        (t :: ⟨.skip, [' ']⟩ :: (lexFuel f1 (spaced ts)).1, (lexFuel f1 (spaced ts)).2) := by
      cases hs : spaced (t :: ts) with
      | nil => exact absurd hs hne
      | cons c r =>
        rw [← hs]
        show lexFuel (f1 + 1 + 1) (spaced (t :: ts)) = _
        rw [hs]; simp only [lexFuel]; rw [← hs]
        simp only [spaced] at hd ⊢
        rw [hd]
        simp only [lexFuel, hb]
    have := ih hrest f1 (by omega)
    rw [step1]
    refine ⟨this.1, ?_⟩
    simp only [List.filter_cons]
    have hk' : (t.kind != K.skip) = true := by simpa using hk
    simp [hk', this.2]

theorem C01_lex_spaced (ts : List Tok) (h : ∀ t ∈ ts, Delim t) :
    lexOk (spaced ts) = true ∧ tokens (spaced ts) = ts := by
  have := lexFuel_spaced ts h (spaced ts).length (Nat.le_refl _)
  unfold lexOk tokens lexAll
  exact ⟨by rw [this.1]; rfl, this.2⟩

theorem keywords_not_skip : ∀ p ∈ keywords, p.2 ≠ K.skip := by decide

theorem kwOf_ne_skip (n : List Char) : kwOf n ≠ .skip := by
  unfold kwOf
  split
  · rename_i p hp
    exact keywords_not_skip p (List.mem_of_find?_eq_some hp)
  · decide

/-- Names and keywords of any length and spelling are self-delimiting. -/
theorem Delim_name (c : Char) (n : List Char) (hc : isNameStart c = true) (hws : isWs c = false)
    (hn : ∀ d ∈ c :: n, isNameChar d = true) : Delim ⟨kwOf (c :: n), c :: n⟩ :=
  ⟨fun rest => C01_lex_name c n (' ' :: rest) hc hws hn
      (fun d r h => by
        have : d = ' ' := by simpa using (List.cons.inj h).1.symm
        subst this; exact ⟨by decide, by decide⟩),
   kwOf_ne_skip _⟩

/-- Digit strings of any length are self-delimiting INT tokens. -/
theorem Delim_int (c : Char) (n : List Char) (hn : ∀ d ∈ c :: n, d.isDigit = true) :
    Delim ⟨.int, c :: n⟩ :=
  ⟨fun rest => C01_lex_int c n (' ' :: rest) hn
      (fun d r h => by
        have : d = ' ' := by simpa using (List.cons.inj h).1.symm
        subst this; exact ⟨by decide, by decide, by decide, by decide⟩),
   fun h => K.noConfusion h⟩

/-- The operators and punctuation marks of expressions are self-delimiting. -/
theorem Delim_ops :
    Delim ⟨.plus, ['+']⟩ ∧ Delim ⟨.minus, ['-']⟩ ∧ Delim ⟨.mul, ['*']⟩ ∧ Delim ⟨.div, ['/']⟩ ∧
    Delim ⟨.lbr, ['(']⟩ ∧ Delim ⟨.rbr, [')']⟩ ∧ Delim ⟨.not, ['!']⟩ ∧ Delim ⟨.gt, ['>']⟩ ∧
    Delim ⟨.lt, ['<']⟩ ∧ Delim ⟨.equals, ['=', '=']⟩ ∧ Delim ⟨.noteq, ['!', '=']⟩ ∧
    Delim ⟨.gte, ['>', '=']⟩ ∧ Delim ⟨.lte, ['<', '=']⟩ ∧ Delim ⟨.and, ['&', '&']⟩ ∧
    Delim ⟨.or, ['|', '|']⟩ ∧ Delim ⟨.set, ['=']⟩ ∧ Delim ⟨.comma, [',']⟩ := by
  refine ⟨?_, ?_, ?_, ?_, ?_, ?_, ?_, ?_, ?_, ?_, ?_, ?_, ?_, ?_, ?_, ?_, ?_⟩ <;>
    exact ⟨fun rest => by
      simp [lexOne, lexLen, isWs, isNameStart, Char.isAlpha, Char.isUpper, Char.isLower, Char.isDigit], by decide⟩

/-- Non-vacuity and use: an expression written with blanks, for names and numbers of any length. -/
theorem C01_lex_spaced_example (c d : Char) (n m : List Char) (hc : isNameStart c = true)
    (hws : isWs c = false) (hn : ∀ x ∈ c :: n, isNameChar x = true)
    (hm : ∀ x ∈ d :: m, x.isDigit = true) :
    tokens (spaced [⟨kwOf (c :: n), c :: n⟩, ⟨.plus, ['+']⟩, ⟨.int, d :: m⟩, ⟨.mul, ['*']⟩,
                    ⟨.lbr, ['(']⟩, ⟨.int, d :: m⟩, ⟨.rbr, [')']⟩]) =
      [⟨kwOf (c :: n), c :: n⟩, ⟨.plus, ['+']⟩, ⟨.int, d :: m⟩, ⟨.mul, ['*']⟩,
       ⟨.lbr, ['(']⟩, ⟨.int, d :: m⟩, ⟨.rbr, [')']⟩] := by
  refine (C01_lex_spaced _ ?_).2
  intro t ht
  simp only [List.mem_cons, List.not_mem_nil, or_false] at ht
  rcases ht with rfl | rfl | rfl | rfl | rfl | rfl | rfl
  · exact Delim_name c n hc hws hn
  · exact Delim_ops.1
  · exact Delim_int d m hm
  · exact Delim_ops.2.2.1
  · exact Delim_ops.2.2.2.2.1
  · exact Delim_int d m hm
  · exact Delim_ops.2.2.2.2.2.1

/-! ### String literals -/

theorem strLen_plain (body rest : List Char) (hb : ∀ c ∈ body, c ≠ '"' ∧ c ≠ '\\')
    (hr : ∀ c r, rest = c :: r → c ≠ '"') :
    strLen (body ++ '"' :: rest) = some (body.length + 1) := by
  induction body with
  | nil =>
    cases rest with
    | nil => simp [strLen]
    | cons c r =>
      have := hr c r rfl
      simp only [List.nil_append, List.length_nil, Nat.zero_add]
      unfold strLen
      split
      all_goals first
        | rfl
        | (rename_i heq; simp only [List.cons.injEq] at heq; exact absurd heq.2.1.symm this)
        | (rename_i heq; simp only [List.cons.injEq] at heq; exact absurd heq.1 (by decide))
        | (rename_i hx heq; simp only [List.cons.injEq] at heq; exact absurd heq.1.symm hx)
        | (exfalso; simp_all; done)
  | cons a body ih =>
    have ha := hb a (by simp)
    have ih' := ih (fun c hc => hb c (by simp [hc]))
    simp only [List.cons_append, List.length_cons]
    unfold strLen
    split
    · simp_all
    · simp_all
    · simp_all
    · simp_all
    · simp_all
    · rename_i h1 h2 h3 h4 h5
      simp_all

/-- A string literal without quotes and backslashes inside, followed by anything but another quote,
    is one DQUOTA_STRING token: its text is the literal with both quotes. -/
theorem C01_lex_string (body rest : List Char) (hb : ∀ c ∈ body, c ≠ '"' ∧ c ≠ '\\')
    (hr : ∀ c r, rest = c :: r → c ≠ '"') :
    lexOne ('"' :: body ++ '"' :: rest) = some (⟨.string, '"' :: body ++ ['"']⟩, rest) := by
  have hl : lexLen ('"' :: (body ++ '"' :: rest)) = some (.string, 1 + (body.length + 1)) := by
    simp [lexLen, isWs, isNameStart, Char.isAlpha, Char.isUpper, Char.isLower, Char.isDigit,
      strLen_plain body rest hb hr]
  unfold lexOne
  rw [show '"' :: body ++ '"' :: rest = '"' :: (body ++ '"' :: rest) from rfl, hl]
  have hpos : 0 < 1 + (body.length + 1) ∧ 1 + (body.length + 1) ≤ ('"' :: (body ++ '"' :: rest)).length := by
    simp; omega
  simp only []
  rw [if_pos hpos]
  have e1 : ('"' :: (body ++ '"' :: rest)) = ('"' :: body ++ ['"']) ++ rest := by simp
  have e2 : 1 + (body.length + 1) = ('"' :: body ++ ['"']).length := by simp; omega
  rw [e1, e2, List.take_left, List.drop_left]

/-- Plain string literals are self-delimiting (so they may appear in `C01_lex_spaced` texts). -/
theorem Delim_string (body : List Char) (hb : ∀ c ∈ body, c ≠ '"' ∧ c ≠ '\\') :
    Delim ⟨.string, '"' :: body ++ ['"']⟩ := by
  refine ⟨fun rest => ?_, fun h => K.noConfusion h⟩
  have := C01_lex_string body (' ' :: rest) hb (fun c r h => by
    have : c = ' ' := by simpa using (List.cons.inj h).1.symm
    subst this; decide)
  have e : ('"' :: body ++ ['"']) ++ ' ' :: rest = '"' :: body ++ '"' :: (' ' :: rest) := by simp
  show lexOne (('"' :: body ++ ['"']) ++ ' ' :: rest) = _
  rw [e]; exact this

example : tokens (spaced [⟨.string, "\"ab c\"".toList⟩, ⟨.plus, ['+']⟩, ⟨.string, "\"\"".toList⟩]) =
    [⟨.string, "\"ab c\"".toList⟩, ⟨.plus, ['+']⟩, ⟨.string, "\"\"".toList⟩] := by decide

/-! ### Real literals -/

theorem expLen_none_of_head (rest : List Char) (hr : ∀ d r, rest = d :: r → d ≠ 'e' ∧ d ≠ 'E') :
    expLen rest = none := by
  cases rest with
  | nil => rfl
  | cons d r =>
    obtain ⟨h3, h4⟩ := hr d r rfl
    simp [expLen, h3, h4]

theorem isDigit_not_ws_name (c : Char) (hc : c.isDigit = true) : isWs c = false ∧ isNameStart c = false := by
  unfold Char.isDigit at hc
  simp only [Bool.and_eq_true, decide_eq_true_eq] at hc
  constructor
  · unfold isWs
    have h1 : c ≠ ' ' := by intro h; subst h; revert hc; decide
    have h2 : c ≠ '\t' := by intro h; subst h; revert hc; decide
    have h3 : c ≠ '\n' := by intro h; subst h; revert hc; decide
    have h4 : c ≠ '\r' := by intro h; subst h; revert hc; decide
    simp [h1, h2, h3, h4]
  · cases h : isNameStart c with
    | false => rfl
    | true =>
      exfalso
      unfold isNameStart Char.isAlpha at h
      simp only [Bool.or_eq_true] at h
      rcases h with (h | h) | h
      · unfold Char.isUpper at h
        simp only [Bool.and_eq_true, decide_eq_true_eq] at h
        exact absurd (UInt32.le_trans h.1 hc.2) (by decide)
      · unfold Char.isLower at h
        simp only [Bool.and_eq_true, decide_eq_true_eq] at h
        exact absurd (UInt32.le_trans h.1 hc.2) (by decide)
      · have : c = '_' := by simpa using h
        subst this; revert hc; decide

/-- `digits . digits` followed by something that is neither a digit nor an exponent letter is one
    REAL_LITERAL token (the parser's `realLiteral : MINUS? REAL_LITERAL` adds the sign). -/
theorem C01_lex_real (c : Char) (n : List Char) (d : Char) (m rest : List Char)
    (hn : ∀ x ∈ c :: n, x.isDigit = true) (hm : ∀ x ∈ d :: m, x.isDigit = true)
    (hr : ∀ x r, rest = x :: r → x.isDigit = false ∧ x ≠ 'e' ∧ x ≠ 'E') :
    lexOne ((c :: n) ++ '.' :: (d :: m) ++ rest) =
      some (⟨.real, (c :: n) ++ '.' :: (d :: m)⟩, rest) := by
  have hc : c.isDigit = true := hn c (by simp)
  obtain ⟨hws, hns⟩ := isDigit_not_ws_name c hc
  have hdot : ('.' : Char).isDigit = false := by decide
  have h1 : digitsLen ((c :: n) ++ '.' :: ((d :: m) ++ rest)) = (c :: n).length := by
    unfold digitsLen
    rw [takeWhile_append_stop _ _ _ hn (fun x r h => by
      have : x = '.' := by simpa using (List.cons.inj h).1.symm
      subst this; exact hdot)]
  have h2 : digitsLen ((d :: m) ++ rest) = (d :: m).length := by
    unfold digitsLen
    rw [takeWhile_append_stop _ _ _ hm (fun x r h => (hr x r h).1)]
  have hexp : expLen rest = none := expLen_none_of_head rest (fun x r h => (hr x r h).2)
  have hfrac : fracLen ((d :: m) ++ rest) = some (d :: m).length := by
    unfold fracLen
    simp only [h2, List.drop_left, hexp]
    simp
  have hnum : lexNumber ((c :: n) ++ '.' :: ((d :: m) ++ rest)) =
      (.real, (c :: n).length + 1 + (d :: m).length) := by
    unfold lexNumber
    simp only [h1, List.drop_left]
    simp only [hfrac]
  have e0 : (c :: n) ++ '.' :: (d :: m) ++ rest = c :: (n ++ '.' :: ((d :: m) ++ rest)) := by simp
  have e1 : c :: (n ++ '.' :: ((d :: m) ++ rest)) = (c :: n) ++ '.' :: ((d :: m) ++ rest) := by simp
  unfold lexOne
  rw [e0, lexLen_digit c _ hc hns hws, e1, hnum]
  simp only []
  have hpos : 0 < (c :: n).length + 1 + (d :: m).length ∧
      (c :: n).length + 1 + (d :: m).length ≤ ((c :: n) ++ '.' :: ((d :: m) ++ rest)).length := by
    simp; omega
  rw [if_pos hpos]
  have e2 : (c :: n) ++ '.' :: ((d :: m) ++ rest) = ((c :: n) ++ '.' :: (d :: m)) ++ rest := by simp
  have e3 : (c :: n).length + 1 + (d :: m).length = ((c :: n) ++ '.' :: (d :: m)).length := by simp; omega
  rw [e2, e3, List.take_left, List.drop_left]

example : lexOne ("12.50".toList ++ " * x".toList) = some (⟨.real, "12.50".toList⟩, " * x".toList) := by decide

/-! ### The lengths the scanners report lie inside the text -/

theorem strLen_bounds (cs : List Char) : ∀ n, strLen cs = some n → 0 < n ∧ n ≤ cs.length := by
  fun_induction strLen cs <;> intro n h
  all_goals simp_all
  all_goals first
    | omega
    | (obtain ⟨a, ha, rfl⟩ := h; rename_i ih; have := ih a ha; omega)
    | (rename_i ih; subst h; simp at *; omega)
    | skip

theorem commentLen_bounds (cs : List Char) : ∀ n, commentLen cs = some n → 0 < n ∧ n ≤ cs.length := by
  fun_induction commentLen cs <;> intro n h
  all_goals simp_all
  all_goals first
    | omega
    | (obtain ⟨a, ha, rfl⟩ := h; rename_i ih; have := ih a ha; omega)
    | skip

theorem digitsLen_le (cs : List Char) : digitsLen cs ≤ cs.length := by
  unfold digitsLen; exact (List.takeWhile_sublist _).length_le

theorem nameLen_le (cs : List Char) : nameLen cs ≤ cs.length := by
  unfold nameLen; exact (List.takeWhile_sublist _).length_le

theorem expLen_bounds (cs : List Char) : ∀ n, expLen cs = some n → 0 < n ∧ n ≤ cs.length := by
  intro n h
  unfold expLen at h
  split at h
  · cases h
  · rename_i e r
    split at h
    · split at h
      · rename_i r'
        split at h
        · simp only [Option.some.injEq] at h
          have := digitsLen_le r'
          subst h; simp only [List.length_cons]; omega
        · cases h
      · split at h
        · simp only [Option.some.injEq] at h
          have := digitsLen_le r
          subst h; simp only [List.length_cons]; omega
        · cases h
    · cases h

theorem fracLen_bounds (cs : List Char) : ∀ n, fracLen cs = some n → 0 < n ∧ n ≤ cs.length := by
  intro n h
  unfold fracLen at h
  have hd := digitsLen_le cs
  dsimp only at h
  split at h
  · split at h
    · rename_i e he
      have := expLen_bounds _ e he
      simp only [List.length_drop] at this
      simp only [Option.some.injEq] at h
      omega
    · simp only [Option.some.injEq] at h
      omega
  · cases h

theorem lexNumber_bounds (cs : List Char) (h0 : 0 < digitsLen cs) :
    0 < (lexNumber cs).2 ∧ (lexNumber cs).2 ≤ cs.length := by
  have hd := digitsLen_le cs
  unfold lexNumber
  dsimp only
  split
  · rename_i r heq
    have hl : r.length + 1 + digitsLen cs = cs.length := by
      have := congrArg List.length heq
      simp only [List.length_drop, List.length_cons] at this
      omega
    split
    · rename_i f hf
      have := fracLen_bounds r f hf
      simp only; omega
    · split
      · rename_i e he
        have := expLen_bounds r e he
        simp only; omega
      · simp only; omega
  · rename_i r hne
    split
    · rename_i e he
      have := expLen_bounds _ e he
      simp only [List.length_drop] at this
      simp only; omega
    · simp only; omega

theorem lexName_bounds (cs : List Char) (h0 : 0 < nameLen cs) :
    0 < (lexName cs).2 ∧ (lexName cs).2 ≤ cs.length := by
  have hd := nameLen_le cs
  unfold lexName
  dsimp only
  split
  · rename_i c r heq
    have hl : r.length + 2 + nameLen cs = cs.length := by
      have := congrArg List.length heq
      simp only [List.length_drop, List.length_cons] at this
      omega
    split
    · have h2 := nameLen_le (c :: r)
      simp only [List.length_cons] at h2
      split
      · rename_i d r' heq2
        have hl2 : r'.length + 2 + nameLen (c :: r) = r.length + 1 := by
          have := congrArg List.length heq2
          simp only [List.length_drop, List.length_cons] at this
          omega
        have h3 := nameLen_le (d :: r')
        simp only [List.length_cons] at h3
        split
        · simp only; omega
        · simp only; omega
      · simp only; omega
    · simp only; omega
  · simp only; omega

theorem nameStart_nameChar (c : Char) (h : isNameStart c = true) : isNameChar c = true := by
  unfold isNameStart at h; unfold isNameChar Char.isAlphanum
  simp only [Bool.or_eq_true] at h ⊢
  rcases h with h | h
  · exact Or.inl (Or.inl h)
  · exact Or.inr h

theorem startsWith_len (p : String) (cs : List Char) (h : startsWith p cs = true) :
    p.toList.length ≤ cs.length := by
  unfold startsWith at h
  exact (List.isPrefixOf_iff_prefix.mp h).length_le

/-- Whatever `lexLen` reports lies inside the text and is not empty: the guard in `lexOne` never
    rejects a token. -/
theorem lexLen_bounds (cs : List Char) (k : K) (n : Nat) (h : lexLen cs = some (k, n)) :
    0 < n ∧ n ≤ cs.length := by
  unfold lexLen at h
  split at h
  · cases h
  · rename_i c r
    split at h
    · rename_i hw
      simp only [Option.some.injEq, Prod.mk.injEq] at h
      obtain ⟨_, rfl⟩ := h
      refine ⟨?_, (List.takeWhile_sublist _).length_le⟩
      simp [List.takeWhile_cons, hw]
    · split at h
      · rename_i hn
        simp only [Option.some.injEq] at h
        have h0 : 0 < nameLen (c :: r) := by
          unfold nameLen; simp [List.takeWhile_cons, nameStart_nameChar c hn]
        have := lexName_bounds (c :: r) h0
        rw [h] at this; exact this
      · split at h
        · rename_i hdg
          simp only [Option.some.injEq] at h
          have h0 : 0 < digitsLen (c :: r) := by
            unfold digitsLen; simp [List.takeWhile_cons, hdg]
          have := lexNumber_bounds (c :: r) h0
          rw [h] at this; exact this
        · split at h
          all_goals first
            | (cases h; done)
            | (simp only [Option.some.injEq, Prod.mk.injEq] at h; obtain ⟨_, rfl⟩ := h; simp only [List.length_cons]; omega)
            | skip
          -- '.': fraction or DOT
          · split at h
            · rename_i f hf
              simp only [Option.some.injEq, Prod.mk.injEq] at h
              obtain ⟨_, rfl⟩ := h
              have := fracLen_bounds _ f hf
              simp only [List.length_cons]; omega
            · simp only [Option.some.injEq, Prod.mk.injEq] at h
              obtain ⟨_, rfl⟩ := h
              simp only [List.length_cons]; omega
          -- '"': string
          · simp only [Option.map_eq_some_iff] at h
            obtain ⟨a, ha, h⟩ := h
            simp only [Prod.mk.injEq] at h
            obtain ⟨_, rfl⟩ := h
            have := strLen_bounds _ a ha
            simp only [List.length_cons]; omega
          -- '//': comment or DIV
          · split at h
            · rename_i f hf
              simp only [Option.some.injEq, Prod.mk.injEq] at h
              obtain ⟨_, rfl⟩ := h
              have := commentLen_bounds _ f hf
              simp only [List.length_cons]; omega
            · simp only [Option.some.injEq, Prod.mk.injEq] at h
              obtain ⟨_, rfl⟩ := h
              simp only [List.length_cons]; omega
          -- '@': the four implicit literals
          · split at h
            · rename_i hp
              have := startsWith_len _ _ hp
              simp only [Option.some.injEq, Prod.mk.injEq] at h
              obtain ⟨_, rfl⟩ := h
              simp only [List.length_cons]
              have e : "name".toList.length = 4 := by decide
              omega
            · split at h
              · rename_i hp
                have := startsWith_len _ _ hp
                simp only [Option.some.injEq, Prod.mk.injEq] at h
                obtain ⟨_, rfl⟩ := h
                simp only [List.length_cons]
                have e : "id".toList.length = 2 := by decide
                omega
              · split at h
                · rename_i hp
                  have := startsWith_len _ _ hp
                  simp only [Option.some.injEq, Prod.mk.injEq] at h
                  obtain ⟨_, rfl⟩ := h
                  simp only [List.length_cons]
                  have e : "desc".toList.length = 4 := by decide
                  omega
                · split at h
                  · rename_i hp
                    have := startsWith_len _ _ hp
                    simp only [Option.some.injEq, Prod.mk.injEq] at h
                    obtain ⟨_, rfl⟩ := h
                    simp only [List.length_cons]
                    have e : "sal".toList.length = 3 := by decide
                    omega
                  · cases h

theorem lexOne_of_lexLen (cs : List Char) (k : K) (n : Nat) (h : lexLen cs = some (k, n)) :
    lexOne cs = some (⟨k, cs.take n⟩, cs.drop n) := by
  unfold lexOne
  rw [h]
  simp only []
  rw [if_pos (lexLen_bounds cs k n h)]

/-- **The guard of `lexOne` never rejects**: a step fails exactly when no token rule matches at the
    head of the text, so `C01_lex_reject`'s position is a genuine token recognition error. -/
theorem C01_lex_guard_never_rejects (cs : List Char) : lexOne cs = none ↔ lexLen cs = none := by
  constructor
  · intro h
    cases hl : lexLen cs with
    | none => rfl
    | some p =>
      obtain ⟨k, n⟩ := p
      rw [lexOne_of_lexLen cs k n hl] at h
      cases h
  · intro h
    unfold lexOne
    rw [h]

/-- The remaining operators and punctuation marks of statements are self-delimiting too. -/
theorem Delim_ops_stmt :
    Delim ⟨.assign, [':', '=']⟩ ∧ Delim ⟨.pluseq, ['+', '=']⟩ ∧ Delim ⟨.minuseq, ['-', '=']⟩ ∧
    Delim ⟨.muleq, ['*', '=']⟩ ∧ Delim ⟨.diveq, ['/', '=']⟩ ∧ Delim ⟨.lsq, ['[']⟩ ∧ Delim ⟨.rsq, [']']⟩ ∧
    Delim ⟨.lbrace, ['{']⟩ ∧ Delim ⟨.rbrace, ['}']⟩ ∧ Delim ⟨.semi, [';']⟩ ∧ Delim ⟨.dot, ['.']⟩ := by
  refine ⟨?_, ?_, ?_, ?_, ?_, ?_, ?_, ?_, ?_, ?_, ?_⟩ <;>
    exact ⟨fun rest => by
      simp [lexOne, lexLen, isWs, isNameStart, Char.isAlpha, Char.isUpper, Char.isLower, Char.isDigit,
        fracLen, digitsLen], by decide⟩

end GV.Props.C01l
