/-
  C10 — Compiling is total, all-or-nothing, and identical across entry points.

  The entry points are the event lists regenerated from builder/rule_builder.go and
  engine/gengine_pool.go on every run; the front end (ANTLR lexer / parser, listener) is a
  parameter whose five observable answers span a finite table, so the statements below are
  decided by the kernel over the whole table, for the code as it is now.

  Not proved (no Lean model of the ATN interpreter): that the front end returns normally on every
  byte string — exercised by the mutation stream of the correspondence run only (partial).
-/
import GV.Generated.Compile
namespace GV.Props.C10
open GV.Compile GV.Generated.Compile

def mkO (b l p q n : Bool) : Outcome := ⟨b, l, p, q, n⟩

def run (f : String) (o : Outcome) : Res := runN GV.Generated.Compile.all 4 f o

/-- every entry point is present and interpreted (no unknown callee, no missing function) -/
theorem C10_descriptors_complete :
    ∀ b l p q n : Bool, entryPoints.all (fun f => run f (mkO b l p q n) != .broken) = true := by decide

/-- All-or-nothing: whenever an entry point reports an error it has not written the installed
    rule set yet. -/
theorem C10_all_or_nothing :
    ∀ b l p q n : Bool, entryPoints.all (fun f =>
      match run f (mkO b l p q n) with
      | .rejected m => m == false
      | _ => true) = true := by decide

/-- Same language: every entry point accepts exactly the texts against which lexer, parser and
    listener have nothing to say. -/
theorem C10_same_language :
    ∀ b l p q n : Bool, (mkO b l p q n).Valid = true →
      entryPoints.all (fun f => (run f (mkO b l p q n) == .accepted) == (mkO b l p q n).clean) = true := by decide

/-- … hence a text is rejected by one entry point iff it is rejected by all. -/
theorem C10_rejected_by_one_iff_all (o : Outcome) (hv : o.Valid = true) (f g : String)
    (hf : f ∈ entryPoints) (hg : g ∈ entryPoints) :
    (run f o == .accepted) = (run g o == .accepted) := by
  obtain ⟨b, l, p, q, n⟩ := o
  have h := C10_same_language b l p q n hv
  rw [List.all_eq_true] at h
  have h1 := h f hf
  have h2 := h g hg
  simp only [beq_iff_eq] at h1 h2
  simp only [mkO] at h1 h2
  rw [h1, h2]

/-- A text that defines the same rule name twice is always rejected: the listener's fold records
    an error exactly when a name repeats (duplicate check regenerated from ExitRuleEntity) … -/
theorem addAll_none_iff (acc names : List String) (ha : acc.Nodup) :
    addAll true acc names = none ↔ ¬ (acc ++ names).Nodup := by
  induction names generalizing acc with
  | nil => simp [addAll, ha]
  | cons n rest ih =>
    simp only [addAll, Bool.true_and]
    by_cases hc : acc.contains n = true
    · simp only [hc, ite_true, true_iff]
      intro hnd
      have hmem : n ∈ acc := by simpa using hc
      rw [List.nodup_append] at hnd
      exact hnd.2.2 n hmem n (by simp) rfl
    · simp only [hc]
      have hnm : n ∉ acc := by simpa using hc
      have ha' : (acc ++ [n]).Nodup := by
        rw [List.nodup_append]
        refine ⟨ha, by simp, ?_⟩
        intro a ha1 b hb
        simp at hb
        subst hb
        intro hab; subst hab; exact hnm ha1
      have := ih (acc ++ [n]) ha'
      simpa [List.append_assoc] using this

theorem C10_duplicate_recorded (names : List String) (hd : ¬ names.Nodup) :
    addAll duplicateCheck [] names = none := by
  have : duplicateCheck = true := by decide
  rw [this]
  exact (addAll_none_iff [] names List.nodup_nil).mpr (by simpa using hd)

/-- … and a recorded listener error makes every entry point reject. -/
theorem C10_duplicate_rejected :
    ∀ b l p n : Bool, entryPoints.all (fun f => run f (mkO b l p true n) != .accepted) = true := by decide

/-- Non-vacuity: a clean outcome is valid and accepted; a lexer-only error is valid and rejected. -/
example : (mkO false false false false false).Valid = true ∧ run "UpdatePooledRulesIncremental" (mkO false false false false false) = .accepted := by decide
example : (mkO false true false false false).Valid = true := by decide

end GV.Props.C10
