/-
  C11 — The result map is exactly the set of rules that returned in this call.

  Engine level: `results_exact` holds for EVERY skeleton satisfying the decidable predicate
  `ResultsWF` (the method resets the map before anything can write it; every executed rule is
  added iff `Execute` reported `returned`; no unrecognised statement), and the skeletons
  extracted from engine/gengine.go on this run satisfy it (`wf_*`, by `decide`: T1 obligations).
  `cfg.prev`, the map left by an earlier call, is universally quantified: nothing survives.
  Rule level: `returned` is reported iff a `return` was reached and its expression evaluated
  without error (GV.Props.C02 / Eval).
-/
import GV.Orch.Generic
import GV.Generated.Orch
namespace GV.Props.C11
open GV.Orch GV.Generated.Orch

theorem wf_Execute : ResultsWF Execute = true := by decide
theorem wf_ExecuteWithStopTagDirect : ResultsWF ExecuteWithStopTagDirect = true := by decide
theorem wf_ExecuteSelectedRules : ResultsWF ExecuteSelectedRules = true := by decide
theorem wf_ExecuteSelectedRulesWithControl : ResultsWF ExecuteSelectedRulesWithControl = true := by decide
theorem wf_ExecuteSelectedRulesWithControlAsGivenSortedName : ResultsWF ExecuteSelectedRulesWithControlAsGivenSortedName = true := by decide
theorem wf_ExecuteSelectedRulesWithControlAndStopTag : ResultsWF ExecuteSelectedRulesWithControlAndStopTag = true := by decide
theorem wf_ExecuteSelectedRulesWithControlAndStopTagAsGivenSortedName : ResultsWF ExecuteSelectedRulesWithControlAndStopTagAsGivenSortedName = true := by decide
theorem wf_ExecuteConcurrent : ResultsWF ExecuteConcurrent = true := by decide
theorem wf_ExecuteMixModel : ResultsWF ExecuteMixModel = true := by decide
theorem wf_ExecuteMixModelWithStopTagDirect : ResultsWF ExecuteMixModelWithStopTagDirect = true := by decide
theorem wf_ExecuteSelectedRulesConcurrent : ResultsWF ExecuteSelectedRulesConcurrent = true := by decide
theorem wf_ExecuteSelectedRulesMixModel : ResultsWF ExecuteSelectedRulesMixModel = true := by decide
theorem wf_ExecuteInverseMixModel : ResultsWF ExecuteInverseMixModel = true := by decide
theorem wf_ExecuteSelectedRulesInverseMixModel : ResultsWF ExecuteSelectedRulesInverseMixModel = true := by decide
theorem wf_ExecuteNSortMConcurrent : ResultsWF ExecuteNSortMConcurrent = true := by decide
theorem wf_ExecuteNConcurrentMSort : ResultsWF ExecuteNConcurrentMSort = true := by decide
theorem wf_ExecuteNConcurrentMConcurrent : ResultsWF ExecuteNConcurrentMConcurrent = true := by decide
theorem wf_ExecuteSelectedNSortMConcurrent : ResultsWF ExecuteSelectedNSortMConcurrent = true := by decide
theorem wf_ExecuteSelectedNConcurrentMSort : ResultsWF ExecuteSelectedNConcurrentMSort = true := by decide
theorem wf_ExecuteSelectedNConcurrentMConcurrent : ResultsWF ExecuteSelectedNConcurrentMConcurrent = true := by decide
theorem wf_ExecuteDAGModel : ResultsWF ExecuteDAGModel = true := by decide

/-- Every method the extractor found (also ones added later) is well formed. -/
theorem wf_all : ∀ p ∈ GV.Generated.Orch.all, ResultsWF p.2 = true := by decide

/-- For every extracted method and every call: the write log of the result map is exactly the
    executed rules that returned; the call does not panic. -/
theorem C11_results (name : String) (sk : Skel) (hm : (name, sk) ∈ GV.Generated.Orch.all) (cfg : Cfg)
    (hrb : cfg.rbNil = false) :
    (run sk cfg).1.results = some (resOf cfg (run sk cfg).1.stages.flatten) :=
  (results_exact sk (wf_all _ hm) cfg hrb).1

/-- Nothing from an earlier call survives: the log is determined by what ran in this call,
    whatever the previous map was. -/
theorem C11_fresh (sk : Skel) (hwf : ResultsWF sk = true) (cfg : Cfg) (hrb : cfg.rbNil = false)
    (p : Option (List (Name × Option Int))) :
    (run sk { cfg with prev := p }).1.results =
      some (resOf cfg (run sk { cfg with prev := p }).1.stages.flatten) :=
  (results_exact sk hwf { cfg with prev := p } hrb).1

/-- An entry exists only for a rule that ran and returned … -/
theorem C11_entry_sound (cfg : Cfg) (l : List Rule) (n : Name) (v : Option Int) (h : (n, v) ∈ resOf cfg l) :
    ∃ r ∈ l, r.name = n ∧ (cfg.out r.name).flag = true ∧ (cfg.out r.name).val = v := by
  obtain ⟨r, hr, heq⟩ := List.mem_map.mp h
  obtain ⟨h1, h2⟩ := List.mem_filter.mp hr
  simp only [Prod.mk.injEq] at heq
  exact ⟨r, h1, heq.1, h2, heq.2⟩

/-- … and every rule that ran and returned has its entry. -/
theorem C11_entry_complete (cfg : Cfg) (l : List Rule) (r : Rule) (hr : r ∈ l) (hf : (cfg.out r.name).flag = true) :
    (r.name, (cfg.out r.name).val) ∈ resOf cfg l :=
  List.mem_map.mpr ⟨r, List.mem_filter.mpr ⟨hr, hf⟩, rfl⟩

/-- Non-vacuity: the sort model on a fresh engine (`prev = none`) and on a used one. -/
example : (run Execute { sorted := [⟨"a", 1⟩], entities := [⟨"a", 1⟩], out := fun _ => ⟨true, some 7, false, false⟩,
                          prev := some [("zz", some 1)] }).1.results = some [("a", some 7)] := by decide

end GV.Props.C11
