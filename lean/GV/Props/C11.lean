import GV.Orch.Spec
namespace GV.Props.C11
end GV.Props.C11
