/-
  C11 — The result map is exactly the set of rules that returned in this call.

  Engine level: for all 21 execution methods the write log of the result map is exactly
  (rule, value) for the executed rules whose `Execute` reported `returned`, in a map that is
  allocated by this call (`results_fresh`: nothing depends on the map left by an earlier call).
  Rule level (`GV.Props.C02`/`Eval`): `returned` is reported iff a `return` statement was reached
  and its expression evaluated without error.
-/
import GV.Orch.AllConform
namespace GV.Props.C11
open GV.Orch GV.Generated.Orch

/-- For every method and every configuration: the results are those of the executed rules that
    returned, and nothing else. -/
theorem C11_results (m : Method) (cfg : Cfg) (hp : Pre cfg) :
    (run (All.skelOf m) cfg).1.results =
      some (match spec m cfg with
            | none => []
            | some st => (st.flatten.filter (returned cfg)).map (fun r => (r.name, (cfg.out r.name).val))) := by
  have h := All.conforms_all m cfg hp
  have h2 := congrArg Obs.results h
  simp only [obsOf, expectObs, expect] at h2
  rw [h2]
  cases spec m cfg <;> rfl

/-- Nothing from an earlier call survives: the outcome does not depend on the previous map. -/
theorem C11_fresh (m : Method) (cfg : Cfg) (hp : Pre cfg) (p : Option (List (Name × Option Int))) :
    (run (All.skelOf m) { cfg with prev := p }).1.results = (run (All.skelOf m) cfg).1.results := by
  have hp' : Pre { cfg with prev := p } := ⟨hp.rb, hp.stop0, hp.flag, hp.perm⟩
  rw [C11_results m _ hp', C11_results m cfg hp]
  have hdag : ∀ l, dagFamily { cfg with prev := p } l = dagFamily cfg l := by
    intro l
    induction l with
    | nil => rfl
    | cons a l ih => simp only [dagFamily]; rw [ih]; rfl
  have hspec : spec m { cfg with prev := p } = spec m cfg := by
    cases m <;> first | rfl | (simp only [spec, hdag])
  rw [hspec]
  rfl

/-- A rule that did not run has no entry; a rule that ran and returned has its value. -/
theorem C11_lookup (cfg : Cfg) (l : List Rule) (r : Rule) (hr : r ∈ l) (hret : returned cfg r = true) :
    (r.name, (cfg.out r.name).val) ∈ (l.filter (returned cfg)).map (fun r => (r.name, (cfg.out r.name).val)) := by
  apply List.mem_map.mpr
  exact ⟨r, List.mem_filter.mpr ⟨hr, hret⟩, rfl⟩

theorem C11_no_entry (cfg : Cfg) (l : List Rule) (n : Name) (v : Option Int)
    (h : (n, v) ∈ (l.filter (returned cfg)).map (fun r => (r.name, (cfg.out r.name).val))) :
    ∃ r ∈ l, r.name = n ∧ returned cfg r = true := by
  obtain ⟨r, hr, heq⟩ := List.mem_map.mp h
  obtain ⟨h1, h2⟩ := List.mem_filter.mp hr
  exact ⟨r, h1, by simpa using congrArg Prod.fst heq, h2⟩

end GV.Props.C11
