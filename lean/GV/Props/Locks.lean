/-
  No mutex is left behind (supports C09: a failed rule leaves the data context usable; C17: an
  instance request never waits on a lock nobody will release; C18: `lockVars` around a conc block's
  shared locals; C19).

  The lock skeleton of every function, method and function literal of context/data_context.go,
  engine/gengine_pool.go, engine/gengine.go, builder/rule_builder.go and
  internal/base/conc_statement.go that touches a mutex is regenerated from the source on every run
  (GV/Generated/Balance.lean).
-/
import GV.Generated.Balance
import GV.Race.OrderSound
namespace GV.Props.Locks
open GV.Race.Balance GV.Generated.Balance

/-- every regenerated skeleton passes the abstract interpreter with no mutex held at any way out
    (kernel-decided over the current source) -/
theorem locks_balanced : units.all (fun u => leakFree u.2) = true := by decide

/-- every `.Lock()` / `.Unlock()` / `.RLock()` / `.RUnlock()` in those files is a statement the
    translator has turned into a skeleton operation (none hides inside an expression) -/
theorem lock_sites_translated : lockOps = lockSites := by decide

/-- **However such a function is left — normally, by a return at any depth, by a panic inside any
    callee outside the short list of total built-ins — it holds none of the mutexes it took**, in
    every execution of its skeleton (any branch, any number of loop iterations). -/
theorem no_lock_left_behind (name : String) (body : LS) (hm : (name, body) ∈ units) {e : Exit} {st' : St}
    (hr : Run body ⟨[], []⟩ e st') : st'.held = [] ∧ (e = .fall ∨ e = .ret ∨ e = .panic) := by
  have h := List.all_eq_true.1 locks_balanced _ hm
  exact leakFree_sound h hr

/-- the interpreter over-approximates every execution of every skeleton -/
theorem interpreter_sound {s : LS} {st : St} {e : Exit} {st' : St} (hr : Run s st e st')
    (outs : List (Exit × St)) (h : chk s st = some outs) : (e, st') ∈ outs := chk_sound hr outs h

/-- Non-vacuity: the data context's `SetValue` and the pool's `getGengine` are among the units. -/
example : ("context/data_context.go:DataContext.SetValue" ∈ units.map (·.1)) ∧
    ("engine/gengine_pool.go:GenginePool.getGengine" ∈ units.map (·.1)) := by decide

/-! ### lock order (C17: no deadlock among gengine's own mutexes) -/

open GV.Race.Order in
/-- call-graph summaries and name tables regenerated with the skeletons -/
def sums : List Sum := summaries.map (fun s => ⟨s.name, s.typ, s.method, s.recv, s.takes, s.callees⟩)

open GV.Race.Order in
def names : Names := ⟨calleeComps, lockField, unitBase⟩

/-- The acquisition order the current source exhibits (a mutex taken while another may be held,
    within a function or through the callees it names), computed by the may-held analysis over the
    regenerated skeletons and call-graph summaries and decided by the kernel: the pool's update lock
    is taken before a rule builder's build lock and the data context's table lock; `getGengine`'s
    entry lock before the two free-list locks; nothing else nests. -/
theorem acquisition_order :
    GV.Race.Order.edges names sums units =
      [("gp.updateLock", "builder.buildLock"), ("gp.updateLock", "dc.lockBase"),
       ("gp.getEngineLock", "gp.runningLock"), ("gp.getEngineLock", "gp.additionLock")] := by decide

/-- The analysis is sound within a function: every acquisition made, while something is held, by any
    execution of any regenerated skeleton (any branch, any number of iterations, panics included) is
    one of the edges above.  (What a callee takes is attributed through the call-graph summaries,
    resolved by method name and receiver: that part is an over-approximating heuristic.) -/
theorem acquisitions_are_in_the_order (name : String) (body : LS) (hm : (name, body) ∈ units)
    {e : Exit} {st' : St} {evs : List (String × String)} (hr : GV.Race.Order.RunE body ⟨[], []⟩ e st' evs) :
    ∀ ev ∈ evs, ev ∈ GV.Race.Order.edges names sums units :=
  GV.Race.Order.acquisitions_in_edges names sums units name body hm
    (List.all_eq_true.1 locks_balanced _ hm) hr

/-- every such acquisition goes up in the ranking updateLock, getEngineLock < buildLock, runningLock,
    additionLock < lockBase < lockVars < the engine's result lock < a fan-out's error lock -/
theorem acquisition_order_ranked : GV.Race.Order.ordered names sums units = true := by
  unfold GV.Race.Order.ordered; rw [acquisition_order]; decide

/-- **Ranked acquisition excludes deadlock**: in any snapshot of any number of threads in which each
    blocked thread waits for one mutex ranking above everything it holds, no chain of threads, each
    waiting for a mutex the next one holds, closes into a cycle. -/
theorem no_deadlock_by_lock_order {T L : Type} (s : GV.Race.Order.Snap T L) (rank : L → Nat)
    (hr : GV.Race.Order.Ranked s rank) (huniq : ∀ x l l', s.waits x l → s.waits x l' → l = l')
    (a : T) (ts : List T) (hl : GV.Race.Order.Linked s (a :: ts ++ [a])) (la : L) (hwa : s.waits a la) : False :=
  GV.Race.Order.no_wait_cycle s rank hr huniq a ts hl la hwa

end GV.Props.Locks
