/-
  No mutex is left behind (supports C09: a failed rule leaves the data context usable; C17: an
  instance request never waits on a lock nobody will release; C18: `lockVars` around a conc block's
  shared locals; C19).

  The lock skeleton of every function, method and function literal of context/data_context.go,
  engine/gengine_pool.go, engine/gengine.go, builder/rule_builder.go and
  internal/base/conc_statement.go that touches a mutex is regenerated from the source on every run
  (GV/Generated/Balance.lean).
-/
import GV.Generated.Balance
namespace GV.Props.Locks
open GV.Race.Balance GV.Generated.Balance

/-- every regenerated skeleton passes the abstract interpreter with no mutex held at any way out
    (kernel-decided over the current source) -/
theorem locks_balanced : units.all (fun u => leakFree u.2) = true := by decide

/-- every `.Lock()` / `.Unlock()` / `.RLock()` / `.RUnlock()` in those files is a statement the
    translator has turned into a skeleton operation (none hides inside an expression) -/
theorem lock_sites_translated : lockOps = lockSites := by decide

/-- **However such a function is left — normally, by a return at any depth, by a panic inside any
    callee outside the short list of total built-ins — it holds none of the mutexes it took**, in
    every execution of its skeleton (any branch, any number of loop iterations). -/
theorem no_lock_left_behind (name : String) (body : LS) (hm : (name, body) ∈ units) {e : Exit} {st' : St}
    (hr : Run body ⟨[], []⟩ e st') : st'.held = [] ∧ (e = .fall ∨ e = .ret ∨ e = .panic) := by
  have h := List.all_eq_true.1 locks_balanced _ hm
  exact leakFree_sound h hr

/-- the interpreter over-approximates every execution of every skeleton -/
theorem interpreter_sound {s : LS} {st : St} {e : Exit} {st' : St} (hr : Run s st e st')
    (outs : List (Exit × St)) (h : chk s st = some outs) : (e, st') ∈ outs := chk_sound hr outs h

/-- Non-vacuity: the data context's `SetValue` and the pool's `getGengine` are among the units. -/
example : ("context/data_context.go:DataContext.SetValue" ∈ units.map (·.1)) ∧
    ("engine/gengine_pool.go:GenginePool.getGengine" ∈ units.map (·.1)) := by decide

end GV.Props.Locks
