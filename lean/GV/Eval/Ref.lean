/-
  Reference semantics of the rule language (C01, C02, C20), over reference trees: what a
  program means, independently of how the listener shapes the AST and of how the interpreter
  walks it.  Atoms (variables, fields, elements, calls) go through the data layer of
  GV.Eval.Store (C03's subject); operators use `refArith` / `refCmp`.

  Outcomes: a value, an error citing (or not) a line, or an uncited fault (`Res.panic`) that the
  nearest enclosing assignment or call turns into an error citing its own line, and the rule
  into an uncited error.
-/
import GV.Eval.Eval
namespace GV.Eval

mutual
  inductive RE
    | lit (line : Nat) (v : Val)
    | var (line : Nat) (name : String)
    | idx (line : Nat) (name : String) (key : Key)
    | call (line : Nat) (kind : CallKind) (name : String) (args : REs)
    | ar (line : Nat) (op : AOp) (l r : RE)
    | cmp (line : Nat) (op : COp) (l r : RE)
    | log (line : Nat) (op : LOp) (l r : RE)
    | not (line : Nat) (e : RE)
    | paren (line : Nat) (e : RE)
  inductive REs
    | nil
    | cons (e : RE) (rest : REs)
end

instance : Inhabited RE := ⟨.lit 0 .nil⟩
instance : Inhabited REs := ⟨.nil⟩

def RE.line : RE → Nat
  | .lit l _ | .var l _ | .idx l _ _ | .call l _ _ _ | .ar l _ _ _ | .cmp l _ _ _ | .log l _ _ _ | .not l _
  | .paren l _ => l

/-- Does the tree belong to the arithmetic sub-language (`mathExpression` of the grammar)? -/
def RE.isMath : RE → Bool
  | .lit _ _ | .var _ _ | .idx _ _ _ | .call _ _ _ _ | .ar _ _ _ _ => true
  | .paren _ e => e.isMath
  | _ => false

def aritOut (line : Nat) : Out Val → Res Val
  | .ok v => .ok v
  | .err => .err (some line)
  | .panic => .panic

/-- An expression position requires a value: the invalid Value (a call without result, a
    missing struct field) is an error citing the expression. -/
def needValue (line : Nat) : Res Val × Env → Res Val × Env
  | (.ok .nil, e) => (.err (some line), e)
  | r => r

def nv (x : Bool) (line : Nat) (r : Res Val × Env) : Res Val × Env := if x then needValue line r else r

def notOf (l : Nat) : Res Val × Env → Res Val × Env
  | (.ok .nil, e1) => (.err (some l), e1)
  | (.ok (.b p), e1) => (.ok (.b (!p)), e1)
  | (.ok _, e1) => (.panic, e1)
  | (.err c, e1) => (.err c, e1)
  | (.panic, e1) => (.panic, e1)

/-- a lone literal / variable / element / call argument is passed as it is -/
def RE.isPlainArg : RE → Bool
  | .lit _ _ | .var _ _ | .idx _ _ _ | .call _ _ _ _ => true
  | _ => false

mutual
  /-- Meaning of a tree.  `x`: the tree stands in expression position (it must yield a value).
      Operands are evaluated left to right, both operands of `&&` / `||` always (the language has
      no short-circuit evaluation); parentheses are transparent; `!` applies to its operand's
      value. -/
  def denote (P : Params) (env : Env) (x : Bool) : RE → Res Val × Env
    | .lit l v => nv x l (.ok v, env)
    | .var l name => nv x l (getValue env name, env)
    | .idx l name key => nv x l (evalMapV env ⟨⟨l, 0⟩, name, key⟩, env)
    | .call l kind name args => nv x l (finishCall P kind l name (denoteArgs P env args))
    | .ar l op a b =>
      nv x l <|
      match denote P env false a with
      | (.ok p, e1) =>
        (match denote P e1 false b with
         | (.ok q, e2) => (aritOut l (P.arith op p q), e2)
         | (.err c, e2) => (.err c, e2)
         | (.panic, e2) => (.panic, e2))
      | (.err c, e1) => (.err c, e1)
      | (.panic, e1) => (.panic, e1)
    | .paren l a => if a.isMath then nv x l (denote P env false a) else denote P env true a
    | .cmp l op a b =>
      match denote P env true a with
      | (.ok p, e1) =>
        (match denote P e1 true b with
         | (.ok q, e2) =>
           (match P.cmp op p q with
            | some r => (.ok (.b r), e2)
            | none => (.err (some l), e2))
         | (.err c, e2) => (.err c, e2)
         | (.panic, e2) => (.panic, e2))
      | (.err c, e1) => (.err c, e1)
      | (.panic, e1) => (.panic, e1)
    | .log l op a b =>
      match denote P env true a with
      | (.ok p, e1) =>
        (match denote P e1 true b with
         | (.ok q, e2) =>
           (match p, q with
            | .b u, .b w => (.ok (.b (match op with | .and => u && w | .or => u || w)), e2)
            | _, _ => (.err (some l), e2))
         | (.err c, e2) => (.err c, e2)
         | (.panic, e2) => (.panic, e2))
      | (.err c, e1) => (.err c, e1)
      | (.panic, e1) => (.panic, e1)
    | .not l (.paren _ inner) => notOf l (denote P env true inner)
    | .not l a => notOf l (denote P env false a)

  def denoteArgs (P : Params) (env : Env) : REs → Res (List Val) × Env
    | .nil => (.ok [], env)
    | .cons a rest =>
      match denote P env (!a.isPlainArg) a with
      | (.ok v, e1) =>
        (match denoteArgs P e1 rest with
         | (.ok vs, e2) => (.ok (v :: vs), e2)
         | (.err c, e2) => (.err c, e2)
         | (.panic, e2) => (.panic, e2))
      | (.err c, e1) => (.err c, e1)
      | (.panic, e1) => (.panic, e1)
end

end GV.Eval
