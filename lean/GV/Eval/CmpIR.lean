/-
  The comparison block of Expression.Evaluate as data (see /verif/extract/cmptab.go): the operator
  tables of the three operand classes, the float three-way switch, and the helper functions as
  normalised case lists; the table the hand-written model `goCmp` (GV.Eval.Val) was written from,
  and the proof that the model's operator semantics `COp.holds` is what the table says.
-/
import GV.Eval.Val
namespace GV.Eval.CmpIR
open GV.Eval

structure CmpTables where
  str     : List (String × String)      -- operator ↦ Go operator applied to the two strings
  num     : List (String × List Int)    -- operator ↦ the values of the three-way result c it accepts
  bool    : List (String × String)      -- operator ↦ Go operator applied to the two booleans
  flt3    : List (String × String)      -- the float three-way switch: condition ↦ c
  logic   : List String                 -- the `&&` / `||` block, one normalised statement each
  helpers : List String                 -- dispatch and helper functions, one normalised statement / case each
deriving DecidableEq, Repr

def sym : COp → String
  | .eq => "==" | .ne => "!=" | .gt => ">" | .lt => "<" | .ge => ">=" | .le => "<="

/-- c: -1 less, 0 equal, 1 greater, 2 unordered -/
def code : Ord3 → Int
  | .lt => -1 | .eq => 0 | .gt => 1 | .un => 2

/-- a Go comparison operator on an ordered type, as a predicate on the three-way outcome -/
def symHolds (s : String) (o : Ord3) : Option Bool :=
  if s = "==" then some (o == .eq) else if s = "!=" then some (o != .eq)
  else if s = ">" then some (o == .gt) else if s = "<" then some (o == .lt)
  else if s = ">=" then some (o == .gt || o == .eq) else if s = "<=" then some (o == .lt || o == .eq)
  else none

def lookup {α : Type} (k : String) : List (String × α) → Option α
  | (k', v) :: rest => if k' = k then some v else lookup k rest
  | [] => none

/-- numeric operands: does operator `op` hold for outcome `o` according to the table? -/
def numHolds (T : CmpTables) (op : COp) (o : Ord3) : Option Bool :=
  (lookup (sym op) T.num).map (fun l => l.contains (code o))

def strHolds (T : CmpTables) (op : COp) (o : Ord3) : Option Bool :=
  (lookup (sym op) T.str).bind (fun s => symHolds s o)

/-- booleans: only the operators the table lists -/
def boolOps (T : CmpTables) : List String := T.bool.map (·.1)

def expected : CmpTables := {
  str := [("==", "=="), ("!=", "!="), (">", ">"), ("<", "<"), (">=", ">="), ("<=", "<=")],
  num := [("==", [0]), ("!=", [-1, 1, 2]), (">", [1]), ("<", [-1]), (">=", [0, 1]), ("<=", [-1, 0])],
  bool := [("==", "=="), ("!=", "!=")],
  flt3 := [("ll < rr", "-1"), ("ll == rr", "0"), ("ll > rr", "1"), ("default", "2")],
  logic := [
    "lv, err := e.ExpressionLeft.Evaluate(dc, Vars)",
    "if err != nil { return reflect.ValueOf(nil), err }",
    "rv, err := e.ExpressionRight.Evaluate(dc, Vars)",
    "if err != nil { return reflect.ValueOf(nil), err }",
    "flv := lv",
    "frv := rv",
    "if lv.Kind() == reflect.Bool && rv.Kind() == reflect.Bool { if e.LogicalOperator == \"&&\" { b = reflect.ValueOf(flv.Bool() && frv.Bool()) } if e.LogicalOperator == \"||\" { b = reflect.ValueOf(flv.Bool() || frv.Bool()) } } else { return reflect.ValueOf(nil), errors.New(…) }"],
  helpers := [
    "dispatch: if isFloatType(l) || isFloatType(r)",
    "dispatch: ll, rr := toFloat64(l, flv), toFloat64(r, frv)",
    "dispatch: c = compareIntegers(flv, frv, isUintType(l), isUintType(r))",
    "isFloatType: return t == \"float32\" || t == \"float64\"",
    "isUintType: return t == \"uint\" || t == \"uint8\" || t == \"uint16\" || t == \"uint32\" || t == \"uint64\"",
    "toFloat64: case isFloatType(t): return v.Float()",
    "toFloat64: case isUintType(t): return float64(v.Uint())",
    "toFloat64: default: return float64(v.Int())",
    "compareIntegers: cmpU := func(a, b uint64) int { if a < b { return -1 } if a > b { return 1 } return 0 }",
    "compareIntegers: case !lUnsigned && !rUnsigned: a, b := l.Int(), r.Int() if a < b { return -1 } if a > b { return 1 } return 0",
    "compareIntegers: case lUnsigned && rUnsigned: return cmpU(l.Uint(), r.Uint())",
    "compareIntegers: case !lUnsigned: if l.Int() < 0 { return -1 } return cmpU(uint64(l.Int()), r.Uint())",
    "compareIntegers: default: if r.Int() < 0 { return 1 } return cmpU(l.Uint(), uint64(r.Int()))"] }

/-- the model's operator semantics is the numeric table's -/
theorem numHolds_expected (op : COp) (o : Ord3) : numHolds expected op o = some (op.holds o) := by
  cases op <;> cases o <;> rfl

/-- … and the string table's (each operator is applied as itself) -/
theorem strHolds_expected (op : COp) (o : Ord3) : strHolds expected op o = some (op.holds o) := by
  cases op <;> cases o <;> rfl

/-- booleans compare with `==` and `!=` only -/
theorem boolOps_expected : boolOps expected = ["==", "!="] := rfl

/-- the float three-way switch yields the code of `cmpFlt`'s outcome -/
theorem flt3_expected : expected.flt3 = [("ll < rr", "-1"), ("ll == rr", "0"), ("ll > rr", "1"), ("default", "2")] := rfl

end GV.Eval.CmpIR
