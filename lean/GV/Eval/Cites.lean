/-
  Cited lines (C20): every line cited by an error of the reference semantics is the line of a
  construct of the program it was raised in — expressions, call arguments, assignments,
  statements, whole rules.
-/
import GV.Eval.RefStmtThm
namespace GV.Eval

theorem keyCite (line : Nat) (r : Res Val) (c : Option Nat)
    (kv : Res Val) (f : Val → Res Val)
    (h : (match kv with | .ok v => f v | .err _ => .err (some line) | .panic => .panic) = .err c)
    (hf : ∀ v c', f v = .err c' → c' = some line) : c = some line := by
  cases kv with
  | ok v => exact hf v c h
  | err _ => simp at h; exact h.symm
  | panic => simp at h

theorem evalMapV_cite (env : Env) (m : MapV) (c : Nat) (h : evalMapV env m = .err (some c)) : c = m.pos.line := by
  unfold evalMapV at h
  simp only at h
  split at h
  · simp at h; omega
  · simp at h
  · split at h
    · -- map
      split at h
      · split at h <;> simp at h
      · rename_i cite heq
        have hc : cite = some c := by injection h
        subst hc
        split at heq
        · split at heq
          · split at heq <;> simp at heq
          · simp at heq; omega
          · simp at heq
        · simp at heq
        · split at heq <;> simp at heq
      · simp at h
    · -- slice
      split at h
      · split at h
        · split at h <;> simp at h
        · simp at h
        · simp at h; omega
        · simp at h
      · simp at h; omega
      · split at h
        · split at h <;> simp at h
        · simp at h; omega
    · simp at h; omega

theorem getValue_no_cite (env : Env) (n : String) (c : Nat) (h : getValue env n = .err (some c)) : False := by
  unfold getValue at h
  repeat' split at h
  all_goals simp at h

mutual
  def RE.lines : RE → List Nat
    | .lit l _ => [l]
    | .var l _ => [l]
    | .idx l _ _ => [l]
    | .call l _ _ args => l :: args.lines
    | .ar l _ a b => l :: (a.lines ++ b.lines)
    | .cmp l _ a b => l :: (a.lines ++ b.lines)
    | .log l _ a b => l :: (a.lines ++ b.lines)
    | .not l a => l :: a.lines
    | .paren l a => l :: a.lines
  def REs.lines : REs → List Nat
    | .nil => []
    | .cons a rest => a.lines ++ rest.lines
end

theorem nv_cite (x : Bool) (l c : Nat) (r : Res Val × Env) (e' : Env) (h : nv x l r = (.err (some c), e')) :
    c = l ∨ r = (.err (some c), e') := by
  cases x
  · right; exact h
  · simp only [nv, ite_true] at h
    rcases r with ⟨rv, re⟩
    cases rv with
    | ok v =>
      cases v <;> simp [needValue] at h
      left; exact h.1.symm
    | err c' => right; simpa [needValue] using h
    | panic => simp [needValue] at h

theorem recErr (b : Bool) (l c : Nat)
    (h : (if b = true then (Res.err (some l) : Res Val) else Res.panic) = .err (some c)) : c = l := by
  cases b <;> simp at h
  exact h.symm

theorem finishCall_cite (P : Params) (k : CallKind) (l : Nat) (n : String) (r : Res (List Val) × Env) (c : Nat) (e' : Env)
    (h : finishCall P k l n r = (.err (some c), e')) : c = l ∨ ∃ e1, r = (.err (some c), e1) := by
  rcases r with ⟨rv, re⟩
  cases rv with
  | err c' =>
    right
    simp only [finishCall] at h
    exact ⟨re, by simp only [Prod.mk.injEq, Res.err.injEq] at h; simp [h.1]⟩
  | panic =>
    left
    cases k <;> simp only [finishCall, Prod.mk.injEq] at h <;> exact recErr _ _ _ h.1
  | ok vs =>
    left
    cases k <;> simp only [finishCall] at h <;> split at h <;>
      first
        | (simp at h; done)
        | (simp only [Prod.mk.injEq, Res.err.injEq, Option.some.injEq] at h; exact h.1.symm)
        | (simp only [Prod.mk.injEq] at h; exact recErr _ _ _ h.1)

theorem notOf_cite (l c : Nat) (r : Res Val × Env) (e' : Env) (h : notOf l r = (.err (some c), e')) :
    c = l ∨ r = (.err (some c), e') := by
  rcases r with ⟨rv, re⟩
  cases rv with
  | ok v => cases v <;> simp [notOf] at h; left; exact h.1.symm
  | err c' => right; simpa [notOf] using h
  | panic => simp [notOf] at h

theorem bind2_cite {α : Type} (r1 : Res Val × Env) (k : Val → Env → Res α × Env) (c : Nat) (e' : Env)
    (h : (match r1 with
          | (.ok p, e1) => k p e1
          | (.err c, e1) => (.err c, e1)
          | (.panic, e1) => (.panic, e1)) = (Res.err (some c), e')) :
    (∃ e1, r1 = (.err (some c), e1)) ∨ ∃ p e1, r1 = (.ok p, e1) ∧ k p e1 = (.err (some c), e') := by
  rcases r1 with ⟨rv, re⟩
  cases rv with
  | ok p => right; exact ⟨p, re, rfl, h⟩
  | err c' => left; simp only [Prod.mk.injEq, Res.err.injEq] at h; exact ⟨re, by simp [h.1]⟩
  | panic => simp at h

mutual
  /-- Every line an error of the reference semantics cites is the line of a construct of the
      expression it was raised in. -/
  theorem denote_cites (P : Params) : (e : RE) → (env : Env) → (x : Bool) → (c : Nat) → (e' : Env) →
      denote P env x e = (.err (some c), e') → c ∈ e.lines
    | .lit l v, env, x, c, e', h => by
      rcases nv_cite x l c _ e' (by simpa [denote] using h) with h1 | h1
      · simp [RE.lines, h1]
      · simp at h1
    | .var l n, env, x, c, e', h => by
      rcases nv_cite x l c _ e' (by simpa [denote] using h) with h1 | h1
      · simp [RE.lines, h1]
      · simp only [Prod.mk.injEq] at h1
        cases hg : getValue env n <;> simp [hg] at h1
        -- getValue never cites a line
        rename_i c'
        exact absurd h1.1 (by
          intro hc
          have : getValue env n = .err (some c) := by rw [hg, hc]
          exact getValue_no_cite env n c this)
    | .idx l n k, env, x, c, e', h => by
      rcases nv_cite x l c _ e' (by simpa [denote] using h) with h1 | h1
      · simp [RE.lines, h1]
      · simp only [Prod.mk.injEq] at h1
        have := evalMapV_cite env _ c h1.1
        simp [RE.lines, this]
    | .call l kind n args, env, x, c, e', h => by
      rcases nv_cite x l c _ e' (by simpa [denote] using h) with h1 | h1
      · simp [RE.lines, h1]
      · rcases finishCall_cite P kind l n _ c e' h1 with h2 | ⟨e1, h2⟩
        · simp [RE.lines, h2]
        · have := denoteArgs_cites P args env c e1 h2
          simp [RE.lines, this]
    | .ar l op a b, env, x, c, e', h => by
      rcases nv_cite x l c _ e' (by simpa [denote] using h) with h1 | h1
      · simp [RE.lines, h1]
      · rcases bind2_cite _ _ c e' h1 with ⟨e1, h2⟩ | ⟨p, e1, h2, h3⟩
        · have := denote_cites P a env false c e1 h2; simp [RE.lines, this]
        · rcases bind2_cite _ _ c e' h3 with ⟨e2, h4⟩ | ⟨q, e2, h4, h5⟩
          · have := denote_cites P b e1 false c e2 h4; simp [RE.lines, this]
          · simp only [Prod.mk.injEq] at h5
            cases ha : P.arith op p q <;> simp [ha, aritOut] at h5
            simp [RE.lines, h5.1]
    | .paren l a, env, x, c, e', h => by
      simp only [denote] at h
      split at h
      · rcases nv_cite x l c _ e' h with h1 | h1
        · simp [RE.lines, h1]
        · have := denote_cites P a env false c e' h1; simp [RE.lines, this]
      · have := denote_cites P a env true c e' h; simp [RE.lines, this]
    | .cmp l op a b, env, x, c, e', h => by
      simp only [denote] at h
      rcases bind2_cite _ _ c e' h with ⟨e1, h2⟩ | ⟨p, e1, h2, h3⟩
      · have := denote_cites P a env true c e1 h2; simp [RE.lines, this]
      · rcases bind2_cite _ _ c e' h3 with ⟨e2, h4⟩ | ⟨q, e2, h4, h5⟩
        · have := denote_cites P b e1 true c e2 h4; simp [RE.lines, this]
        · cases hc : P.cmp op p q <;> simp [hc] at h5
          simp [RE.lines, h5.1]
    | .log l op a b, env, x, c, e', h => by
      simp only [denote] at h
      rcases bind2_cite _ _ c e' h with ⟨e1, h2⟩ | ⟨p, e1, h2, h3⟩
      · have := denote_cites P a env true c e1 h2; simp [RE.lines, this]
      · rcases bind2_cite _ _ c e' h3 with ⟨e2, h4⟩ | ⟨q, e2, h4, h5⟩
        · have := denote_cites P b e1 true c e2 h4; simp [RE.lines, this]
        · cases p <;> cases q <;> simp at h5 <;> simp [RE.lines, h5.1]
    | .not l (.paren l2 inner), env, x, c, e', h => by
      simp only [denote] at h
      rcases notOf_cite l c _ e' h with h1 | h1
      · simp [RE.lines, h1]
      · have := denote_cites P inner env true c e' h1; simp [RE.lines, this]
    | .not l (.lit l2 v), env, x, c, e', h => by
      simp only [denote] at h
      rcases notOf_cite l c _ e' h with h1 | h1
      · simp [RE.lines, h1]
      · have := denote_cites P (.lit l2 v) env false c e' h1; simp [RE.lines] at this ⊢; simp [this]
    | .not l (.var l2 n), env, x, c, e', h => by
      simp only [denote] at h
      rcases notOf_cite l c _ e' h with h1 | h1
      · simp [RE.lines, h1]
      · have := denote_cites P (.var l2 n) env false c e' h1; simp [RE.lines] at this ⊢; simp [this]
    | .not l (.idx l2 n k), env, x, c, e', h => by
      simp only [denote] at h
      rcases notOf_cite l c _ e' h with h1 | h1
      · simp [RE.lines, h1]
      · have := denote_cites P (.idx l2 n k) env false c e' h1; simp [RE.lines] at this ⊢; simp [this]
    | .not l (.call l2 kd n args), env, x, c, e', h => by
      simp only [denote] at h
      rcases notOf_cite l c _ e' h with h1 | h1
      · simp [RE.lines, h1]
      · have := denote_cites P (.call l2 kd n args) env false c e' h1; simp [RE.lines] at this ⊢; simp [this]
    | .not l (.ar l2 op a b), env, x, c, e', h => by
      simp only [denote] at h
      rcases notOf_cite l c _ e' h with h1 | h1
      · simp [RE.lines, h1]
      · have := denote_cites P (.ar l2 op a b) env false c e' h1; simp [RE.lines] at this ⊢; simp [this]
    | .not l (.cmp l2 op a b), env, x, c, e', h => by
      simp only [denote] at h
      rcases notOf_cite l c _ e' h with h1 | h1
      · simp [RE.lines, h1]
      · have := denote_cites P (.cmp l2 op a b) env false c e' h1; simp [RE.lines] at this ⊢; simp [this]
    | .not l (.log l2 op a b), env, x, c, e', h => by
      simp only [denote] at h
      rcases notOf_cite l c _ e' h with h1 | h1
      · simp [RE.lines, h1]
      · have := denote_cites P (.log l2 op a b) env false c e' h1; simp [RE.lines] at this ⊢; simp [this]
    | .not l (.not l2 a), env, x, c, e', h => by
      simp only [denote] at h
      rcases notOf_cite l c _ e' h with h1 | h1
      · simp [RE.lines, h1]
      · have := denote_cites P (.not l2 a) env false c e' h1; simp [RE.lines] at this ⊢; simp [this]

  theorem denoteArgs_cites (P : Params) : (args : REs) → (env : Env) → (c : Nat) → (e' : Env) →
      denoteArgs P env args = (.err (some c), e') → c ∈ args.lines
    | .nil, env, c, e', h => by simp [denoteArgs] at h
    | .cons a rest, env, c, e', h => by
      simp only [denoteArgs] at h
      rcases bind2_cite _ _ c e' h with ⟨e1, h2⟩ | ⟨p, e1, h2, h3⟩
      · have := denote_cites P a env _ c e1 h2; simp [REs.lines, this]
      · rcases hr : denoteArgs P e1 rest with ⟨rv, re⟩
        rw [hr] at h3
        cases rv with
        | ok vs => simp at h3
        | err c' =>
          simp only [Prod.mk.injEq, Res.err.injEq] at h3
          have := denoteArgs_cites P rest e1 c re (by rw [hr, h3.1])
          simp [REs.lines, this]
        | panic => simp at h3
end


/-! ### assignments -/

theorem assignCur_cite (line : Nat) (var : String) (mapv : Option MapV) (e2 : Env) (c : Nat)
    (h : assignCur line var mapv e2 = .err (some c)) : c = line := by
  unfold assignCur at h
  repeat' split at h
  all_goals first
    | (simp at h; done)
    | (simp at h; omega)

theorem assignNew_cite (P : Params) (line : Nat) (var : String) (mapv : Option MapV) (aop : AsOp) (mv : Val) (e2 : Env)
    (c : Nat) (h : assignNew P line var mapv aop mv e2 = .err (some c)) : c = line := by
  unfold assignNew at h
  split at h
  · simp at h
  · cases hc : assignCur line var mapv e2 with
    | ok sv =>
      rw [hc] at h
      simp only at h
      generalize P.arith _ sv mv = r at h
      cases r <;> simp at h
      omega
    | err c' =>
      rw [hc] at h
      simp only [Res.err.injEq] at h
      subst h
      exact assignCur_cite line var mapv e2 c hc
    | panic => rw [hc] at h; simp at h

theorem mapKeyOf_cite (line : Nat) (e2 : Env) (keyK : K) (k : Key) (c : Nat)
    (h : mapKeyOf line e2 keyK k = .err (some c)) : c = line := by
  unfold mapKeyOf at h
  repeat' split at h
  all_goals first
    | (simp at h; done)
    | (simp at h; omega)

theorem sliceIdxOf_cite (line : Nat) (e2 : Env) (len : Nat) (k : Key) (c : Nat)
    (h : sliceIdxOf line e2 len k = .err (some c)) : c = line := by
  unfold sliceIdxOf at h
  repeat' split at h
  all_goals first
    | (simp at h; done)
    | (simp at h; omega)

theorem setMapVar_cite (line : Nat) (e2 : Env) (m : MapV) (nv : Val) (c : Nat) (e' : Env)
    (h : setMapVar line e2 m nv = (.err (some c), e')) : c = line := by
  unfold setMapVar at h
  split at h
  · simp at h; omega
  · simp at h
  · split at h
    · split at h <;> simp at h
    · simp at h
    · rename_i c' _ hk
      simp only [Prod.mk.injEq, Res.err.injEq] at h
      have := h.1; subst this
      exact mapKeyOf_cite line e2 _ _ c hk
    · simp at h
  · split at h
    · split at h
      · simp at h
      · split at h <;> simp at h
    · simp at h
    · rename_i c' _ hk
      simp only [Prod.mk.injEq, Res.err.injEq] at h
      have := h.1; subst this
      exact sliceIdxOf_cite line e2 _ _ c hk
    · simp at h
  · simp at h; omega

theorem assignStore_cite (line : Nat) (var : String) (mapv : Option MapV) (e2 : Env) (nv : Val) (c : Nat) (e' : Env)
    (h : assignStore line var mapv e2 nv = (.err (some c), e')) : c = line := by
  unfold assignStore at h
  split at h
  · split at h
    · simp at h
    · simp at h; omega
    · simp at h
  · split at h
    · simp at h
    · exact setMapVar_cite line e2 _ nv c e' h

/-- an error of an assignment cites the assignment's own line, unless it was raised — and cited —
    inside its right-hand side -/
theorem assignCore_cite (P : Params) (line : Nat) (var : String) (mapv : Option MapV) (aop : AsOp)
    (rhs : Res Val × Env) (c : Nat) (e' : Env)
    (h : assignCore P line var mapv aop rhs = (.err (some c), e')) :
    c = line ∨ ∃ e2, rhs = (.err (some c), e2) := by
  rcases rhs with ⟨rv, re⟩
  cases rv with
  | err c' =>
    right
    simp only [assignCore] at h
    simp only [Prod.mk.injEq, Res.err.injEq] at h
    exact ⟨re, by simp [h.1]⟩
  | panic =>
    left
    simp only [assignCore] at h
    split at h <;> simp at h
    exact h.1.symm
  | ok mv =>
    left
    simp only [assignCore] at h
    cases hn : assignNew P line var mapv aop mv re with
    | err c' =>
      rw [hn] at h
      simp only [Prod.mk.injEq, Res.err.injEq] at h
      have := h.1; subst this
      exact assignNew_cite P line var mapv aop mv re c hn
    | panic =>
      rw [hn] at h
      simp only at h
      split at h <;> simp at h
      exact h.1.symm
    | ok nv =>
      rw [hn] at h
      simp only at h
      rcases hs : assignStore line var mapv re nv with ⟨sr, se⟩
      rw [hs] at h
      cases sr with
      | ok u => simp at h
      | err c' =>
        simp only [Prod.mk.injEq, Res.err.injEq] at h
        exact assignStore_cite line var mapv re nv c se (by rw [hs, h.1])
      | panic =>
        simp only at h
        split at h <;> simp at h
        exact h.1.symm

def RAssign.lines (a : RAssign) : List Nat := a.line :: a.e.lines

theorem denoteAssign_cites (P : Params) (env : Env) (a : RAssign) (c : Nat) (e' : Env)
    (h : denoteAssign P env a = (.err (some c), e')) : c ∈ a.lines := by
  rcases assignCore_cite P _ _ _ _ _ c e' h with h1 | ⟨e2, h1⟩
  · simp [RAssign.lines, h1]
  · have := denote_cites P a.e env _ c e2 h1
    simp [RAssign.lines, this]

/-! ### statements -/

def RConcItem.lines : RConcItem → List Nat
  | .assign a => a.lines
  | .call c => c.lines

def concLines : List RConcItem → List Nat
  | [] => []
  | it :: rest => it.lines ++ concLines rest

mutual
  def RS.lines : RS → List Nat
    | .assign a => a.lines
    | .call c => c.lines
    | .ifs cond thn elifs => cond.lines ++ thn.lines ++ elifs.lines
    | .for l init step cond body => l :: (init.lines ++ step.lines ++ cond.lines ++ body.lines)
    | .forRange l _ _ body => l :: body.lines
    | .brk => []
    | .cont => []
    | .conc items => concLines items
  def RSList.lines : RSList → List Nat
    | .nil => []
    | .cons s rest => s.lines ++ rest.lines
  def RBlock.lines : RBlock → List Nat
    | .mk stmts ret => stmts.lines ++ ret.lines
  def RRet.lines : RRet → List Nat
    | .none => []
    | .bare => []
    | .expr e => e.lines
  def RElifs.lines : RElifs → List Nat
    | .nil => []
    | .els b => b.lines
    | .cons cond b rest => cond.lines ++ b.lines ++ rest.lines
end

/-- statement outcomes citing a line -/
def citesS (r : SRes × Env) (c : Nat) : Prop := r.1 = .err (some c)

theorem toS_cite (r : Res Val × Env) (c : Nat) (h : (toS r).1 = .err (some c)) : r.1 = .err (some c) := by
  rcases r with ⟨rv, re⟩; cases rv <;> simp_all [toS]

theorem toSU_cite (r : Res Unit × Env) (c : Nat) (h : (toSU r).1 = .err (some c)) : r.1 = .err (some c) := by
  rcases r with ⟨rv, re⟩; cases rv <;> simp_all [toSU]

theorem condOf_cite (r : Res Val × Env) (kt kf : Env → SRes × Env) (c : Nat)
    (h : (condOf r kt kf).1 = .err (some c)) :
    r.1 = .err (some c) ∨ (∃ e1, (kt e1).1 = .err (some c)) ∨ (∃ e1, (kf e1).1 = .err (some c)) := by
  rcases r with ⟨rv, re⟩
  cases rv with
  | err c' => left; simpa [condOf] using h
  | panic => simp [condOf] at h
  | ok v =>
    simp only [condOf] at h
    split at h
    · simp at h
    · right; left; exact ⟨re, h⟩
    · right; right; exact ⟨re, h⟩

theorem denoteConcItem_cites (P : Params) (env : Env) (it : RConcItem) (c : Nat)
    (h : (denoteConcItem P env it).1 = .err (some c)) : c ∈ it.lines := by
  cases it with
  | assign a =>
    rcases hr : denoteAssign P env a with ⟨rv, re⟩
    simp only [denoteConcItem, hr] at h
    exact denoteAssign_cites P env a c re (by rw [hr, h])
  | call e =>
    simp only [denoteConcItem] at h
    rcases hr : denote P env false e with ⟨rv, re⟩
    rw [hr] at h
    cases rv <;> simp at h
    exact denote_cites P e env false c re (by rw [hr, h])

theorem denoteConc_cites (P : Params) : (items : List RConcItem) → (env : Env) → (failed : Option (Option Nat)) →
    (c : Nat) → (denoteConc P items env failed).1 = .err (some c) → failed = some (some c) ∨ c ∈ concLines items
  | [], env, failed, c, h => by
    cases failed with
    | none => simp [denoteConc, concOut] at h
    | some f => left; simp only [denoteConc, concOut, Res.err.injEq] at h; rw [h]
  | it :: rest, env, failed, c, h => by
    simp only [denoteConc] at h
    rcases hr : denoteConcItem P env it with ⟨rv, re⟩
    rw [hr] at h
    cases rv with
    | ok u =>
      rcases denoteConc_cites P rest re failed c h with h1 | h1
      · left; exact h1
      · right; simp [concLines, h1]
    | err c' =>
      rcases denoteConc_cites P rest re (firstErr failed c') c h with h1 | h1
      · cases failed with
        | some f => left; simpa [firstErr] using h1
        | none =>
          right
          simp only [firstErr, Option.some.injEq] at h1
          have := denoteConcItem_cites P env it c (by rw [hr, h1])
          simp [concLines, this]
      · right; simp [concLines, h1]
    | panic => simp at h

/-- the loop combinators raise no citation of their own -/
theorem forLoop_cite (maxLoop : Nat) (cond : Env → Res Val × Env) (body : Option (Env → SRes × Env))
    (step : Env → Res Unit × Env) (c : Nat) :
    ∀ (fuel count : Nat) (env : Env), (forLoop maxLoop cond body step fuel count env).1 = .err (some c) →
      (∃ e, (cond e).1 = .err (some c)) ∨ (∃ b e, body = some b ∧ (b e).1 = .err (some c)) ∨
      (∃ e, (step e).1 = .err (some c)) := by
  intro fuel
  induction fuel with
  | zero => intro count env h; simp [forLoop] at h
  | succ n ih =>
    intro count env h
    unfold forLoop at h
    split at h
    · simp at h
    · rcases hcnd : cond env with ⟨cv, ce⟩
      rw [hcnd] at h
      cases cv with
      | err c' => left; exact ⟨env, by rw [hcnd]; simpa using h⟩
      | panic => simp at h
      | ok v =>
        simp only at h
        split at h
        · simp at h
        · simp at h
        · cases body with
          | none => simp at h
          | some b =>
            simp only at h
            rcases hb : b ce with ⟨bv, be⟩
            rw [hb] at h
            cases bv with
            | err c' => right; left; exact ⟨b, ce, rfl, by rw [hb]; simpa using h⟩
            | panic => simp at h
            | brk => simp at h
            | ret v => simp at h
            | cont =>
              simp only at h
              rcases hs : step be with ⟨sv, se⟩
              rw [hs] at h
              cases sv with
              | ok u => exact ih _ _ h
              | err c' => right; right; exact ⟨be, by rw [hs]; simpa using h⟩
              | panic => simp at h
            | normal =>
              simp only at h
              rcases hs : step be with ⟨sv, se⟩
              rw [hs] at h
              cases sv with
              | ok u => exact ih _ _ h
              | err c' => right; right; exact ⟨be, by rw [hs]; simpa using h⟩
              | panic => simp at h

theorem rangeLoop_cite (setKey : Env → Val → Res Env) (body : Option (Env → SRes × Env)) (c : Nat)
    (hk : ∀ e k, setKey e k ≠ .err (some c)) :
    ∀ (ks : List Val) (env : Env), (rangeLoop setKey body ks env).1 = .err (some c) →
      ∃ b e, body = some b ∧ (b e).1 = .err (some c) := by
  intro ks
  induction ks with
  | nil => intro env h; simp [rangeLoop] at h
  | cons k ks ih =>
    intro env h
    unfold rangeLoop at h
    cases hs : setKey env k with
    | err c' =>
      rw [hs] at h
      simp at h
      subst h
      exact absurd hs (hk env k)
    | panic => rw [hs] at h; simp at h
    | ok e1 =>
      rw [hs] at h
      simp only at h
      cases body with
      | none => simp at h
      | some b =>
        simp only at h
        rcases hb : b e1 with ⟨bv, be⟩
        rw [hb] at h
        cases bv with
        | err c' => exact ⟨b, e1, rfl, by rw [hb]; simpa using h⟩
        | panic => simp at h
        | brk => simp at h
        | ret v => simp at h
        | cont => exact ih _ h
        | normal => exact ih _ h

theorem setSingle_no_cite (o : Obj) (v : Val) (c : Nat) : (setSingle o v = .err (some c)) = False := by
  apply eq_false
  intro h
  unfold setSingle at h
  repeat' split at h
  all_goals simp at h

theorem setField_no_cite (o : Obj) (f : String) (v : Val) (c : Nat) : (setField o f v = .err (some c)) = False := by
  apply eq_false
  intro h
  unfold setField at h
  repeat' split at h
  all_goals simp at h

theorem setValue_no_cite (e : Env) (n : String) (v : Val) (c : Nat) : setValue e n v ≠ .err (some c) := by
  intro h
  unfold setValue at h
  repeat' split at h
  all_goals first
    | (simp at h; done)
    | (simp at h; subst h; simp_all [setSingle_no_cite, setField_no_cite])


mutual
  theorem denoteS_cites (P : Params) : (s : RS) → (env : Env) → (c : Nat) →
      (denoteS P env s).1 = .err (some c) → c ∈ s.lines
    | .assign a, env, c, h => by
      simp only [denoteS] at h
      have h1 := toSU_cite _ c h
      rcases hr : denoteAssign P env a with ⟨rv, re⟩
      rw [hr] at h1
      exact denoteAssign_cites P env a c re (by rw [hr]; simpa using h1)
    | .call e, env, c, h => by
      simp only [denoteS] at h
      have h1 := toS_cite _ c h
      rcases hr : denote P env false e with ⟨rv, re⟩
      rw [hr] at h1
      exact denote_cites P e env false c re (by rw [hr]; simpa using h1)
    | .ifs cond thn elifs, env, c, h => by
      simp only [denoteS] at h
      rcases condOf_cite _ _ _ c h with h1 | ⟨e1, h1⟩ | ⟨e1, h1⟩
      · rcases hr : denote P env true cond with ⟨rv, re⟩
        rw [hr] at h1
        have := denote_cites P cond env true c re (by rw [hr]; simpa using h1)
        simp [RS.lines, this]
      · have := denoteB_cites P thn e1 c h1; simp [RS.lines, this]
      · have := denoteElifs_cites P elifs e1 c h1; simp [RS.lines, this]
    | .for l init step cond body, env, c, h => by
      simp only [denoteS] at h
      rcases hr : denoteAssign P env init with ⟨rv, re⟩
      rw [hr] at h
      cases rv with
      | err c' =>
        have := denoteAssign_cites P env init c re (by rw [hr]; simpa using h)
        simp [RS.lines, this]
      | panic => simp at h
      | ok u =>
        simp only at h
        rcases forLoop_cite _ _ _ _ c _ _ _ h with ⟨e, h1⟩ | ⟨b, e, hb, h1⟩ | ⟨e, h1⟩
        · rcases hc : denote P e true cond with ⟨cv, ce⟩
          rw [hc] at h1
          have := denote_cites P cond e true c ce (by rw [hc]; simpa using h1)
          simp [RS.lines, this]
        · simp only [Option.some.injEq] at hb
          subst hb
          have := denoteB_cites P body e c h1; simp [RS.lines, this]
        · rcases hs : denoteAssign P e step with ⟨sv, se⟩
          rw [hs] at h1
          have := denoteAssign_cites P e step c se (by rw [hs]; simpa using h1)
          simp [RS.lines, this]
    | .forRange l key coll body, env, c, h => by
      simp only [denoteS] at h
      split at h
      · simp at h; simp [RS.lines, h]
      · simp at h
      · split at h
        · simp at h; simp [RS.lines, h]
        · obtain ⟨b, e, hb, h1⟩ := rangeLoop_cite _ _ c (fun e k => setValue_no_cite e key k c) _ _ h
          simp only [Option.some.injEq] at hb
          subst hb
          have := denoteB_cites P body e c h1; simp [RS.lines, this]
    | .brk, env, c, h => by simp [denoteS] at h
    | .cont, env, c, h => by simp [denoteS] at h
    | .conc items, env, c, h => by
      simp only [denoteS] at h
      have h1 := toSU_cite _ c h
      rcases denoteConc_cites P items env none c h1 with h2 | h2
      · cases h2
      · simpa [RS.lines] using h2

  theorem denoteSL_cites (P : Params) : (l : RSList) → (env : Env) → (c : Nat) →
      (denoteSL P env l).1 = .err (some c) → c ∈ l.lines
    | .nil, env, c, h => by simp [denoteSL] at h
    | .cons s rest, env, c, h => by
      simp only [denoteSL] at h
      rcases hr : denoteS P env s with ⟨rv, re⟩
      rw [hr] at h
      cases rv with
      | normal =>
        have := denoteSL_cites P rest re c h; simp [RSList.lines, this]
      | err c' =>
        have := denoteS_cites P s env c (by rw [hr]; simpa using h); simp [RSList.lines, this]
      | panic => simp at h
      | brk => simp at h
      | cont => simp at h
      | ret v => simp at h

  theorem denoteB_cites (P : Params) : (b : RBlock) → (env : Env) → (c : Nat) →
      (denoteB P env b).1 = .err (some c) → c ∈ b.lines
    | .mk stmts ret, env, c, h => by
      simp only [denoteB] at h
      rcases hr : denoteSL P env stmts with ⟨rv, re⟩
      rw [hr] at h
      cases rv with
      | normal =>
        simp only at h
        cases ret with
        | none => simp at h
        | bare => simp at h
        | expr x =>
          simp only at h
          rcases hx : denote P re true x with ⟨xv, xe⟩
          rw [hx] at h
          cases xv with
          | ok v => simp at h
          | err c' =>
            have := denote_cites P x re true c xe (by rw [hx]; simpa using h)
            simp [RBlock.lines, RRet.lines, this]
          | panic => simp at h
      | err c' =>
        have := denoteSL_cites P stmts env c (by rw [hr]; simpa using h); simp [RBlock.lines, this]
      | panic => simp at h
      | brk => simp at h
      | cont => simp at h
      | ret v => simp at h

  theorem denoteElifs_cites (P : Params) : (el : RElifs) → (env : Env) → (c : Nat) →
      (denoteElifs P env el).1 = .err (some c) → c ∈ el.lines
    | .nil, env, c, h => by simp [denoteElifs] at h
    | .els b, env, c, h => by
      simp only [denoteElifs] at h
      have := denoteB_cites P b env c h; simpa [RElifs.lines] using this
    | .cons cond b rest, env, c, h => by
      simp only [denoteElifs] at h
      rcases condOf_cite _ _ _ c h with h1 | ⟨e1, h1⟩ | ⟨e1, h1⟩
      · rcases hr : denote P env true cond with ⟨rv, re⟩
        rw [hr] at h1
        have := denote_cites P cond env true c re (by rw [hr]; simpa using h1)
        simp [RElifs.lines, this]
      · have := denoteB_cites P b e1 c h1; simp [RElifs.lines, this]
      · have := denoteElifs_cites P rest e1 c h1; simp [RElifs.lines, this]
end

/-- **C20 (general).** Whenever the error of a failed rule cites a line, that line is the line of
    a construct of the rule — for every program, environment and primitives. -/
theorem denoteRule_cites (P : Params) (env : Env) (body : RBlock) (c : Nat)
    (h : (denoteRule P env body).cite = some c) : c ∈ body.lines := by
  unfold denoteRule ruleOutOf at h
  rcases hr : denoteB P { env with vars := [] } body with ⟨rv, re⟩
  rw [hr] at h
  cases rv with
  | err c' =>
    simp only at h
    exact denoteB_cites P body _ c (by rw [hr, h])
  | panic => simp only at h; split at h <;> simp at h
  | normal => simp at h
  | ret v => simp at h
  | brk => simp at h
  | cont => simp at h

/-- … and so does the interpreter run on the AST the listener builds -/
theorem ruleExecute_cites (P : Params) (env : Env) (body : RBlock) (hw : body.WF = true) (c : Nat)
    (h : (ruleExecute P env (lowerB body)).cite = some c) : c ∈ body.lines := by
  rw [rule_refines P env body hw] at h
  exact denoteRule_cites P env body c h

end GV.Eval
