/-
  Values of the rule DSL as the interpreter sees them (`reflect.Value`s of basic kinds), and the
  arithmetic / comparison primitives of internal/core/math.go and internal/base/expression.go,
  transcribed branch by branch (`go*`), next to the reference semantics of C01 (`ref*`).

  Floats are Lean's `Float` (opaque to the kernel): theorems never look inside a float
  operation, they only state which primitive is applied to which operands.
-/
namespace GV.Eval

/-- reflect.Kind, as far as the interpreter distinguishes kinds. -/
inductive K
  | int | int8 | int16 | int32 | int64 | uint | uint8 | uint16 | uint32 | uint64
  | float32 | float64 | string | bool | ptr | struct | map | slice | array | func | iface | invalid
deriving Repr, DecidableEq, Inhabited

/-- `reflect.Kind.String()`, as a character list so that prefix tests reduce in the kernel. -/
def K.name : K → List Char
  | .int => "int".toList | .int8 => "int8".toList | .int16 => "int16".toList | .int32 => "int32".toList
  | .int64 => "int64".toList | .uint => "uint".toList | .uint8 => "uint8".toList | .uint16 => "uint16".toList
  | .uint32 => "uint32".toList | .uint64 => "uint64".toList | .float32 => "float32".toList
  | .float64 => "float64".toList | .string => "string".toList | .bool => "bool".toList | .ptr => "ptr".toList
  | .struct => "struct".toList | .map => "map".toList | .slice => "slice".toList | .array => "array".toList
  | .func => "func".toList | .iface => "interface".toList | .invalid => "invalid".toList

def K.isSigned : K → Bool | .int | .int8 | .int16 | .int32 | .int64 => true | _ => false
def K.isUnsigned : K → Bool | .uint | .uint8 | .uint16 | .uint32 | .uint64 => true | _ => false
def K.isFloat : K → Bool | .float32 | .float64 => true | _ => false

/-- `strings.HasPrefix(kind.String(), p)`. -/
def hasPrefix (k : K) (p : String) : Bool := p.toList.isPrefixOf k.name

/-- A value.  `i`, `u`, `f` carry their Go kind; narrower kinds hold sign- or zero-extended payloads.
    `other` stands for every non-basic value (pointer, struct, map, slice, …, also values of
    interface kind). -/
inductive Val
  | i (k : K) (v : Int64)
  | u (k : K) (v : UInt64)
  | f (k : K) (v : Float)
  | s (v : String)
  | b (v : Bool)
  | nil                        -- the invalid reflect.Value
  | other (k : K) (id : Nat)
deriving Inhabited

def Val.kind : Val → K
  | .i k _ => k | .u k _ => k | .f k _ => k | .s _ => .string | .b _ => .bool | .nil => .invalid
  | .other k _ => k

/-- Values as the harness/driver exchange them are well kinded. -/
def Val.WK : Val → Bool
  | .i k _ => k.isSigned | .u k _ => k.isUnsigned | .f k _ => k.isFloat
  | .other k _ => !(k.isSigned || k.isUnsigned || k.isFloat || k == .string || k == .bool || k == .invalid)
  | _ => true

/-- `Value.Int()`, `Value.Uint()`, `Value.Float()`: panic (none) on a value of another class. -/
def Val.int? : Val → Option Int64 | .i _ v => some v | _ => none
def Val.uint? : Val → Option UInt64 | .u _ v => some v | _ => none
def Val.float? : Val → Option Float | .f _ v => some v | _ => none
/-- `Value.String()` never panics; for a non-string it yields `<T Value>` (T = the type's name;
    for the basic kinds that is the kind's name). -/
def Val.str : Val → String
  | .s v => v
  | .i k _ => "<" ++ String.ofList k.name ++ " Value>"
  | .u k _ => "<" ++ String.ofList k.name ++ " Value>"
  | .f k _ => "<" ++ String.ofList k.name ++ " Value>"
  | .b _ => "<bool Value>"
  | .nil => "<invalid Value>"
  | .other _ _ => "<value>"

inductive Out (α : Type) | ok (a : α) | err | panic
deriving Inhabited

def Out.ofOpt {α : Type} : Option α → Out α | some a => .ok a | none => .panic

/-- What a `recover()` turns the outcome into. -/
def Out.recovered {α : Type} : Out α → Out α | .panic => .err | o => o

inductive AOp | add | sub | mul | div
deriving Repr, DecidableEq, Inhabited

def AOp.i64 : AOp → Int64 → Int64 → Int64
  | .add, a, b => a + b | .sub, a, b => a - b | .mul, a, b => a * b | .div, a, b => a / b
def AOp.u64 : AOp → UInt64 → UInt64 → UInt64
  | .add, a, b => a + b | .sub, a, b => a - b | .mul, a, b => a * b | .div, a, b => a / b
def AOp.flt : AOp → Float → Float → Float
  | .add, a, b => a + b | .sub, a, b => a - b | .mul, a, b => a * b | .div, a, b => a / b

/-! ### Reference semantics (C01) -/

inductive NumClass | sint (v : Int64) | uint (v : UInt64) | flt (v : Float)

def Val.num? : Val → Option NumClass
  | .i _ v => some (.sint v) | .u _ v => some (.uint v) | .f _ v => some (.flt v) | _ => none

def NumClass.toFloat : NumClass → Float | .sint v => v.toFloat | .uint v => v.toFloat | .flt v => v
def NumClass.isZero : NumClass → Bool | .sint v => v == 0 | .uint v => v == 0 | .flt v => v == 0.0

/-- Integer arithmetic is 64-bit wrapping with truncating division; two unsigned operands stay
    unsigned, a mixed pair is computed in int64 (the unsigned operand reinterpreted); a float
    operand promotes the operation to float64; `+` concatenates strings; division by zero and
    every other combination is an error. -/
def refArith (op : AOp) (a b : Val) : Out Val :=
  match a, b with
  | .s x, .s y => if op == .add then .ok (.s (x ++ y)) else .err
  | _, _ =>
    match a.num?, b.num? with
    | some x, some y =>
      if op == .div && y.isZero then .err else
      match x, y with
      | .sint p, .sint q => .ok (.i .int64 (op.i64 p q))
      | .sint p, .uint q => .ok (.i .int64 (op.i64 p q.toInt64))
      | .uint p, .sint q => .ok (.i .int64 (op.i64 p.toInt64 q))
      | .uint p, .uint q => .ok (.u .uint64 (op.u64 p q))
      | p, q => .ok (.f .float64 (op.flt p.toFloat q.toFloat))
    | _, _ => .err

/-! ### Comparison -/

inductive COp | eq | ne | gt | lt | ge | le
deriving Repr, DecidableEq, Inhabited

/-- Three-way result plus "unordered" (a NaN is involved). -/
inductive Ord3 | lt | eq | gt | un
deriving Repr, DecidableEq

def COp.holds : COp → Ord3 → Bool
  | .eq, o => o == .eq | .ne, o => o != .eq | .gt, o => o == .gt | .lt, o => o == .lt
  | .ge, o => o == .gt || o == .eq | .le, o => o == .lt || o == .eq

def cmpI64 (a b : Int64) : Ord3 := if a < b then .lt else if a == b then .eq else .gt
def cmpU64 (a b : UInt64) : Ord3 := if a < b then .lt else if a == b then .eq else .gt
def cmpFlt (a b : Float) : Ord3 := if a < b then .lt else if a == b then .eq else if a > b then .gt else .un
def cmpStr (a b : String) : Ord3 := if a < b then .lt else if a == b then .eq else .gt

/-- Integer comparison of internal/base/expression.go (after the exact-comparison repair):
    same signedness directly; a negative signed operand is below every unsigned one, otherwise
    both are compared as uint64. -/
def goCmpInt (a b : NumClass) : Ord3 :=
  match a, b with
  | .sint p, .sint q => cmpI64 p q
  | .uint p, .uint q => cmpU64 p q
  | .sint p, .uint q => if p < 0 then .lt else cmpU64 p.toUInt64 q
  | .uint p, .sint q => if q < 0 then .gt else cmpU64 p q.toUInt64
  | p, q => cmpFlt p.toFloat q.toFloat

/-- The comparison block of `Expression.Evaluate`: `none` = no branch assigned `b`
    (the caller then reports "evaluate Expression err"). -/
def goCmp (op : COp) (a b : Val) : Option Bool :=
  if a.kind == .string && b.kind == .string then some (op.holds (cmpStr a.str b.str))
  else
    match a.num?, b.num? with
    | some x, some y =>
      (match x, y with
       | .flt _, _ => some (op.holds (cmpFlt x.toFloat y.toFloat))
       | _, .flt _ => some (op.holds (cmpFlt x.toFloat y.toFloat))
       | _, _ => some (op.holds (goCmpInt x y)))
    | some _, none => none
    | none, _ =>
      match a, b with
      | .b p, .b q => (match op with | .eq => some (p == q) | .ne => some (p != q) | _ => none)
      | _, _ => none

/-- Mathematical value of an integer operand. -/
def NumClass.toInt? : NumClass → Option Int | .sint v => some v.toInt | .uint v => some v.toNat | .flt _ => none

def cmpInt (a b : Int) : Ord3 := if a < b then .lt else if a = b then .eq else .gt

/-- Reference: two integers compare as mathematical integers over the whole 64-bit range; a
    comparison involving a float is made in float64; strings compare lexicographically; booleans
    only with `==` / `!=`; anything else is an error. -/
def refCmp (op : COp) (a b : Val) : Option Bool :=
  match a, b with
  | .s x, .s y => some (op.holds (cmpStr x y))
  | .b p, .b q => (match op with | .eq => some (p == q) | .ne => some (p != q) | _ => none)
  | _, _ =>
    match a.num?, b.num? with
    | some x, some y =>
      (match x.toInt?, y.toInt? with
       | some p, some q => some (op.holds (cmpInt p q))
       | _, _ => some (op.holds (cmpFlt x.toFloat y.toFloat)))
    | _, _ => none

end GV.Eval
