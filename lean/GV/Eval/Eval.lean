/-
  The interpreter (internal/base/*.go Evaluate methods), transcribed statement by statement:
  three outcomes (value / error citing a line / Go panic), `recover` sites where the code has
  them, break/continue as sentinel errors, the `LAST:` selection order of Expression.Evaluate,
  the for-loop cut-off.  Structural recursion on the AST; loops iterate on explicit fuel.
-/
import GV.Eval.Store
namespace GV.Eval

/-- Facts extracted from the code that parametrise the model. -/
structure Params where
  maxLoop    : Nat := 10000     -- maxExecuteNum
  ruleRecover : Bool := false   -- RuleEntity.Execute installs a recover()
  assignRecover : Bool := true  -- Assignment.Evaluate
  funcRecover : Bool := true    -- FunctionCall.Evaluate
  methodRecover : Bool := true  -- MethodCall.Evaluate
  threeRecover : Bool := true   -- ThreeLevelCall.Evaluate
  /-- the arithmetic and comparison primitives (core.Add/Sub/Mul/Div, the comparison block) -/
  arith : AOp → Val → Val → Out Val := goArith
  cmp   : COp → Val → Val → Option Bool := goCmp

/-! ### injected function library (semantics shared with the Go harness) -/

def castTo (k : K) (v : Val) : Option Val :=
  -- ParamsTypeChange: Go conversions without range checks; `none` = getNumType panics
  let asI : Option Int64 := match v with
    | .i _ x => some x | .u _ x => some x.toInt64 | .f _ x => f2i x | _ => none
  let asU : Option UInt64 := match v with
    | .i _ x => some x.toUInt64 | .u _ x => some x | .f _ x => f2u x | _ => none
  let asF : Option Float := match v with
    | .i _ x => some x.toFloat | .u _ x => some x.toFloat | .f _ x => some x | _ => none
  if k.isSigned then asI.map (fun x => .i k (narrowI k x))
  else if k.isUnsigned then asU.map (fun x => .u k (narrowU k x))
  else if k.isFloat then asF.map (fun x => .f k (narrowF k x))
  else some v

def kindOfName : String → Option K
  | "int" => some .int | "int8" => some .int8 | "int16" => some .int16 | "int32" => some .int32
  | "int64" => some .int64 | "uint" => some .uint | "uint8" => some .uint8 | "uint16" => some .uint16
  | "uint32" => some .uint32 | "uint64" => some .uint64 | "float32" => some .float32
  | "float64" => some .float64 | "string" => some .string | "bool" => some .bool | _ => none

/-- Declared parameter kinds of a library function. -/
def funcParams (id : String) : Option (List K) :=
  match id with
  | "obs" => some [.int64]
  | "obsS" => some [.string]
  | "obsC" => some [.int64]
  | "inj" => some []
  | "injS" => some []
  | "bump" => some []
  | "cat" => some [.string, .string]
  | "boom" => some []
  | "sum3" => some [.int8, .uint16, .float32]
  | "neg" => some [.bool]
  | _ => if id.startsWith "echo_" then (kindOfName (id.drop 5).toString).map (fun k => [k]) else none

/-- ParamsTypeChange followed by reflect's Call checks. `none` = panic. -/
def prepArgs : List K → List Val → Option (List Val)
  | [], [] => some []
  | [], _ :: _ => none                    -- too many arguments: Call panics
  | _ :: _, [] => none                    -- params[i] index out of range
  | k :: ks, v :: vs =>
    let c : Option Val :=
      if k.isSigned || k.isUnsigned || k.isFloat then castTo k v
      else if v.kind == k then some v else none
    match c, prepArgs ks vs with
    | some a, some rest => some (a :: rest)
    | _, _ => none

/-- a freshly allocated host struct (all fields zero) -/
def hostZeroFields : List (String × Field) :=
  [("I", .int), ("I8", .int8), ("I16", .int16), ("I32", .int32), ("I64", .int64), ("U", .uint), ("U8", .uint8),
   ("U16", .uint16), ("U32", .uint32), ("U64", .uint64), ("F32", .float32), ("F64", .float64), ("Str", .string),
   ("B", .bool)].map (fun (p : String × K) => (p.1, Field.scalar (zeroOf p.2)))

def applyFunc (id : String) (args : List Val) (env : Env) : Option (Val × Env) :=
  match id, args with
  | "obs", [v] => some (.nil, { env with trace := ("obs", [v]) :: env.trace })
  | "obsS", [v] => some (.nil, { env with trace := ("obsS", [v]) :: env.trace })
  | "obsC", [v] => some (.nil, { env with trace := ("obsC", [v]) :: env.trace })
  | "inj", [] =>
    -- the host injects the name `late` (once) while the rule is running
    some (.nil, if (env.lookupBase "late").isSome then env else env.setBase "late" (.val (.i .int64 100)))
  | "injS", [] =>
    -- the host injects the name `ls` (once): a pointer to a fresh struct
    some (.nil, if (env.lookupBase "ls").isSome then env else env.setBase "ls" (.struct true hostZeroFields))
  | "bump", [] =>
    -- a function with a side effect the host sees: increments the pointer-injected p_int64 and returns it
    (match env.lookupBase "p_int64" with
     | some (.pscalar (.i k x)) => some (.i .int64 (x + 1), env.setBase "p_int64" (.pscalar (.i k (x + 1))))
     | _ => none)
  | "cat", [.s a, .s b] => some (.s (a ++ b), env)
  | "boom", [] => none
  | "neg", [.b x] => some (.b (!x), env)
  | "sum3", [.i _ a, .u _ b, .f _ c] => some (.f .float64 (a.toFloat + b.toFloat + c), env)
  | _, [v] => if id.startsWith "echo_" then some (v, env) else none
  | _, _ => none

/-- DataContext.ExecFunc, without the line prefix the caller adds. -/
def execFunc (env : Env) (name : String) (args : List Val) : Res Val × Env :=
  match env.lookupBase name with
  | some (.func id) =>
    (match funcParams id with
     | none => (.panic, env)
     | some ks =>
       match prepArgs ks args with
       | none => (.panic, env)
       | some as =>
         match applyFunc id as env with
         | some (v, env') => (.ok v, env')
         | none => (.panic, env))
  | some _ => (.panic, env)               -- Call on a non-function value
  | none =>
    match env.lookupVar name with
    | some _ => (.panic, env)
    | none => (.err none, env)

/-- Methods of the injected struct pointer `S` (and of a nested struct), by name. -/
def methodParams (m : String) : Option (List K) :=
  match m with
  | "Echo32" => some [.int32]
  | "AddI64" => some [.int64]
  | "Twice" => some [.int16]
  | "Note" => some [.int64]
  | "Blow" => some [.int64]
  | _ => none

def fieldVal (fields : List (String × Field)) (f : String) : Val :=
  match fields.find? (fun p => p.1 == f) with
  | some (_, .scalar v) => v
  | _ => .nil

/-- the receiver of `a.m(..)`: an injected object, else a local holding (a pointer to) one -/
def Env.receiver (e : Env) (a : String) : Option Obj :=
  match e.lookupBase a with
  | some o => some o
  | none =>
    match e.lookupVar a with
    | some (.other _ id) => (e.entryAt id).map (·.2)
    | _ => none

def execMethod (env : Env) (name : String) (args : List Val) : Res Val × Env :=
  match splitDots name with
  | [a, m] =>
    (match env.receiver a with
     | some (.struct true fields) =>
       (match methodParams m with
        | none => (.err none, env)                       -- MethodByName invalid
        | some ks =>
          match prepArgs ks args, m with
          | some [v], "Echo32" => (.ok v, env)
          | some [_], "Blow" => (.panic, env)                 -- the method writes into a nil map
          | some [v], "Note" => (.ok .nil, { env with trace := ("note", [v]) :: env.trace })
          | some [.i _ x], "AddI64" =>
            (match fieldVal fields "I64" with
             | .i _ y => (.ok (.i .int64 (x + y)), env)
             | _ => (.panic, env))
          | some _, _ => (.err none, env)
          | none, _ => (.panic, env))
     | some (.struct false _) => (.err none, env)        -- value receiver has no pointer methods
     | some _ => (.err none, env)
     | none => (.err none, env))
  | _ => (.err none, env)

/-- DataContext.ExecThreeLevel: `S.Sub.Mark(x)` on the pointer-injected struct records an event. -/
def execThree (env : Env) (name : String) (args : List Val) : Res Val × Env :=
  match splitDots name with
  | [a, b, m] =>
    (match env.receiver a with
     | some (.struct true _) =>
       if b == "Sub" && m == "Mark" then
         (match prepArgs [.int64] args with
          | some [v] => (.ok .nil, { env with trace := ("mark", [v]) :: env.trace })
          | _ => (.panic, env))
       else (.err none, env)
     | some _ => (.err none, env)
     | none => (.err none, env))
  | _ => (.err none, env)

/-! ### expressions -/

def Val.bool? : Val → Option Bool | .b x => some x | _ => none

/-- MapVar.Evaluate. -/
def evalMapV (env : Env) (m : MapV) : Res Val :=
  let cite := some m.pos.line
  match getValue env m.name with
  | .err _ => .err cite
  | .panic => .panic
  | .ok _ =>
    -- look at the object itself (maps and slices only live in the injected table)
    match (splitDots m.name, env.lookupBase m.name) with
    | ([_], some (.map _ keyK elemK entries)) =>
      let key : Res Val := match m.key with
        | .var x => (match getValue env x with
            | .ok kv => (match wanted keyK kv with | some w => .ok w | none => .panic)
            | .err _ => .err cite | .panic => .panic)
        | .str s => .ok (.s s)
        | .int i => (match wanted keyK (.i .int64 i) with | some w => .ok w | none => .panic)
      (match key with
       | .ok k =>
         if k.kind != keyK then .panic            -- MapIndex with a key of another type
         else .ok (((entries.find? (fun p => valEq p.1 k)).map (·.2)).getD (zeroOf elemK))
       | .err c => .err c
       | .panic => .panic)
    | ([_], some (.slice _ _ _ elems)) =>
      (match m.key with
       | .var x => (match getValue env x with
           | .ok (.i _ i) => if i ≥ 0 && i.toInt.toNat < elems.length then .ok (elems.getD i.toInt.toNat .nil) else .panic
           | .ok _ => .panic
           | .err _ => .err cite | .panic => .panic)
       | .str _ => .err cite
       | .int i => if i ≥ 0 then (if i.toInt.toNat < elems.length then .ok (elems.getD i.toInt.toNat .nil) else .panic)
                   else .err cite)
    | _ => .err cite

/-- A value of the invalid kind compares equal to `reflect.ValueOf(nil)` in the LAST block, so
    an operand that evaluated to the invalid Value is skipped there. -/
def skipNil : Option Val → Option Val
  | some .nil => none
  | o => o

/-- sequencing of interpreter steps: continue only with a value -/
def bindR {α β : Type} (r : Res α × Env) (k : α → Env → Res β × Env) : Res β × Env :=
  match r with
  | (.ok a, e) => k a e
  | (.err c, e) => (.err c, e)
  | (.panic, e) => (.panic, e)

def mapSome (r : Res Val × Env) : Res (Option Val) × Env :=
  match r with
  | (.ok v, e) => (.ok (some v), e)
  | (.err c, e) => (.err c, e)
  | (.panic, e) => (.panic, e)

/-- `&&` / `||` of Expression.Evaluate on two evaluated operands. -/
def logicOf (p : Pos) (lop : LOp) (lv rv : Val) : Res (Option Val) :=
  match lv, rv with
  | .b x, .b y => .ok (some (.b (match lop with | .and => x && y | .or => x || y)))
  | _, _ => .err (some p.line)

/-- The comparison block on two evaluated operands: string/string and bool/bool with an
    unsupported operator return the "Can't be recognized" error; every other miss leaves `b`
    as it was. -/
def cmpOf (P : Params) (p : Pos) (cop : COp) (lv rv : Val) (bv : Option Val) : Res (Option Val) :=
  match P.cmp cop lv rv with
  | some r => .ok (some (.b r))
  | none =>
    match lv, rv with
    | .b _, .b _ => .err (some p.line)
    | _, _ => .ok bv

/-- The `LAST:` block: math, then atom, then b; `!` negates a boolean. -/
def lastPick (p : Pos) (notOp : Bool) (mv av bv : Option Val) : Res Val :=
  let pick : Option Val := match skipNil mv with
    | some v => some v
    | none => match skipNil av with | some v => some v | none => skipNil bv
  match pick with
  | none => .err (some p.line)
  | some v =>
    if notOp then
      (match v.bool? with
       | some x => .ok (.b (!x))
       | none => .panic)            -- Value.Bool() on a non-bool
    else .ok v

/-- What a call does once its arguments are evaluated: recover() turns a panic (also one raised
    while evaluating the arguments) into an error citing the call's line; lookup / call errors
    are prefixed with that line too. -/
def finishCall (P : Params) (kind : CallKind) (line : Nat) (name : String) (r : Res (List Val) × Env) :
    Res Val × Env :=
  let rec? : Bool := match kind with
    | .func => P.funcRecover | .method => P.methodRecover | .three => P.threeRecover
  match r with
  | (.err c, env1) => (.err c, env1)
  | (.panic, env1) => (if rec? then .err (some line) else .panic, env1)
  | (.ok vs, env1) =>
    let r2 := match kind with
      | .func => execFunc env1 name vs
      | .method => execMethod env1 name vs
      | .three => execThree env1 name vs
    match r2 with
    | (.ok v, env2) => (.ok v, env2)
    | (.err _, env2) => (.err (some line), env2)
    | (.panic, env2) => (if rec? then .err (some line) else .panic, env2)

def OExpr.isNone : OExpr → Bool | .none => true | .some _ => false

mutual
  def evalAtom (P : Params) (env : Env) : Atom → Res Val × Env
    | .var _ name => (getValue env name, env)
    | .const _ v => (.ok v, env)
    | .call _ c => evalCall P env c
    | .mapv _ m => (evalMapV env m, env)
    | .empty _ => (.err none, env)

  /-- FunctionCall / MethodCall / ThreeLevelCall `.Evaluate`: recover() turns a panic into an
      error citing the call's line; lookup/call errors are prefixed with that line too. -/
  def evalCall (P : Params) (env : Env) : Call → Res Val × Env
    | .mk kind p name args => finishCall P kind p.line name (evalArgs P env args)

  def evalArgs (P : Params) (env : Env) : Args → Res (List Val) × Env
    | .nil => (.ok [], env)
    | .cons a rest =>
      match evalArg P env a with
      | (.ok v, env1) =>
        (match evalArgs P env1 rest with
         | (.ok vs, env2) => (.ok (v :: vs), env2)
         | (.err c, env2) => (.err c, env2)
         | (.panic, env2) => (.panic, env2))
      | (.err c, env1) => (.err c, env1)
      | (.panic, env1) => (.panic, env1)

  def evalArg (P : Params) (env : Env) : Arg → Res Val × Env
    | .var name => (getValue env name, env)
    | .const v => (.ok v, env)
    | .call c => evalCall P env c
    | .mapv m => (evalMapV env m, env)
    | .expr e => evalExpr P env e
    | .empty => (.err none, env)

  def evalMath (P : Params) (env : Env) : MathE → Res Val × Env
    | .mk p atom left right op =>
      match atom with
      | .some a => evalAtom P env a
      | .none =>
        match right with
        | .none => evalOMath P env left
        | .some r =>
          match evalOMath P env left with
          | (.ok lv, env1) =>
            (match evalMath P env1 r with
             | (.ok rv, env2) =>
               (match op with
                | some o =>
                  (match P.arith o lv rv with
                   | .ok v => (.ok v, env2)
                   | .err => (.err (some p.line), env2)
                   | .panic => (.panic, env2))
                | none => (.err (some p.line), env2))
             | (.err c, env2) => (.err c, env2)
             | (.panic, env2) => (.panic, env2))
          | (.err c, env1) => (.err c, env1)
          | (.panic, env1) => (.panic, env1)

  def evalOMath (P : Params) (env : Env) : OMath → Res Val × Env
    | .none => (.panic, env)              -- nil *MathExpression dereferenced
    | .some m => evalMath P env m

  def evalOMathOpt (P : Params) (env : Env) : OMath → Res (Option Val) × Env
    | .none => (.ok none, env)
    | .some m => mapSome (evalMath P env m)

  def evalOAtomOpt (P : Params) (env : Env) : OAtom → Res (Option Val) × Env
    | .none => (.ok none, env)
    | .some a => mapSome (evalAtom P env a)

  def evalOExprOpt (P : Params) (env : Env) : OExpr → Res (Option Val) × Env
    | .none => (.ok none, env)
    | .some e => mapSome (evalExpr P env e)

  def evalOExprPanic (P : Params) (env : Env) : OExpr → Res Val × Env
    | .none => (.panic, env)              -- nil *Expression dereferenced
    | .some e => evalExpr P env e

  /-- Expression.Evaluate: math, atom and the parenthesised single operand are computed first,
      in this order; then the logical, then the comparison operator; then `LAST:`. -/
  def evalExpr (P : Params) (env : Env) : Expr → Res Val × Env
    | .mk p left right atom math logic cmp notOp =>
      bindR (evalOMathOpt P env math) fun mv e1 =>
      bindR (evalOAtomOpt P e1 atom) fun av e2 =>
      bindR (if right.isNone then evalOExprOpt P e2 left else (.ok none, e2)) fun bv0 e3 =>
      bindR (match logic with
             | none => (.ok bv0, e3)
             | some lop =>
               bindR (evalOExprPanic P e3 left) fun lv e4 =>
               bindR (evalOExprPanic P e4 right) fun rv e5 => (logicOf p lop lv rv, e5)) fun bv1 e4 =>
      bindR (match cmp with
             | none => (.ok bv1, e4)
             | some cop =>
               bindR (evalOExprPanic P e4 left) fun lv e5 =>
               bindR (evalOExprPanic P e5 right) fun rv e6 => (cmpOf P p cop lv rv bv1, e6)) fun bv e5 =>
      (lastPick p notOp mv av bv, e5)
end

/-! ### statements -/

/-- Outcome of a statement (list): Go's `(value, err, returned)` with the two sentinel errors. -/
inductive SRes
  | normal
  | ret (v : Val)
  | err (cite : Option Nat)
  | brk
  | cont
  | panic
deriving Inhabited

/-- the current value of the target of a compound assignment -/
def assignCur (line : Nat) (var : String) (mapv : Option MapV) (e2 : Env) : Res Val :=
  if var != "" then (match getValue e2 var with | .ok v => .ok v | .err _ => .err (some line) | .panic => .panic)
  else match mapv with
    | some m => (match evalMapV e2 m with | .ok v => .ok v | .err _ => .err (some line) | .panic => .panic)
    | none => .ok .nil

def AsOp.toAOp : AsOp → AOp | .add => .add | .sub => .sub | .mul => .mul | _ => .div

/-- the value to store: `=` / `:=` the right-hand side, `+= -= *= /=` the target's current value
    combined with it -/
def assignNew (P : Params) (line : Nat) (var : String) (mapv : Option MapV) (aop : AsOp) (mv : Val) (e2 : Env) :
    Res Val :=
  match aop with
  | .set => .ok mv
  | op =>
    match assignCur line var mapv e2 with
    | .ok sv =>
      (match P.arith op.toAOp sv mv with
       | .ok v => .ok v | .err => .err (some line) | .panic => .panic)
    | .err c => .err c
    | .panic => .panic

/-- the key of a map element, coerced to the map's key kind -/
def mapKeyOf (line : Nat) (e2 : Env) (keyK : K) : Key → Res Val
  | .var x => (match getValue e2 x with
      | .ok kv => (match wanted keyK kv with | some w => .ok w | none => .panic)
      | .err _ => .err (some line) | .panic => .panic)
  | .str s => .ok (.s s)
  | .int i => (match wanted keyK (.i .int64 i) with | some w => .ok w | none => .panic)

/-- the index of a slice / array element -/
def sliceIdxOf (line : Nat) (e2 : Env) (len : Nat) : Key → Res Nat
  | .var x => (match getValue e2 x with
      | .ok (.i _ i) => if i ≥ 0 && i.toInt.toNat < len then .ok i.toInt.toNat else .panic
      | .ok _ => .panic | .err _ => .err (some line) | .panic => .panic)
  | .str _ => .err (some line)
  | .int i => if i ≥ 0 then (if i.toInt.toNat < len then .ok i.toInt.toNat else .panic) else .err (some line)

/-- DataContext.SetMapVarValue -/
def setMapVar (line : Nat) (e2 : Env) (m : MapV) (nv : Val) : Res Unit × Env :=
  match getValue e2 m.name, e2.lookupBase m.name with
  | .err _, _ => (.err (some line), e2)
  | .panic, _ => (.panic, e2)
  | .ok _, some (.map ptr keyK elemK entries) =>
    (match mapKeyOf line e2 keyK m.key, wanted elemK nv with
     | .ok k, some w =>
       if k.kind != keyK || !assignable elemK w then (.panic, e2)
       else
         let entries' := if entries.any (fun p => valEq p.1 k)
           then entries.map (fun p => if valEq p.1 k then (p.1, w) else p) else entries ++ [(k, w)]
         (.ok (), e2.setBase m.name (.map ptr keyK elemK entries'))
     | .ok _, none => (.panic, e2)
     | .err c, _ => (.err c, e2)
     | .panic, _ => (.panic, e2))
  | .ok _, some (.slice ptr isArr elemK elems) =>
    (match sliceIdxOf line e2 elems.length m.key, wanted elemK nv with
     | .ok j, some w =>
       if !assignable elemK w then (.panic, e2)
       else if isArr && !ptr then (.panic, e2)    -- an array injected by value is not addressable
       else (.ok (), e2.setBase m.name (.slice ptr isArr elemK (elems.set j w)))
     | .ok _, none => (.panic, e2)
     | .err c, _ => (.err c, e2)
     | .panic, _ => (.panic, e2))
  | .ok _, _ => (.err (some line), e2)

/-- store into the named local / injected target, or into the element -/
def assignStore (line : Nat) (var : String) (mapv : Option MapV) (e2 : Env) (nv : Val) : Res Unit × Env :=
  if var != "" then
    (match setValue e2 var nv with
     | .ok e3 => (.ok (), e3) | .err _ => (.err (some line), e2) | .panic => (.panic, e2))
  else match mapv with
    | none => (.ok (), e2)
    | some m => setMapVar line e2 m nv

/-- Assignment.Evaluate after its right-hand side: `recover()` turns a panic into an error citing
    the assignment's line; every error raised by the assignment itself cites that line. -/
def assignCore (P : Params) (line : Nat) (var : String) (mapv : Option MapV) (aop : AsOp)
    (rhs : Res Val × Env) : Res Unit × Env :=
  let recov : Res Unit × Env → Res Unit × Env := fun r => match r with
    | (.panic, e) => (if P.assignRecover then .err (some line) else .panic, e) | o => o
  recov <|
    match rhs with
    | (.err c, e2) => (.err c, e2)
    | (.panic, e2) => (.panic, e2)
    | (.ok mv, e2) =>
      match assignNew P line var mapv aop mv e2 with
      | .err c => (.err c, e2)
      | .panic => (.panic, e2)
      | .ok nv => assignStore line var mapv e2 nv

/-- The right-hand side: MathExpression first, then Expression (the later one wins). -/
def assignRhs (P : Params) (env : Env) (math : OMath) (expr : OExpr) : Res Val × Env :=
  bindR (match math with | .some m => evalMath P env m | .none => (.ok .nil, env)) fun mv1 e1 =>
    match expr with
    | .some x => evalExpr P e1 x
    | .none => (.ok mv1, e1)

/-- Assignment.Evaluate. -/
def evalAssign (P : Params) (env : Env) (a : Assign) : Res Unit × Env :=
  assignCore P a.pos.line a.var a.mapv a.op (assignRhs P env a.math a.expr)

/-- Iteration of ForStmt's loop on fuel. -/
def forLoop (maxLoop : Nat) (cond : Env → Res Val × Env) (body : Option (Env → SRes × Env))
    (step : Env → Res Unit × Env) : Nat → Nat → Env → SRes × Env
  | 0, _, env => (.err none, env)
  | fuel + 1, count, env =>
    -- iCount++ ; if iCount > maxExecuteNum -> error
    if count + 1 > maxLoop then (.err none, env) else
    match cond env with
    | (.err c, e1) => (.err c, e1)
    | (.panic, e1) => (.panic, e1)
    | (.ok v, e1) =>
      match v.bool? with
      | none => (.panic, e1)
      | some false => (.normal, e1)
      | some true =>
        match body with
        | none => (.normal, e1)
        | some b =>
          match b e1 with
          | (.err c, e2) => (.err c, e2)
          | (.panic, e2) => (.panic, e2)
          | (.brk, e2) => (.normal, e2)
          | (.ret v, e2) => (.ret v, e2)
          | (.cont, e2) | (.normal, e2) =>
            match step e2 with
            | (.ok _, e3) => forLoop maxLoop cond body step fuel (count + 1) e3
            | (.err c, e3) => (.err c, e3)
            | (.panic, e3) => (.panic, e3)

/-- Iteration of ForRangeStmt over a list of keys. -/
def rangeLoop (setKey : Env → Val → Res Env) (body : Option (Env → SRes × Env)) :
    List Val → Env → SRes × Env
  | [], env => (.normal, env)
  | k :: ks, env =>
    match setKey env k with
    | .err c => (.err c, env)
    | .panic => (.panic, env)
    | .ok e1 =>
      match body with
      | none => (.normal, e1)
      | some b =>
        match b e1 with
        | (.err c, e2) => (.err c, e2)
        | (.panic, e2) => (.panic, e2)
        | (.brk, e2) => (.normal, e2)
        | (.ret v, e2) => (.ret v, e2)
        | (.cont, e2) | (.normal, e2) => rangeLoop setKey body ks e2

/-- NewInter: a slice or array injected by value iterates over its indexes, a map over its
    keys; anything else is not iterable. -/
def rangeKeys (env : Env) (coll : String) : Option (List Val) :=
  match splitDots coll, env.lookupBase coll with
  | [_], some (.slice false _ _ elems) => some ((List.range elems.length).map (fun i => Val.i .int (Int64.ofNat i)))
  | [_], some (.map false _ _ entries) => some (entries.map (·.1))
  | _, _ => none

def evalConcItem (P : Params) (env : Env) : ConcItem → Res Unit × Env
  | .assign a => evalAssign P env a
  | .call c => match evalCall P env c with
    | (.ok _, e) => (.ok (), e) | (.err c, e) => (.err c, e) | (.panic, e) => (.panic, e)

/-- the block's error is the list of its children's errors: the first one is what a reader (and
    the cited line) sees -/
def firstErr (failed : Option (Option Nat)) (c : Option Nat) : Option (Option Nat) :=
  match failed with | some f => some f | none => some c

def concOut (failed : Option (Option Nat)) : Res Unit :=
  match failed with | some c => .err c | none => .ok ()

/-- ConcStatement.Evaluate, children in list order (interleavings: GV.Props.C18): every child
    runs; the block fails, after all of them, if any child failed. -/
def evalConc (P : Params) : List ConcItem → Env → Option (Option Nat) → Res Unit × Env
  | [], env, failed => (concOut failed, env)
  | it :: rest, env, failed =>
    match evalConcItem P env it with
    | (.ok _, e1) => evalConc P rest e1 failed
    | (.err c, e1) => evalConc P rest e1 (firstErr failed c)
    | (.panic, e1) => (.panic, e1)

mutual
  def evalStmt (P : Params) (env : Env) : Stmt → SRes × Env
    | .ifs cond thn elifs =>
      match evalExpr P env cond with
      | (.err c, e1) => (.err c, e1)
      | (.panic, e1) => (.panic, e1)
      | (.ok v, e1) =>
        match v.bool? with
        | none => (.panic, e1)
        | some true => evalOStmts P e1 thn
        | some false => evalElifs P e1 elifs
    | .call c =>
      match evalCall P env c with
      | (.ok _, e1) => (.normal, e1) | (.err c, e1) => (.err c, e1) | (.panic, e1) => (.panic, e1)
    | .assign a =>
      match evalAssign P env a with
      | (.ok _, e1) => (.normal, e1) | (.err c, e1) => (.err c, e1) | (.panic, e1) => (.panic, e1)
    | .conc items =>
      match evalConc P items env none with
      | (.ok _, e1) => (.normal, e1) | (.err c, e1) => (.err c, e1) | (.panic, e1) => (.panic, e1)
    | .for _ init step cond body =>
      match init, step with
      | some i, some s =>
        (match evalAssign P env i with
         | (.err c, e1) => (.err c, e1)
         | (.panic, e1) => (.panic, e1)
         | (.ok _, e1) =>
           forLoop P.maxLoop (fun e => evalExpr P e cond)
             (if (match body with | .none => true | .some _ => false) then none
              else some (fun e => evalOStmts P e body))
             (fun e => evalAssign P e s) (P.maxLoop + 1) 0 e1)
      | _, _ => (.err none, env)                       -- "assignments len failed"
    | .forRange p key coll body =>
      match getValue env coll with
      | .err _ => (.err (some p.line), env)
      | .panic => (.panic, env)
      | .ok _ =>
        (match rangeKeys env coll with
         | none => (.err (some p.line), env)            -- not iterable
         | some ks =>
           rangeLoop (fun e k => setValue e key k)
             (if (match body with | .none => true | .some _ => false) then none
              else some (fun e => evalOStmts P e body)) ks env)
    | .brk => (.brk, env)
    | .cont => (.cont, env)
    | .empty => (.err none, env)

  def evalSList (P : Params) (env : Env) : SList → SRes × Env
    | .nil => (.normal, env)
    | .cons s rest =>
      match evalStmt P env s with
      | (.normal, e1) => evalSList P e1 rest
      | other => other

  /-- Statements.Evaluate. -/
  def evalStmts (P : Params) (env : Env) : Stmts → SRes × Env
    | .mk list ret =>
      match evalSList P env list with
      | (.normal, e1) =>
        (match ret with
         | .none => (.normal, e1)
         | .bare => (.ret .nil, e1)
         | .expr x =>
           match evalExpr P e1 x with
           | (.ok v, e2) => (.ret v, e2)
           | (.err c, e2) => (.err c, e2)
           | (.panic, e2) => (.panic, e2))
      | other => other

  def evalOStmts (P : Params) (env : Env) : OStmts → SRes × Env
    | .none => (.normal, env)
    | .some s => evalStmts P env s

  def evalElifs (P : Params) (env : Env) : Elifs → SRes × Env
    | .nil => (.normal, env)
    | .els b => evalOStmts P env b
    | .cons cond body rest =>
      match evalExpr P env cond with
      | (.err c, e1) => (.err c, e1)
      | (.panic, e1) => (.panic, e1)
      | (.ok v, e1) =>
        match v.bool? with
        | none => (.panic, e1)
        | some true => evalOStmts P e1 body
        | some false => evalElifs P e1 rest
end

/-- What `RuleEntity.Execute` reports. -/
structure RuleOut where
  outcome : String            -- "ok" | "err" | "panic"
  cite    : Option Nat
  flag    : Bool              -- a return was reached
  val     : Val
  env     : Env

/-- What the rule reports for the outcome of its body: a stray break / continue surfaces as an
    error; an uncited fault is recovered (iff RuleEntity.Execute recovers) into an error. -/
def ruleOutOf (P : Params) : SRes × Env → RuleOut
  | (.normal, e) => ⟨"ok", none, false, .nil, e⟩
  | (.ret v, e) => ⟨"ok", none, true, v, e⟩
  | (.err c, e) => ⟨"err", c, false, .nil, e⟩
  | (.brk, e) => ⟨"err", none, false, .nil, e⟩
  | (.cont, e) => ⟨"err", none, false, .nil, e⟩
  | (.panic, e) => if P.ruleRecover then ⟨"err", none, false, .nil, e⟩ else ⟨"panic", none, false, .nil, e⟩

/-- RuleEntity.Execute: fresh locals. -/
def ruleExecute (P : Params) (env : Env) (body : Stmts) : RuleOut :=
  ruleOutOf P (evalStmts P { env with vars := [] } body)

end GV.Eval
