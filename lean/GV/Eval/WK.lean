/-
  Well-kindedness is an invariant of the data layer: every value the interpreter can read from a
  well-kinded environment, compute with the reference primitives, convert or store is well
  kinded (the payload constructor matches the Go kind it carries).  The value-level theorems
  `arith_correct` / `cmp_correct` need exactly this of their operands.
-/
import GV.Eval.ValThm
import GV.Eval.RefStmt
namespace GV.Eval

def FieldWK : Field → Prop
  | .scalar v => v.WK = true
  | .nested _ _ fs => ∀ p ∈ fs, p.2.WK = true

def ObjWK : Obj → Prop
  | .val v => v.WK = true
  | .pscalar v => v.WK = true
  | .struct _ fs => ∀ p ∈ fs, FieldWK p.2
  | .map _ _ _ es => ∀ p ∈ es, p.1.WK = true ∧ p.2.WK = true
  | .slice _ _ _ es => ∀ v ∈ es, v.WK = true
  | .func _ => True

structure EnvWK (e : Env) : Prop where
  vars : ∀ p ∈ e.vars, p.2.WK = true
  base : ∀ p ∈ e.base, ObjWK p.2

theorem zeroOf_wk (k : K) : (zeroOf k).WK = true := by
  cases k <;> simp [zeroOf, Val.WK, K.isSigned, K.isUnsigned, K.isFloat]

theorem asVal_wk (o : Obj) (id : Nat) (h : ObjWK o) : (o.asVal id).WK = true := by
  cases o with
  | val v => exact h
  | pscalar v => simp [Obj.asVal, Val.WK, K.isSigned, K.isUnsigned, K.isFloat]
  | struct p fs => cases p <;> simp [Obj.asVal, Val.WK, K.isSigned, K.isUnsigned, K.isFloat]
  | map p a b es => cases p <;> simp [Obj.asVal, Val.WK, K.isSigned, K.isUnsigned, K.isFloat]
  | slice p arr k es => cases p <;> cases arr <;> simp [Obj.asVal, Val.WK, K.isSigned, K.isUnsigned, K.isFloat]
  | func id' => simp [Obj.asVal, Val.WK, K.isSigned, K.isUnsigned, K.isFloat]

theorem field_asVal_wk (f : Field) (h : FieldWK f) : f.asVal.WK = true := by
  cases f with
  | scalar v => exact h
  | nested p n fs => cases p <;> simp [Field.asVal, Val.WK, K.isSigned, K.isUnsigned, K.isFloat]

theorem lookupBase_wk (e : Env) (h : EnvWK e) (n : String) (o : Obj) (hl : e.lookupBase n = some o) : ObjWK o := by
  unfold Env.lookupBase at hl
  cases hf : e.base.find? (fun p => p.1 == n) with
  | none => simp [hf] at hl
  | some p =>
    simp only [hf, Option.map_some, Option.some.injEq] at hl
    subst hl
    exact h.base p (List.mem_of_find?_eq_some hf)

theorem lookupVar_wk (e : Env) (h : EnvWK e) (n : String) (v : Val) (hl : e.lookupVar n = some v) : v.WK = true := by
  unfold Env.lookupVar at hl
  cases hf : e.vars.find? (fun p => p.1 == n) with
  | none => simp [hf] at hl
  | some p =>
    simp only [hf, Option.map_some, Option.some.injEq] at hl
    subst hl
    exact h.vars p (List.mem_of_find?_eq_some hf)

theorem entryAt_wk (e : Env) (h : EnvWK e) (id : Nat) (n : String) (o : Obj) (hl : e.entryAt id = some (n, o)) : ObjWK o := by
  unfold Env.entryAt at hl
  have := List.mem_of_getElem? hl
  exact h.base (n, o) this

theorem getField_wk (o : Obj) (h : ObjWK o) (f : String) (fl : Field) (hg : getField o f = some fl) : FieldWK fl := by
  cases o with
  | struct p fs =>
    simp only [getField, Option.some.injEq] at hg
    cases hf : fs.find? (fun p => p.1 == f) with
    | none => simp [hf] at hg; subst hg; simp [FieldWK, Val.WK]
    | some q =>
      simp only [hf, Option.map_some, Option.getD_some] at hg
      subst hg
      exact h q (List.mem_of_find?_eq_some hf)
  | _ => simp [getField] at hg

theorem getValue_wk (e : Env) (h : EnvWK e) (n : String) (v : Val) (hg : getValue e n = .ok v) : v.WK = true := by
  unfold getValue at hg
  split at hg
  · -- [a]
    split at hg
    · rename_i o ho
      simp only [Res.ok.injEq] at hg; subst hg
      exact asVal_wk o _ (lookupBase_wk e h _ o ho)
    · split at hg
      · rename_i v' hv
        simp only [Res.ok.injEq] at hg; subst hg
        exact lookupVar_wk e h _ _ hv
      · simp at hg
  · -- [a, b]
    split at hg
    · rename_i o ho
      split at hg
      · rename_i fl hfl
        simp only [Res.ok.injEq] at hg; subst hg
        exact field_asVal_wk fl (getField_wk o (lookupBase_wk e h _ o ho) _ fl hfl)
      · simp at hg
    · split at hg
      · split at hg
        · rename_i n' o' ho'
          split at hg
          · rename_i fl hfl
            simp only [Res.ok.injEq] at hg; subst hg
            exact field_asVal_wk fl (getField_wk o' (entryAt_wk e h _ n' o' ho') _ fl hfl)
          · simp at hg
        · simp at hg
      · simp at hg
      · simp at hg
  · -- [a, b, c]
    split at hg
    · rename_i o ho
      split at hg
      · rename_i np isNil nf hfl
        split at hg
        · simp at hg
        · simp only [Res.ok.injEq] at hg; subst hg
          have hw := getField_wk o (lookupBase_wk e h _ o ho) _ _ hfl
          cases hf : nf.find? (fun p => p.1 == _) with
          | none => simp [hf, Val.WK]
          | some q => simp only [hf, Option.map_some, Option.getD_some]; exact hw q (List.mem_of_find?_eq_some hf)
      · simp at hg
      · simp at hg
    · split at hg <;> simp at hg
  · simp at hg


/-! ### conversions -/

theorem narrow_wk_i (k : K) (hk : k.isSigned = true) (x : Int64) : (Val.i k (narrowI k x)).WK = true := hk
theorem narrow_wk_u (k : K) (hk : k.isUnsigned = true) (x : UInt64) : (Val.u k (narrowU k x)).WK = true := hk
theorem narrow_wk_f (k : K) (hk : k.isFloat = true) (x : Float) : (Val.f k (narrowF k x)).WK = true := hk

theorem unspec_wk : unspecVal.WK = true := by decide

theorem convTo_wk (k : K) (v nv : Val) (c : Bool) (h : convTo k v c = some nv) : nv.WK = true := by
  unfold convTo at h
  split at h
  · rename_i hk
    split at h
    · simp at h; subst h; exact hk
    · split at h <;> simp at h; subst h; exact hk
    · split at h
      · split at h <;> simp at h <;> subst h
        · exact hk
        · exact unspec_wk
      · simp at h
    · simp at h
  · split at h
    · rename_i hk
      split at h
      · simp at h; subst h; exact hk
      · split at h <;> simp at h; subst h; exact hk
      · split at h
        · split at h <;> simp at h <;> subst h
          · exact hk
          · exact unspec_wk
        · simp at h
      · simp at h
    · split at h
      · rename_i hk
        split at h
        · simp at h; subst h; exact hk
        · split at h <;> simp at h; subst h; exact hk
        · split at h <;> simp at h; subst h; exact hk
        · simp at h
      · split at h
        · split at h
          · simp at h
          · simp at h; subst h; rfl
        · split at h
          · split at h
            · simp at h; subst h; rfl
            · simp at h
          · simp at h

theorem wanted_wk (k : K) (v nv : Val) (hv : v.WK = true) (h : wanted k v = some nv) : nv.WK = true := by
  unfold wanted at h
  split at h
  · simp at h; subst h; exact hv
  · split at h
    · rename_i hk; split at h <;> simp at h; subst h; exact hk
    · split at h
      · rename_i hk; split at h <;> simp at h; subst h; exact hk
      · split at h
        · rename_i hk; split at h <;> simp at h; subst h; exact hk
        · simp at h; subst h; exact hv

theorem castTo_wk (k : K) (v nv : Val) (hv : v.WK = true) (h : castTo k v = some nv) : nv.WK = true := by
  unfold castTo at h
  simp only at h
  split at h
  · rename_i hk
    simp only [Option.map_eq_some_iff] at h
    obtain ⟨x, _, rfl⟩ := h
    exact hk
  · split at h
    · rename_i hk
      simp only [Option.map_eq_some_iff] at h
      obtain ⟨x, _, rfl⟩ := h
      exact hk
    · split at h
      · rename_i hk
        simp only [Option.map_eq_some_iff] at h
        obtain ⟨x, _, rfl⟩ := h
        exact hk
      · simp at h; subst h; exact hv

/-! ### association lists -/

theorem setAssoc_all {β : Type} (l : List (String × β)) (n : String) (v : β) (Q : β → Prop)
    (hl : ∀ p ∈ l, Q p.2) (hv : Q v) : ∀ p ∈ setAssoc l n v, Q p.2 := by
  intro p hp
  unfold setAssoc at hp
  split at hp
  · simp only [List.mem_map] at hp
    obtain ⟨q, hq, rfl⟩ := hp
    split
    · exact hv
    · exact hl q hq
  · simp only [List.mem_append, List.mem_singleton] at hp
    rcases hp with hp | rfl
    · exact hl p hp
    · exact hv

theorem setVar_wk (e : Env) (h : EnvWK e) (n : String) (v : Val) (hv : v.WK = true) : EnvWK (e.setVar n v) :=
  ⟨setAssoc_all e.vars n v (fun x => x.WK = true) h.vars hv, h.base⟩

theorem setBase_wk (e : Env) (h : EnvWK e) (n : String) (o : Obj) (ho : ObjWK o) : EnvWK (e.setBase n o) :=
  ⟨h.vars, setAssoc_all e.base n o ObjWK h.base ho⟩


/-! ### element reads -/

theorem find_entry_wk (es : List (Val × Val)) (h : ∀ p ∈ es, p.1.WK = true ∧ p.2.WK = true) (q : Val × Val → Bool)
    (k : K) : (((es.find? q).map (·.2)).getD (zeroOf k)).WK = true := by
  cases hf : es.find? q with
  | none => simpa using zeroOf_wk k
  | some p => simpa using (h p (List.mem_of_find?_eq_some hf)).2

theorem getD_elem_wk (es : List Val) (h : ∀ v ∈ es, v.WK = true) (i : Nat) : (es.getD i .nil).WK = true := by
  unfold List.getD
  cases hi : es[i]? with
  | none => rfl
  | some v => exact h v (List.mem_of_getElem? hi)

theorem evalMapV_wk (e : Env) (h : EnvWK e) (m : MapV) (v : Val) (hg : evalMapV e m = .ok v) : v.WK = true := by
  unfold evalMapV at hg
  simp only at hg
  split at hg
  · simp at hg
  · simp at hg
  · split at hg
    · -- map
      rename_i hb
      simp only [Prod.mk.injEq] at hb
      have ho := lookupBase_wk e h _ _ hb.2
      split at hg
      · split at hg
        · simp at hg
        · simp only [Res.ok.injEq] at hg; subst hg
          exact find_entry_wk _ ho _ _
      · simp at hg
      · simp at hg
    · -- slice
      rename_i hb
      simp only [Prod.mk.injEq] at hb
      have ho := lookupBase_wk e h _ _ hb.2
      split at hg
      · split at hg
        · split at hg
          · simp only [Res.ok.injEq] at hg; subst hg; exact getD_elem_wk _ ho _
          · simp at hg
        · simp at hg
        · simp at hg
        · simp at hg
      · simp at hg
      · split at hg
        · split at hg
          · simp only [Res.ok.injEq] at hg; subst hg; exact getD_elem_wk _ ho _
          · simp at hg
        · simp at hg
    · simp at hg

/-! ### writes -/

theorem setField_wk (o o' : Obj) (f : String) (v : Val) (ho : ObjWK o) (h : setField o f v = .ok o') : ObjWK o' := by
  unfold setField at h
  split at h
  · split at h
    · simp at h
    · simp at h
    · split at h
      · simp at h
      · split at h
        · rename_i nv hc
          simp only [Res.ok.injEq] at h; subst h
          exact setAssoc_all _ _ _ FieldWK ho (convTo_wk _ _ _ _ hc)
        · simp at h
  · simp at h

theorem setSingle_wk (o o' : Obj) (v : Val) (hv : v.WK = true) (h : setSingle o v = .ok o') : ObjWK o' := by
  unfold setSingle at h
  split at h
  · split at h
    · simp only [Res.ok.injEq] at h; subst h; exact hv
    · split at h
      · split at h
        · split at h
          · rename_i nv hc; simp only [Res.ok.injEq] at h; subst h; exact convTo_wk _ _ _ _ hc
          · simp at h
        · split at h
          · rename_i nv hc; simp only [Res.ok.injEq] at h; subst h; exact convTo_wk _ _ _ _ hc
          · simp at h
        · split at h
          · rename_i nv hc; simp only [Res.ok.injEq] at h; subst h; exact convTo_wk _ _ _ _ hc
          · simp at h
        · simp at h
      · simp at h
  all_goals first
    | (simp at h; done)
    | (split at h <;> simp at h)


theorem setValue_wk (e e' : Env) (h : EnvWK e) (n : String) (v : Val) (hv : v.WK = true)
    (hs : setValue e n v = .ok e') : EnvWK e' := by
  unfold setValue at hs
  split at hs
  · -- [a]
    split at hs
    · rename_i o ho
      have hob := lookupBase_wk e h _ o ho
      split at hs
      · split at hs
        · rename_i nm fields hent
          simp only [Res.ok.injEq] at hs; subst hs
          have := entryAt_wk e h _ _ _ hent
          exact setBase_wk e h _ _ this
        · split at hs
          · rename_i o' hss
            simp only [Res.ok.injEq] at hs; subst hs
            exact setBase_wk e h _ _ (setSingle_wk _ _ _ hv hss)
          · simp at hs
          · simp at hs
      · split at hs
        · rename_i o' hss
          simp only [Res.ok.injEq] at hs; subst hs
          exact setBase_wk e h _ _ (setSingle_wk _ _ _ hv hss)
        · simp at hs
        · simp at hs
    · simp only [Res.ok.injEq] at hs; subst hs
      exact setVar_wk e h _ _ hv
  · -- [a, b]
    split at hs
    · rename_i o ho
      have hob := lookupBase_wk e h _ o ho
      split at hs
      · rename_i o' hsf
        simp only [Res.ok.injEq] at hs; subst hs
        exact setBase_wk e h _ _ (setField_wk _ _ _ _ hob hsf)
      · simp at hs
      · simp at hs
    · split at hs
      · split at hs
        · rename_i nm o hent
          have hob := entryAt_wk e h _ _ _ hent
          split at hs
          · split at hs
            · rename_i o' hsf
              simp only [Res.ok.injEq] at hs; subst hs
              exact setBase_wk e h _ _ (setField_wk _ _ _ _ hob hsf)
            · simp at hs
            · simp at hs
          · split at hs <;> simp at hs
        · simp at hs
      · simp at hs
      · simp at hs
  · -- [a, b, c]
    split at hs
    · rename_i ptr fields ho
      have hob := lookupBase_wk e h _ _ ho
      split at hs
      · rename_i np isNil nf hfind
        split at hs
        · simp at hs
        · split at hs
          · simp at hs
          · rename_i cur hcur
            split at hs
            · simp at hs
            · split at hs
              · simp at hs
              · split at hs
                · rename_i nv hc
                  simp only [Res.ok.injEq] at hs; subst hs
                  refine setBase_wk e h _ _ ?_
                  have hnested : FieldWK (.nested np isNil nf) := hob _ (List.mem_of_find?_eq_some hfind)
                  refine setAssoc_all _ _ _ FieldWK hob ?_
                  exact setAssoc_all nf _ nv (fun x => x.WK = true) hnested (convTo_wk _ _ _ _ hc)
                · simp at hs
      · simp at hs
      · simp at hs
    · simp at hs
    · split at hs <;> simp at hs
  · simp at hs


theorem mapKeyOf_wk (line : Nat) (e : Env) (h : EnvWK e) (keyK : K) (k : Key) (v : Val)
    (hk : mapKeyOf line e keyK k = .ok v) : v.WK = true := by
  unfold mapKeyOf at hk
  split at hk
  · split at hk
    · rename_i kv hg
      split at hk
      · rename_i w hw
        simp only [Res.ok.injEq] at hk; subst hk
        exact wanted_wk _ _ _ (getValue_wk e h _ _ hg) hw
      · simp at hk
    · simp at hk
    · simp at hk
  · simp only [Res.ok.injEq] at hk; subst hk; rfl
  · split at hk
    · rename_i w hw
      simp only [Res.ok.injEq] at hk; subst hk
      exact wanted_wk _ _ _ (by simp [Val.WK, K.isSigned]) hw
    · simp at hk

theorem set_elem_wk (es : List Val) (h : ∀ v ∈ es, v.WK = true) (j : Nat) (w : Val) (hw : w.WK = true) :
    ∀ v ∈ es.set j w, v.WK = true := by
  intro v hv
  rcases List.mem_or_eq_of_mem_set hv with h1 | h1
  · exact h v h1
  · subst h1; exact hw

theorem setMapVar_wk (line : Nat) (e e' : Env) (h : EnvWK e) (m : MapV) (nv : Val) (hv : nv.WK = true) (u : Unit)
    (hs : setMapVar line e m nv = (.ok u, e')) : EnvWK e' := by
  unfold setMapVar at hs
  split at hs
  · simp at hs
  · simp at hs
  · rename_i ptr keyK elemK entries _ hb
    have hob := lookupBase_wk e h _ _ hb
    split at hs
    · rename_i k w hk hw
      split at hs
      · simp at hs
      · simp only [Prod.mk.injEq, Res.ok.injEq, true_and] at hs
        subst hs
        refine setBase_wk e h _ _ ?_
        have hkw := mapKeyOf_wk line e h _ _ _ hk
        have hww := wanted_wk _ _ _ hv hw
        intro p hp
        split at hp
        · simp only [List.mem_map] at hp
          obtain ⟨q, hq, rfl⟩ := hp
          split
          · exact ⟨(hob q hq).1, hww⟩
          · exact hob q hq
        · simp only [List.mem_append, List.mem_singleton] at hp
          rcases hp with hp | rfl
          · exact hob p hp
          · exact ⟨hkw, hww⟩
    · simp at hs
    · simp at hs
    · simp at hs
  · rename_i ptr isArr elemK elems _ hb
    have hob := lookupBase_wk e h _ _ hb
    split at hs
    · rename_i j w hj hw
      split at hs
      · simp at hs
      · split at hs
        · simp at hs
        · simp only [Prod.mk.injEq, Res.ok.injEq, true_and] at hs
          subst hs
          exact setBase_wk e h _ _ (set_elem_wk _ hob _ _ (wanted_wk _ _ _ hv hw))
    · simp at hs
    · simp at hs
    · simp at hs
  · simp at hs

theorem assignStore_wk (line : Nat) (var : String) (mapv : Option MapV) (e e' : Env) (h : EnvWK e) (nv : Val)
    (hv : nv.WK = true) (u : Unit) (hs : assignStore line var mapv e nv = (.ok u, e')) : EnvWK e' := by
  unfold assignStore at hs
  split at hs
  · split at hs
    · rename_i e3 hsv
      simp only [Prod.mk.injEq, Res.ok.injEq, true_and] at hs
      subst hs
      exact setValue_wk e _ h _ _ hv hsv
    · simp at hs
    · simp at hs
  · split at hs
    · simp only [Prod.mk.injEq, Res.ok.injEq, true_and] at hs; subst hs; exact h
    · exact setMapVar_wk line e e' h _ nv hv u hs

/-- whatever an assignment's store does, a failing store leaves the environment as it was -/
theorem assignStore_env (line : Nat) (var : String) (mapv : Option MapV) (e : Env) (nv : Val) :
    (∃ u e', assignStore line var mapv e nv = (.ok u, e')) ∨ (assignStore line var mapv e nv).2 = e := by
  rcases hs : assignStore line var mapv e nv with ⟨r, e'⟩
  cases r with
  | ok u => left; exact ⟨u, e', rfl⟩
  | err c =>
    right
    unfold assignStore setMapVar at hs
    repeat' split at hs
    all_goals first
      | (simp only [Prod.mk.injEq] at hs; exact hs.2.symm)
      | (simp at hs)
  | panic =>
    right
    unfold assignStore setMapVar at hs
    repeat' split at hs
    all_goals first
      | (simp only [Prod.mk.injEq] at hs; exact hs.2.symm)
      | (simp at hs)

/-! ### reference arithmetic yields well-kinded values -/

theorem refArith_wk (op : AOp) (a b v : Val) (h : refArith op a b = .ok v) : v.WK = true := by
  unfold refArith at h
  split at h
  · split at h <;> simp at h; subst h; rfl
  · split at h
    · split at h
      · simp at h
      · split at h <;> simp at h <;> subst h <;> rfl
    · simp at h


/-! ### the function / method library -/

theorem trace_wk (e : Env) (h : EnvWK e) (t : List (String × List Val)) : EnvWK { e with trace := t } := ⟨h.vars, h.base⟩

theorem hostZero_wk : ObjWK (.struct true hostZeroFields) := by
  intro p hp
  simp only [hostZeroFields, List.mem_map] at hp
  obtain ⟨q, _, rfl⟩ := hp
  exact zeroOf_wk q.2

theorem applyFunc_good (id : String) (args : List Val) (env env' : Env) (v : Val) (he : EnvWK env)
    (ha : ∀ a ∈ args, a.WK = true) (h : applyFunc id args env = some (v, env')) : v.WK = true ∧ EnvWK env' := by
  unfold applyFunc at h
  repeat' split at h
  all_goals first
    | (simp at h; done)
    | (simp only [Option.some.injEq, Prod.mk.injEq] at h
       obtain ⟨rfl, rfl⟩ := h
       refine ⟨?_, ?_⟩
       · first
           | rfl
           | exact ha _ (by simp)
       · first
           | exact he
           | exact trace_wk _ he _
           | exact setBase_wk _ he _ _ hostZero_wk
           | exact setBase_wk _ he _ _ (show ObjWK (.val (.i .int64 100)) from rfl)
           | (rename_i hb
              have hk : ObjWK (.pscalar (.i _ _)) := lookupBase_wk _ he _ _ hb
              exact setBase_wk _ he _ _ hk))

theorem prepArgs_wk : (ks : List K) → (vs as : List Val) → (∀ v ∈ vs, v.WK = true) → prepArgs ks vs = some as →
    ∀ a ∈ as, a.WK = true
  | [], [], as, _, h => by simp [prepArgs] at h; subst h; simp
  | [], _ :: _, as, _, h => by simp [prepArgs] at h
  | _ :: _, [], as, _, h => by simp [prepArgs] at h
  | k :: ks, v :: vs, as, hv, h => by
    simp only [prepArgs] at h
    split at h
    · rename_i a rest hc hr
      simp only [Option.some.injEq] at h; subst h
      intro x hx
      simp only [List.mem_cons] at hx
      rcases hx with rfl | hx
      · split at hc
        · exact castTo_wk _ _ _ (hv v (by simp)) hc
        · split at hc
          · simp only [Option.some.injEq] at hc; subst hc; exact hv _ (by simp)
          · simp at hc
      · exact prepArgs_wk ks vs rest (fun y hy => hv y (by simp [hy])) hr x hx
    · simp at h

/-- a result is good: its environment is well kinded and so is the value, if there is one -/
def GoodV (r : Res Val × Env) : Prop := EnvWK r.2 ∧ ∀ v, r.1 = .ok v → v.WK = true

theorem execFunc_good (env : Env) (he : EnvWK env) (name : String) (args : List Val) (ha : ∀ a ∈ args, a.WK = true) :
    GoodV (execFunc env name args) := by
  unfold execFunc
  split
  · split
    · exact ⟨he, by intro v hv; simp at hv⟩
    · split
      · exact ⟨he, by intro v hv; simp at hv⟩
      · rename_i as hp
        have hw := prepArgs_wk _ _ _ ha hp
        split
        · rename_i v env' hap
          have := applyFunc_good _ _ _ _ _ he hw hap
          exact ⟨this.2, by intro v' hv; simp only [Res.ok.injEq] at hv; subst hv; exact this.1⟩
        · exact ⟨he, by intro v hv; simp at hv⟩
  · exact ⟨he, by intro v hv; simp at hv⟩
  · split <;> exact ⟨he, by intro v hv; simp at hv⟩

theorem execMethod_good (env : Env) (he : EnvWK env) (name : String) (args : List Val) (ha : ∀ a ∈ args, a.WK = true) :
    GoodV (execMethod env name args) := by
  unfold execMethod
  repeat' split
  all_goals
    refine ⟨?_, ?_⟩
    · first
        | exact he
        | exact trace_wk _ he _
    · intro v hv
      first
        | (simp at hv; done)
        | (simp only [Res.ok.injEq] at hv
           subst hv
           first
             | rfl
             | (rename_i hp _ _; exact prepArgs_wk _ _ _ ha hp _ (List.mem_singleton.mpr rfl)))

theorem execThree_good (env : Env) (he : EnvWK env) (name : String) (args : List Val) :
    GoodV (execThree env name args) := by
  unfold execThree
  repeat' split
  all_goals
    refine ⟨?_, ?_⟩
    · first
        | exact he
        | exact trace_wk _ he _
    · intro v hv
      first
        | (simp at hv; done)
        | (simp only [Res.ok.injEq] at hv; subst hv; rfl)



/-! ### executable check of the invariant (used by the correspondence driver on every case) -/

def Field.wkb : Field → Bool
  | .scalar v => v.WK
  | .nested _ _ fs => fs.all (fun p => p.2.WK)

def Obj.wkb : Obj → Bool
  | .val v => v.WK
  | .pscalar v => v.WK
  | .struct _ fs => fs.all (fun p => p.2.wkb)
  | .map _ _ _ es => es.all (fun p => p.1.WK && p.2.WK)
  | .slice _ _ _ es => es.all (fun v => v.WK)
  | .func _ => true

def Env.wkb (e : Env) : Bool := e.vars.all (fun p => p.2.WK) && e.base.all (fun p => p.2.wkb)

theorem field_wkb_sound (f : Field) (h : f.wkb = true) : FieldWK f := by
  cases f with
  | scalar v => exact h
  | nested p n fs =>
    intro q hq
    simp only [Field.wkb, List.all_eq_true] at h
    exact h q hq

theorem obj_wkb_sound (o : Obj) (h : o.wkb = true) : ObjWK o := by
  cases o with
  | val v => exact h
  | pscalar v => exact h
  | struct p fs =>
    intro q hq
    simp only [Obj.wkb, List.all_eq_true] at h
    exact field_wkb_sound _ (h q hq)
  | map p a b es =>
    intro q hq
    simp only [Obj.wkb, List.all_eq_true, Bool.and_eq_true] at h
    exact h q hq
  | slice p arr k es =>
    intro v hv
    simp only [Obj.wkb, List.all_eq_true] at h
    exact h v hv
  | func id => trivial

theorem env_wkb_sound (e : Env) (h : e.wkb = true) : EnvWK e := by
  simp only [Env.wkb, Bool.and_eq_true, List.all_eq_true] at h
  exact ⟨fun p hp => h.1 p hp, fun p hp => obj_wkb_sound _ (h.2 p hp)⟩

end GV.Eval
