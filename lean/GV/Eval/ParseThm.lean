import GV.Eval.Parse
namespace GV.Eval

/-! ### more fuel never changes a successful parse -/

theorem monoM_step (P : PrecTab) : ∀ n,
    (∀ p ts r, parseM P n p ts = some r → parseM P (n + 1) p ts = some r) ∧
    (∀ p left ts r, loopM P n p left ts = some r → loopM P (n + 1) p left ts = some r) := by
  intro n
  induction n with
  | zero => constructor <;> intros <;> simp_all [parseM, loopM]
  | succ n ih =>
    obtain ⟨ihP, ihL⟩ := ih
    constructor
    · intro p ts r h
      match ts with
      | [] => simp [parseM] at h
      | .atom e :: ts => simp only [parseM] at h ⊢; exact ihL _ _ _ _ h
      | .lp l :: ts =>
        simp only [parseM] at h ⊢
        cases hq : parseM P n 0 ts with
        | none => simp [hq] at h
        | some q =>
          rw [ihP _ _ _ hq]
          rw [hq] at h
          obtain ⟨e, ts'⟩ := q
          match ts' with
          | .rp :: ts'' => simp only at h ⊢; exact ihL _ _ _ _ h
          | [] => simp at h
          | .atom _ :: _ | .ar _ :: _ | .cmp _ :: _ | .log _ :: _ | .not _ :: _ | .lp _ :: _ => simp at h
      | .ar _ :: _ | .cmp _ :: _ | .log _ :: _ | .not _ :: _ | .rp :: _ => simp [parseM] at h
    · intro p left ts r h
      match ts with
      | .ar op :: ts =>
        simp only [loopM] at h ⊢
        by_cases hp : p ≤ P.arP op
        · simp only [hp, if_true] at h ⊢
          cases hq : parseM P n (P.arR op) ts with
          | none => simp [hq] at h
          | some q =>
            rw [ihP _ _ _ hq]; rw [hq] at h
            exact ihL _ _ _ _ h
        · simp only [hp, if_false] at h ⊢; exact h
      | [] => simp only [loopM] at h ⊢; exact h
      | .atom _ :: _ | .cmp _ :: _ | .log _ :: _ | .not _ :: _ | .lp _ :: _ | .rp :: _ =>
        simp only [loopM] at h ⊢; exact h

theorem parseM_mono (P : PrecTab) {n p ts r} (h : parseM P n p ts = some r) (k : Nat) :
    parseM P (n + k) p ts = some r := by
  induction k with
  | zero => exact h
  | succ k ih => exact (monoM_step P (n + k)).1 _ _ _ ih

theorem loopM_mono (P : PrecTab) {n p left ts r} (h : loopM P n p left ts = some r) (k : Nat) :
    loopM P (n + k) p left ts = some r := by
  induction k with
  | zero => exact h
  | succ k ih => exact (monoM_step P (n + k)).2 _ _ _ _ ih

theorem parseM_mono_le (P : PrecTab) {n m p ts r} (h : parseM P n p ts = some r) (hm : n ≤ m) :
    parseM P m p ts = some r := by
  obtain ⟨k, rfl⟩ := Nat.exists_eq_add_of_le hm; exact parseM_mono P h k

theorem loopM_mono_le (P : PrecTab) {n m p left ts r} (h : loopM P n p left ts = some r) (hm : n ≤ m) :
    loopM P m p left ts = some r := by
  obtain ⟨k, rfl⟩ := Nat.exists_eq_add_of_le hm; exact loopM_mono P h k

theorem monoX_step (P : PrecTab) : ∀ n,
    (∀ p ts r, parseX P n p ts = some r → parseX P (n + 1) p ts = some r) ∧
    (∀ ts r, primX P n ts = some r → primX P (n + 1) ts = some r) ∧
    (∀ p left ts r, loopX P n p left ts = some r → loopX P (n + 1) p left ts = some r) := by
  intro n
  induction n with
  | zero => refine ⟨?_, ?_, ?_⟩ <;> intros <;> simp_all [parseX, primX, loopX]
  | succ n ih =>
    obtain ⟨ihP, ihR, ihL⟩ := ih
    refine ⟨?_, ?_, ?_⟩
    · intro p ts r h
      simp only [parseX] at h ⊢
      cases hq : primX P n ts with
      | none => simp [hq] at h
      | some q =>
        rw [ihR _ _ hq]; rw [hq] at h
        exact ihL _ _ _ _ h
    · intro ts r h
      simp only [primX] at h ⊢
      cases hm : parseM P (fuelFor ts) 0 ts with
      | some q => rw [hm] at h; exact h
      | none =>
        rw [hm] at h
        simp only at h ⊢
        match ts with
        | .not l :: .atom e :: ts' => exact h
        | .not l :: .lp l' :: ts' =>
          simp only at h ⊢
          cases hq : parseX P n 0 ts' with
          | none => simp [hq] at h
          | some q => rw [ihP _ _ _ hq]; rw [hq] at h; exact h
        | .lp l :: ts' =>
          simp only at h ⊢
          cases hq : parseX P n 0 ts' with
          | none => simp [hq] at h
          | some q => rw [ihP _ _ _ hq]; rw [hq] at h; exact h
        | [] => simp at h
        | [.not _] => simp at h
        | .not _ :: .ar _ :: _ | .not _ :: .cmp _ :: _ | .not _ :: .log _ :: _ | .not _ :: .not _ :: _
        | .not _ :: .rp :: _ => simp at h
        | .atom _ :: _ | .ar _ :: _ | .cmp _ :: _ | .log _ :: _ | .rp :: _ => simp at h
    · intro p left ts r h
      match ts with
      | .cmp op :: ts =>
        simp only [loopX] at h ⊢
        by_cases hp : p ≤ P.cmpP
        · simp only [hp, if_true] at h ⊢
          cases hq : parseX P n P.cmpR ts with
          | none => simp [hq] at h
          | some q => rw [ihP _ _ _ hq]; rw [hq] at h; exact ihL _ _ _ _ h
        · simp only [hp, if_false] at h ⊢; exact h
      | .log op :: ts =>
        simp only [loopX] at h ⊢
        by_cases hp : p ≤ P.logP
        · simp only [hp, if_true] at h ⊢
          cases hq : parseX P n P.logR ts with
          | none => simp [hq] at h
          | some q => rw [ihP _ _ _ hq]; rw [hq] at h; exact ihL _ _ _ _ h
        · simp only [hp, if_false] at h ⊢; exact h
      | [] => simp only [loopX] at h ⊢; exact h
      | .atom _ :: _ | .ar _ :: _ | .not _ :: _ | .lp _ :: _ | .rp :: _ =>
        simp only [loopX] at h ⊢; exact h

theorem parseX_mono_le (P : PrecTab) {n m p ts r} (h : parseX P n p ts = some r) (hm : n ≤ m) :
    parseX P m p ts = some r := by
  obtain ⟨k, rfl⟩ := Nat.exists_eq_add_of_le hm
  induction k with
  | zero => exact h
  | succ k ih => exact (monoX_step P (n + k)).1 _ _ _ (ih (by omega))

theorem loopX_mono_le (P : PrecTab) {n m p left ts r} (h : loopX P n p left ts = some r) (hm : n ≤ m) :
    loopX P m p left ts = some r := by
  obtain ⟨k, rfl⟩ := Nat.exists_eq_add_of_le hm
  induction k with
  | zero => exact h
  | succ k ih => exact (monoX_step P (n + k)).2.2 _ _ _ _ (ih (by omega))


/-! ### reading back the tokens of a tree -/

/-- the arithmetic loop at level `q` leaves `rest` alone -/
def StopM (P : PrecTab) (q : Nat) (rest : List Tok) : Prop := ∀ o ts, rest = .ar o :: ts → ¬ q ≤ P.arP o

theorem arP_lt_top (P : PrecTab) (o : AOp) : P.arP o < P.top := by
  unfold PrecTab.arP PrecTab.top; split <;> omega

theorem loopM_stop (P : PrecTab) {q : Nat} {rest : List Tok} (h : StopM P q rest) (n : Nat) (left : RE) :
    loopM P (n + 1) q left rest = some (left, rest) := by
  match rest with
  | .ar op :: ts => simp only [loopM]; rw [if_neg (h op ts rfl)]
  | [] => simp only [loopM]
  | .atom _ :: _ | .cmp _ :: _ | .log _ :: _ | .not _ :: _ | .lp _ :: _ | .rp :: _ => simp only [loopM]

theorem loopM_fuel_pos (P : PrecTab) {n q left rest r} (h : loopM P n q left rest = some r) : 0 < n := by
  cases n with
  | zero => simp [loopM] at h
  | succ n => omega

theorem stopM_mono (P : PrecTab) {q q' rest} (h : StopM P q rest) (hq : q ≤ q') : StopM P q' rest :=
  fun o ts e c => h o ts e (Nat.le_trans hq c)

/-- Key lemma, arithmetic level: parsing the tokens of a canonical arithmetic tree `t`, followed
    by `rest`, amounts to entering the operator loop with `t` as the left operand read so far. -/
theorem readM (P : PrecTab) (hP : P.LeftAssoc) : (t : RE) → t.isMath = true → Canon P t = true →
    ∀ (q n : Nat) (rest : List Tok) (r : RE × List Tok), q ≤ lvlM P t → StopM P (lvlM P t + 1) rest →
      loopM P n q t rest = some r → parseM P (n + (render t).length) q (render t ++ rest) = some r
  | .lit l v, _, _, q, n, rest, r, _, _, h => by simpa [render, parseM] using h
  | .var l v, _, _, q, n, rest, r, _, _, h => by simpa [render, parseM] using h
  | .idx l v k, _, _, q, n, rest, r, _, _, h => by simpa [render, parseM] using h
  | .call l k nm a, _, _, q, n, rest, r, _, _, h => by simpa [render, parseM] using h
  | .cmp _ _ _ _, hm, _, _, _, _, _, _, _, _ => by simp [RE.isMath] at hm
  | .log _ _ _ _, hm, _, _, _, _, _, _, _, _ => by simp [RE.isMath] at hm
  | .not _ _, hm, _, _, _, _, _, _, _, _ => by simp [RE.isMath] at hm
  | .paren l e, hm, hc, q, n, rest, r, _, _, h => by
    have hme : e.isMath = true := by simpa [RE.isMath] using hm
    have hce : Canon P e = true := by simpa [Canon] using hc
    have hn := loopM_fuel_pos P h
    have hstop : StopM P (lvlM P e + 1) (.rp :: rest) := fun o ts e _ => by cases e
    have hin := readM P hP e hme hce 0 (n + 1) (.rp :: rest) (e, .rp :: rest) (Nat.zero_le _) hstop
      (loopM_stop P (fun o ts e _ => by cases e) n e)
    have hlen : n + (render (.paren l e)).length = (n + 1 + (render e).length) + 1 := by
      simp [render]; omega
    rw [hlen]
    simp only [render, List.cons_append, List.append_assoc, List.nil_append, parseM]
    rw [hin]
    exact loopM_mono_le P h (by omega)
  | .ar l op a b, hm, hc, q, n, rest, r, hq, hs, h => by
    simp only [Canon, Bool.and_eq_true, decide_eq_true_eq] at hc
    obtain ⟨⟨⟨⟨⟨⟨hma, hmb⟩, hla⟩, hlb⟩, hline⟩, hca⟩, hcb⟩ := hc
    have hn := loopM_fuel_pos P h
    have hlt : lvlM P (.ar l op a b) = P.arP op := rfl
    rw [hlt] at hq hs
    have hR : P.arR op = P.arP op + 1 := by
      unfold PrecTab.arR PrecTab.arP; obtain ⟨h1, h2, _, _⟩ := hP; split <;> assumption
    -- the right operand, read at level arR op, stops at `rest`
    have hb := readM P hP b hmb hcb (P.arR op) n rest (b, rest) hlb
      (stopM_mono P hs (by omega))
      (by obtain ⟨k, rfl⟩ : ∃ k, n = k + 1 := ⟨n - 1, by omega⟩
          exact loopM_stop P (stopM_mono P hs (by omega)) k b)
    -- the left operand, followed by the operator
    have hstopa : StopM P (lvlM P a + 1) (.ar op :: (render b ++ rest)) := by
      intro o ts e c; cases e; omega
    have ha := readM P hP a hma hca q (n + (render b).length + 1) (.ar op :: (render b ++ rest)) r
      (Nat.le_trans hq hla) hstopa
      (by simp only [loopM]; rw [if_pos hq, hb]; subst hline; exact loopM_mono_le P h (by omega))
    have hlen : n + (render (.ar l op a b)).length = n + (render b).length + 1 + (render a).length := by
      simp [render]; omega
    rw [hlen]
    simpa [render, List.append_assoc] using ha


def NoAr (rest : List Tok) : Prop := ∀ o ts, rest ≠ .ar o :: ts

theorem noAr_stop (P : PrecTab) {rest} (h : NoAr rest) (q : Nat) : StopM P q rest :=
  fun o ts e _ => h o ts e

/-- a canonical arithmetic tree followed by something that is not an arithmetic operator is read
    back as it is -/
theorem parseM_render (P : PrecTab) (hP : P.LeftAssoc) (t : RE) (hm : t.isMath = true) (hc : Canon P t = true)
    (rest : List Tok) (hr : NoAr rest) (n : Nat) (hn : (render t).length + 1 ≤ n) :
    parseM P n 0 (render t ++ rest) = some (t, rest) := by
  have h := readM P hP t hm hc 0 1 rest (t, rest) (Nat.zero_le _) (noAr_stop P hr _) (loopM_stop P (noAr_stop P hr _) 0 t)
  exact parseM_mono_le P h (by omega)

def Tok.isXop : Tok → Bool
  | .cmp _ | .log _ => true
  | _ => false

/-- On a tree outside the arithmetic sub-language the arithmetic rule either fails or stops in
    front of a comparison / logical operator: it never reaches the end of the tree. -/
theorem mathStops (P : PrecTab) (hP : P.LeftAssoc) : (e : RE) → e.isMath = false → Canon P e = true →
    ∀ (k : Nat) (rest : List Tok), parseM P k 0 (render e ++ rest) = none ∨
      ∃ e' tok r', parseM P k 0 (render e ++ rest) = some (e', tok :: r') ∧ tok.isXop = true
  | .lit _ _, h, _, _, _ => by simp [RE.isMath] at h
  | .var _ _, h, _, _, _ => by simp [RE.isMath] at h
  | .idx _ _ _, h, _, _, _ => by simp [RE.isMath] at h
  | .call _ _ _ _, h, _, _, _ => by simp [RE.isMath] at h
  | .ar _ _ _ _, h, _, _, _ => by simp [RE.isMath] at h
  | .paren l e, h, hc, k, rest => by
    have he : e.isMath = false := by simpa [RE.isMath] using h
    have hce : Canon P e = true := by simpa [Canon] using hc
    left
    cases k with
    | zero => simp [parseM]
    | succ k =>
      simp only [render, List.cons_append, List.append_assoc, List.nil_append, parseM]
      rcases mathStops P hP e he hce k (.rp :: rest) with h0 | ⟨e', tok, r', h1, hx⟩
      · rw [h0]
      · rw [h1]; cases tok <;> simp [Tok.isXop] at hx <;> rfl
  | .not l a, _, _, k, rest => by
    left
    cases k with
    | zero => simp [parseM]
    | succ k =>
      cases a <;> simp [render, parseM]
  | .cmp l op a b, _, hc, k, rest => by
    simp only [Canon, Bool.and_eq_true, decide_eq_true_eq] at hc
    obtain ⟨⟨⟨⟨hla, hlb⟩, hline⟩, hca⟩, hcb⟩ := hc
    have hr : render (.cmp l op a b) ++ rest = render a ++ (.cmp op :: (render b ++ rest)) := by
      simp [render, List.append_assoc]
    rw [hr]
    cases hma : a.isMath with
    | false => exact mathStops P hP a hma hca k _
    | true =>
      cases hk : parseM P k 0 (render a ++ (.cmp op :: (render b ++ rest))) with
      | none => left; rfl
      | some q =>
        right
        have hbig := parseM_render P hP a hma hca (.cmp op :: (render b ++ rest)) (fun o ts e => by cases e)
          (k + ((render a).length + 1)) (by omega)
        have := parseM_mono_le P hk (Nat.le_add_right k ((render a).length + 1))
        rw [this] at hbig
        cases hbig
        exact ⟨a, .cmp op, _, rfl, rfl⟩
  | .log l op a b, _, hc, k, rest => by
    simp only [Canon, Bool.and_eq_true, decide_eq_true_eq] at hc
    obtain ⟨⟨⟨⟨hla, hlb⟩, hline⟩, hca⟩, hcb⟩ := hc
    have hr : render (.log l op a b) ++ rest = render a ++ (.log op :: (render b ++ rest)) := by
      simp [render, List.append_assoc]
    rw [hr]
    cases hma : a.isMath with
    | false => exact mathStops P hP a hma hca k _
    | true =>
      cases hk : parseM P k 0 (render a ++ (.log op :: (render b ++ rest))) with
      | none => left; rfl
      | some q =>
        right
        have hbig := parseM_render P hP a hma hca (.log op :: (render b ++ rest)) (fun o ts e => by cases e)
          (k + ((render a).length + 1)) (by omega)
        have := parseM_mono_le P hk (Nat.le_add_right k ((render a).length + 1))
        rw [this] at hbig
        cases hbig
        exact ⟨a, .log op, _, rfl, rfl⟩


/-- the comparison / logical loop at level `q` leaves `rest` alone -/
def StopX (P : PrecTab) (q : Nat) (rest : List Tok) : Prop :=
  (∀ o ts, rest = .cmp o :: ts → ¬ q ≤ P.cmpP) ∧ (∀ o ts, rest = .log o :: ts → ¬ q ≤ P.logP)

theorem loopX_stop (P : PrecTab) {q : Nat} {rest : List Tok} (h : StopX P q rest) (n : Nat) (left : RE) :
    loopX P (n + 1) q left rest = some (left, rest) := by
  match rest with
  | .cmp op :: ts => simp only [loopX]; rw [if_neg (h.1 op ts rfl)]
  | .log op :: ts => simp only [loopX]; rw [if_neg (h.2 op ts rfl)]
  | [] => simp only [loopX]
  | .atom _ :: _ | .ar _ :: _ | .not _ :: _ | .lp _ :: _ | .rp :: _ => simp only [loopX]

theorem loopX_fuel_pos (P : PrecTab) {n q left rest r} (h : loopX P n q left rest = some r) : 0 < n := by
  cases n with
  | zero => simp [loopX] at h
  | succ n => omega

theorem stopX_mono (P : PrecTab) {q q' rest} (h : StopX P q rest) (hq : q ≤ q') : StopX P q' rest :=
  ⟨fun o ts e c => h.1 o ts e (Nat.le_trans hq c), fun o ts e c => h.2 o ts e (Nat.le_trans hq c)⟩

theorem stopX_rp (P : PrecTab) (q : Nat) (rest : List Tok) : StopX P q (.rp :: rest) := by
  constructor <;> intro o ts e <;> cases e

theorem stopX_nil (P : PrecTab) (q : Nat) : StopX P q [] := by
  constructor <;> intro o ts e <;> cases e

theorem parseX_succ (P : PrecTab) (n p : Nat) (ts : List Tok) :
    parseX P (n + 1) p ts = (match primX P n ts with
      | some (e, ts') => loopX P n p e ts'
      | none => none) := by simp only [parseX]; rfl

theorem primX_of_math (P : PrecTab) (n : Nat) (ts : List Tok) (r : RE × List Tok)
    (h : parseM P (fuelFor ts) 0 ts = some r) : primX P (n + 1) ts = some r := by
  simp only [primX]; rw [h]

theorem primX_paren (P : PrecTab) (n l : Nat) (ts : List Tok) (h : parseM P (fuelFor (.lp l :: ts)) 0 (.lp l :: ts) = none) :
    primX P (n + 1) (.lp l :: ts) = (match parseX P n 0 ts with
      | some (e, .rp :: ts'') => some (.paren l e, ts'')
      | _ => none) := by
  simp only [primX]; rw [h]; rfl

theorem parseM_not (P : PrecTab) (k l : Nat) (ts : List Tok) : parseM P k 0 (.not l :: ts) = none := by
  cases k <;> simp [parseM]

theorem primX_not_paren (P : PrecTab) (n l l' : Nat) (ts : List Tok) :
    primX P (n + 1) (.not l :: .lp l' :: ts) = (match parseX P n 0 ts with
      | some (e, .rp :: ts'') => some (.not l (.paren l' e), ts'')
      | _ => none) := by
  simp only [primX]; rw [parseM_not]; rfl

theorem primX_not_atom (P : PrecTab) (n l : Nat) (a : RE) (ts : List Tok) :
    primX P (n + 1) (.not l :: .atom a :: ts) = some (.not l a, ts) := by
  simp only [primX]; rw [parseM_not]

/-- the primary of an expression that starts with an arithmetic tree -/
theorem primX_math (P : PrecTab) (hP : P.LeftAssoc) (t : RE) (hm : t.isMath = true) (hc : Canon P t = true)
    (rest : List Tok) (hr : NoAr rest) (m : Nat) :
    primX P (m + 1) (render t ++ rest) = some (t, rest) :=
  primX_of_math P m _ _ (parseM_render P hP t hm hc rest hr _ (by simp [fuelFor]; omega))

theorem render_pos (t : RE) : 1 ≤ (render t).length := by
  cases t with
  | not l a => cases a <;> simp [render]
  | _ => simp [render] <;> omega

/-- an arithmetic tree in expression position -/
theorem readX_math (P : PrecTab) (hP : P.LeftAssoc) (t : RE) (hm : t.isMath = true) (hc : Canon P t = true)
    (q n : Nat) (rest : List Tok) (r : RE × List Tok) (hr : NoAr rest) (h : loopX P n q t rest = some r) :
    parseX P (n + 2 * (render t).length) q (render t ++ rest) = some r := by
  have hl := render_pos t
  obtain ⟨m, hm1, hm2⟩ : ∃ m, n + 2 * (render t).length = (m + 1) + 1 ∧ n ≤ m + 1 :=
    ⟨n + 2 * (render t).length - 2, by omega, by omega⟩
  rw [hm1, parseX_succ, primX_math P hP t hm hc rest hr m]
  exact loopX_mono_le P h hm2

/-- the atom after `!` -/
theorem readX_not_atom (P : PrecTab) (l : Nat) (a : RE) (hr : render (.not l a) = [.not l, .atom a])
    (q n : Nat) (rest : List Tok) (r : RE × List Tok) (h : loopX P n q (.not l a) rest = some r) :
    parseX P (n + 2 * (render (.not l a)).length) q (render (.not l a) ++ rest) = some r := by
  rw [hr]
  have hlen : n + 2 * [Tok.not l, Tok.atom a].length = ((n + 2) + 1) + 1 := by simp
  rw [hlen, parseX_succ]
  simp only [List.cons_append, List.nil_append]
  rw [primX_not_atom]
  exact loopX_mono_le P h (by omega)

/-- Key lemma, expression level. -/
theorem readX (P : PrecTab) (hP : P.LeftAssoc) : (t : RE) → Canon P t = true →
    ∀ (q n : Nat) (rest : List Tok) (r : RE × List Tok), q ≤ lvlX P t → StopX P (lvlX P t + 1) rest → NoAr rest →
      loopX P n q t rest = some r → parseX P (n + 2 * (render t).length) q (render t ++ rest) = some r
  | .lit l v, hc, q, n, rest, r, _, _, hr, h => readX_math P hP _ rfl hc q n rest r hr h
  | .var l v, hc, q, n, rest, r, _, _, hr, h => readX_math P hP _ rfl hc q n rest r hr h
  | .idx l v k, hc, q, n, rest, r, _, _, hr, h => readX_math P hP _ rfl hc q n rest r hr h
  | .call l k nm a, hc, q, n, rest, r, _, _, hr, h => readX_math P hP _ rfl hc q n rest r hr h
  | .ar l op a b, hc, q, n, rest, r, _, _, hr, h => readX_math P hP _ rfl hc q n rest r hr h
  | .paren l e, hc, q, n, rest, r, _, _, hr, h => by
    have hce : Canon P e = true := by simpa [Canon] using hc
    have hn := loopX_fuel_pos P h
    cases hme : e.isMath with
    | true =>
      exact readX_math P hP _ (by simpa [RE.isMath] using hme) hc q n rest r hr h
    | false =>
      have hin := readX P hP e hce 0 n (.rp :: rest) (e, .rp :: rest) (Nat.zero_le _) (stopX_rp P _ _)
        (fun o ts e => by cases e)
        (by obtain ⟨k, rfl⟩ : ∃ k, n = k + 1 := ⟨n - 1, by omega⟩
            exact loopX_stop P (stopX_rp P _ _) k e)
      have hts : render (.paren l e) ++ rest = .lp l :: (render e ++ .rp :: rest) := by simp [render]
      have hlen : n + 2 * (render (.paren l e)).length = ((n + 2 * (render e).length + 2) + 1) + 1 := by
        simp [render]; omega
      have hnone : parseM P (fuelFor (.lp l :: (render e ++ .rp :: rest))) 0 (.lp l :: (render e ++ .rp :: rest)) = none := by
        -- a bracketed non-arithmetic tree: the arithmetic rule fails outright
        obtain ⟨k, hk'⟩ : ∃ k, fuelFor (.lp l :: (render e ++ .rp :: rest)) = k + 1 := ⟨_, by simp [fuelFor]; rfl⟩
        rw [hk']
        simp only [parseM]
        rcases mathStops P hP e hme hce k (.rp :: rest) with h0 | ⟨e2, tok2, r2, h2, hx2⟩
        · rw [h0]
        · rw [h2]; cases tok2 <;> simp [Tok.isXop] at hx2 <;> rfl
      rw [hts, hlen, parseX_succ, primX_paren P _ l _ hnone, parseX_mono_le P hin (by omega)]
      exact loopX_mono_le P h (by omega)
  | .not l (.paren l' e), hc, q, n, rest, r, _, _, hr, h => by
    have hce : Canon P e = true := by simpa [Canon] using hc
    have hn := loopX_fuel_pos P h
    have hin := readX P hP e hce 0 n (.rp :: rest) (e, .rp :: rest) (Nat.zero_le _) (stopX_rp P _ _)
      (fun o ts e => by cases e)
      (by obtain ⟨k, rfl⟩ : ∃ k, n = k + 1 := ⟨n - 1, by omega⟩
          exact loopX_stop P (stopX_rp P _ _) k e)
    have hts : render (.not l (.paren l' e)) ++ rest = .not l :: .lp l' :: (render e ++ .rp :: rest) := by simp [render]
    have hlen : n + 2 * (render (.not l (.paren l' e))).length = ((n + 2 * (render e).length + 4) + 1) + 1 := by
      simp [render]; omega
    rw [hts, hlen, parseX_succ, primX_not_paren, parseX_mono_le P hin (by omega)]
    exact loopX_mono_le P h (by omega)
  | .not l (.lit l' v), hc, q, n, rest, r, _, _, hr, h => readX_not_atom P l _ rfl q n rest r h
  | .not l (.var l' v), hc, q, n, rest, r, _, _, hr, h => readX_not_atom P l _ rfl q n rest r h
  | .not l (.idx l' v k), hc, q, n, rest, r, _, _, hr, h => readX_not_atom P l _ rfl q n rest r h
  | .not l (.call l' k nm a), hc, q, n, rest, r, _, _, hr, h => readX_not_atom P l _ rfl q n rest r h
  | .not l (.ar _ _ _ _), hc, _, _, _, _, _, _, _, _ => by simp [Canon, RE.isAtomic] at hc
  | .not l (.cmp _ _ _ _), hc, _, _, _, _, _, _, _, _ => by simp [Canon, RE.isAtomic] at hc
  | .not l (.log _ _ _ _), hc, _, _, _, _, _, _, _, _ => by simp [Canon, RE.isAtomic] at hc
  | .not l (.not _ _), hc, _, _, _, _, _, _, _, _ => by simp [Canon, RE.isAtomic] at hc
  | .cmp l op a b, hc, q, n, rest, r, hq, hs, hr, h => by
    simp only [Canon, Bool.and_eq_true, decide_eq_true_eq] at hc
    obtain ⟨⟨⟨⟨hla, hlb⟩, hline⟩, hca⟩, hcb⟩ := hc
    have hn := loopX_fuel_pos P h
    have hlt : lvlX P (.cmp l op a b) = P.cmpP := rfl
    rw [hlt] at hq hs
    have hR : P.cmpR = P.cmpP + 1 := hP.2.2.1
    have hb := readX P hP b hcb P.cmpR n rest (b, rest) hlb (stopX_mono P hs (by omega)) hr
      (by obtain ⟨k, rfl⟩ : ∃ k, n = k + 1 := ⟨n - 1, by omega⟩
          exact loopX_stop P (stopX_mono P hs (by omega)) k b)
    have hstopa : StopX P (lvlX P a + 1) (.cmp op :: (render b ++ rest)) := by
      constructor
      · intro o ts e c; cases e; omega
      · intro o ts e; cases e
    have ha := readX P hP a hca q (n + 2 * (render b).length + 1) (.cmp op :: (render b ++ rest)) r
      (Nat.le_trans hq hla) hstopa (fun o ts e => by cases e)
      (by simp only [loopX]; rw [if_pos hq, hb]; subst hline; exact loopX_mono_le P h (by omega))
    have hr2 : render (.cmp l op a b) ++ rest = render a ++ (.cmp op :: (render b ++ rest)) := by
      simp [render, List.append_assoc]
    rw [hr2]
    exact parseX_mono_le P ha (by simp [render]; omega)
  | .log l op a b, hc, q, n, rest, r, hq, hs, hr, h => by
    simp only [Canon, Bool.and_eq_true, decide_eq_true_eq] at hc
    obtain ⟨⟨⟨⟨hla, hlb⟩, hline⟩, hca⟩, hcb⟩ := hc
    have hn := loopX_fuel_pos P h
    have hlt : lvlX P (.log l op a b) = P.logP := rfl
    rw [hlt] at hq hs
    have hR : P.logR = P.logP + 1 := hP.2.2.2
    have hb := readX P hP b hcb P.logR n rest (b, rest) hlb (stopX_mono P hs (by omega)) hr
      (by obtain ⟨k, rfl⟩ : ∃ k, n = k + 1 := ⟨n - 1, by omega⟩
          exact loopX_stop P (stopX_mono P hs (by omega)) k b)
    have hstopa : StopX P (lvlX P a + 1) (.log op :: (render b ++ rest)) := by
      constructor
      · intro o ts e; cases e
      · intro o ts e c; cases e; omega
    have ha := readX P hP a hca q (n + 2 * (render b).length + 1) (.log op :: (render b ++ rest)) r
      (Nat.le_trans hq hla) hstopa (fun o ts e => by cases e)
      (by simp only [loopX]; rw [if_pos hq, hb]; subst hline; exact loopX_mono_le P h (by omega))
    have hr2 : render (.log l op a b) ++ rest = render a ++ (.log op :: (render b ++ rest)) := by
      simp [render, List.append_assoc]
    rw [hr2]
    exact parseX_mono_le P ha (by simp [render]; omega)

/-- **Round trip.**  For every canonical tree — brackets exactly where an operand binds looser
    than (or, on the right, as loosely as) its operator — the parser reads the tree's tokens back
    as that tree. -/
theorem parseTop_render (P : PrecTab) (hP : P.LeftAssoc) (t : RE) (hc : Canon P t = true) :
    parseTop P (render t) = some t := by
  have h := readX P hP t hc 0 1 [] (t, []) (Nat.zero_le _) (stopX_nil P _) (fun o ts e => by cases e)
    (loopX_stop P (stopX_nil P _) 0 t)
  unfold parseTop
  have h2 := parseX_mono_le P h (m := fuelFor (render t)) (by simp [fuelFor]; omega)
  simp only [List.append_nil] at h2
  rw [h2]

end GV.Eval
