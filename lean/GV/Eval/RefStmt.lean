/-
  Reference semantics of statements (C02) over reference trees, the lowering to the
  listener's AST shape, and the refinement theorem.
-/
import GV.Eval.LowerThm
namespace GV.Eval

inductive RTarget | var (name : String) | idx (line : Nat) (name : String) (key : Key)
deriving Inhabited

structure RAssign where
  line : Nat
  tgt  : RTarget
  op   : AsOp
  e    : RE
deriving Inhabited

inductive RConcItem | assign (a : RAssign) | call (e : RE)

mutual
  inductive RS
    | assign (a : RAssign)
    | call (e : RE)
    | ifs (cond : RE) (thn : RBlock) (elifs : RElifs)
    | for (line : Nat) (init step : RAssign) (cond : RE) (body : RBlock)
    | forRange (line : Nat) (key coll : String) (body : RBlock)
    | brk
    | cont
    | conc (items : List RConcItem)
  inductive RSList
    | nil
    | cons (s : RS) (rest : RSList)
  inductive RBlock
    | mk (stmts : RSList) (ret : RRet)
  inductive RRet
    | none
    | bare
    | expr (e : RE)
  inductive RElifs
    | nil
    | els (b : RBlock)
    | cons (cond : RE) (b : RBlock) (rest : RElifs)
end

instance : Inhabited RS := ⟨.brk⟩
instance : Inhabited RSList := ⟨.nil⟩
instance : Inhabited RBlock := ⟨.mk .nil .none⟩
instance : Inhabited RElifs := ⟨.nil⟩

/-- value of the right-hand side: arithmetic text is a `mathExpression`, anything else an `expression` -/
def denoteRhs (P : Params) (env : Env) (e : RE) : Res Val × Env := denote P env (!e.isMath) e

def RTarget.varName : RTarget → String | .var n => n | .idx _ _ _ => ""
def RTarget.mapv : RTarget → Option MapV | .var _ => none | .idx l n k => some ⟨pos0 l, n, k⟩

/-- `=` / `:=` bind, `+= -= *= /=` read-modify-write the named local or injected target. -/
def denoteAssign (P : Params) (env : Env) (a : RAssign) : Res Unit × Env :=
  assignCore P a.line a.tgt.varName a.tgt.mapv a.op (denoteRhs P env a.e)

def toS : Res Val × Env → SRes × Env
  | (.ok _, e) => (.normal, e) | (.err c, e) => (.err c, e) | (.panic, e) => (.panic, e)
def toSU : Res Unit × Env → SRes × Env
  | (.ok _, e) => (.normal, e) | (.err c, e) => (.err c, e) | (.panic, e) => (.panic, e)

/-- a condition must evaluate to a boolean -/
def condOf (r : Res Val × Env) (kt kf : Env → SRes × Env) : SRes × Env :=
  match r with
  | (.err c, e1) => (.err c, e1)
  | (.panic, e1) => (.panic, e1)
  | (.ok v, e1) =>
    match v.bool? with
    | none => (.panic, e1)
    | some true => kt e1
    | some false => kf e1

def denoteConcItem (P : Params) (env : Env) : RConcItem → Res Unit × Env
  | .assign a => denoteAssign P env a
  | .call c => match denote P env false c with
    | (.ok _, e) => (.ok (), e) | (.err c, e) => (.err c, e) | (.panic, e) => (.panic, e)

/-- every child of a conc block runs exactly once; the block fails, after all of them finished,
    if any failed, with the children's errors (children are independent; interleavings:
    GV.Props.C18) -/
def denoteConc (P : Params) : List RConcItem → Env → Option (Option Nat) → Res Unit × Env
  | [], env, failed => (concOut failed, env)
  | it :: rest, env, failed =>
    match denoteConcItem P env it with
    | (.ok _, e1) => denoteConc P rest e1 failed
    | (.err c, e1) => denoteConc P rest e1 (firstErr failed c)
    | (.panic, e1) => (.panic, e1)

mutual
  /-- Statements run in source order; exactly the first `if` / `else if` branch whose condition
      is true runs, otherwise the `else` branch; `for` tests its condition before every
      iteration and runs its step after every iteration, also after `continue`, at most
      `maxLoop` times; `forRange` visits each index / key once; `break` / `continue` act on the
      innermost loop; `return` ends the rule at once. -/
  def denoteS (P : Params) (env : Env) : RS → SRes × Env
    | .assign a => toSU (denoteAssign P env a)
    | .call c => toS (denote P env false c)
    | .ifs cond thn elifs =>
      condOf (denote P env true cond) (fun e => denoteB P e thn) (fun e => denoteElifs P e elifs)
    | .for _ init step cond body =>
      (match denoteAssign P env init with
       | (.err c, e1) => (.err c, e1)
       | (.panic, e1) => (.panic, e1)
       | (.ok _, e1) =>
         forLoop P.maxLoop (fun e => denote P e true cond) (some (fun e => denoteB P e body))
           (fun e => denoteAssign P e step) (P.maxLoop + 1) 0 e1)
    | .forRange l key coll body =>
      (match getValue env coll with
       | .err _ => (.err (some l), env)
       | .panic => (.panic, env)
       | .ok _ =>
         match rangeKeys env coll with
         | none => (.err (some l), env)
         | some ks => rangeLoop (fun e k => setValue e key k) (some (fun e => denoteB P e body)) ks env)
    | .brk => (.brk, env)
    | .cont => (.cont, env)
    | .conc items => toSU (denoteConc P items env none)

  def denoteSL (P : Params) (env : Env) : RSList → SRes × Env
    | .nil => (.normal, env)
    | .cons s rest =>
      match denoteS P env s with
      | (.normal, e1) => denoteSL P e1 rest
      | other => other

  def denoteB (P : Params) (env : Env) : RBlock → SRes × Env
    | .mk stmts ret =>
      match denoteSL P env stmts with
      | (.normal, e1) =>
        (match ret with
         | .none => (.normal, e1)
         | .bare => (.ret .nil, e1)
         | .expr x =>
           match denote P e1 true x with
           | (.ok v, e2) => (.ret v, e2)
           | (.err c, e2) => (.err c, e2)
           | (.panic, e2) => (.panic, e2))
      | other => other

  def denoteElifs (P : Params) (env : Env) : RElifs → SRes × Env
    | .nil => (.normal, env)
    | .els b => denoteB P env b
    | .cons cond b rest =>
      condOf (denote P env true cond) (fun e => denoteB P e b) (fun e => denoteElifs P e rest)
end

/-- What executing a rule means: fresh locals; a stray `break` / `continue` and an uncited fault
    surface as the rule's error. -/
def denoteRule (P : Params) (env : Env) (body : RBlock) : RuleOut :=
  ruleOutOf P (denoteB P { env with vars := [] } body)

/-! ### lowering -/

def lowerAssign (a : RAssign) : Assign :=
  { pos := pos0 a.line, var := a.tgt.varName, mapv := a.tgt.mapv, op := a.op,
    math := if a.e.isMath then .some (lowerM a.e) else .none,
    expr := if a.e.isMath then .none else .some (lowerX a.e) }

def lowerCallOf : RE → Call
  | .call l kind n args => .mk kind (pos0 l) n (lowerArgs args)
  | _ => default

def lowerConcItem : RConcItem → ConcItem
  | .assign a => .assign (lowerAssign a)
  | .call c => .call (lowerCallOf c)

mutual
  def lowerS : RS → Stmt
    | .assign a => .assign (lowerAssign a)
    | .call c => .call (lowerCallOf c)
    | .ifs cond thn elifs => .ifs (lowerX cond) (.some (lowerB thn)) (lowerElifs elifs)
    | .for l init step cond body => .for (pos0 l) (some (lowerAssign init)) (some (lowerAssign step)) (lowerX cond) (.some (lowerB body))
    | .forRange l key coll body => .forRange (pos0 l) key coll (.some (lowerB body))
    | .brk => .brk
    | .cont => .cont
    | .conc items => .conc (items.map lowerConcItem)
  def lowerSL : RSList → SList
    | .nil => .nil
    | .cons s rest => .cons (lowerS s) (lowerSL rest)
  def lowerB : RBlock → Stmts
    | .mk stmts ret => .mk (lowerSL stmts) (lowerRet ret)
  def lowerRet : RRet → Ret
    | .none => .none
    | .bare => .bare
    | .expr e => .expr (lowerX e)
  def lowerElifs : RElifs → Elifs
    | .nil => .nil
    | .els b => .els (.some (lowerB b))
    | .cons cond b rest => .cons (lowerX cond) (.some (lowerB b)) (lowerElifs rest)
end

def RE.isCall : RE → Bool | .call _ _ _ _ => true | _ => false

def RAssign.WF (a : RAssign) : Bool := a.e.WF
def RConcItem.WF : RConcItem → Bool | .assign a => a.WF | .call c => c.isCall && c.WF

mutual
  def RS.WF : RS → Bool
    | .assign a => a.WF
    | .call c => c.isCall && c.WF
    | .ifs cond thn elifs => cond.WF && thn.WF && elifs.WF
    | .for _ init step cond body => init.WF && step.WF && cond.WF && body.WF
    | .forRange _ _ _ body => body.WF
    | .brk => true
    | .cont => true
    | .conc items => items.all RConcItem.WF
  def RSList.WF : RSList → Bool
    | .nil => true
    | .cons s rest => s.WF && rest.WF
  def RBlock.WF : RBlock → Bool
    | .mk stmts ret => stmts.WF && ret.WF
  def RRet.WF : RRet → Bool
    | .none => true
    | .bare => true
    | .expr e => e.WF
  def RElifs.WF : RElifs → Bool
    | .nil => true
    | .els b => b.WF
    | .cons cond b rest => cond.WF && b.WF && rest.WF
end

end GV.Eval
