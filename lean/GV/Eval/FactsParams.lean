/-
  The interpreter's parameters as the current source sets them (regenerated facts), and the facts
  the end-to-end theorems need of them.
-/
import GV.Eval.Sim
import GV.Generated.Facts
namespace GV.Eval
open GV.Generated

def factsParams : Params :=
  { maxLoop := Facts.maxExecuteNum,
    ruleRecover := Facts.recoverSites.contains "RuleEntity.Execute",
    assignRecover := Facts.recoverSites.contains "Assignment.Evaluate",
    funcRecover := Facts.recoverSites.contains "FunctionCall.Evaluate",
    methodRecover := Facts.recoverSites.contains "MethodCall.Evaluate",
    threeRecover := Facts.recoverSites.contains "ThreeLevelCall.Evaluate" }

/-- the specification's parameters: the same recovers and loop bound, reference primitives -/
def refParamsOf (P : Params) : Params := { P with arith := refArith, cmp := refCmp }

theorem facts_recovers : Recovers factsParams := ⟨by decide, by decide, by decide, by decide⟩
theorem facts_ruleRecover : factsParams.ruleRecover = true := by decide

/-- **End to end, for the code as it is now.** -/
theorem facts_end_to_end (body : RBlock) (hw : body.WF = true) (hl : body.LitWK = true) (env : Env) (he : EnvWK env) :
    (ruleExecute factsParams env (lowerB body)).env = (denoteRule (refParamsOf factsParams) env body).env ∧
    (ruleExecute factsParams env (lowerB body)).outcome = (denoteRule (refParamsOf factsParams) env body).outcome ∧
    (ruleExecute factsParams env (lowerB body)).flag = (denoteRule (refParamsOf factsParams) env body).flag ∧
    (ruleExecute factsParams env (lowerB body)).val = (denoteRule (refParamsOf factsParams) env body).val :=
  ruleExecute_reference factsParams rfl rfl facts_recovers facts_ruleRecover body hw hl env he

end GV.Eval
