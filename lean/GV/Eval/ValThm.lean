/-
  C01, value level: the transcribed primitives agree with the reference semantics for all
  operand values of all kinds.
-/
import GV.Eval.MathIR
namespace GV.Eval

theorem hp_int (k : K) : hasPrefix k "int" = (k.isSigned || k == .iface) := by cases k <;> decide
theorem hp_uint (k : K) : hasPrefix k "uint" = k.isUnsigned := by cases k <;> decide
theorem hp_float (k : K) : hasPrefix k "float" = k.isFloat := by cases k <;> decide

theorem signed_not (k : K) (h : k.isSigned = true) : k.isUnsigned = false ∧ k.isFloat = false ∧ (k == .iface) = false ∧ (k == .string) = false := by
  cases k <;> simp_all [K.isSigned, K.isUnsigned, K.isFloat]
theorem unsigned_not (k : K) (h : k.isUnsigned = true) : k.isSigned = false ∧ k.isFloat = false ∧ (k == .iface) = false ∧ (k == .string) = false := by
  cases k <;> simp_all [K.isSigned, K.isUnsigned, K.isFloat]
theorem float_not (k : K) (h : k.isFloat = true) : k.isSigned = false ∧ k.isUnsigned = false ∧ (k == .iface) = false ∧ (k == .string) = false := by
  cases k <;> simp_all [K.isSigned, K.isUnsigned, K.isFloat]

/-- The class of a well-kinded value decides all prefix tests. -/
structure Tests (v : Val) : Prop where
  pi : hasPrefix v.kind "int" = (match v with | .i _ _ => true | .other k _ => k == .iface | _ => false)
  pu : hasPrefix v.kind "uint" = (match v with | .u _ _ => true | _ => false)
  pf : hasPrefix v.kind "float" = (match v with | .f _ _ => true | _ => false)
  ps : (v.kind == .string) = (match v with | .s _ => true | _ => false)

theorem tests_of_wk (v : Val) (h : v.WK = true) : Tests v := by
  cases v with
  | i k x =>
    have hk : k.isSigned = true := h
    have := signed_not k hk
    exact ⟨by simp [Val.kind, hp_int, hk], by simp [Val.kind, hp_uint, this], by simp [Val.kind, hp_float, this], by simp [Val.kind, this]⟩
  | u k x =>
    have hk : k.isUnsigned = true := h
    have := unsigned_not k hk
    exact ⟨by simp [Val.kind, hp_int, this], by simp [Val.kind, hp_uint, hk], by simp [Val.kind, hp_float, this], by simp [Val.kind, this]⟩
  | f k x =>
    have hk : k.isFloat = true := h
    have := float_not k hk
    exact ⟨by simp [Val.kind, hp_int, this], by simp [Val.kind, hp_uint, this], by simp [Val.kind, hp_float, hk], by simp [Val.kind, this]⟩
  | s x => exact ⟨by simp [Val.kind, hp_int, K.isSigned], by simp [Val.kind, hp_uint, K.isUnsigned], by simp [Val.kind, hp_float, K.isFloat], by simp [Val.kind]⟩
  | b x => exact ⟨by simp [Val.kind, hp_int, K.isSigned], by simp [Val.kind, hp_uint, K.isUnsigned], by simp [Val.kind, hp_float, K.isFloat], by simp [Val.kind]⟩
  | nil => exact ⟨by simp [Val.kind, hp_int, K.isSigned], by simp [Val.kind, hp_uint, K.isUnsigned], by simp [Val.kind, hp_float, K.isFloat], by simp [Val.kind]⟩
  | other k x =>
    simp only [Val.WK, Bool.not_eq_true', Bool.or_eq_false_iff] at h
    obtain ⟨⟨⟨⟨⟨h1, h2⟩, h3⟩, h4⟩, h5⟩, h6⟩ := h
    exact ⟨by simp [Val.kind, hp_int, h1], by simp [Val.kind, hp_uint, h2], by simp [Val.kind, hp_float, h3], by simp [Val.kind, h4]⟩

/-- Numeric part of the reference semantics (no string case, no zero-divisor check). -/
def refNum (op : AOp) (a b : Val) : Out Val :=
  match a.num?, b.num? with
  | some x, some y =>
    (match x, y with
     | .sint p, .sint q => .ok (.i .int64 (op.i64 p q))
     | .sint p, .uint q => .ok (.i .int64 (op.i64 p q.toInt64))
     | .uint p, .sint q => .ok (.i .int64 (op.i64 p.toInt64 q))
     | .uint p, .uint q => .ok (.u .uint64 (op.u64 p q))
     | p, q => .ok (.f .float64 (op.flt p.toFloat q.toFloat)))
  | _, _ => .err

open MathIR in
theorem dispatch_correct (op : AOp) (a b : Val) (ha : a.WK = true) (hb : b.WK = true) :
    (runRows op a b stdRows).recovered = refNum op a b := by
  obtain ⟨a1, a2, a3, a4⟩ := tests_of_wk a ha
  obtain ⟨b1, b2, b3, b4⟩ := tests_of_wk b hb
  simp only [runRows, stdRows, a1, a2, a3, b1, b2, b3]
  cases a <;> cases b <;>
    simp [refNum, Val.num?, Val.int?, Val.uint?, Val.float?, Out.recovered, NumClass.toFloat, evalOpd, applyOp] <;>
    (repeat' split) <;> simp_all [Out.recovered]

theorem refArith_eq (op : AOp) (a b : Val) :
    refArith op a b =
      match a, b with
      | .s x, .s y => if op == .add then .ok (.s (x ++ y)) else .err
      | _, _ => if op == .div && (match b.num? with | some y => y.isZero | none => false) && a.num?.isSome
                then .err else refNum op a b := by
  unfold refArith refNum
  cases a <;> cases b <;> simp [Val.num?] <;> (try split) <;> simp_all

open MathIR in
/-- **C01 (arithmetic).** For all operand values of all kinds, `core.Add/Sub/Mul/Div` (the table
    interpreter over `MathIR.expected`), with a panic turned into an error by the enclosing
    `recover`, compute the reference semantics. -/
theorem arith_correct (op : AOp) (a b : Val) (ha : a.WK = true) (hb : b.WK = true) :
    (goArith op a b).recovered = refArith op a b := by
  have hd := dispatch_correct op a b ha hb
  obtain ⟨a1, a2, a3, a4⟩ := tests_of_wk a ha
  obtain ⟨b1, b2, b3, b4⟩ := tests_of_wk b hb
  rw [refArith_eq]
  cases op
  · -- add
    simp only [goArith, tblArith, Tables.fn, expected, runFn, runGuards, a4, b4, Bool.true_and]
    cases a <;> cases b <;> simp_all [Val.str, Out.recovered]
  · simp only [goArith, tblArith, Tables.fn, expected, runFn, runGuards, Bool.false_and]
    cases a <;> cases b <;> simp_all [refNum, Val.num?]
  · simp only [goArith, tblArith, Tables.fn, expected, runFn, runGuards, Bool.false_and]
    cases a <;> cases b <;> simp_all [refNum, Val.num?]
  · -- div
    have hnone : b.num? = none → refNum .div a b = .err := by
      intro h; unfold refNum; rw [h]; cases a.num? <;> rfl
    have hanone : a.num? = none → refNum .div a b = .err := by
      intro h; unfold refNum; rw [h]
    simp only [goArith, tblArith, Tables.fn, expected, runFn, runGuards, selZero, Bool.false_and, b1, b2, b3]
    cases b with
    | i k y =>
      simp only [Val.int?, Val.num?, NumClass.isZero]
      by_cases hy : (y == 0) = true
      · cases a <;> simp_all [Out.recovered, refNum, Val.num?]
      · have h0 : (y == 0) = false := by simpa using hy
        cases a <;> simp_all [Out.recovered, refNum, Val.num?] <;>
          first
            | done
            | (have h0' : (y == 0) = false := by simp [*]
               simp only [h0']; exact hd)
            | (have h0' : (y == 0) = false := by simp [*]
               simp only [h0']; simp_all)
    | u k y =>
      simp only [Val.uint?, Val.num?, NumClass.isZero]
      by_cases hy : (y == 0) = true
      · cases a <;> simp_all [Out.recovered, refNum, Val.num?]
      · have h0 : (y == 0) = false := by simpa using hy
        cases a <;> simp_all [Out.recovered, refNum, Val.num?] <;>
          first
            | done
            | (have h0' : (y == 0) = false := by simp [*]
               simp only [h0']; exact hd)
            | (have h0' : (y == 0) = false := by simp [*]
               simp only [h0']; simp_all)
    | f k y =>
      simp only [Val.float?, Val.num?, NumClass.isZero]
      by_cases hy : (y == 0.0) = true
      · cases a <;> simp_all [Out.recovered, refNum, Val.num?]
      · have h0 : (y == 0.0) = false := by simpa using hy
        cases a <;> simp_all [Out.recovered, refNum, Val.num?] <;>
          first
            | done
            | (have h0' : (y == 0.0) = false := by simp [*]
               simp only [h0']; exact hd)
            | (have h0' : (y == 0.0) = false := by simp [*]
               simp only [h0']; simp_all)
    | s y => cases a <;> simp_all [Out.recovered, refNum, Val.num?]
    | b y => cases a <;> simp_all [Out.recovered, refNum, Val.num?]
    | nil => cases a <;> simp_all [Out.recovered, refNum, Val.num?]
    | other k y =>
      simp only [Val.int?, Val.num?]
      by_cases hk : (k == K.iface) = true
      · cases a <;> simp_all [Out.recovered, refNum, Val.num?]
      · cases a <;> simp_all [Out.recovered, refNum, Val.num?]

/-! ### Comparison -/

theorem cmpI64_eq (p q : Int64) : cmpI64 p q = cmpInt p.toInt q.toInt := by
  unfold cmpI64 cmpInt
  simp only [Int64.lt_iff_toInt_lt, beq_iff_eq, ← Int64.toInt_inj]
theorem cmpU64_eq (p q : UInt64) : cmpU64 p q = cmpInt p.toNat q.toNat := by
  unfold cmpU64 cmpInt
  simp only [UInt64.lt_iff_toNat_lt, beq_iff_eq, ← UInt64.toNat_inj]
  split
  · rename_i h; simp [Int.ofNat_lt.mpr h]
  · rename_i h
    have : ¬ ((p.toNat : Int) < q.toNat) := by omega
    simp only [this, ite_false]
    split <;> rename_i h2
    · simp [h2]
    · have : ¬ ((p.toNat : Int) = q.toNat) := by omega
      simp [this]
theorem mixed (p : Int64) (h : ¬ p < 0) : (p.toUInt64.toNat : Int) = p.toInt := by
  have hp0 : 0 ≤ p.toInt := by
    rw [Int64.lt_iff_toInt_lt] at h; simpa using h
  have hp : 0 ≤ p := by rw [Int64.le_iff_toInt_le]; simpa using hp0
  rw [Int64.toNat_toUInt64_of_le hp]
  show ((p.toInt.toNat : Nat) : Int) = p.toInt
  omega

theorem neg_lt_nat (p : Int64) (q : UInt64) (h : p < 0) : cmpInt p.toInt q.toNat = .lt := by
  have : p.toInt < 0 := by rw [Int64.lt_iff_toInt_lt] at h; simpa using h
  unfold cmpInt
  have h2 : p.toInt < (q.toNat : Int) := by omega
  simp [h2]

theorem nat_gt_neg (p : UInt64) (q : Int64) (h : q < 0) : cmpInt p.toNat q.toInt = .gt := by
  have : q.toInt < 0 := by rw [Int64.lt_iff_toInt_lt] at h; simpa using h
  unfold cmpInt
  have h2 : ¬ ((p.toNat : Int) < q.toInt) := by omega
  have h3 : ¬ ((p.toNat : Int) = q.toInt) := by omega
  simp [h2, h3]

/-- The integer comparison of the code is comparison of the mathematical integers, over the
    whole signed and unsigned 64-bit ranges (no detour through float64). -/
theorem goCmpInt_exact (x y : NumClass) (p q : Int) (hx : x.toInt? = some p) (hy : y.toInt? = some q) :
    goCmpInt x y = cmpInt p q := by
  cases x <;> cases y <;> simp [NumClass.toInt?] at hx hy <;> subst hx <;> subst hy
  · exact cmpI64_eq _ _
  · rename_i a b
    unfold goCmpInt
    by_cases h : a < 0
    · simp [h, neg_lt_nat a b h]
    · simp only [h, ite_false, cmpU64_eq]; rw [mixed a h]
  · rename_i a b
    unfold goCmpInt
    by_cases h : b < 0
    · simp [h, nat_gt_neg a b h]
    · simp only [h, ite_false, cmpU64_eq]; rw [mixed b h]
  · exact cmpU64_eq _ _

/-- **C01 (comparison).** For all operand values of all kinds the comparison block computes
    the reference semantics (`none` = no value: the expression fails with an error). -/
theorem cmp_correct (op : COp) (a b : Val) (ha : a.WK = true) (hb : b.WK = true) :
    goCmp op a b = refCmp op a b := by
  obtain ⟨_, _, _, a4⟩ := tests_of_wk a ha
  obtain ⟨_, _, _, b4⟩ := tests_of_wk b hb
  unfold goCmp refCmp
  simp only [a4, b4]
  cases a <;> cases b <;> simp [Val.num?, Val.str, NumClass.toInt?, NumClass.toFloat]
  all_goals first
    | (rw [goCmpInt_exact _ _ _ _ rfl rfl])
    | skip

end GV.Eval
