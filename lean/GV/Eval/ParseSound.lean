/-
  The converse of the round trip: whatever the parser model reads from a token string is a
  canonical tree whose tokens are that string.  Together with `parseTop_render`: the accepted
  token strings are exactly the renderings of canonical trees, and the parser is the inverse of
  `render` on them — so every accepted text has one reading, the one the precedence rules give.
-/
import GV.Eval.ParseThm
namespace GV.Eval

/-- every atom token carries an atom -/
def ToksWF (ts : List Tok) : Prop := ∀ e, Tok.atom e ∈ ts → e.isAtomic = true

theorem toksWF_tail {t : Tok} {ts : List Tok} (h : ToksWF (t :: ts)) : ToksWF ts :=
  fun e he => h e (List.mem_cons_of_mem _ he)

theorem toksWF_append_right {a b : List Tok} (h : ToksWF (a ++ b)) : ToksWF b :=
  fun e he => h e (List.mem_append_right _ he)

theorem render_atomic {e : RE} (h : e.isAtomic = true) : render e = [.atom e] := by
  cases e <;> simp [RE.isAtomic] at h <;> simp [render]

theorem canon_atomic (P : PrecTab) {e : RE} (h : e.isAtomic = true) : Canon P e = true := by
  cases e <;> simp [RE.isAtomic] at h <;> simp [Canon]

theorem isMath_atomic {e : RE} (h : e.isAtomic = true) : e.isMath = true := by
  cases e <;> simp [RE.isAtomic] at h <;> simp [RE.isMath]

theorem lvlM_atomic (P : PrecTab) {e : RE} (h : e.isAtomic = true) : lvlM P e = P.top := by
  cases e <;> simp [RE.isAtomic] at h <;> simp [lvlM]

theorem lvlX_atomic (P : PrecTab) {e : RE} (h : e.isAtomic = true) : lvlX P e = P.top := by
  cases e <;> simp [RE.isAtomic] at h <;> simp [lvlX]

/-- what the arithmetic rule returns at level `p`: -/
structure GoodM (P : PrecTab) (p : Nat) (ts : List Tok) (e : RE) (rest : List Tok) : Prop where
  toks : ts = render e ++ rest
  math : e.isMath = true
  canon : Canon P e = true
  lvl : p ≤ lvlM P e ∨ lvlM P e = P.top
  stop : StopM P p rest

/-- what the arithmetic operator loop returns, entered with `left` read from `pre` -/
structure GoodLM (P : PrecTab) (p : Nat) (left : RE) (ts : List Tok) (e : RE) (rest : List Tok) : Prop where
  toks : ∃ mid, ts = mid ++ rest ∧ render e = render left ++ mid
  math : e.isMath = true
  canon : Canon P e = true
  lvl : e = left ∨ p ≤ lvlM P e
  stop : StopM P p rest

theorem soundM (P : PrecTab) (hP : P.LeftAssoc) : ∀ n,
    (∀ p ts e rest, ToksWF ts → parseM P n p ts = some (e, rest) → GoodM P p ts e rest) ∧
    (∀ p left ts e rest, ToksWF ts → left.isMath = true → Canon P left = true → StopM P (lvlM P left + 1) ts →
        loopM P n p left ts = some (e, rest) → GoodLM P p left ts e rest) := by
  intro n
  induction n with
  | zero => constructor <;> intros <;> simp_all [parseM, loopM]
  | succ n ih =>
    obtain ⟨ihP, ihL⟩ := ih
    constructor
    · intro p ts e rest hw h
      match ts with
      | [] => simp [parseM] at h
      | .atom a :: ts =>
        simp only [parseM] at h
        have ha : a.isAtomic = true := hw a (List.mem_cons_self)
        have hl := ihL p a ts e rest (toksWF_tail hw) (isMath_atomic ha) (canon_atomic P ha)
          (by rw [lvlM_atomic P ha]; intro o ts' _ c; have := arP_lt_top P o; omega) h
        obtain ⟨mid, h1, h2⟩ := hl.toks
        refine ⟨?_, hl.math, hl.canon, ?_, hl.stop⟩
        · rw [h2, render_atomic ha, h1]; simp
        · rcases hl.lvl with h | h
          · right; rw [h, lvlM_atomic P ha]
          · left; exact h
      | .lp l :: ts =>
        simp only [parseM] at h
        cases hq : parseM P n 0 ts with
        | none => simp [hq] at h
        | some q =>
          rw [hq] at h
          obtain ⟨e1, ts1⟩ := q
          have g1 := ihP 0 ts e1 ts1 (toksWF_tail hw) hq
          match ts1 with
          | .rp :: ts2 =>
            simp only at h
            have hw2 : ToksWF ts2 := by
              have : ToksWF (render e1 ++ .rp :: ts2) := g1.toks ▸ toksWF_tail hw
              exact toksWF_tail (toksWF_append_right this)
            have hl := ihL p (.paren l e1) ts2 e rest hw2 (by simpa [RE.isMath] using g1.math)
              (by simpa [Canon] using g1.canon)
              (by intro o ts' _ c; have := arP_lt_top P o; simp only [lvlM] at c; omega) h
            obtain ⟨mid, h1, h2⟩ := hl.toks
            refine ⟨?_, hl.math, hl.canon, ?_, hl.stop⟩
            · rw [h2, g1.toks, h1]; simp [render]
            · rcases hl.lvl with h | h
              · right; rw [h]; rfl
              · left; exact h
          | [] => simp at h
          | .atom _ :: _ | .ar _ :: _ | .cmp _ :: _ | .log _ :: _ | .not _ :: _ | .lp _ :: _ => simp at h
      | .ar _ :: _ | .cmp _ :: _ | .log _ :: _ | .not _ :: _ | .rp :: _ => simp [parseM] at h
    · intro p left ts e rest hw hm hc hs h
      match ts with
      | .ar op :: ts =>
        simp only [loopM] at h
        by_cases hp : p ≤ P.arP op
        · simp only [hp, if_true] at h
          cases hq : parseM P n (P.arR op) ts with
          | none => simp [hq] at h
          | some q =>
            rw [hq] at h
            obtain ⟨r, ts1⟩ := q
            have g1 := ihP (P.arR op) ts r ts1 (toksWF_tail hw) hq
            have hR : P.arR op = P.arP op + 1 := by
              unfold PrecTab.arR PrecTab.arP; obtain ⟨h1, h2, _, _⟩ := hP; split <;> assumption
            have hleft : P.arP op ≤ lvlM P left := by
              have := hs op ts rfl; omega
            have hrl : P.arR op ≤ lvlM P r := by
              rcases g1.lvl with h | h
              · exact h
              · rw [h]; have := arP_lt_top P op; omega
            have hw1 : ToksWF ts1 := toksWF_append_right (g1.toks ▸ toksWF_tail hw)
            have hcn : Canon P (.ar left.line op left r) = true := by
              simp [Canon, hm, g1.math, hleft, hrl, hc, g1.canon]
            have hl := ihL p (.ar left.line op left r) ts1 e rest hw1 rfl hcn
              (by simp only [lvlM]; rw [← hR]; exact g1.stop) h
            obtain ⟨mid, h1, h2⟩ := hl.toks
            refine ⟨⟨.ar op :: (render r ++ mid), ?_, ?_⟩, hl.math, hl.canon, ?_, hl.stop⟩
            · rw [g1.toks, h1]; simp
            · rw [h2]; simp [render]
            · rcases hl.lvl with h | h
              · right; rw [h]; exact hp
              · right; exact h
        · simp only [hp, if_false] at h
          cases h
          exact ⟨⟨[], by simp, by simp⟩, hm, hc, Or.inl rfl, fun o ts' e c => by cases e; exact hp c⟩
      | [] =>
        simp only [loopM] at h; cases h
        exact ⟨⟨[], by simp, by simp⟩, hm, hc, Or.inl rfl, fun o ts' e _ => by cases e⟩
      | .atom _ :: _ | .cmp _ :: _ | .log _ :: _ | .not _ :: _ | .lp _ :: _ | .rp :: _ =>
        simp only [loopM] at h; cases h
        exact ⟨⟨[], by simp, by simp⟩, hm, hc, Or.inl rfl, fun o ts' e _ => by cases e⟩


theorem lvlX_math (P : PrecTab) {e : RE} (h : e.isMath = true) : lvlX P e = P.top := by
  cases e <;> simp [RE.isMath] at h <;> simp [lvlX]

/-- what `expression` returns at level `p` -/
structure GoodX (P : PrecTab) (p : Nat) (ts : List Tok) (e : RE) (rest : List Tok) : Prop where
  toks : ts = render e ++ rest
  canon : Canon P e = true
  lvl : p ≤ lvlX P e ∨ lvlX P e = P.top
  stop : StopX P p rest

structure GoodPX (P : PrecTab) (ts : List Tok) (e : RE) (rest : List Tok) : Prop where
  toks : ts = render e ++ rest
  canon : Canon P e = true
  lvl : lvlX P e = P.top

structure GoodLX (P : PrecTab) (p : Nat) (left : RE) (ts : List Tok) (e : RE) (rest : List Tok) : Prop where
  toks : ∃ mid, ts = mid ++ rest ∧ render e = render left ++ mid
  canon : Canon P e = true
  lvl : e = left ∨ p ≤ lvlX P e
  stop : StopX P p rest

theorem top_gt (P : PrecTab) : P.cmpP < P.top ∧ P.logP < P.top := by
  unfold PrecTab.top; omega

theorem stopX_top (P : PrecTab) (ts : List Tok) : StopX P (P.top + 1) ts := by
  have := top_gt P
  constructor <;> intro o ts' _ c <;> omega

theorem soundX (P : PrecTab) (hP : P.LeftAssoc) : ∀ n,
    (∀ p ts e rest, ToksWF ts → parseX P n p ts = some (e, rest) → GoodX P p ts e rest) ∧
    (∀ ts e rest, ToksWF ts → primX P n ts = some (e, rest) → GoodPX P ts e rest) ∧
    (∀ p left ts e rest, ToksWF ts → Canon P left = true → StopX P (lvlX P left + 1) ts →
        loopX P n p left ts = some (e, rest) → GoodLX P p left ts e rest) := by
  intro n
  induction n with
  | zero => refine ⟨?_, ?_, ?_⟩ <;> intros <;> simp_all [parseX, primX, loopX]
  | succ n ih =>
    obtain ⟨ihP, ihR, ihL⟩ := ih
    refine ⟨?_, ?_, ?_⟩
    · intro p ts e rest hw h
      simp only [parseX] at h
      cases hq : primX P n ts with
      | none => simp [hq] at h
      | some q =>
        rw [hq] at h
        obtain ⟨e1, ts1⟩ := q
        have g1 := ihR ts e1 ts1 hw hq
        have hw1 : ToksWF ts1 := toksWF_append_right (g1.toks ▸ hw)
        have hl := ihL p e1 ts1 e rest hw1 g1.canon (by rw [g1.lvl]; exact stopX_top P _) h
        obtain ⟨mid, h1, h2⟩ := hl.toks
        refine ⟨?_, hl.canon, ?_, hl.stop⟩
        · rw [h2, g1.toks, h1]; simp
        · rcases hl.lvl with h | h
          · right; rw [h]; exact g1.lvl
          · left; exact h
    · intro ts e rest hw h
      simp only [primX] at h
      cases hm : parseM P (fuelFor ts) 0 ts with
      | some q =>
        rw [hm] at h; simp only at h; cases h
        have g := (soundM P hP (fuelFor ts)).1 0 ts e rest hw hm
        exact ⟨g.toks, g.canon, lvlX_math P g.math⟩
      | none =>
        rw [hm] at h
        simp only at h
        match ts with
        | .not l :: .atom a :: ts' =>
          simp only at h; cases h
          have ha : a.isAtomic = true := hw a (by simp)
          refine ⟨?_, ?_, rfl⟩
          · cases a <;> simp [RE.isAtomic] at ha <;> simp [render]
          · cases a <;> simp [RE.isAtomic] at ha <;> simp [Canon, RE.isAtomic]
        | .not l :: .lp l' :: ts' =>
          simp only at h
          cases hq : parseX P n 0 ts' with
          | none => simp [hq] at h
          | some q =>
            rw [hq] at h
            obtain ⟨e1, ts1⟩ := q
            have g1 := ihP 0 ts' e1 ts1 (toksWF_tail (toksWF_tail hw)) hq
            match ts1 with
            | .rp :: ts2 =>
              simp only at h; cases h
              refine ⟨?_, by simpa [Canon] using g1.canon, rfl⟩
              rw [g1.toks]; simp [render]
            | [] => simp at h
            | .atom _ :: _ | .ar _ :: _ | .cmp _ :: _ | .log _ :: _ | .not _ :: _ | .lp _ :: _ => simp at h
        | .lp l :: ts' =>
          simp only at h
          cases hq : parseX P n 0 ts' with
          | none => simp [hq] at h
          | some q =>
            rw [hq] at h
            obtain ⟨e1, ts1⟩ := q
            have g1 := ihP 0 ts' e1 ts1 (toksWF_tail hw) hq
            match ts1 with
            | .rp :: ts2 =>
              simp only at h; cases h
              refine ⟨?_, by simpa [Canon] using g1.canon, rfl⟩
              rw [g1.toks]; simp [render]
            | [] => simp at h
            | .atom _ :: _ | .ar _ :: _ | .cmp _ :: _ | .log _ :: _ | .not _ :: _ | .lp _ :: _ => simp at h
        | [] => simp at h
        | [.not _] => simp at h
        | .not _ :: .ar _ :: _ | .not _ :: .cmp _ :: _ | .not _ :: .log _ :: _ | .not _ :: .not _ :: _
        | .not _ :: .rp :: _ => simp at h
        | .atom _ :: _ | .ar _ :: _ | .cmp _ :: _ | .log _ :: _ | .rp :: _ => simp at h
    · intro p left ts e rest hw hc hs h
      match ts with
      | .cmp op :: ts =>
        simp only [loopX] at h
        by_cases hp : p ≤ P.cmpP
        · simp only [hp, if_true] at h
          cases hq : parseX P n P.cmpR ts with
          | none => simp [hq] at h
          | some q =>
            rw [hq] at h
            obtain ⟨r, ts1⟩ := q
            have g1 := ihP P.cmpR ts r ts1 (toksWF_tail hw) hq
            have hR : P.cmpR = P.cmpP + 1 := hP.2.2.1
            have hleft : P.cmpP ≤ lvlX P left := by have := hs.1 op ts rfl; omega
            have hrl : P.cmpR ≤ lvlX P r := by
              rcases g1.lvl with h | h
              · exact h
              · rw [h]; have := top_gt P; omega
            have hw1 : ToksWF ts1 := toksWF_append_right (g1.toks ▸ toksWF_tail hw)
            have hcn : Canon P (.cmp left.line op left r) = true := by
              simp [Canon, hleft, hrl, hc, g1.canon]
            have hl := ihL p (.cmp left.line op left r) ts1 e rest hw1 hcn
              (by simp only [lvlX]; rw [← hR]; exact g1.stop) h
            obtain ⟨mid, h1, h2⟩ := hl.toks
            refine ⟨⟨.cmp op :: (render r ++ mid), ?_, ?_⟩, hl.canon, ?_, hl.stop⟩
            · rw [g1.toks, h1]; simp
            · rw [h2]; simp [render]
            · rcases hl.lvl with h | h
              · right; rw [h]; exact hp
              · right; exact h
        · simp only [hp, if_false] at h
          cases h
          refine ⟨⟨[], by simp, by simp⟩, hc, Or.inl rfl, ?_⟩
          constructor
          · intro o ts' e c; cases e; exact hp c
          · intro o ts' e; cases e
      | .log op :: ts =>
        simp only [loopX] at h
        by_cases hp : p ≤ P.logP
        · simp only [hp, if_true] at h
          cases hq : parseX P n P.logR ts with
          | none => simp [hq] at h
          | some q =>
            rw [hq] at h
            obtain ⟨r, ts1⟩ := q
            have g1 := ihP P.logR ts r ts1 (toksWF_tail hw) hq
            have hR : P.logR = P.logP + 1 := hP.2.2.2
            have hleft : P.logP ≤ lvlX P left := by have := hs.2 op ts rfl; omega
            have hrl : P.logR ≤ lvlX P r := by
              rcases g1.lvl with h | h
              · exact h
              · rw [h]; have := top_gt P; omega
            have hw1 : ToksWF ts1 := toksWF_append_right (g1.toks ▸ toksWF_tail hw)
            have hcn : Canon P (.log left.line op left r) = true := by
              simp [Canon, hleft, hrl, hc, g1.canon]
            have hl := ihL p (.log left.line op left r) ts1 e rest hw1 hcn
              (by simp only [lvlX]; rw [← hR]; exact g1.stop) h
            obtain ⟨mid, h1, h2⟩ := hl.toks
            refine ⟨⟨.log op :: (render r ++ mid), ?_, ?_⟩, hl.canon, ?_, hl.stop⟩
            · rw [g1.toks, h1]; simp
            · rw [h2]; simp [render]
            · rcases hl.lvl with h | h
              · right; rw [h]; exact hp
              · right; exact h
        · simp only [hp, if_false] at h
          cases h
          refine ⟨⟨[], by simp, by simp⟩, hc, Or.inl rfl, ?_⟩
          constructor
          · intro o ts' e; cases e
          · intro o ts' e c; cases e; exact hp c
      | [] =>
        simp only [loopX] at h; cases h
        exact ⟨⟨[], by simp, by simp⟩, hc, Or.inl rfl, stopX_nil P _⟩
      | .atom _ :: _ | .ar _ :: _ | .not _ :: _ | .lp _ :: _ | .rp :: _ =>
        simp only [loopX] at h; cases h
        refine ⟨⟨[], by simp, by simp⟩, hc, Or.inl rfl, ?_⟩
        constructor <;> intro o ts' e <;> cases e

/-- **Soundness of the reading.**  Whatever the parser reads from a token string is a canonical
    tree whose tokens are that string. -/
theorem parseTop_sound (P : PrecTab) (hP : P.LeftAssoc) (ts : List Tok) (hw : ToksWF ts) (t : RE)
    (h : parseTop P ts = some t) : render t = ts ∧ Canon P t = true := by
  unfold parseTop at h
  cases hq : parseX P (fuelFor ts) 0 ts with
  | none => simp [hq] at h
  | some q =>
    rw [hq] at h
    obtain ⟨e, rest⟩ := q
    match rest with
    | [] =>
      simp only [Option.some.injEq] at h; subst h
      have g := (soundX P hP (fuelFor ts)).1 0 ts e [] hw hq
      exact ⟨by rw [g.toks]; simp, g.canon⟩
    | _ :: _ => simp at h

/-- the accepted token strings are exactly the renderings of canonical trees, and each has exactly
    one reading -/
theorem parseTop_iff (P : PrecTab) (hP : P.LeftAssoc) (ts : List Tok) (hw : ToksWF ts) (t : RE) :
    parseTop P ts = some t ↔ (render t = ts ∧ Canon P t = true) :=
  ⟨parseTop_sound P hP ts hw t, fun ⟨h1, h2⟩ => h1 ▸ parseTop_render P hP t h2⟩

/-- two canonical trees with the same tokens are the same tree: no text has two readings -/
theorem render_injective (P : PrecTab) (hP : P.LeftAssoc) (t u : RE) (ht : Canon P t = true) (hu : Canon P u = true)
    (h : render t = render u) : t = u := by
  have h1 := parseTop_render P hP t ht
  have h2 := parseTop_render P hP u hu
  rw [h, h2] at h1
  exact (Option.some.inj h1).symm

end GV.Eval
