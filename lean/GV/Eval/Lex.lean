/-
  Lexer model: the token rules of internal/iantlr/gengine.g4 as an executable maximal-munch scanner
  over `List Char` (ANTLR's rule: the longest match wins, among equally long matches the rule that
  comes first in the grammar - keywords before SIMPLENAME, implicit literals before everything).
  Hand-written; tied to the generated ANTLR lexer by the differential scenario `lex`
  (hook builder.VerifTokens) and to the grammar file by the regenerated keyword / literal tables
  (GV.Generated.Grammar, obligations in Props/C01l).
-/
namespace GV.Eval.Lex

inductive K
  | nil | rule | and | or | conc | if_ | else_ | return_ | for_ | break_ | forrange | continue_
  | true_ | false_ | null | salience | begin_ | end_ | simplename | int
  | plus | minus | div | mul | equals | gt | lt | gte | lte | noteq | not | assign | set
  | pluseq | minuseq | muleq | diveq | lsq | rsq | semi | lbrace | rbrace | lbr | rbr | dot
  | string | dotted | ddotted | real | atName | atId | atDesc | atSal | comma
  | skip
  deriving DecidableEq, Repr, Inhabited

def K.name : K → String
  | .nil => "NIL" | .rule => "RULE" | .and => "AND" | .or => "OR" | .conc => "CONC" | .if_ => "IF"
  | .else_ => "ELSE" | .return_ => "RETURN" | .for_ => "FOR" | .break_ => "BREAK"
  | .forrange => "FORRANGE" | .continue_ => "CONTINUE" | .true_ => "TRUE" | .false_ => "FALSE"
  | .null => "NULL_LITERAL" | .salience => "SALIENCE" | .begin_ => "BEGIN" | .end_ => "END"
  | .simplename => "SIMPLENAME" | .int => "INT" | .plus => "PLUS" | .minus => "MINUS"
  | .div => "DIV" | .mul => "MUL" | .equals => "EQUALS" | .gt => "GT" | .lt => "LT" | .gte => "GTE"
  | .lte => "LTE" | .noteq => "NOTEQUALS" | .not => "NOT" | .assign => "ASSIGN" | .set => "SET"
  | .pluseq => "PLUSEQUAL" | .minuseq => "MINUSEQUAL" | .muleq => "MULTIEQUAL" | .diveq => "DIVEQUAL"
  | .lsq => "LSQARE" | .rsq => "RSQARE" | .semi => "SEMICOLON" | .lbrace => "LR_BRACE"
  | .rbrace => "RR_BRACE" | .lbr => "LR_BRACKET" | .rbr => "RR_BRACKET" | .dot => "DOT"
  | .string => "DQUOTA_STRING" | .dotted => "DOTTEDNAME" | .ddotted => "DOUBLEDOTTEDNAME"
  | .real => "REAL_LITERAL" | .atName => "'@name'" | .atId => "'@id'" | .atDesc => "'@desc'"
  | .atSal => "'@sal'" | .comma => "','" | .skip => "skip"

def isNameStart (c : Char) : Bool := c.isAlpha || c == '_'
def isNameChar (c : Char) : Bool := c.isAlphanum || c == '_'
def isWs (c : Char) : Bool := c == ' ' || c == '\t' || c == '\n' || c == '\r'

/-- The case-insensitive keywords, in grammar order (all listed before SIMPLENAME). -/
def keywords : List (String × K) :=
  [("nil", .nil), ("rule", .rule), ("conc", .conc), ("if", .if_), ("else", .else_),
   ("return", .return_), ("for", .for_), ("break", .break_), ("forrange", .forrange),
   ("continue", .continue_), ("true", .true_), ("false", .false_), ("null", .null),
   ("salience", .salience), ("begin", .begin_), ("end", .end_)]

def kwOf (n : List Char) : K :=
  match keywords.find? (fun p => p.1.toList == n.map Char.toLower) with
  | some p => p.2
  | none => .simplename

def nameLen (cs : List Char) : Nat := (cs.takeWhile isNameChar).length
def digitsLen (cs : List Char) : Nat := (cs.takeWhile Char.isDigit).length

/-- SIMPLENAME / keyword / DOTTEDNAME / DOUBLEDOTTEDNAME starting at a name-start character. -/
def lexName (cs : List Char) : K × Nat :=
  let n1 := nameLen cs
  match cs.drop n1 with
  | '.' :: c :: r =>
    if isNameStart c then
      let n2 := nameLen (c :: r)
      match (c :: r).drop n2 with
      | '.' :: d :: r' =>
        if isNameStart d then (.ddotted, n1 + 1 + n2 + 1 + nameLen (d :: r'))
        else (.dotted, n1 + 1 + n2)
      | _ => (.dotted, n1 + 1 + n2)
    else (kwOf (cs.take n1), n1)
  | _ => (kwOf (cs.take n1), n1)

/-- Length of an EXPONENT_NUM_PART prefix: ('E'|'e') '-'? DEC_DIGIT+ -/
def expLen : List Char → Option Nat
  | [] => none
  | e :: r =>
    if e == 'E' || e == 'e' then
      match r with
      | '-' :: r' => if 0 < digitsLen r' then some (2 + digitsLen r') else none
      | _ => if 0 < digitsLen r then some (1 + digitsLen r) else none
    else none

/-- After the point of a real literal: digits, then an optional exponent. `none`: no digit. -/
def fracLen (cs : List Char) : Option Nat :=
  let d := digitsLen cs
  if 0 < d then
    match expLen (cs.drop d) with
    | some e => some (d + e)
    | none => some d
  else none

/-- INT / REAL_LITERAL starting at a digit. -/
def lexNumber (cs : List Char) : K × Nat :=
  let d1 := digitsLen cs
  match cs.drop d1 with
  | '.' :: r =>
    match fracLen r with
    | some f => (.real, d1 + 1 + f)
    | none =>
      match expLen r with
      | some e => (.real, d1 + 1 + e)
      | none => (.int, d1)
  | r =>
    match expLen r with
    | some e => (.real, d1 + e)
    | none => (.int, d1)

/-- Body and closing quote of a DQUOTA_STRING: '"' ( '\\'. | '""' | ~('"'|'\\') )* '"', longest match.
    Returns the number of characters after the opening quote, up to and including the closing one. -/
def strLen : List Char → Option Nat
  | [] => none
  | '\\' :: [] => none
  | '\\' :: _ :: r => (strLen r).map (· + 2)
  | '"' :: '"' :: r =>
    match strLen r with
    | some n => some (n + 2)
    | none => some 1
  | '"' :: _ => some 1
  | _ :: r => (strLen r).map (· + 1)

/-- SL_COMMENT: '//' .*? '\n' - the characters after `//` up to and including the first newline. -/
def commentLen : List Char → Option Nat
  | [] => none
  | c :: r => if c == '\n' then some 1 else (commentLen r).map (· + 1)

def startsWith (p : String) (cs : List Char) : Bool := p.toList.isPrefixOf cs

/-- Kind and length of the token at the head of the input; `none`: token recognition error. -/
def lexLen (cs : List Char) : Option (K × Nat) :=
  match cs with
  | [] => none
  | c :: r =>
    if isWs c then some (.skip, (cs.takeWhile isWs).length)
    else if isNameStart c then some (lexName cs)
    else if c.isDigit then some (lexNumber cs)
    else match c, r with
    | '.', _ => (match fracLen r with
                 | some f => some (.real, 1 + f)
                 | none => some (.dot, 1))
    | '"', _ => (strLen r).map (fun n => (.string, 1 + n))
    | '/', '/' :: r' => (match commentLen r' with
                         | some n => some (.skip, 2 + n)
                         | none => some (.div, 1))
    | '/', '=' :: _ => some (.diveq, 2)
    | '/', _ => some (.div, 1)
    | '+', '=' :: _ => some (.pluseq, 2)
    | '+', _ => some (.plus, 1)
    | '-', '=' :: _ => some (.minuseq, 2)
    | '-', _ => some (.minus, 1)
    | '*', '=' :: _ => some (.muleq, 2)
    | '*', _ => some (.mul, 1)
    | '=', '=' :: _ => some (.equals, 2)
    | '=', _ => some (.set, 1)
    | '!', '=' :: _ => some (.noteq, 2)
    | '!', _ => some (.not, 1)
    | '>', '=' :: _ => some (.gte, 2)
    | '>', _ => some (.gt, 1)
    | '<', '=' :: _ => some (.lte, 2)
    | '<', _ => some (.lt, 1)
    | ':', '=' :: _ => some (.assign, 2)
    | '&', '&' :: _ => some (.and, 2)
    | '|', '|' :: _ => some (.or, 2)
    | '[', _ => some (.lsq, 1)
    | ']', _ => some (.rsq, 1)
    | ';', _ => some (.semi, 1)
    | '{', _ => some (.lbrace, 1)
    | '}', _ => some (.rbrace, 1)
    | '(', _ => some (.lbr, 1)
    | ')', _ => some (.rbr, 1)
    | ',', _ => some (.comma, 1)
    | '@', _ =>
      if startsWith "name" r then some (.atName, 5)
      else if startsWith "id" r then some (.atId, 3)
      else if startsWith "desc" r then some (.atDesc, 5)
      else if startsWith "sal" r then some (.atSal, 4)
      else none
    | _, _ => none

structure Tok where
  kind : K
  text : List Char
  deriving DecidableEq, Repr

/-- One step: the token at the head and the rest.  The guard makes every step consume between one
    character and the whole input (`lexOne_split`); it never rejects what `lexLen` accepts
    (`C01_lex_guard_never_rejects` in Props/C01l). -/
def lexOne (cs : List Char) : Option (Tok × List Char) :=
  match lexLen cs with
  | some (k, n) => if 0 < n ∧ n ≤ cs.length then some (⟨k, cs.take n⟩, cs.drop n) else none
  | none => none

/-- All tokens (including skipped white space and comments, kind `skip`) and what is left at the
    first token recognition error (`[]`: the whole text was read). -/
def lexFuel : Nat → List Char → List Tok × List Char
  | 0, cs => ([], cs)
  | _ + 1, [] => ([], [])
  | f + 1, cs =>
    match lexOne cs with
    | none => ([], cs)
    | some (t, r) => let (ts, rest) := lexFuel f r; (t :: ts, rest)

def lexAll (cs : List Char) : List Tok × List Char := lexFuel cs.length cs

/-- The token stream the parser sees: default channel only. -/
def tokens (cs : List Char) : List Tok := (lexAll cs).1.filter (fun t => t.kind != .skip)

def lexOk (cs : List Char) : Bool := (lexAll cs).2.isEmpty

end GV.Eval.Lex
