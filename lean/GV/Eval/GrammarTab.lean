/- The precedence table of the parser as it is generated now (regenerated on every run). -/
import GV.Generated.Grammar
namespace GV.Eval

def genTab : PrecTab := GrammarIR.tabOf GV.Generated.Grammar.expression GV.Generated.Grammar.mathExpression

end GV.Eval
