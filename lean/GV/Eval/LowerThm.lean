/-
  C01 (tree level): the interpreter on listener-shaped ASTs computes the reference semantics.
-/
import GV.Eval.Lower
namespace GV.Eval

theorem nv_false (l : Nat) (r : Res Val × Env) : nv false l r = r := rfl
theorem nv_true (l : Nat) (r : Res Val × Env) : nv true l r = needValue l r := rfl

@[simp] theorem bindR_ok {α β : Type} (a : α) (e : Env) (k : α → Env → Res β × Env) : bindR (.ok a, e) k = k a e := rfl
@[simp] theorem bindR_err {α β : Type} (c : Option Nat) (e : Env) (k : α → Env → Res β × Env) :
    bindR ((.err c : Res α), e) k = (.err c, e) := rfl
@[simp] theorem bindR_panic {α β : Type} (e : Env) (k : α → Env → Res β × Env) :
    bindR ((.panic : Res α), e) k = (.panic, e) := rfl

/-- An `Expression` that only wraps a `MathExpression` yields the math value, or the
    "evaluate Expression err" error when that value is the invalid Value. -/
theorem evalExpr_mathOnly (P : Params) (env : Env) (p : Pos) (m : MathE) :
    evalExpr P env (.mk p .none .none .none (.some m) none none false) = needValue p.line (evalMath P env m) := by
  simp only [evalExpr, evalOMathOpt, evalOAtomOpt, OExpr.isNone, evalOExprOpt, ite_true]
  cases h : evalMath P env m with
  | mk r e1 =>
    cases r with
    | ok v => cases v <;> simp [mapSome, needValue, skipNil, lastPick]
    | err c => simp [mapSome, needValue]
    | panic => simp [mapSome, needValue]

/-- A tree outside the arithmetic sub-language yields a boolean (or fails). -/
theorem denote_bool (P : Params) : (a : RE) → (env : Env) → a.isMath = false → ∀ v e', denote P env true a = (.ok v, e') →
    ∃ b, v = .b b
  | .lit _ _, _, h, _, _, _ => by simp [RE.isMath] at h
  | .var _ _, _, h, _, _, _ => by simp [RE.isMath] at h
  | .idx _ _ _, _, h, _, _, _ => by simp [RE.isMath] at h
  | .call _ _ _ _, _, h, _, _, _ => by simp [RE.isMath] at h
  | .ar _ _ _ _, _, h, _, _, _ => by simp [RE.isMath] at h
  | .paren l a, env, h, v, e', hd => by
    have ha : a.isMath = false := by simpa [RE.isMath] using h
    simp only [denote, ha, Bool.false_eq_true, ite_false] at hd
    exact denote_bool P a env ha v e' hd
  | .cmp l op a b, env, _, v, e', hd => by
    simp only [denote] at hd
    cases h1 : denote P env true a with
    | mk r e1 =>
      rw [h1] at hd
      cases r with
      | ok x =>
        simp only [] at hd
        cases h2 : denote P e1 true b with
        | mk r2 e2 =>
          rw [h2] at hd
          cases r2 with
          | ok y =>
            simp only [] at hd
            cases h3 : P.cmp op x y with
            | some r => rw [h3] at hd; simp at hd; exact ⟨r, hd.1.symm⟩
            | none => rw [h3] at hd; simp at hd
          | err c => simp at hd
          | panic => simp at hd
      | err c => simp at hd
      | panic => simp at hd
  | .log l op a b, env, _, v, e', hd => by
    simp only [denote] at hd
    cases h1 : denote P env true a with
    | mk r e1 =>
      rw [h1] at hd
      cases r with
      | ok x =>
        simp only [] at hd
        cases h2 : denote P e1 true b with
        | mk r2 e2 =>
          rw [h2] at hd
          cases r2 with
          | ok y =>
            simp only [] at hd
            cases x <;> cases y <;> simp at hd
            exact ⟨_, hd.1.symm⟩
          | err c => simp at hd
          | panic => simp at hd
      | err c => simp at hd
      | panic => simp at hd
  | .not l a, env, _, v, e', hd => by
    have key : ∀ r : Res Val × Env, notOf l r = (.ok v, e') → ∃ b, v = .b b := by
      intro r hr
      obtain ⟨rv, re⟩ := r
      cases rv with
      | ok w => cases w <;> simp [notOf] at hr; exact ⟨_, hr.1.symm⟩
      | err c => simp [notOf] at hr
      | panic => simp [notOf] at hr
    cases a <;> simp only [denote] at hd <;> exact key _ hd

mutual
  theorem lowerM_correct (P : Params) (env : Env) : (e : RE) → e.isMath = true → e.WF = true →
      evalMath P env (lowerM e) = denote P env false e
    | .lit l v, _, _ => by simp [lowerM, evalMath, evalAtom, denote, nv]
    | .var l n, _, _ => by simp [lowerM, evalMath, evalAtom, denote, nv]
    | .idx l n k, _, _ => by simp [lowerM, evalMath, evalAtom, denote, nv, pos0]
    | .call l kind n args, _, hw => by
      have ih := lowerArgs_correct P env args (by simpa [RE.WF] using hw)
      simp only [lowerM, evalMath, evalAtom, evalCall, denote, nv_false, ih, pos0]
    | .ar l op a b, _, hw => by
      simp only [RE.WF, Bool.and_eq_true] at hw
      obtain ⟨⟨⟨ha, hb⟩, hwa⟩, hwb⟩ := hw
      have iha := lowerM_correct P env a ha hwa
      simp only [lowerM, evalMath, evalOMath, denote, nv_false, iha]
      cases hda : denote P env false a with
      | mk r e1 =>
        cases r with
        | ok x =>
          have ihb := lowerM_correct P e1 b hb hwb
          simp only [ihb]
          cases hdb : denote P e1 false b with
          | mk r2 e2 =>
            cases r2 with
            | ok y => simp only [aritOut, pos0]; cases P.arith op x y <;> rfl
            | err c => rfl
            | panic => rfl
        | err c => rfl
        | panic => rfl
    | .paren l a, hm, hw => by
      have ha : a.isMath = true := by simpa [RE.isMath] using hm
      have hwa : a.WF = true := by simpa [RE.WF] using hw
      have iha := lowerM_correct P env a ha hwa
      simp [lowerM, evalMath, evalOMath, denote, ha, nv_false, iha]
    | .cmp _ _ _ _, hm, _ => by simp [RE.isMath] at hm
    | .log _ _ _ _, hm, _ => by simp [RE.isMath] at hm
    | .not _ _, hm, _ => by simp [RE.isMath] at hm

  theorem lowerX_correct (P : Params) (env : Env) : (e : RE) → e.WF = true →
      evalExpr P env (lowerX e) = denote P env true e
    | .lit l v, hw => by
      rw [lowerX, evalExpr_mathOnly]
      have := lowerM_correct P env (.lit l v) rfl hw
      simp only [lowerM] at this
      rw [this]; simp [denote, nv, pos0]
    | .var l n, hw => by
      rw [lowerX, evalExpr_mathOnly]
      have := lowerM_correct P env (.var l n) rfl hw
      simp only [lowerM] at this
      rw [this]; simp [denote, nv, pos0]
    | .idx l n k, hw => by
      rw [lowerX, evalExpr_mathOnly]
      have := lowerM_correct P env (.idx l n k) rfl hw
      simp only [lowerM] at this
      rw [this]; simp [denote, nv, pos0]
    | .call l kind n args, hw => by
      rw [lowerX, evalExpr_mathOnly]
      have := lowerM_correct P env (.call l kind n args) rfl hw
      simp only [lowerM] at this
      rw [this]; simp [denote, nv, pos0]
    | .ar l op a b, hw => by
      rw [lowerX, evalExpr_mathOnly]
      have := lowerM_correct P env (.ar l op a b) rfl hw
      simp only [lowerM] at this
      rw [this]; simp [denote, nv, pos0]
    | .paren l a, hw => by
      have hwa : a.WF = true := by simpa [RE.WF] using hw
      by_cases ha : a.isMath = true
      · simp only [lowerX, ha, ite_true]
        rw [evalExpr_mathOnly]
        have := lowerM_correct P env (.paren l a) (by simpa [RE.isMath] using ha) hw
        simp only [lowerM] at this
        rw [this]; simp [denote, nv, pos0, ha]
      · have ha' : a.isMath = false := by simpa using ha
        have ih := lowerX_correct P env a hwa
        simp only [lowerX, ha', Bool.false_eq_true, ite_false, denote]
        simp only [evalExpr, evalOMathOpt, evalOAtomOpt, OExpr.isNone, ite_true, evalOExprOpt, bindR_ok, ih]
        cases hda : denote P env true a with
        | mk r e1 =>
          cases r with
          | ok v =>
            obtain ⟨bb, hb⟩ := denote_bool P a env ha' v e1 hda
            subst hb
            simp [mapSome, lastPick, skipNil]
          | err c => rfl
          | panic => rfl
    | .cmp l op a b, hw => by
      simp only [RE.WF, Bool.and_eq_true] at hw
      have iha := lowerX_correct P env a hw.1
      simp only [lowerX, denote]
      simp only [evalExpr, evalOMathOpt, evalOAtomOpt, OExpr.isNone, Bool.false_eq_true, ite_false, bindR_ok,
        evalOExprPanic, iha]
      cases denote P env true a with
      | mk r e1 =>
        cases r with
        | ok x =>
          have ihb := lowerX_correct P e1 b hw.2
          simp only [bindR_ok, ihb]
          cases denote P e1 true b with
          | mk r2 e2 =>
            cases r2 with
            | ok y =>
              simp only [bindR_ok, cmpOf, pos0]
              cases hc : P.cmp op x y with
              | some r => simp [lastPick, skipNil]
              | none => cases x <;> cases y <;> simp [lastPick, skipNil]
            | err c => rfl
            | panic => rfl
        | err c => rfl
        | panic => rfl
    | .log l op a b, hw => by
      simp only [RE.WF, Bool.and_eq_true] at hw
      have iha := lowerX_correct P env a hw.1
      simp only [lowerX, denote]
      simp only [evalExpr, evalOMathOpt, evalOAtomOpt, OExpr.isNone, Bool.false_eq_true, ite_false, bindR_ok,
        evalOExprPanic, iha]
      cases denote P env true a with
      | mk r e1 =>
        cases r with
        | ok x =>
          have ihb := lowerX_correct P e1 b hw.2
          simp only [bindR_ok, ihb]
          cases denote P e1 true b with
          | mk r2 e2 =>
            cases r2 with
            | ok y =>
              simp only [bindR_ok, logicOf, pos0]
              cases x <;> cases y <;> simp [lastPick, skipNil] <;> (cases op <;> rfl)
            | err c => rfl
            | panic => rfl
        | err c => rfl
        | panic => rfl
    | .not l (.paren pl inner), hw => by
      have hwi : inner.WF = true := by simpa [RE.WF] using hw
      have ih := lowerX_correct P env inner hwi
      simp only [lowerX, denote]
      simp only [evalExpr, evalOMathOpt, evalOAtomOpt, OExpr.isNone, ite_true, evalOExprOpt, bindR_ok, ih]
      cases denote P env true inner with
      | mk r e1 =>
        cases r with
        | ok v => cases v <;> simp [mapSome, lastPick, skipNil, notOf, Val.bool?, pos0]
        | err c => rfl
        | panic => rfl
    | .not l (.lit l2 v), hw => by
      simp [lowerX, lowerAtom, denote, evalExpr, evalOMathOpt, evalOAtomOpt, OExpr.isNone, evalOExprOpt, evalAtom,
        mapSome, nv]
      cases v <;> simp [lastPick, skipNil, notOf, Val.bool?, pos0]
    | .not l (.var l2 n), hw => by
      simp only [lowerX, lowerAtom, denote, evalExpr, evalOMathOpt, evalOAtomOpt, OExpr.isNone, evalOExprOpt,
        evalAtom, nv_false, bindR_ok, ite_true]
      cases getValue env n with
      | ok v => cases v <;> simp [mapSome, lastPick, skipNil, notOf, Val.bool?, pos0]
      | err c => rfl
      | panic => rfl
    | .not l (.idx l2 n k), hw => by
      simp only [lowerX, lowerAtom, denote, evalExpr, evalOMathOpt, evalOAtomOpt, OExpr.isNone, evalOExprOpt,
        evalAtom, nv_false, bindR_ok, ite_true, pos0]
      cases evalMapV env ⟨⟨l2, 0⟩, n, k⟩ with
      | ok v => cases v <;> simp [mapSome, lastPick, skipNil, notOf, Val.bool?]
      | err c => rfl
      | panic => rfl
    | .not l (.call l2 kind n args), hw => by
      have hwa : args.WF = true := by simpa [RE.WF, RE.isAtomic] using hw
      have ih := lowerArgs_correct P env args hwa
      simp only [lowerX, lowerAtom, denote, evalExpr, evalOMathOpt, evalOAtomOpt, OExpr.isNone, evalOExprOpt,
        evalAtom, evalCall, nv_false, bindR_ok, ite_true, pos0, ih]
      cases finishCall P kind l2 n (denoteArgs P env args) with
      | mk r e1 =>
        cases r with
        | ok v => cases v <;> simp [mapSome, lastPick, skipNil, notOf, Val.bool?]
        | err c => rfl
        | panic => rfl
    | .not l (.ar _ _ _ _), hw => by simp [RE.WF, RE.isAtomic] at hw
    | .not l (.cmp _ _ _ _), hw => by simp [RE.WF, RE.isAtomic] at hw
    | .not l (.log _ _ _ _), hw => by simp [RE.WF, RE.isAtomic] at hw
    | .not l (.not _ _), hw => by simp [RE.WF, RE.isAtomic] at hw

  theorem lowerArgs_correct (P : Params) (env : Env) : (args : REs) → args.WF = true →
      evalArgs P env (lowerArgs args) = denoteArgs P env args
    | .nil, _ => by simp [lowerArgs, evalArgs, denoteArgs]
    | .cons a rest, hw => by
      simp only [REs.WF, Bool.and_eq_true] at hw
      have tail : ∀ (r : Res Val × Env),
          (match r with
           | (.ok v, env1) =>
             (match evalArgs P env1 (lowerArgs rest) with
              | (.ok vs, env2) => (Res.ok (v :: vs), env2)
              | (.err c, env2) => (.err c, env2)
              | (.panic, env2) => (.panic, env2))
           | (.err c, env1) => (.err c, env1)
           | (.panic, env1) => (.panic, env1)) =
          (match r with
           | (.ok v, e1) =>
             (match denoteArgs P e1 rest with
              | (.ok vs, e2) => (Res.ok (v :: vs), e2)
              | (.err c, e2) => (.err c, e2)
              | (.panic, e2) => (.panic, e2))
           | (.err c, e1) => (.err c, e1)
           | (.panic, e1) => (.panic, e1)) := by
        intro r
        obtain ⟨rv, re⟩ := r
        cases rv with
        | ok v => simp only []; rw [lowerArgs_correct P re rest hw.2]
        | err c => rfl
        | panic => rfl
      cases a with
      | lit l v =>
        simp only [lowerArgs, evalArgs, evalArg, denoteArgs, denote, RE.isPlainArg, nv, Bool.not_true,
          Bool.false_eq_true, ite_false]
        rw [lowerArgs_correct P env rest hw.2]
        cases denoteArgs P env rest with
        | mk r e => cases r <;> rfl
      | var l n =>
        simp only [lowerArgs, evalArgs, evalArg, denoteArgs, denote, RE.isPlainArg, nv, Bool.not_true,
          Bool.false_eq_true, ite_false]
        exact tail _
      | idx l n k =>
        simp only [lowerArgs, evalArgs, evalArg, denoteArgs, denote, RE.isPlainArg, nv, Bool.not_true,
          Bool.false_eq_true, ite_false, pos0]
        exact tail _
      | call l kind n args =>
        have := lowerArgs_correct P env args (by simpa [RE.WF] using hw.1)
        simp only [lowerArgs, evalArgs, evalArg, evalCall, denoteArgs, denote, RE.isPlainArg, nv, Bool.not_true,
          Bool.false_eq_true, ite_false, pos0, this]
        exact tail _
      | ar l op x y =>
        simp only [lowerArgs, evalArgs, evalArg, denoteArgs, RE.isPlainArg, Bool.not_false,
          lowerX_correct P env (.ar l op x y) hw.1]
        exact tail _
      | cmp l op x y =>
        simp only [lowerArgs, evalArgs, evalArg, denoteArgs, RE.isPlainArg, Bool.not_false,
          lowerX_correct P env (.cmp l op x y) hw.1]
        exact tail _
      | log l op x y =>
        simp only [lowerArgs, evalArgs, evalArg, denoteArgs, RE.isPlainArg, Bool.not_false,
          lowerX_correct P env (.log l op x y) hw.1]
        exact tail _
      | not l x =>
        simp only [lowerArgs, evalArgs, evalArg, denoteArgs, RE.isPlainArg, Bool.not_false,
          lowerX_correct P env (.not l x) hw.1]
        exact tail _
      | paren l x =>
        simp only [lowerArgs, evalArgs, evalArg, denoteArgs, RE.isPlainArg, Bool.not_false,
          lowerX_correct P env (.paren l x) hw.1]
        exact tail _
end

end GV.Eval
