/-
  The AST the listener builds (internal/base/*.go), field for field as far as evaluation reads
  it.  Plain `mutual` inductives with their own list / option types so that the evaluator can be
  defined by structural recursion (no well-founded recursion, no `partial`).
-/
import GV.Eval.MathIR
namespace GV.Eval

/-- SourceCode: 1-based line, 0-based column of the construct's first token. -/
structure Pos where
  line : Nat
  col  : Nat
deriving Repr, DecidableEq, Inhabited

inductive LOp | and | or
deriving Repr, DecidableEq, Inhabited

inductive AsOp | set | add | sub | mul | div      -- "=" / ":=", "+=", "-=", "*=", "/="
deriving Repr, DecidableEq, Inhabited

inductive CallKind | func | method | three
deriving Repr, DecidableEq, Inhabited

inductive Key | int (i : Int64) | str (s : String) | var (x : String)
deriving Inhabited

/-- MapVar: `name[key]`. -/
structure MapV where
  pos  : Pos
  name : String
  key  : Key
deriving Inhabited

mutual
  inductive Atom
    | var (p : Pos) (name : String)
    | const (p : Pos) (v : Val)
    | call (p : Pos) (c : Call)
    | mapv (p : Pos) (m : MapV)
    | empty (p : Pos)
  inductive Call
    | mk (kind : CallKind) (p : Pos) (name : String) (args : Args)
  inductive Args
    | nil
    | cons (a : Arg) (rest : Args)
  inductive Arg
    | var (name : String)
    | const (v : Val)
    | call (c : Call)
    | mapv (m : MapV)
    | expr (e : Expr)
    | empty
  inductive MathE
    | mk (p : Pos) (atom : OAtom) (left : OMath) (right : OMath) (op : Option AOp)
  inductive OMath
    | none
    | some (m : MathE)
  inductive OAtom
    | none
    | some (a : Atom)
  inductive Expr
    | mk (p : Pos) (left : OExpr) (right : OExpr) (atom : OAtom) (math : OMath)
         (logic : Option LOp) (cmp : Option COp) (not : Bool)
  inductive OExpr
    | none
    | some (e : Expr)
end

instance : Inhabited Atom := ⟨.empty ⟨0, 0⟩⟩
instance : Inhabited Args := ⟨.nil⟩
instance : Inhabited Call := ⟨.mk .func ⟨0, 0⟩ "" .nil⟩
instance : Inhabited Arg := ⟨.empty⟩
instance : Inhabited MathE := ⟨.mk ⟨0, 0⟩ .none .none .none none⟩
instance : Inhabited Expr := ⟨.mk ⟨0, 0⟩ .none .none .none .none none none false⟩

/-- Assignment. -/
structure Assign where
  pos   : Pos
  var   : String            -- "" when the target is a MapVar
  mapv  : Option MapV
  op    : AsOp
  math  : OMath
  expr  : OExpr

inductive ConcItem | assign (a : Assign) | call (c : Call)

mutual
  inductive Stmt
    | ifs (cond : Expr) (thn : OStmts) (elifs : Elifs)
    | call (c : Call)
    | assign (a : Assign)
    | conc (items : List ConcItem)
    | for (p : Pos) (init : Option Assign) (step : Option Assign) (cond : Expr) (body : OStmts)
    | forRange (p : Pos) (key : String) (coll : String) (body : OStmts)
    | brk
    | cont
    | empty
  inductive SList
    | nil
    | cons (s : Stmt) (rest : SList)
  inductive Stmts
    | mk (list : SList) (ret : Ret)
  inductive OStmts
    | none
    | some (s : Stmts)
  /-- the else-if chain, ending in nothing or in the else branch -/
  inductive Elifs
    | nil
    | els (body : OStmts)
    | cons (cond : Expr) (body : OStmts) (rest : Elifs)
  inductive Ret
    | none
    | bare
    | expr (e : Expr)
end

instance : Inhabited Stmt := ⟨.empty⟩
instance : Inhabited SList := ⟨.nil⟩
instance : Inhabited Stmts := ⟨.mk .nil .none⟩
instance : Inhabited OStmts := ⟨.none⟩

structure RuleAst where
  name : String
  sal  : Int
  desc : String
  body : Stmts

end GV.Eval
