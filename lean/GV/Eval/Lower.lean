/-
  How the listener shapes reference trees into the AST (`lower*`), and the proof that the
  interpreter, run on those shapes, computes the reference semantics — for every tree, every
  environment and arbitrary arithmetic / comparison primitives (C01: operand order, `!`,
  parentheses, the expression / arithmetic split; the primitives themselves are
  `arith_correct` / `cmp_correct`).

  That the real listener produces exactly `lower r` for the text rendered from `r` is checked
  by the correspondence run (the dumped AST is compared with `lower r`, positions included).
-/
import GV.Eval.Ref
namespace GV.Eval

def pos0 (l : Nat) : Pos := ⟨l, 0⟩

mutual
  def lowerAtom : RE → Atom
    | .lit l v => .const (pos0 l) v
    | .var l n => .var (pos0 l) n
    | .idx l n k => .mapv (pos0 l) ⟨pos0 l, n, k⟩
    | .call l kind n args => .call (pos0 l) (.mk kind (pos0 l) n (lowerArgs args))
    | .ar l _ _ _ | .cmp l _ _ _ | .log l _ _ _ | .not l _ | .paren l _ => .empty (pos0 l)

  def lowerM : RE → MathE
    | .lit l v => .mk (pos0 l) (.some (.const (pos0 l) v)) .none .none none
    | .var l n => .mk (pos0 l) (.some (.var (pos0 l) n)) .none .none none
    | .idx l n k => .mk (pos0 l) (.some (.mapv (pos0 l) ⟨pos0 l, n, k⟩)) .none .none none
    | .call l kind n args =>
      .mk (pos0 l) (.some (.call (pos0 l) (.mk kind (pos0 l) n (lowerArgs args)))) .none .none none
    | .ar l op a b => .mk (pos0 l) .none (.some (lowerM a)) (.some (lowerM b)) (some op)
    | .paren l a => .mk (pos0 l) .none (.some (lowerM a)) .none none
    | .cmp l _ _ _ | .log l _ _ _ | .not l _ => .mk (pos0 l) .none .none .none none

  def lowerX : RE → Expr
    | .cmp l op a b => .mk (pos0 l) (.some (lowerX a)) (.some (lowerX b)) .none .none none (some op) false
    | .log l op a b => .mk (pos0 l) (.some (lowerX a)) (.some (lowerX b)) .none .none (some op) none false
    | .not l (.paren _ inner) => .mk (pos0 l) (.some (lowerX inner)) .none .none .none none none true
    | .not l a => .mk (pos0 l) .none .none (.some (lowerAtom a)) .none none none true
    | .paren l a =>
      if a.isMath then .mk (pos0 l) .none .none .none (.some (.mk (pos0 l) .none (.some (lowerM a)) .none none)) none none false
      else .mk (pos0 l) (.some (lowerX a)) .none .none .none none none false
    | .lit l v => .mk (pos0 l) .none .none .none (.some (.mk (pos0 l) (.some (.const (pos0 l) v)) .none .none none)) none none false
    | .var l n => .mk (pos0 l) .none .none .none (.some (.mk (pos0 l) (.some (.var (pos0 l) n)) .none .none none)) none none false
    | .idx l n k =>
      .mk (pos0 l) .none .none .none (.some (.mk (pos0 l) (.some (.mapv (pos0 l) ⟨pos0 l, n, k⟩)) .none .none none)) none none false
    | .call l kind n args =>
      .mk (pos0 l) .none .none .none
        (.some (.mk (pos0 l) (.some (.call (pos0 l) (.mk kind (pos0 l) n (lowerArgs args)))) .none .none none)) none none false
    | .ar l op a b =>
      .mk (pos0 l) .none .none .none (.some (.mk (pos0 l) .none (.some (lowerM a)) (.some (lowerM b)) (some op))) none none false

  def lowerArgs : REs → Args
    | .nil => .nil
    | .cons (.lit _ v) rest => .cons (.const v) (lowerArgs rest)
    | .cons (.var _ n) rest => .cons (.var n) (lowerArgs rest)
    | .cons (.idx l n k) rest => .cons (.mapv ⟨pos0 l, n, k⟩) (lowerArgs rest)
    | .cons (.call l kind n args) rest => .cons (.call (.mk kind (pos0 l) n (lowerArgs args))) (lowerArgs rest)
    | .cons (.ar l op x y) rest => .cons (.expr (lowerX (.ar l op x y))) (lowerArgs rest)
    | .cons (.cmp l op x y) rest => .cons (.expr (lowerX (.cmp l op x y))) (lowerArgs rest)
    | .cons (.log l op x y) rest => .cons (.expr (lowerX (.log l op x y))) (lowerArgs rest)
    | .cons (.not l x) rest => .cons (.expr (lowerX (.not l x))) (lowerArgs rest)
    | .cons (.paren l x) rest => .cons (.expr (lowerX (.paren l x))) (lowerArgs rest)
end

/-- Well-formed reference trees: arithmetic operands are arithmetic; `!` applies to an atom or to
    a parenthesised expression. -/
def RE.isAtomic : RE → Bool
  | .lit _ _ | .var _ _ | .idx _ _ _ | .call _ _ _ _ => true
  | _ => false

mutual
  def RE.WF : RE → Bool
    | .lit _ _ | .var _ _ | .idx _ _ _ => true
    | .call _ _ _ args => args.WF
    | .ar _ _ a b => a.isMath && b.isMath && a.WF && b.WF
    | .paren _ a => a.WF
    | .cmp _ _ a b => a.WF && b.WF
    | .log _ _ a b => a.WF && b.WF
    | .not _ (.paren _ inner) => inner.WF
    | .not _ a => a.isAtomic && a.WF
  def REs.WF : REs → Bool
    | .nil => true
    | .cons a rest => a.WF && rest.WF
end

end GV.Eval
