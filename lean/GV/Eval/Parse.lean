/-
  Text → tree (C01, first clause: precedence, associativity, parentheses).

  A model of the two left-recursive grammar rules `expression` and `mathExpression` as ANTLR 4
  compiles them (precedence climbing): a primary, then a loop that takes an operator whose
  precedence predicate `pred ≥ p` holds and parses its right operand at level `rprec`.  The
  numbers (`PrecTab`) are regenerated on every run from the generated parser
  (internal/iantlr/alr/gengine_parser.go: `Precpred(ctx, N)`, the operator rule called, and the
  argument of the recursive call) — see GV/Generated/Grammar.lean.

  Tokens: an atom (constant, variable, element access, call — the argument list of a call is a
  list of expressions of its own and is parsed separately) is one token; the four operator
  classes; `!`; the two brackets.  The parser produces reference trees (`RE`, with explicit
  `paren` nodes), i.e. exactly what `lower*` turns into the listener's AST.

  Choice between the alternatives of `expression`'s primary: ANTLR's adaptive prediction picks
  the lowest-numbered alternative that can match; alternative 1 is `mathExpression`, so a
  primary is an arithmetic expression whenever one can be read here, and `! atom`, `! ( e )`,
  `( e )` otherwise.  (That this coincides with the real parser is checked by the
  correspondence run on random token strings: mode `eval/parse`.)

  Fuel bounds the recursion depth; `parseTop` supplies enough (`fuelFor`).
-/
import GV.Eval.Lower
namespace GV.Eval

inductive Tok
  | atom (e : RE)
  | ar (op : AOp)
  | cmp (op : COp)
  | log (op : LOp)
  | not (line : Nat)
  | lp (line : Nat)
  | rp
deriving Inhabited

/-- precedence predicate and right-operand level of the four operator alternatives -/
structure PrecTab where
  mdP : Nat
  mdR : Nat
  pmP : Nat
  pmR : Nat
  cmpP : Nat
  cmpR : Nat
  logP : Nat
  logR : Nat
deriving DecidableEq, Repr, Inhabited

def AOp.isMd : AOp → Bool
  | .mul | .div => true
  | _ => false

def PrecTab.arP (P : PrecTab) (o : AOp) : Nat := if o.isMd then P.mdP else P.pmP
def PrecTab.arR (P : PrecTab) (o : AOp) : Nat := if o.isMd then P.mdR else P.pmR

mutual
  /-- `mathExpression[p]` -/
  def parseM (P : PrecTab) : Nat → Nat → List Tok → Option (RE × List Tok)
    | 0, _, _ => none
    | n + 1, p, .atom e :: ts => loopM P n p e ts
    | n + 1, p, .lp l :: ts =>
      match parseM P n 0 ts with
      | some (e, .rp :: ts') => loopM P n p (.paren l e) ts'
      | _ => none
    | _ + 1, _, _ => none
  /-- the operator loop of `mathExpression[p]` with the left operand read so far -/
  def loopM (P : PrecTab) : Nat → Nat → RE → List Tok → Option (RE × List Tok)
    | 0, _, _, _ => none
    | n + 1, p, left, .ar op :: ts =>
      if p ≤ P.arP op then
        match parseM P n (P.arR op) ts with
        | some (r, ts') => loopM P n p (.ar left.line op left r) ts'
        | none => none
      else some (left, .ar op :: ts)
    | _ + 1, _, left, ts => some (left, ts)
end

/-- enough fuel for any token string of this length -/
def fuelFor (ts : List Tok) : Nat := 2 * ts.length + 4

mutual
  /-- `expression[p]` -/
  def parseX (P : PrecTab) : Nat → Nat → List Tok → Option (RE × List Tok)
    | 0, _, _ => none
    | n + 1, p, ts =>
      match primX P n ts with
      | some (e, ts') => loopX P n p e ts'
      | none => none
  /-- the primary of `expression`: alternative 1 (an arithmetic expression) if one can be read,
      else `! atom`, `! ( expression )`, `( expression )` -/
  def primX (P : PrecTab) : Nat → List Tok → Option (RE × List Tok)
    | 0, _ => none
    | n + 1, ts =>
      match parseM P (fuelFor ts) 0 ts with
      | some r => some r
      | none =>
        match ts with
        | .not l :: .atom e :: ts' => some (.not l e, ts')
        | .not l :: .lp l' :: ts' =>
          (match parseX P n 0 ts' with
           | some (e, .rp :: ts'') => some (.not l (.paren l' e), ts'')
           | _ => none)
        | .lp l :: ts' =>
          (match parseX P n 0 ts' with
           | some (e, .rp :: ts'') => some (.paren l e, ts'')
           | _ => none)
        | _ => none
  def loopX (P : PrecTab) : Nat → Nat → RE → List Tok → Option (RE × List Tok)
    | 0, _, _, _ => none
    | n + 1, p, left, .cmp op :: ts =>
      if p ≤ P.cmpP then
        match parseX P n P.cmpR ts with
        | some (r, ts') => loopX P n p (.cmp left.line op left r) ts'
        | none => none
      else some (left, .cmp op :: ts)
    | n + 1, p, left, .log op :: ts =>
      if p ≤ P.logP then
        match parseX P n P.logR ts with
        | some (r, ts') => loopX P n p (.log left.line op left r) ts'
        | none => none
      else some (left, .log op :: ts)
    | _ + 1, _, left, ts => some (left, ts)
end

/-- a whole expression: all tokens must be used -/
def parseTop (P : PrecTab) (ts : List Tok) : Option RE :=
  match parseX P (fuelFor ts) 0 ts with
  | some (e, []) => some e
  | _ => none

/-- the token string of a tree: brackets exactly where the tree has `paren` nodes -/
def render : RE → List Tok
  | .ar _ op a b => render a ++ .ar op :: render b
  | .cmp _ op a b => render a ++ .cmp op :: render b
  | .log _ op a b => render a ++ .log op :: render b
  | .paren l e => .lp l :: (render e ++ [.rp])
  | .not l (.paren l' e) => .not l :: .lp l' :: (render e ++ [.rp])
  | .not l a => [.not l, .atom a]
  | e => [.atom e]

/-- level of a tree inside `mathExpression` / `expression`; anything that is not a binary node
    of that rule is a primary (`top`) -/
def PrecTab.top (P : PrecTab) : Nat := P.mdP + P.pmP + P.cmpP + P.logP + 1

def lvlM (P : PrecTab) : RE → Nat
  | .ar _ op _ _ => P.arP op
  | _ => P.top

def lvlX (P : PrecTab) : RE → Nat
  | .cmp _ _ _ _ => P.cmpP
  | .log _ _ _ _ => P.logP
  | _ => P.top

/-- Trees that need no further brackets: the left operand of an operator binds at least as
    tightly as the operator, the right operand strictly tighter (all binary operators associate
    to the left); arithmetic operands are arithmetic; `!` applies to an atom or a bracketed
    expression; a binary node starts on the line of its left operand. -/
def Canon (P : PrecTab) : RE → Bool
  | .lit _ _ | .var _ _ | .idx _ _ _ | .call _ _ _ _ => true
  | .ar l op a b =>
    a.isMath && b.isMath && decide (P.arP op ≤ lvlM P a) && decide (P.arR op ≤ lvlM P b) &&
    decide (l = a.line) && Canon P a && Canon P b
  | .cmp l _ a b =>
    decide (P.cmpP ≤ lvlX P a) && decide (P.cmpR ≤ lvlX P b) && decide (l = a.line) && Canon P a && Canon P b
  | .log l _ a b =>
    decide (P.logP ≤ lvlX P a) && decide (P.logR ≤ lvlX P b) && decide (l = a.line) && Canon P a && Canon P b
  | .paren _ e => Canon P e
  | .not _ (.paren _ e) => Canon P e
  | .not _ a => a.isAtomic

/-- the right-operand level is one above the predicate (left associativity), as ANTLR emits it -/
def PrecTab.LeftAssoc (P : PrecTab) : Prop :=
  P.mdR = P.mdP + 1 ∧ P.pmR = P.pmP + 1 ∧ P.cmpR = P.cmpP + 1 ∧ P.logR = P.logP + 1

instance (P : PrecTab) : Decidable P.LeftAssoc := by unfold PrecTab.LeftAssoc; exact inferInstance

end GV.Eval
