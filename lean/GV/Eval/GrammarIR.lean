/-
  The generated parser's two left-recursive rules as data (see /verif/extract/grammar.go), the
  precedence table read off them, and the table the language definition asks for.
-/
import GV.Eval.Parse
namespace GV.Eval.GrammarIR
open GV.Eval

inductive Ev
  | choice                      -- a switch over alternatives …
  | alt (k : Nat)               -- … predicted alternative k
  | onTok (toks : List String)  -- … or selected by the next token
  | dflt
  | close                       -- end of a choice / option / loop
  | opt (tok : String)          -- if the next token is `tok` { … }
  | loop
  | pred (n : Nat)              -- precedence predicate: n ≥ current level
  | rule (name : String)        -- call of another rule
  | recur (name : String) (p : Nat)   -- recursive call at level p
  | tok (name : String)         -- match a token
  | other (what : String)       -- anything the translator does not recognise
deriving DecidableEq, Repr

/-- operator alternatives of a rule's loop: (predicate, operator rule, level of the right operand) -/
def opAlts : List Ev → List (Nat × String × Nat)
  | .pred n :: .rule r :: .recur _ m :: rest => (n, r, m) :: opAlts rest
  | _ :: rest => opAlts rest
  | [] => []

def lookup (r : String) : List (Nat × String × Nat) → Nat × Nat
  | (n, r', m) :: rest => if r' = r then (n, m) else lookup r rest
  | [] => (0, 0)

/-- the precedence table of the generated parser -/
def tabOf (expression mathExpression : List Ev) : PrecTab :=
  let x := opAlts expression
  let m := opAlts mathExpression
  { mdP := (lookup "MathMdOperator" m).1, mdR := (lookup "MathMdOperator" m).2,
    pmP := (lookup "MathPmOperator" m).1, pmR := (lookup "MathPmOperator" m).2,
    cmpP := (lookup "ComparisonOperator" x).1, cmpR := (lookup "ComparisonOperator" x).2,
    logP := (lookup "LogicalOperator" x).1, logR := (lookup "LogicalOperator" x).2 }

/-- What the language definition asks for: `*` `/` above `+` `-`; comparison above the logical
    operators, which share one level; every operator associates to the left.  (Arithmetic is above
    comparison by the structure of the grammar: an arithmetic expression is a primary of
    `expression`.)  The numbers are those ANTLR assigns: with n alternatives, the binary
    alternative number i gets n + 1 - i. -/
def refTab : PrecTab := { mdP := 4, mdR := 5, pmP := 3, pmR := 4, cmpP := 4, cmpR := 5, logP := 3, logR := 4 }

/-- ANTLR's numbering, from the grammar file: the binary alternative number i (1-based) of a
    rule with n alternatives has precedence n + 1 - i and its right operand level one more -/
def g4Prec (ruleName opRule : String) (alts : List (List String)) : Nat × Nat :=
  let n := alts.length
  let rec go : List (List String) → Nat → Nat × Nat
    | a :: rest, i => if a = [ruleName, opRule, ruleName] then (n + 1 - i, n + 2 - i) else go rest (i + 1)
    | [], _ => (0, 0)
  go alts 1

def tabOfG4 (expressionAlts mathAlts : List (List String)) : PrecTab :=
  { mdP := (g4Prec "mathExpression" "mathMdOperator" mathAlts).1, mdR := (g4Prec "mathExpression" "mathMdOperator" mathAlts).2,
    pmP := (g4Prec "mathExpression" "mathPmOperator" mathAlts).1, pmR := (g4Prec "mathExpression" "mathPmOperator" mathAlts).2,
    cmpP := (g4Prec "expression" "comparisonOperator" expressionAlts).1, cmpR := (g4Prec "expression" "comparisonOperator" expressionAlts).2,
    logP := (g4Prec "expression" "logicalOperator" expressionAlts).1, logR := (g4Prec "expression" "logicalOperator" expressionAlts).2 }

/-- the shape of the two rules the parser model (GV.Eval.Parse) is written for -/
def expectedExpression : List Ev := [
  .choice,
  .alt 1, .recur "mathExpression" 0,
  .alt 2, .opt "NOT", .rule "NotOperator", .close, .rule "ExpressionAtom",
  .alt 3, .opt "NOT", .rule "NotOperator", .close, .tok "LR_BRACKET", .recur "expression" 0, .tok "RR_BRACKET",
  .close,
  .loop, .choice,
  .alt 1, .pred 4, .rule "ComparisonOperator", .recur "expression" 5,
  .alt 2, .pred 3, .rule "LogicalOperator", .recur "expression" 4,
  .close, .close]

def expectedMath : List Ev := [
  .choice,
  .onTok ["T__1", "T__2", "T__3", "T__4", "TRUE", "FALSE", "SIMPLENAME", "INT", "MINUS", "DQUOTA_STRING", "DOTTEDNAME",
          "DOUBLEDOTTEDNAME", "REAL_LITERAL"],
  .rule "ExpressionAtom",
  .onTok ["LR_BRACKET"], .tok "LR_BRACKET", .recur "mathExpression" 0, .tok "RR_BRACKET",
  .dflt,
  .close,
  .loop, .choice,
  .alt 1, .pred 4, .rule "MathMdOperator", .recur "mathExpression" 5,
  .alt 2, .pred 3, .rule "MathPmOperator", .recur "mathExpression" 4,
  .close, .close]

def expectedExpressionAlts : List (List String) := [
  ["mathExpression"],
  ["expression", "comparisonOperator", "expression"],
  ["expression", "logicalOperator", "expression"],
  ["notOperator", "?", "expressionAtom"],
  ["notOperator", "?", "LR_BRACKET", "expression", "RR_BRACKET"]]

def expectedMathAlts : List (List String) := [
  ["mathExpression", "mathMdOperator", "mathExpression"],
  ["mathExpression", "mathPmOperator", "mathExpression"],
  ["expressionAtom"],
  ["LR_BRACKET", "mathExpression", "RR_BRACKET"]]

end GV.Eval.GrammarIR
