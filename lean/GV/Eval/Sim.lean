/-
  End-to-end agreement (C01, C02): the interpreter's meaning of a program with the CODE's
  arithmetic and comparison primitives and with the REFERENCE primitives agree on every
  well-kinded environment: same final environment (host state, locals, observer trace), and the
  same result — or both fail (an error or a panic that the enclosing recover turns into one).
  Together with `rule_refines` (interpreter on the listener's AST = reference meaning, for any
  primitives) this relates the model of the code to the specification outright.
-/
import GV.Eval.WK
import GV.Eval.RefStmtThm
namespace GV.Eval

def Res.fails {α : Type} : Res α → Bool | .ok _ => false | _ => true
def SRes.fails : SRes → Bool | .err _ => true | .panic => true | _ => false

/-- same environment, and the same result or two failures -/
def Sim {α : Type} (r1 r2 : Res α × Env) : Prop :=
  r1.2 = r2.2 ∧ (r1.1 = r2.1 ∨ (r1.1.fails = true ∧ r2.1.fails = true))

def SimS (r1 r2 : SRes × Env) : Prop :=
  r1.2 = r2.2 ∧ (r1.1 = r2.1 ∨ (r1.1.fails = true ∧ r2.1.fails = true))

/-- `Q` is `P` with reference primitives. -/
structure Rel (P Q : Params) : Prop where
  maxLoop : Q.maxLoop = P.maxLoop
  ruleR   : Q.ruleRecover = P.ruleRecover
  assignR : Q.assignRecover = P.assignRecover
  funcR   : Q.funcRecover = P.funcRecover
  methodR : Q.methodRecover = P.methodRecover
  threeR  : Q.threeRecover = P.threeRecover
  arith   : ∀ op a b, a.WK = true → b.WK = true → (P.arith op a b).recovered = Q.arith op a b
  arithWK : ∀ op a b v, Q.arith op a b = .ok v → v.WK = true
  cmp     : ∀ op a b, a.WK = true → b.WK = true → P.cmp op a b = Q.cmp op a b

/-- the code's primitives against the reference ones -/
theorem rel_go_ref (P : Params) (ha : P.arith = goArith) (hc : P.cmp = goCmp) :
    Rel P { P with arith := refArith, cmp := refCmp } :=
  { maxLoop := rfl, ruleR := rfl, assignR := rfl, funcR := rfl, methodR := rfl, threeR := rfl,
    arith := by intro op a b h1 h2; rw [ha]; exact arith_correct op a b h1 h2,
    arithWK := by intro op a b v h; exact refArith_wk op a b v h,
    cmp := by intro op a b h1 h2; rw [hc]; exact cmp_correct op a b h1 h2 }

theorem sim_refl {α : Type} (r : Res α × Env) : Sim r r := ⟨rfl, Or.inl rfl⟩

theorem sim_cases {α : Type} (r1 r2 : Res α × Env) (h : Sim r1 r2) :
    r1 = r2 ∨ ∃ f1 f2 e, r1 = (f1, e) ∧ r2 = (f2, e) ∧ f1.fails = true ∧ f2.fails = true := by
  rcases r1 with ⟨a1, e1⟩
  rcases r2 with ⟨a2, e2⟩
  obtain ⟨he, hr⟩ := h
  simp only at he hr
  subst he
  rcases hr with h1 | ⟨h1, h2⟩
  · left; rw [h1]
  · right; exact ⟨a1, a2, e1, rfl, rfl, h1, h2⟩

theorem fails_cases {α : Type} (f : Res α) (h : f.fails = true) : (∃ c, f = .err c) ∨ f = .panic := by
  cases f with
  | ok a => simp [Res.fails] at h
  | err c => left; exact ⟨c, rfl⟩
  | panic => right; rfl

def GoodL (r : Res (List Val) × Env) : Prop := EnvWK r.2 ∧ ∀ vs, r.1 = .ok vs → ∀ v ∈ vs, v.WK = true

/-! ### small combinators -/

theorem nv_sim (x : Bool) (l : Nat) (r1 r2 : Res Val × Env) (h : Sim r1 r2) : Sim (nv x l r1) (nv x l r2) := by
  cases x
  · exact h
  · rcases sim_cases r1 r2 h with rfl | ⟨f1, f2, e, rfl, rfl, h1, h2⟩
    · exact sim_refl _
    · rcases fails_cases f1 h1 with ⟨c1, rfl⟩ | rfl <;> rcases fails_cases f2 h2 with ⟨c2, rfl⟩ | rfl <;>
        exact ⟨rfl, Or.inr ⟨rfl, rfl⟩⟩

theorem nv_good (x : Bool) (l : Nat) (r : Res Val × Env) (h : GoodV r) : GoodV (nv x l r) := by
  cases x
  · exact h
  · rcases r with ⟨rv, re⟩
    simp only [nv, ite_true]
    cases rv with
    | ok v =>
      cases v
      all_goals first
        | exact h
        | (refine ⟨h.1, ?_⟩; intro w hw; simp [needValue] at hw)
    | err c => exact h
    | panic => exact h

theorem notOf_sim (l : Nat) (r1 r2 : Res Val × Env) (h : Sim r1 r2) : Sim (notOf l r1) (notOf l r2) := by
  rcases sim_cases r1 r2 h with rfl | ⟨f1, f2, e, rfl, rfl, h1, h2⟩
  · exact sim_refl _
  · rcases fails_cases f1 h1 with ⟨c1, rfl⟩ | rfl <;> rcases fails_cases f2 h2 with ⟨c2, rfl⟩ | rfl <;>
      exact ⟨rfl, Or.inr ⟨rfl, rfl⟩⟩

theorem notOf_good (l : Nat) (r : Res Val × Env) (h : GoodV r) : GoodV (notOf l r) := by
  rcases r with ⟨rv, re⟩
  cases rv with
  | ok v =>
    cases v <;> refine ⟨h.1, ?_⟩ <;> intro w hw <;> simp [notOf] at hw
    subst hw; rfl
  | err c => exact ⟨h.1, by intro w hw; simp [notOf] at hw⟩
  | panic => exact ⟨h.1, by intro w hw; simp [notOf] at hw⟩

theorem exec_result_good (rec? : Bool) (l : Nat) (r2 : Res Val × Env) :
    GoodV r2 → GoodV (match r2 with
      | (.ok v, env2) => (.ok v, env2)
      | (.err _, env2) => (.err (some l), env2)
      | (.panic, env2) => (if rec? then .err (some l) else .panic, env2)) := by
  intro hg
  rcases r2 with ⟨rv, e2⟩
  cases rv with
  | ok v => exact hg
  | err c => exact ⟨hg.1, by intro w hw; simp at hw⟩
  | panic =>
    refine ⟨hg.1, ?_⟩
    intro w hw
    simp only at hw
    split at hw <;> simp at hw

theorem finishCall_good (P : Params) (kind : CallKind) (l : Nat) (n : String) (r : Res (List Val) × Env)
    (h : GoodL r) : GoodV (finishCall P kind l n r) := by
  rcases r with ⟨rv, re⟩
  cases rv with
  | err c => exact ⟨h.1, by intro v hv; simp [finishCall] at hv⟩
  | panic =>
    refine ⟨h.1, ?_⟩
    intro v hv
    cases kind <;> simp only [finishCall] at hv <;> split at hv <;> simp at hv
  | ok vs =>
    have hvs := h.2 vs rfl
    cases kind
    · simp only [finishCall]
      exact exec_result_good _ l _ (execFunc_good re h.1 n vs hvs)
    · simp only [finishCall]
      exact exec_result_good _ l _ (execMethod_good re h.1 n vs hvs)
    · simp only [finishCall]
      exact exec_result_good _ l _ (execThree_good re h.1 n vs)

theorem finishCall_sim (P Q : Params) (hr : Rel P Q) (kind : CallKind) (l : Nat) (n : String)
    (r1 r2 : Res (List Val) × Env) (h : Sim r1 r2) : Sim (finishCall P kind l n r1) (finishCall Q kind l n r2) := by
  rcases sim_cases r1 r2 h with rfl | ⟨f1, f2, e, rfl, rfl, h1, h2⟩
  · rcases r1 with ⟨rv, re⟩
    cases kind <;> cases rv <;> simp only [finishCall, hr.funcR, hr.methodR, hr.threeR] <;> exact sim_refl _
  · rcases fails_cases f1 h1 with ⟨c1, rfl⟩ | rfl <;> rcases fails_cases f2 h2 with ⟨c2, rfl⟩ | rfl <;>
      cases kind <;> simp only [finishCall] <;> refine ⟨rfl, Or.inr ⟨?_, ?_⟩⟩ <;> first | rfl | (split <;> rfl)


/-! ### sequencing -/

theorem bind_sim {β : Type} (r1 r2 : Res Val × Env) (k1 k2 : Val → Env → Res β × Env) :
    Sim r1 r2 → (∀ v e, r2 = (.ok v, e) → Sim (k1 v e) (k2 v e)) →
    Sim (match r1 with | (.ok p, e1) => k1 p e1 | (.err c, e1) => (.err c, e1) | (.panic, e1) => (.panic, e1))
        (match r2 with | (.ok p, e1) => k2 p e1 | (.err c, e1) => (.err c, e1) | (.panic, e1) => (.panic, e1)) := by
  intro h hk
  rcases sim_cases r1 r2 h with rfl | ⟨f1, f2, e, rfl, rfl, h1, h2⟩
  · rcases r1 with ⟨rv, re⟩
    cases rv with
    | ok v => exact hk v re rfl
    | err c => exact sim_refl _
    | panic => exact sim_refl _
  · rcases fails_cases f1 h1 with ⟨c1, rfl⟩ | rfl <;> rcases fails_cases f2 h2 with ⟨c2, rfl⟩ | rfl <;>
      exact ⟨rfl, Or.inr ⟨rfl, rfl⟩⟩

theorem bind_good {β : Type} (G : Res β × Env → Prop) (r2 : Res Val × Env) (k2 : Val → Env → Res β × Env)
    (hfail : ∀ (f : Res β) e, EnvWK e → f.fails = true → G (f, e)) :
    GoodV r2 → (∀ v e, r2 = (.ok v, e) → G (k2 v e)) →
    G (match r2 with | (.ok p, e1) => k2 p e1 | (.err c, e1) => (.err c, e1) | (.panic, e1) => (.panic, e1)) := by
  intro hg hk
  rcases r2 with ⟨rv, re⟩
  cases rv with
  | ok v => exact hk v re rfl
  | err c => exact hfail _ _ hg.1 rfl
  | panic => exact hfail _ _ hg.1 rfl

theorem goodV_fail (f : Res Val) (e : Env) (he : EnvWK e) (hf : f.fails = true) : GoodV (f, e) := by
  refine ⟨he, ?_⟩
  intro v hv
  cases f <;> simp_all [Res.fails]

theorem goodL_fail (f : Res (List Val)) (e : Env) (he : EnvWK e) (hf : f.fails = true) : GoodL (f, e) := by
  refine ⟨he, ?_⟩
  intro v hv
  cases f <;> simp_all [Res.fails]

/-- arithmetic leaf: the code's primitive and the reference one agree up to panic ↦ error -/
theorem arith_leaf_sim (P Q : Params) (hr : Rel P Q) (l : Nat) (op : AOp) (p q : Val) (e : Env)
    (hp : p.WK = true) (hq : q.WK = true) :
    Sim (aritOut l (P.arith op p q), e) (aritOut l (Q.arith op p q), e) := by
  have h := hr.arith op p q hp hq
  cases hP : P.arith op p q <;> rw [hP] at h <;> simp only [Out.recovered] at h <;> rw [← h]
  · exact sim_refl _
  · exact sim_refl _
  · exact ⟨rfl, Or.inr ⟨rfl, rfl⟩⟩

theorem arith_leaf_good (P Q : Params) (hr : Rel P Q) (l : Nat) (op : AOp) (p q : Val) (e : Env) (he : EnvWK e) :
    GoodV (aritOut l (Q.arith op p q), e) := by
  refine ⟨he, ?_⟩
  intro v hv
  cases hq : Q.arith op p q with
  | ok w =>
    rw [hq] at hv
    simp only [aritOut, Res.ok.injEq] at hv
    subst hv
    exact hr.arithWK op p q w hq
  | err => rw [hq] at hv; simp [aritOut] at hv
  | panic => rw [hq] at hv; simp [aritOut] at hv

mutual
  def RE.LitWK : RE → Bool
    | .lit _ v => v.WK
    | .var _ _ => true
    | .idx _ _ _ => true
    | .call _ _ _ args => args.LitWK
    | .ar _ _ a b => a.LitWK && b.LitWK
    | .cmp _ _ a b => a.LitWK && b.LitWK
    | .log _ _ a b => a.LitWK && b.LitWK
    | .not _ a => a.LitWK
    | .paren _ a => a.LitWK
  def REs.LitWK : REs → Bool
    | .nil => true
    | .cons a rest => a.LitWK && rest.LitWK
end


/-- what every case of the expression theorem establishes -/
def SimGood (r1 r2 : Res Val × Env) : Prop := Sim r1 r2 ∧ GoodV r2

theorem simGood_same (r : Res Val × Env) (h : GoodV r) : SimGood r r := ⟨sim_refl r, h⟩

theorem simGood_nv (x : Bool) (l : Nat) (r1 r2 : Res Val × Env) (h : SimGood r1 r2) :
    SimGood (nv x l r1) (nv x l r2) := ⟨nv_sim x l r1 r2 h.1, nv_good x l r2 h.2⟩

theorem simGood_not (l : Nat) (r1 r2 : Res Val × Env) (h : SimGood r1 r2) :
    SimGood (notOf l r1) (notOf l r2) := ⟨notOf_sim l r1 r2 h.1, notOf_good l r2 h.2⟩

theorem simGood_bind (r1 r2 : Res Val × Env) (k1 k2 : Val → Env → Res Val × Env) :
    SimGood r1 r2 → (∀ v e, v.WK = true → EnvWK e → SimGood (k1 v e) (k2 v e)) →
    SimGood (match r1 with | (.ok p, e1) => k1 p e1 | (.err c, e1) => (.err c, e1) | (.panic, e1) => (.panic, e1))
            (match r2 with | (.ok p, e1) => k2 p e1 | (.err c, e1) => (.err c, e1) | (.panic, e1) => (.panic, e1)) := by
  intro h hk
  refine ⟨bind_sim r1 r2 k1 k2 h.1 ?_, bind_good GoodV r2 k2 goodV_fail h.2 ?_⟩
  · intro v e hv
    have hw : v.WK = true := h.2.2 v (by rw [hv])
    have he : EnvWK e := by have := h.2.1; rw [hv] at this; exact this
    exact (hk v e hw he).1
  · intro v e hv
    have hw : v.WK = true := h.2.2 v (by rw [hv])
    have he : EnvWK e := by have := h.2.1; rw [hv] at this; exact this
    exact (hk v e hw he).2

theorem cmp_leaf (P Q : Params) (hr : Rel P Q) (l : Nat) (op : COp) (p q : Val) (e : Env) (he : EnvWK e)
    (hp : p.WK = true) (hq : q.WK = true) :
    SimGood (match P.cmp op p q with | some r => (.ok (.b r), e) | none => (.err (some l), e))
            (match Q.cmp op p q with | some r => (.ok (.b r), e) | none => (.err (some l), e)) := by
  rw [hr.cmp op p q hp hq]
  refine simGood_same _ ⟨?_, ?_⟩
  · cases Q.cmp op p q <;> exact he
  · intro v hv
    cases hc : Q.cmp op p q <;> rw [hc] at hv <;> simp at hv
    subst hv; rfl

theorem log_leaf (l : Nat) (op : LOp) (p q : Val) (e : Env) (he : EnvWK e) :
    GoodV (match p, q with
      | .b u, .b w => (.ok (.b (match op with | .and => u && w | .or => u || w)), e)
      | _, _ => (.err (some l), e)) := by
  refine ⟨?_, ?_⟩
  · cases p <;> cases q <;> exact he
  · intro v hv
    cases p <;> cases q <;> simp at hv
    subst hv; rfl

mutual
  /-- **C01 end to end.** On a well-kinded environment the meaning of an expression with the
      code's primitives and with the reference primitives agree: same environment afterwards,
      same value — or both fail. -/
  theorem denote_sim (P Q : Params) (hr : Rel P Q) : (e : RE) → e.LitWK = true → (env : Env) → (x : Bool) →
      EnvWK env → SimGood (denote P env x e) (denote Q env x e)
    | .lit l v, hl, env, x, he => by
      simp only [denote]
      exact simGood_same _ (nv_good x l _ ⟨he, by intro w hw; simp only [Res.ok.injEq] at hw; subst hw; exact hl⟩)
    | .var l n, hl, env, x, he => by
      simp only [denote]
      exact simGood_same _ (nv_good x l _ ⟨he, fun w hw => getValue_wk env he n w hw⟩)
    | .idx l n k, hl, env, x, he => by
      simp only [denote]
      exact simGood_same _ (nv_good x l _ ⟨he, fun w hw => evalMapV_wk env he _ w hw⟩)
    | .call l kind n args, hl, env, x, he => by
      simp only [denote]
      have ih := denoteArgs_sim P Q hr args (by simpa [RE.LitWK] using hl) env he
      exact simGood_nv x l _ _ ⟨finishCall_sim P Q hr kind l n _ _ ih.1, finishCall_good Q kind l n _ ih.2⟩
    | .ar l op a b, hl, env, x, he => by
      simp only [RE.LitWK, Bool.and_eq_true] at hl
      simp only [denote]
      refine simGood_nv x l _ _ ?_
      refine simGood_bind _ _ _ _ (denote_sim P Q hr a hl.1 env false he) ?_
      intro p e1 hp he1
      refine simGood_bind _ _ _ _ (denote_sim P Q hr b hl.2 e1 false he1) ?_
      intro q e2 hq he2
      exact ⟨arith_leaf_sim P Q hr l op p q e2 hp hq, arith_leaf_good P Q hr l op p q e2 he2⟩
    | .paren l a, hl, env, x, he => by
      simp only [RE.LitWK] at hl
      simp only [denote]
      split
      · exact simGood_nv x l _ _ (denote_sim P Q hr a hl env false he)
      · exact denote_sim P Q hr a hl env true he
    | .cmp l op a b, hl, env, x, he => by
      simp only [RE.LitWK, Bool.and_eq_true] at hl
      simp only [denote]
      refine simGood_bind _ _ _ _ (denote_sim P Q hr a hl.1 env true he) ?_
      intro p e1 hp he1
      refine simGood_bind _ _ _ _ (denote_sim P Q hr b hl.2 e1 true he1) ?_
      intro q e2 hq he2
      exact cmp_leaf P Q hr l op p q e2 he2 hp hq
    | .log l op a b, hl, env, x, he => by
      simp only [RE.LitWK, Bool.and_eq_true] at hl
      simp only [denote]
      refine simGood_bind _ _ _ _ (denote_sim P Q hr a hl.1 env true he) ?_
      intro p e1 hp he1
      refine simGood_bind _ _ _ _ (denote_sim P Q hr b hl.2 e1 true he1) ?_
      intro q e2 hq he2
      exact simGood_same _ (log_leaf l op p q e2 he2)
    | .not l (.paren l2 inner), hl, env, x, he => by
      simp only [RE.LitWK] at hl
      simp only [denote]
      exact simGood_not l _ _ (denote_sim P Q hr inner hl env true he)
    | .not l (.lit l2 v), hl, env, x, he => by
      simp only [denote]
      exact simGood_not l _ _ (denote_sim P Q hr (.lit l2 v) (by simpa [RE.LitWK] using hl) env false he)
    | .not l (.var l2 n), hl, env, x, he => by
      simp only [denote]
      exact simGood_not l _ _ (denote_sim P Q hr (.var l2 n) rfl env false he)
    | .not l (.idx l2 n k), hl, env, x, he => by
      simp only [denote]
      exact simGood_not l _ _ (denote_sim P Q hr (.idx l2 n k) rfl env false he)
    | .not l (.call l2 kd n args), hl, env, x, he => by
      simp only [denote]
      exact simGood_not l _ _ (denote_sim P Q hr (.call l2 kd n args) (by simpa [RE.LitWK] using hl) env false he)
    | .not l (.ar l2 op a b), hl, env, x, he => by
      simp only [denote]
      exact simGood_not l _ _ (denote_sim P Q hr (.ar l2 op a b) (by simpa [RE.LitWK] using hl) env false he)
    | .not l (.cmp l2 op a b), hl, env, x, he => by
      simp only [denote]
      exact simGood_not l _ _ (denote_sim P Q hr (.cmp l2 op a b) (by simpa [RE.LitWK] using hl) env false he)
    | .not l (.log l2 op a b), hl, env, x, he => by
      simp only [denote]
      exact simGood_not l _ _ (denote_sim P Q hr (.log l2 op a b) (by simpa [RE.LitWK] using hl) env false he)
    | .not l (.not l2 a), hl, env, x, he => by
      simp only [denote]
      exact simGood_not l _ _ (denote_sim P Q hr (.not l2 a) (by simpa [RE.LitWK] using hl) env false he)

  theorem denoteArgs_sim (P Q : Params) (hr : Rel P Q) : (args : REs) → args.LitWK = true → (env : Env) →
      EnvWK env → Sim (denoteArgs P env args) (denoteArgs Q env args) ∧ GoodL (denoteArgs Q env args)
    | .nil, _, env, he => by
      simp only [denoteArgs]
      exact ⟨sim_refl _, he, by intro vs hvs; simp only [Res.ok.injEq] at hvs; subst hvs; simp⟩
    | .cons a rest, hl, env, he => by
      simp only [REs.LitWK, Bool.and_eq_true] at hl
      simp only [denoteArgs]
      have iha := denote_sim P Q hr a hl.1 env (!a.isPlainArg) he
      refine ⟨bind_sim _ _ _ _ iha.1 ?_, bind_good GoodL _ _ goodL_fail iha.2 ?_⟩
      · intro v e1 hv
        have he1 : EnvWK e1 := by have := iha.2.1; rw [hv] at this; exact this
        have ihr := denoteArgs_sim P Q hr rest hl.2 e1 he1
        rcases sim_cases _ _ ihr.1 with heq | ⟨f1, f2, e, h1, h2, hf1, hf2⟩
        · rw [heq]; exact sim_refl _
        · rw [h1, h2]
          rcases fails_cases f1 hf1 with ⟨c1, rfl⟩ | rfl <;> rcases fails_cases f2 hf2 with ⟨c2, rfl⟩ | rfl <;>
            exact ⟨rfl, Or.inr ⟨rfl, rfl⟩⟩
      · intro v e1 hv
        have hw : v.WK = true := iha.2.2 v (by rw [hv])
        have he1 : EnvWK e1 := by have := iha.2.1; rw [hv] at this; exact this
        have ihr := (denoteArgs_sim P Q hr rest hl.2 e1 he1).2
        rcases hd : denoteArgs Q e1 rest with ⟨rv, re⟩
        rw [hd] at ihr
        cases rv with
        | ok vs =>
          refine ⟨ihr.1, ?_⟩
          intro ws hws
          simp only [Res.ok.injEq] at hws
          subst hws
          intro y hy
          simp only [List.mem_cons] at hy
          rcases hy with rfl | hy
          · exact hw
          · exact ihr.2 vs rfl y hy
        | err c => exact goodL_fail _ _ ihr.1 rfl
        | panic => exact goodL_fail _ _ ihr.1 rfl
end


/-! ### assignments -/

def GoodU (r : Res Unit × Env) : Prop := EnvWK r.2

theorem assignCur_wk (line : Nat) (var : String) (mapv : Option MapV) (e : Env) (he : EnvWK e) (v : Val)
    (h : assignCur line var mapv e = .ok v) : v.WK = true := by
  unfold assignCur at h
  split at h
  · split at h
    · rename_i w hg; simp only [Res.ok.injEq] at h; subst h; exact getValue_wk e he _ _ hg
    · simp at h
    · simp at h
  · split at h
    · split at h
      · rename_i w hg; simp only [Res.ok.injEq] at h; subst h; exact evalMapV_wk e he _ _ hg
      · simp at h
      · simp at h
    · simp only [Res.ok.injEq] at h; subst h; rfl

/-- the value a (compound) assignment stores: equal, or both sides fail; a stored value is well kinded -/
theorem assignNew_sim (P Q : Params) (hr : Rel P Q) (line : Nat) (var : String) (mapv : Option MapV) (aop : AsOp)
    (mv : Val) (e : Env) (he : EnvWK e) (hm : mv.WK = true) :
    (assignNew P line var mapv aop mv e = assignNew Q line var mapv aop mv e ∨
      ((assignNew P line var mapv aop mv e).fails = true ∧ (assignNew Q line var mapv aop mv e).fails = true)) ∧
    ∀ v, assignNew Q line var mapv aop mv e = .ok v → v.WK = true := by
  unfold assignNew
  split
  · exact ⟨Or.inl rfl, by intro v hv; simp only [Res.ok.injEq] at hv; subst hv; exact hm⟩
  · cases hc : assignCur line var mapv e with
    | err c => exact ⟨Or.inl rfl, by intro v hv; simp at hv⟩
    | panic => exact ⟨Or.inl rfl, by intro v hv; simp at hv⟩
    | ok sv =>
      have hs := assignCur_wk line var mapv e he sv hc
      simp only
      generalize aop.toAOp = o
      have h := hr.arith o sv mv hs hm
      refine ⟨?_, ?_⟩
      · cases hP : P.arith o sv mv <;> rw [hP] at h <;> simp only [Out.recovered] at h <;> rw [← h]
        · exact Or.inl rfl
        · exact Or.inl rfl
        · exact Or.inr ⟨rfl, rfl⟩
      · intro v hv
        cases hq : Q.arith o sv mv with
        | ok w =>
          rw [hq] at hv; simp only [Res.ok.injEq] at hv; subst hv
          exact hr.arithWK o sv mv w hq
        | err => rw [hq] at hv; simp at hv
        | panic => rw [hq] at hv; simp at hv

theorem assignStore_good (line : Nat) (var : String) (mapv : Option MapV) (e : Env) (he : EnvWK e) (nv : Val)
    (hv : nv.WK = true) : GoodU (assignStore line var mapv e nv) := by
  rcases assignStore_env line var mapv e nv with ⟨u, e', h⟩ | h
  · rw [h]; exact assignStore_wk line var mapv e e' he nv hv u h
  · unfold GoodU; rw [h]; exact he

theorem recov_sim (b : Bool) (c : Option Nat) (r1 r2 : Res Unit × Env) :
    Sim r1 r2 →
    Sim (match r1 with | (.panic, e) => ((if b then Res.err c else Res.panic : Res Unit), e) | o => o)
        (match r2 with | (.panic, e) => ((if b then Res.err c else Res.panic : Res Unit), e) | o => o) := by
  intro h
  rcases sim_cases r1 r2 h with rfl | ⟨f1, f2, e, rfl, rfl, h1, h2⟩
  · exact sim_refl _
  · rcases fails_cases f1 h1 with ⟨c1, rfl⟩ | rfl <;> rcases fails_cases f2 h2 with ⟨c2, rfl⟩ | rfl <;>
      refine ⟨rfl, Or.inr ⟨?_, ?_⟩⟩ <;> first | rfl | (simp only; split <;> rfl)

theorem recov_good (b : Bool) (c : Option Nat) (r : Res Unit × Env) :
    GoodU r →
    GoodU (match r with | (.panic, e) => ((if b then Res.err c else Res.panic : Res Unit), e) | o => o) := by
  intro h
  rcases r with ⟨rv, re⟩
  cases rv <;> exact h

theorem assignCore_sim (P Q : Params) (hr : Rel P Q) (line : Nat) (var : String) (mapv : Option MapV) (aop : AsOp)
    (r1 r2 : Res Val × Env) (h : SimGood r1 r2) :
    Sim (assignCore P line var mapv aop r1) (assignCore Q line var mapv aop r2) ∧
    GoodU (assignCore Q line var mapv aop r2) := by
  unfold assignCore
  simp only [hr.assignR]
  refine ⟨recov_sim _ _ _ _ ?_, recov_good _ _ _ ?_⟩
  · rcases sim_cases r1 r2 h.1 with rfl | ⟨f1, f2, e, rfl, rfl, h1, h2⟩
    · rcases r1 with ⟨rv, re⟩
      cases rv with
      | err c => exact sim_refl _
      | panic => exact sim_refl _
      | ok mv =>
        have hm : mv.WK = true := h.2.2 mv rfl
        have he : EnvWK re := h.2.1
        obtain ⟨hn, _⟩ := assignNew_sim P Q hr line var mapv aop mv re he hm
        simp only
        rcases hn with heq | ⟨hf1, hf2⟩
        · rw [heq]; exact sim_refl _
        · rcases fails_cases _ hf1 with ⟨c1, hc1⟩ | hc1 <;> rcases fails_cases _ hf2 with ⟨c2, hc2⟩ | hc2 <;>
            rw [hc1, hc2] <;> exact ⟨rfl, Or.inr ⟨rfl, rfl⟩⟩
    · rcases fails_cases f1 h1 with ⟨c1, rfl⟩ | rfl <;> rcases fails_cases f2 h2 with ⟨c2, rfl⟩ | rfl <;>
        exact ⟨rfl, Or.inr ⟨rfl, rfl⟩⟩
  · rcases r2 with ⟨rv, re⟩
    have he : EnvWK re := h.2.1
    cases rv with
    | err c => exact he
    | panic => exact he
    | ok mv =>
      have hm : mv.WK = true := h.2.2 mv rfl
      obtain ⟨_, hw⟩ := assignNew_sim P Q hr line var mapv aop mv re he hm
      simp only
      cases hn : assignNew Q line var mapv aop mv re with
      | err c => exact he
      | panic => exact he
      | ok nv => exact assignStore_good line var mapv re he nv (hw nv hn)

def RAssign.LitWK (a : RAssign) : Bool := a.e.LitWK

theorem denoteAssign_sim (P Q : Params) (hr : Rel P Q) (a : RAssign) (hl : a.LitWK = true) (env : Env)
    (he : EnvWK env) : Sim (denoteAssign P env a) (denoteAssign Q env a) ∧ GoodU (denoteAssign Q env a) :=
  assignCore_sim P Q hr _ _ _ _ _ _ (denote_sim P Q hr a.e hl env _ he)


/-! ### statements -/

def SimGoodS (r1 r2 : SRes × Env) : Prop := SimS r1 r2 ∧ EnvWK r2.2

theorem simS_refl (r : SRes × Env) : SimS r r := ⟨rfl, Or.inl rfl⟩

theorem simS_cases (r1 r2 : SRes × Env) (h : SimS r1 r2) :
    r1 = r2 ∨ ∃ f1 f2 e, r1 = (f1, e) ∧ r2 = (f2, e) ∧ f1.fails = true ∧ f2.fails = true := by
  rcases r1 with ⟨a1, e1⟩
  rcases r2 with ⟨a2, e2⟩
  obtain ⟨he, hr⟩ := h
  simp only at he hr
  subst he
  rcases hr with h1 | ⟨h1, h2⟩
  · left; rw [h1]
  · right; exact ⟨a1, a2, e1, rfl, rfl, h1, h2⟩

theorem sfails_cases (f : SRes) (h : f.fails = true) : (∃ c, f = .err c) ∨ f = .panic := by
  cases f <;> simp [SRes.fails] at h
  · rename_i c; left; exact ⟨c, rfl⟩
  · right; rfl

theorem toS_sim (r1 r2 : Res Val × Env) (h : SimGood r1 r2) : SimGoodS (toS r1) (toS r2) := by
  refine ⟨?_, ?_⟩
  · rcases sim_cases r1 r2 h.1 with rfl | ⟨f1, f2, e, rfl, rfl, h1, h2⟩
    · exact simS_refl _
    · rcases fails_cases f1 h1 with ⟨c1, rfl⟩ | rfl <;> rcases fails_cases f2 h2 with ⟨c2, rfl⟩ | rfl <;>
        exact ⟨rfl, Or.inr ⟨rfl, rfl⟩⟩
  · rcases r2 with ⟨rv, re⟩; cases rv <;> exact h.2.1

theorem toSU_sim (r1 r2 : Res Unit × Env) (h : Sim r1 r2) (hg : GoodU r2) : SimGoodS (toSU r1) (toSU r2) := by
  refine ⟨?_, ?_⟩
  · rcases sim_cases r1 r2 h with rfl | ⟨f1, f2, e, rfl, rfl, h1, h2⟩
    · exact simS_refl _
    · rcases fails_cases f1 h1 with ⟨c1, rfl⟩ | rfl <;> rcases fails_cases f2 h2 with ⟨c2, rfl⟩ | rfl <;>
        exact ⟨rfl, Or.inr ⟨rfl, rfl⟩⟩
  · rcases r2 with ⟨rv, re⟩; cases rv <;> exact hg

theorem condOf_sim (r1 r2 : Res Val × Env) (kt1 kf1 kt2 kf2 : Env → SRes × Env) (h : SimGood r1 r2)
    (ht : ∀ e, EnvWK e → SimGoodS (kt1 e) (kt2 e)) (hf : ∀ e, EnvWK e → SimGoodS (kf1 e) (kf2 e)) :
    SimGoodS (condOf r1 kt1 kf1) (condOf r2 kt2 kf2) := by
  rcases sim_cases r1 r2 h.1 with rfl | ⟨f1, f2, e, rfl, rfl, h1, h2⟩
  · rcases r1 with ⟨rv, re⟩
    have he : EnvWK re := h.2.1
    cases rv with
    | err c => exact ⟨simS_refl _, he⟩
    | panic => exact ⟨simS_refl _, he⟩
    | ok v =>
      simp only [condOf]
      cases hb : v.bool? with
      | none => exact ⟨simS_refl _, he⟩
      | some b => cases b
                  · exact hf re he
                  · exact ht re he
  · have he : EnvWK e := h.2.1
    rcases fails_cases f1 h1 with ⟨c1, rfl⟩ | rfl <;> rcases fails_cases f2 h2 with ⟨c2, rfl⟩ | rfl <;>
      exact ⟨⟨rfl, Or.inr ⟨rfl, rfl⟩⟩, he⟩

theorem forLoop_sim (maxLoop : Nat) (c1 c2 : Env → Res Val × Env) (b1 b2 : Env → SRes × Env)
    (s1 s2 : Env → Res Unit × Env)
    (hc : ∀ e, EnvWK e → SimGood (c1 e) (c2 e)) (hb : ∀ e, EnvWK e → SimGoodS (b1 e) (b2 e))
    (hs : ∀ e, EnvWK e → Sim (s1 e) (s2 e) ∧ GoodU (s2 e)) :
    ∀ (fuel count : Nat) (env : Env), EnvWK env →
      SimGoodS (forLoop maxLoop c1 (some b1) s1 fuel count env) (forLoop maxLoop c2 (some b2) s2 fuel count env) := by
  intro fuel
  induction fuel with
  | zero => intro count env he; exact ⟨simS_refl _, he⟩
  | succ n ih =>
    intro count env he
    unfold forLoop
    split
    · exact ⟨simS_refl _, he⟩
    · have hcs := hc env he
      rcases sim_cases _ _ hcs.1 with heq | ⟨f1, f2, e, h1, h2, hf1, hf2⟩
      · rw [heq]
        rcases hcv : c2 env with ⟨cv, ce⟩
        have hce : EnvWK ce := by have := hcs.2.1; rw [hcv] at this; exact this
        cases cv with
        | err c => exact ⟨simS_refl _, hce⟩
        | panic => exact ⟨simS_refl _, hce⟩
        | ok v =>
          simp only
          cases hbv : v.bool? with
          | none => exact ⟨simS_refl _, hce⟩
          | some bb =>
            cases bb with
            | false => exact ⟨simS_refl _, hce⟩
            | true =>
              simp only
              have hbs := hb ce hce
              rcases simS_cases _ _ hbs.1 with hbeq | ⟨g1, g2, e', k1, k2, hg1, hg2⟩
              · rw [hbeq]
                rcases hbb : b2 ce with ⟨bv, be⟩
                have hbe : EnvWK be := by have := hbs.2; rw [hbb] at this; exact this
                have step_case : SimGoodS
                    (match s1 be with
                      | (.ok _, e3) => forLoop maxLoop c1 (some b1) s1 n (count + 1) e3
                      | (.err c, e3) => (.err c, e3)
                      | (.panic, e3) => (.panic, e3))
                    (match s2 be with
                      | (.ok _, e3) => forLoop maxLoop c2 (some b2) s2 n (count + 1) e3
                      | (.err c, e3) => (.err c, e3)
                      | (.panic, e3) => (.panic, e3)) := by
                  have hss := hs be hbe
                  rcases sim_cases _ _ hss.1 with hseq | ⟨q1, q2, e'', m1, m2, hq1, hq2⟩
                  · rw [hseq]
                    rcases hsv : s2 be with ⟨sv, se⟩
                    have hse : EnvWK se := by have := hss.2; unfold GoodU at this; rw [hsv] at this; exact this
                    cases sv with
                    | ok u => exact ih (count + 1) se hse
                    | err c => exact ⟨simS_refl _, hse⟩
                    | panic => exact ⟨simS_refl _, hse⟩
                  · rw [m1, m2]
                    have hse : EnvWK e'' := by have := hss.2; unfold GoodU at this; rw [m2] at this; exact this
                    rcases fails_cases q1 hq1 with ⟨d1, rfl⟩ | rfl <;> rcases fails_cases q2 hq2 with ⟨d2, rfl⟩ | rfl <;>
                      exact ⟨⟨rfl, Or.inr ⟨rfl, rfl⟩⟩, hse⟩
                cases bv with
                | err c => exact ⟨simS_refl _, hbe⟩
                | panic => exact ⟨simS_refl _, hbe⟩
                | brk => exact ⟨simS_refl _, hbe⟩
                | ret v => exact ⟨simS_refl _, hbe⟩
                | cont => exact step_case
                | normal => exact step_case
              · rw [k1, k2]
                have hbe : EnvWK e' := by have := hbs.2; rw [k2] at this; exact this
                rcases sfails_cases g1 hg1 with ⟨d1, rfl⟩ | rfl <;> rcases sfails_cases g2 hg2 with ⟨d2, rfl⟩ | rfl <;>
                  exact ⟨⟨rfl, Or.inr ⟨rfl, rfl⟩⟩, hbe⟩
      · rw [h1, h2]
        have hce : EnvWK e := by have := hcs.2.1; rw [h2] at this; exact this
        rcases fails_cases f1 hf1 with ⟨d1, rfl⟩ | rfl <;> rcases fails_cases f2 hf2 with ⟨d2, rfl⟩ | rfl <;>
          exact ⟨⟨rfl, Or.inr ⟨rfl, rfl⟩⟩, hce⟩


theorem rangeLoop_sim (key : String) (b1 b2 : Env → SRes × Env)
    (hb : ∀ e, EnvWK e → SimGoodS (b1 e) (b2 e)) :
    ∀ (ks : List Val) (env : Env), EnvWK env → (∀ k ∈ ks, k.WK = true) →
      SimGoodS (rangeLoop (fun e k => setValue e key k) (some b1) ks env)
               (rangeLoop (fun e k => setValue e key k) (some b2) ks env) := by
  intro ks
  induction ks with
  | nil => intro env he _; exact ⟨simS_refl _, he⟩
  | cons k ks ih =>
    intro env he hk
    unfold rangeLoop
    cases hs : setValue env key k with
    | err c => exact ⟨simS_refl _, he⟩
    | panic => exact ⟨simS_refl _, he⟩
    | ok e1 =>
      have he1 : EnvWK e1 := setValue_wk env e1 he key k (hk k (by simp)) hs
      simp only
      have hbs := hb e1 he1
      rcases simS_cases _ _ hbs.1 with hbeq | ⟨g1, g2, e', k1, k2, hg1, hg2⟩
      · rw [hbeq]
        rcases hbb : b2 e1 with ⟨bv, be⟩
        have hbe : EnvWK be := by have := hbs.2; rw [hbb] at this; exact this
        cases bv with
        | err c => exact ⟨simS_refl _, hbe⟩
        | panic => exact ⟨simS_refl _, hbe⟩
        | brk => exact ⟨simS_refl _, hbe⟩
        | ret v => exact ⟨simS_refl _, hbe⟩
        | cont => exact ih be hbe (fun x hx => hk x (by simp [hx]))
        | normal => exact ih be hbe (fun x hx => hk x (by simp [hx]))
      · rw [k1, k2]
        have hbe : EnvWK e' := by have := hbs.2; rw [k2] at this; exact this
        rcases sfails_cases g1 hg1 with ⟨d1, rfl⟩ | rfl <;> rcases sfails_cases g2 hg2 with ⟨d2, rfl⟩ | rfl <;>
          exact ⟨⟨rfl, Or.inr ⟨rfl, rfl⟩⟩, hbe⟩

theorem rangeKeys_wk (env : Env) (he : EnvWK env) (coll : String) (ks : List Val) (h : rangeKeys env coll = some ks) :
    ∀ k ∈ ks, k.WK = true := by
  unfold rangeKeys at h
  split at h
  · simp only [Option.some.injEq] at h
    subst h
    intro k hk
    simp only [List.mem_map] at hk
    obtain ⟨i, _, rfl⟩ := hk
    rfl
  · rename_i hb
    have ho := lookupBase_wk env he _ _ hb
    simp only [Option.some.injEq] at h
    subst h
    intro k hk
    simp only [List.mem_map] at hk
    obtain ⟨p, hp, rfl⟩ := hk
    exact (ho p hp).1
  · simp at h

/-! conc blocks: with the recovers the code installs no child lets a panic out, so both sides
    run all children -/

def RConcItem.LitWK : RConcItem → Bool
  | .assign a => a.LitWK
  | .call c => c.LitWK

theorem concItem_sim (P Q : Params) (hr : Rel P Q) (it : RConcItem) (hl : it.LitWK = true) (env : Env)
    (he : EnvWK env) : Sim (denoteConcItem P env it) (denoteConcItem Q env it) ∧ GoodU (denoteConcItem Q env it) := by
  cases it with
  | assign a => exact denoteAssign_sim P Q hr a hl env he
  | call c =>
    have ih := denote_sim P Q hr c hl env false he
    simp only [denoteConcItem]
    refine ⟨?_, ?_⟩
    · rcases sim_cases _ _ ih.1 with heq | ⟨f1, f2, e, h1, h2, hf1, hf2⟩
      · rw [heq]; exact sim_refl _
      · rw [h1, h2]
        rcases fails_cases f1 hf1 with ⟨d1, rfl⟩ | rfl <;> rcases fails_cases f2 hf2 with ⟨d2, rfl⟩ | rfl <;>
          exact ⟨rfl, Or.inr ⟨rfl, rfl⟩⟩
    · rcases hd : denote Q env false c with ⟨rv, re⟩
      have : EnvWK re := by have := ih.2.1; rw [hd] at this; exact this
      cases rv <;> exact this

theorem recov_no_panic' (c : Option Nat) (b : Bool) (hb : b = true) (r : Res Unit × Env) :
    (match r with | (.panic, e) => ((if b then Res.err c else Res.panic : Res Unit), e) | o => o).1 ≠ .panic := by
  rcases r with ⟨x, e⟩
  cases x <;> simp [hb]

theorem assignCore_no_panic' (P : Params) (ha : P.assignRecover = true) (line : Nat) (var : String)
    (mapv : Option MapV) (aop : AsOp) (rhs : Res Val × Env) :
    (assignCore P line var mapv aop rhs).1 ≠ .panic := by
  unfold assignCore
  exact recov_no_panic' _ _ ha _

theorem finishCall_no_panic' (P : Params) (hf : P.funcRecover = true)
    (hm : P.methodRecover = true) (ht : P.threeRecover = true) (kind : CallKind) (line : Nat) (name : String)
    (r : Res (List Val) × Env) : (finishCall P kind line name r).1 ≠ .panic := by
  rcases r with ⟨x, e⟩
  cases kind <;> cases x <;> simp [finishCall, hf, hm, ht] <;> split <;> simp

def RE.isCall' : RE → Bool | .call _ _ _ _ => true | _ => false

theorem concItem_no_panic (P : Params) (ha : P.assignRecover = true) (hf : P.funcRecover = true)
    (hm : P.methodRecover = true) (ht : P.threeRecover = true) (env : Env) (it : RConcItem) (hw : it.WF = true) :
    (denoteConcItem P env it).1 ≠ .panic := by
  cases it with
  | assign a => exact assignCore_no_panic' P ha _ _ _ _ _
  | call c =>
    cases c <;> simp [RConcItem.WF, RE.isCall] at hw
    rename_i l kind n args
    have := finishCall_no_panic' P hf hm ht kind l n (denoteArgs P env args)
    simp only [denoteConcItem, denote, nv_false]
    rcases h : finishCall P kind l n (denoteArgs P env args) with ⟨r, e⟩
    rw [h] at this
    cases r <;> simp_all

theorem denoteConc_sim (P Q : Params) (hr : Rel P Q) (ha : P.assignRecover = true) (hf : P.funcRecover = true)
    (hm : P.methodRecover = true) (ht : P.threeRecover = true) :
    ∀ (items : List RConcItem) (env : Env) (f1 f2 : Option (Option Nat)), EnvWK env → f1.isSome = f2.isSome →
      items.all RConcItem.WF = true → items.all RConcItem.LitWK = true →
      Sim (denoteConc P items env f1) (denoteConc Q items env f2) ∧ GoodU (denoteConc Q items env f2) := by
  intro items
  induction items with
  | nil =>
    intro env f1 f2 he hf12 _ _
    simp only [denoteConc]
    refine ⟨⟨rfl, ?_⟩, he⟩
    cases f1 <;> cases f2 <;> simp at hf12
    · exact Or.inl rfl
    · exact Or.inr ⟨rfl, rfl⟩
  | cons it rest ih =>
    intro env f1 f2 he hf12 hw hl
    simp only [List.all_cons, Bool.and_eq_true] at hw hl
    have hQa : Q.assignRecover = true := by rw [hr.assignR]; exact ha
    have hQf : Q.funcRecover = true := by rw [hr.funcR]; exact hf
    have hQm : Q.methodRecover = true := by rw [hr.methodR]; exact hm
    have hQt : Q.threeRecover = true := by rw [hr.threeR]; exact ht
    have hnp1 := concItem_no_panic P ha hf hm ht env it hw.1
    have hnp2 := concItem_no_panic Q hQa hQf hQm hQt env it hw.1
    have his := concItem_sim P Q hr it hl.1 env he
    simp only [denoteConc]
    rcases h1 : denoteConcItem P env it with ⟨r1, e1⟩
    rcases h2 : denoteConcItem Q env it with ⟨r2, e2⟩
    rw [h1] at hnp1 his
    rw [h2] at hnp2 his
    obtain ⟨⟨hee, hres⟩, hgood⟩ := his
    simp only at hee
    subst hee
    have he1 : EnvWK e1 := hgood
    cases r1 with
    | panic => simp at hnp1
    | ok u1 =>
      cases r2 with
      | panic => simp at hnp2
      | ok u2 => exact ih e1 f1 f2 he1 hf12 hw.2 hl.2
      | err c2 => rcases hres with h | ⟨h, _⟩ <;> simp [Res.fails] at h
    | err c1 =>
      cases r2 with
      | panic => simp at hnp2
      | ok u2 => rcases hres with h | ⟨_, h⟩ <;> simp [Res.fails] at h
      | err c2 =>
        refine ih e1 (firstErr f1 c1) (firstErr f2 c2) he1 ?_ hw.2 hl.2
        cases f1 <;> cases f2 <;> simp [firstErr]


mutual
  def RS.LitWK : RS → Bool
    | .assign a => a.LitWK
    | .call c => c.LitWK
    | .ifs cond thn elifs => cond.LitWK && thn.LitWK && elifs.LitWK
    | .for _ init step cond body => init.LitWK && step.LitWK && cond.LitWK && body.LitWK
    | .forRange _ _ _ body => body.LitWK
    | .brk => true
    | .cont => true
    | .conc items => items.all RConcItem.LitWK
  def RSList.LitWK : RSList → Bool
    | .nil => true
    | .cons s rest => s.LitWK && rest.LitWK
  def RBlock.LitWK : RBlock → Bool
    | .mk stmts ret => stmts.LitWK && ret.LitWK
  def RRet.LitWK : RRet → Bool
    | .none => true
    | .bare => true
    | .expr e => e.LitWK
  def RElifs.LitWK : RElifs → Bool
    | .nil => true
    | .els b => b.LitWK
    | .cons cond b rest => cond.LitWK && b.LitWK && rest.LitWK
end

structure Recovers (P : Params) : Prop where
  assign : P.assignRecover = true
  func   : P.funcRecover = true
  method : P.methodRecover = true
  three  : P.threeRecover = true

mutual
  theorem denoteS_sim (P Q : Params) (hr : Rel P Q) (hrec : Recovers P) : (s : RS) → s.WF = true → s.LitWK = true →
      (env : Env) → EnvWK env → SimGoodS (denoteS P env s) (denoteS Q env s)
    | .assign a, _, hl, env, he => by
      simp only [denoteS]
      have := denoteAssign_sim P Q hr a hl env he
      exact toSU_sim _ _ this.1 this.2
    | .call c, _, hl, env, he => by
      simp only [denoteS]
      exact toS_sim _ _ (denote_sim P Q hr c hl env false he)
    | .ifs cond thn elifs, hw, hl, env, he => by
      simp only [RS.WF, Bool.and_eq_true] at hw
      simp only [RS.LitWK, Bool.and_eq_true] at hl
      simp only [denoteS]
      exact condOf_sim _ _ _ _ _ _ (denote_sim P Q hr cond hl.1.1 env true he)
        (fun e h => denoteB_sim P Q hr hrec thn hw.1.2 hl.1.2 e h)
        (fun e h => denoteElifs_sim P Q hr hrec elifs hw.2 hl.2 e h)
    | .for l init step cond body, hw, hl, env, he => by
      simp only [RS.WF, Bool.and_eq_true] at hw
      simp only [RS.LitWK, Bool.and_eq_true] at hl
      simp only [denoteS, hr.maxLoop]
      have hi := denoteAssign_sim P Q hr init hl.1.1.1 env he
      rcases sim_cases _ _ hi.1 with heq | ⟨f1, f2, e, h1, h2, hf1, hf2⟩
      · rw [heq]
        rcases hd : denoteAssign Q env init with ⟨rv, re⟩
        have hre : EnvWK re := by have := hi.2; unfold GoodU at this; rw [hd] at this; exact this
        cases rv with
        | err c => exact ⟨simS_refl _, hre⟩
        | panic => exact ⟨simS_refl _, hre⟩
        | ok u =>
          exact forLoop_sim P.maxLoop _ _ _ _ _ _
            (fun e h => denote_sim P Q hr cond hl.1.2 e true h)
            (fun e h => denoteB_sim P Q hr hrec body hw.2 hl.2 e h)
            (fun e h => denoteAssign_sim P Q hr step hl.1.1.2 e h) _ _ re hre
      · rw [h1, h2]
        have hre : EnvWK e := by have := hi.2; unfold GoodU at this; rw [h2] at this; exact this
        rcases fails_cases f1 hf1 with ⟨d1, rfl⟩ | rfl <;> rcases fails_cases f2 hf2 with ⟨d2, rfl⟩ | rfl <;>
          exact ⟨⟨rfl, Or.inr ⟨rfl, rfl⟩⟩, hre⟩
    | .forRange l key coll body, hw, hl, env, he => by
      simp only [RS.WF] at hw
      simp only [RS.LitWK] at hl
      simp only [denoteS]
      split
      · exact ⟨simS_refl _, he⟩
      · exact ⟨simS_refl _, he⟩
      · split
        · exact ⟨simS_refl _, he⟩
        · rename_i ks hks
          exact rangeLoop_sim key _ _ (fun e h => denoteB_sim P Q hr hrec body hw hl e h) ks env he
            (rangeKeys_wk env he coll ks hks)
    | .brk, _, _, env, he => ⟨simS_refl _, he⟩
    | .cont, _, _, env, he => ⟨simS_refl _, he⟩
    | .conc items, hw, hl, env, he => by
      simp only [RS.WF] at hw
      simp only [RS.LitWK] at hl
      simp only [denoteS]
      have := denoteConc_sim P Q hr hrec.assign hrec.func hrec.method hrec.three items env none none he rfl hw hl
      exact toSU_sim _ _ this.1 this.2

  theorem denoteSL_sim (P Q : Params) (hr : Rel P Q) (hrec : Recovers P) : (l : RSList) → l.WF = true → l.LitWK = true →
      (env : Env) → EnvWK env → SimGoodS (denoteSL P env l) (denoteSL Q env l)
    | .nil, _, _, env, he => ⟨simS_refl _, he⟩
    | .cons s rest, hw, hl, env, he => by
      simp only [RSList.WF, Bool.and_eq_true] at hw
      simp only [RSList.LitWK, Bool.and_eq_true] at hl
      simp only [denoteSL]
      have hs := denoteS_sim P Q hr hrec s hw.1 hl.1 env he
      rcases simS_cases _ _ hs.1 with heq | ⟨g1, g2, e', k1, k2, hg1, hg2⟩
      · rw [heq]
        rcases hd : denoteS Q env s with ⟨rv, re⟩
        have hre : EnvWK re := by have := hs.2; rw [hd] at this; exact this
        cases rv with
        | normal => exact denoteSL_sim P Q hr hrec rest hw.2 hl.2 re hre
        | err c => exact ⟨simS_refl _, hre⟩
        | panic => exact ⟨simS_refl _, hre⟩
        | brk => exact ⟨simS_refl _, hre⟩
        | cont => exact ⟨simS_refl _, hre⟩
        | ret v => exact ⟨simS_refl _, hre⟩
      · rw [k1, k2]
        have hre : EnvWK e' := by have := hs.2; rw [k2] at this; exact this
        rcases sfails_cases g1 hg1 with ⟨d1, rfl⟩ | rfl <;> rcases sfails_cases g2 hg2 with ⟨d2, rfl⟩ | rfl <;>
          exact ⟨⟨rfl, Or.inr ⟨rfl, rfl⟩⟩, hre⟩

  theorem denoteB_sim (P Q : Params) (hr : Rel P Q) (hrec : Recovers P) : (b : RBlock) → b.WF = true → b.LitWK = true →
      (env : Env) → EnvWK env → SimGoodS (denoteB P env b) (denoteB Q env b)
    | .mk stmts ret, hw, hl, env, he => by
      simp only [RBlock.WF, Bool.and_eq_true] at hw
      simp only [RBlock.LitWK, Bool.and_eq_true] at hl
      simp only [denoteB]
      have hs := denoteSL_sim P Q hr hrec stmts hw.1 hl.1 env he
      rcases simS_cases _ _ hs.1 with heq | ⟨g1, g2, e', k1, k2, hg1, hg2⟩
      · rw [heq]
        rcases hd : denoteSL Q env stmts with ⟨rv, re⟩
        have hre : EnvWK re := by have := hs.2; rw [hd] at this; exact this
        cases rv with
        | normal =>
          cases ret with
          | none => exact ⟨simS_refl _, hre⟩
          | bare => exact ⟨simS_refl _, hre⟩
          | expr x =>
            simp only [RRet.LitWK] at hl
            have hx := denote_sim P Q hr x hl.2 re true hre
            simp only
            rcases sim_cases _ _ hx.1 with hxeq | ⟨f1, f2, e, h1, h2, hf1, hf2⟩
            · rw [hxeq]
              rcases hdx : denote Q re true x with ⟨xv, xe⟩
              have hxe : EnvWK xe := by have := hx.2.1; rw [hdx] at this; exact this
              cases xv <;> exact ⟨simS_refl _, hxe⟩
            · rw [h1, h2]
              have hxe : EnvWK e := by have := hx.2.1; rw [h2] at this; exact this
              rcases fails_cases f1 hf1 with ⟨d1, rfl⟩ | rfl <;> rcases fails_cases f2 hf2 with ⟨d2, rfl⟩ | rfl <;>
                exact ⟨⟨rfl, Or.inr ⟨rfl, rfl⟩⟩, hxe⟩
        | err c => exact ⟨simS_refl _, hre⟩
        | panic => exact ⟨simS_refl _, hre⟩
        | brk => exact ⟨simS_refl _, hre⟩
        | cont => exact ⟨simS_refl _, hre⟩
        | ret v => exact ⟨simS_refl _, hre⟩
      · rw [k1, k2]
        have hre : EnvWK e' := by have := hs.2; rw [k2] at this; exact this
        rcases sfails_cases g1 hg1 with ⟨d1, rfl⟩ | rfl <;> rcases sfails_cases g2 hg2 with ⟨d2, rfl⟩ | rfl <;>
          exact ⟨⟨rfl, Or.inr ⟨rfl, rfl⟩⟩, hre⟩

  theorem denoteElifs_sim (P Q : Params) (hr : Rel P Q) (hrec : Recovers P) : (el : RElifs) → el.WF = true →
      el.LitWK = true → (env : Env) → EnvWK env → SimGoodS (denoteElifs P env el) (denoteElifs Q env el)
    | .nil, _, _, env, he => ⟨simS_refl _, he⟩
    | .els b, hw, hl, env, he => by
      simp only [RElifs.WF] at hw
      simp only [RElifs.LitWK] at hl
      simp only [denoteElifs]
      exact denoteB_sim P Q hr hrec b hw hl env he
    | .cons cond b rest, hw, hl, env, he => by
      simp only [RElifs.WF, Bool.and_eq_true] at hw
      simp only [RElifs.LitWK, Bool.and_eq_true] at hl
      simp only [denoteElifs]
      exact condOf_sim _ _ _ _ _ _ (denote_sim P Q hr cond hl.1.1 env true he)
        (fun e h => denoteB_sim P Q hr hrec b hw.1.2 hl.1.2 e h)
        (fun e h => denoteElifs_sim P Q hr hrec rest hw.2 hl.2 e h)
end

/-- **C01 / C02 end to end.** For every well-formed program whose literals are well kinded and
    every well-kinded environment, executing the rule with the code's primitives and with the
    reference primitives ends in the same environment (host state, observer trace) and with the
    same outcome: the same returned value and flag — or an error on both sides (cited lines may
    differ when the code's fault is a panic that an enclosing recover reports). -/
theorem rule_sim (P Q : Params) (hr : Rel P Q) (hrec : Recovers P) (hrule : P.ruleRecover = true)
    (body : RBlock) (hw : body.WF = true) (hl : body.LitWK = true) (env : Env) (he : EnvWK env) :
    (denoteRule P env body).env = (denoteRule Q env body).env ∧
    (denoteRule P env body).outcome = (denoteRule Q env body).outcome ∧
    (denoteRule P env body).flag = (denoteRule Q env body).flag ∧
    (denoteRule P env body).val = (denoteRule Q env body).val := by
  have hq : Q.ruleRecover = true := by rw [hr.ruleR]; exact hrule
  have h := denoteB_sim P Q hr hrec body hw hl { env with vars := [] } ⟨by simp, he.base⟩
  unfold denoteRule
  rcases simS_cases _ _ h.1 with heq | ⟨g1, g2, e', k1, k2, hg1, hg2⟩
  · rw [heq]
    rcases hd : denoteB Q { env with vars := [] } body with ⟨rv, re⟩
    cases rv <;> simp [ruleOutOf, hrule, hq]
  · rw [k1, k2]
    rcases sfails_cases g1 hg1 with ⟨d1, rfl⟩ | rfl <;> rcases sfails_cases g2 hg2 with ⟨d2, rfl⟩ | rfl <;>
      simp [ruleOutOf, hrule, hq]

/-- … and therefore the interpreter run on the AST the listener builds, with the code's own
    arithmetic and comparison, computes the reference semantics with the reference primitives. -/
theorem ruleExecute_reference (P : Params) (ha : P.arith = goArith) (hc : P.cmp = goCmp) (hrec : Recovers P)
    (hrule : P.ruleRecover = true) (body : RBlock) (hw : body.WF = true) (hl : body.LitWK = true)
    (env : Env) (he : EnvWK env) :
    let R := denoteRule { P with arith := refArith, cmp := refCmp } env body
    let M := ruleExecute P env (lowerB body)
    M.env = R.env ∧ M.outcome = R.outcome ∧ M.flag = R.flag ∧ M.val = R.val := by
  simp only
  rw [rule_refines P env body hw]
  exact rule_sim P _ (rel_go_ref P ha hc) hrec hrule body hw hl env he

end GV.Eval
