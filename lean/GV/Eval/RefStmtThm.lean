/-
  C02: the interpreter on listener-shaped statement ASTs computes the reference semantics,
  for every well-formed program, every environment, arbitrary primitives.
-/
import GV.Eval.RefStmt
namespace GV.Eval

theorem bindR_id (r : Res Val × Env) : bindR r (fun v e => ((.ok v : Res Val), e)) = r := by
  obtain ⟨rv, e⟩ := r; cases rv <;> rfl

theorem lowerAssign_correct (P : Params) (env : Env) (a : RAssign) (hw : a.WF = true) :
    evalAssign P env (lowerAssign a) = denoteAssign P env a := by
  unfold evalAssign denoteAssign lowerAssign denoteRhs
  simp only []
  congr 1
  by_cases hm : a.e.isMath = true
  · simp only [hm, ite_true, assignRhs, Bool.not_true]
    rw [lowerM_correct P env a.e hm hw]
    exact bindR_id _
  · have hm' : a.e.isMath = false := by simpa using hm
    simp only [hm', Bool.false_eq_true, ite_false, assignRhs, bindR_ok, Bool.not_false]
    exact lowerX_correct P env a.e hw

theorem lowerCall_correct (P : Params) (env : Env) (c : RE) (hc : c.isCall = true) (hw : c.WF = true) :
    evalCall P env (lowerCallOf c) = denote P env false c := by
  cases c <;> simp [RE.isCall] at hc
  rename_i l kind n args
  have := lowerArgs_correct P env args (by simpa [RE.WF] using hw)
  simp [lowerCallOf, evalCall, denote, nv, pos0, this]

theorem lowerConc_correct (P : Params) (items : List RConcItem) (env : Env) (failed : Option (Option Nat))
    (hw : items.all RConcItem.WF = true) :
    evalConc P (items.map lowerConcItem) env failed = denoteConc P items env failed := by
  induction items generalizing env failed with
  | nil => rfl
  | cons it rest ih =>
    simp only [List.all_cons, Bool.and_eq_true] at hw
    simp only [List.map_cons, evalConc, denoteConc]
    have hit : evalConcItem P env (lowerConcItem it) = denoteConcItem P env it := by
      cases it with
      | assign a => exact lowerAssign_correct P env a hw.1
      | call c =>
        simp only [RConcItem.WF, Bool.and_eq_true] at hw
        simp only [lowerConcItem, evalConcItem, denoteConcItem, lowerCall_correct P env c hw.1.1 hw.1.2]
        cases denote P env false c with
        | mk r e => cases r <;> rfl
    rw [hit]
    cases denoteConcItem P env it with
    | mk r e1 => cases r <;> simp [ih _ _ hw.2]

theorem condOf_eq (r : Res Val × Env) (kt kf : Env → SRes × Env) :
    (match r with
     | (.err c, e1) => (SRes.err c, e1)
     | (.panic, e1) => (.panic, e1)
     | (.ok v, e1) =>
       match v.bool? with
       | none => (.panic, e1)
       | some true => kt e1
       | some false => kf e1) = condOf r kt kf := rfl

mutual
  theorem lowerS_correct (P : Params) (env : Env) : (s : RS) → s.WF = true →
      evalStmt P env (lowerS s) = denoteS P env s
    | .assign a, hw => by
      simp only [lowerS, evalStmt, denoteS, lowerAssign_correct P env a hw]
      cases denoteAssign P env a with
      | mk r e => cases r <;> rfl
    | .call c, hw => by
      simp only [RS.WF, Bool.and_eq_true] at hw
      simp only [lowerS, evalStmt, denoteS, lowerCall_correct P env c hw.1 hw.2]
      cases denote P env false c with
      | mk r e => cases r <;> rfl
    | .ifs cond thn elifs, hw => by
      simp only [RS.WF, Bool.and_eq_true] at hw
      simp only [lowerS, evalStmt, denoteS, lowerX_correct P env cond hw.1.1, evalOStmts]
      cases denote P env true cond with
      | mk r e1 =>
        cases r with
        | ok v =>
          simp only [condOf]
          cases v.bool? with
          | none => rfl
          | some b => cases b <;> simp [lowerB_correct P e1 thn hw.1.2, lowerElifs_correct P e1 elifs hw.2]
        | err c => rfl
        | panic => rfl
    | .for l init step cond body, hw => by
      simp only [RS.WF, Bool.and_eq_true] at hw
      obtain ⟨⟨⟨hi, hs⟩, hc⟩, hb⟩ := hw
      simp only [lowerS, evalStmt, denoteS, lowerAssign_correct P env init hi]
      cases denoteAssign P env init with
      | mk r e1 =>
        cases r with
        | ok u =>
          simp only [Bool.false_eq_true, ite_false]
          congr 1
          · funext e; exact lowerX_correct P e cond hc
          · congr 1; funext e; simp only [evalOStmts]; exact lowerB_correct P e body hb
          · funext e; exact lowerAssign_correct P e step hs
        | err c => rfl
        | panic => rfl
    | .forRange l key coll body, hw => by
      have hb : body.WF = true := by simpa [RS.WF] using hw
      simp only [lowerS, evalStmt, denoteS, pos0]
      cases getValue env coll with
      | ok v =>
        have hbody : (some fun e => evalOStmts P e (.some (lowerB body))) = (some fun e => denoteB P e body) := by
          congr 1; funext e; simp only [evalOStmts]; exact lowerB_correct P e body hb
        simp only [Bool.false_eq_true, ite_false, hbody]
        cases rangeKeys env coll <;> rfl
      | err c => rfl
      | panic => rfl
    | .brk, _ => rfl
    | .cont, _ => rfl
    | .conc items, hw => by
      simp only [lowerS, evalStmt, denoteS, lowerConc_correct P items env none (by simpa [RS.WF] using hw)]
      cases denoteConc P items env none with
      | mk r e => cases r <;> rfl

  theorem lowerSL_correct (P : Params) (env : Env) : (l : RSList) → l.WF = true →
      evalSList P env (lowerSL l) = denoteSL P env l
    | .nil, _ => rfl
    | .cons s rest, hw => by
      simp only [RSList.WF, Bool.and_eq_true] at hw
      simp only [lowerSL, evalSList, denoteSL, lowerS_correct P env s hw.1]
      cases denoteS P env s with
      | mk r e1 => cases r <;> simp [lowerSL_correct P e1 rest hw.2]

  theorem lowerB_correct (P : Params) (env : Env) : (b : RBlock) → b.WF = true →
      evalStmts P env (lowerB b) = denoteB P env b
    | .mk stmts ret, hw => by
      simp only [RBlock.WF, Bool.and_eq_true] at hw
      simp only [lowerB, evalStmts, denoteB, lowerSL_correct P env stmts hw.1]
      cases denoteSL P env stmts with
      | mk r e1 =>
        cases r with
        | normal =>
          cases ret with
          | none => rfl
          | bare => rfl
          | expr x =>
            have hx : x.WF = true := by simpa [RRet.WF] using hw.2
            simp only [lowerRet, lowerX_correct P e1 x hx]
            cases denote P e1 true x with
            | mk r2 e2 => cases r2 <;> rfl
        | ret v => rfl
        | err c => rfl
        | brk => rfl
        | cont => rfl
        | panic => rfl

  theorem lowerElifs_correct (P : Params) (env : Env) : (l : RElifs) → l.WF = true →
      evalElifs P env (lowerElifs l) = denoteElifs P env l
    | .nil, _ => rfl
    | .els b, hw => by
      simp only [lowerElifs, evalElifs, denoteElifs, evalOStmts]
      exact lowerB_correct P env b (by simpa [RElifs.WF] using hw)
    | .cons cond b rest, hw => by
      simp only [RElifs.WF, Bool.and_eq_true] at hw
      simp only [lowerElifs, evalElifs, denoteElifs, lowerX_correct P env cond hw.1.1, evalOStmts]
      cases denote P env true cond with
      | mk r e1 =>
        cases r with
        | ok v =>
          simp only [condOf]
          cases v.bool? with
          | none => rfl
          | some bb => cases bb <;> simp [lowerB_correct P e1 b hw.1.2, lowerElifs_correct P e1 rest hw.2]
        | err c => rfl
        | panic => rfl
end

/-- **C02 (and C01, tree level).** Executing the AST the listener builds for a program computes
    what the program means: same outcome, same returned value and flag, same cited line, same
    final state and observer trace. -/
theorem rule_refines (P : Params) (env : Env) (body : RBlock) (hw : body.WF = true) :
    ruleExecute P env (lowerB body) = denoteRule P env body := by
  unfold ruleExecute denoteRule
  simp only [lowerB_correct P _ body hw]

end GV.Eval
