/-
  The data context (context/data_context.go) and the reflect helpers of internal/core/execute.go,
  over a small object language: scalars injected by value, pointers to scalars, structs (by
  pointer or by value) with scalar fields and one level of nested structs, maps, slices and
  arrays of scalars, and a fixed library of injected functions and methods whose semantics is
  known on both sides of the correspondence check.
-/
import GV.Eval.AST
namespace GV.Eval

/-- Outcome of an interpreter step: a value, an error citing (or not) a source line, or a Go
    panic that has not (yet) been recovered. -/
inductive Res (α : Type)
  | ok (a : α)
  | err (cite : Option Nat)
  | panic
deriving Inhabited

/-- Conversion to a declared kind (`SetInt`/`SetUint`/`SetFloat` truncate to the field's width;
    `int8(x)` etc. in ParamsTypeChange / GetWantedValue do the same). -/
def narrowI (k : K) (v : Int64) : Int64 :=
  match k with
  | .int8 => v.toInt8.toInt64 | .int16 => v.toInt16.toInt64 | .int32 => v.toInt32.toInt64 | _ => v
def narrowU (k : K) (v : UInt64) : UInt64 :=
  match k with
  | .uint8 => v.toUInt8.toUInt64 | .uint16 => v.toUInt16.toUInt64 | .uint32 => v.toUInt32.toUInt64 | _ => v
def narrowF (k : K) (v : Float) : Float :=
  match k with
  | .float32 => v.toFloat32.toFloat | _ => v

/-- Go leaves float→integer conversion of an out-of-range value (or NaN) implementation
    defined; the statement of C03 excludes it ("whenever the value is representable").  The
    model marks such a result as unspecified instead of guessing: the correspondence check
    skips what depends on it. -/
def unspecVal : Val := .other .iface 4242

def f2i (x : Float) : Option Int64 :=
  if x ≥ -9223372036854775808.0 && x < 9223372036854775808.0 then some x.toInt64 else none
def f2u (x : Float) : Option UInt64 :=
  if x > -1.0 && x < 18446744073709551616.0 then some x.toUInt64 else none

/-- A struct field: declared kind, current value (for a nested struct: its fields). -/
inductive Field
  | scalar (v : Val)
  | nested (ptr : Bool) (isNil : Bool) (fields : List (String × Val))
deriving Inhabited

inductive Obj
  | val (v : Val)                                        -- injected by value
  | pscalar (v : Val)                                    -- pointer to a scalar
  | struct (ptr : Bool) (fields : List (String × Field))  -- struct, by pointer or by value
  | map (ptr : Bool) (keyK elemK : K) (entries : List (Val × Val))
  | slice (ptr : Bool) (isArray : Bool) (elemK : K) (elems : List Val)
  | func (id : String)
deriving Inhabited

structure Env where
  base  : List (String × Obj)       -- injected names
  vars  : List (String × Val)       -- the rule's locals
  trace : List (String × List Val)  -- calls of injected observer functions, latest first
deriving Inhabited

def Env.lookupBase (e : Env) (n : String) : Option Obj := (e.base.find? (fun p => p.1 == n)).map (·.2)
def Env.lookupVar (e : Env) (n : String) : Option Val := (e.vars.find? (fun p => p.1 == n)).map (·.2)

def setAssoc {β : Type} (l : List (String × β)) (n : String) (v : β) : List (String × β) :=
  if l.any (fun p => p.1 == n) then l.map (fun p => if p.1 == n then (n, v) else p) else l ++ [(n, v)]

def Env.setVar (e : Env) (n : String) (v : Val) : Env := { e with vars := setAssoc e.vars n v }
def Env.setBase (e : Env) (n : String) (o : Obj) : Env := { e with base := setAssoc e.base n o }

/-- The `reflect.Value` an injected object reads as. -/
def Obj.asVal (id : Nat) : Obj → Val
  | .val v => v
  | .pscalar _ => .other .ptr id
  | .struct true _ => .other .ptr id
  | .struct false _ => .other .struct id
  | .map true _ _ _ => .other .ptr id
  | .map false _ _ _ => .other .map id
  | .slice true _ _ _ => .other .ptr id
  | .slice false false _ _ => .other .slice id
  | .slice false true _ _ => .other .array id
  | .func _ => .other .func id

def splitDots (s : String) : List String := s.splitOn "."

/-- the injected object a pointer / struct value held by a local refers to -/
def Env.entryAt (e : Env) (id : Nat) : Option (String × Obj) := e.base[id]?

def baseIndex (e : Env) (n : String) : Nat := e.base.findIdx (fun p => p.1 == n)

/-- core.GetStructAttributeValue on an injected object: `none` = reflect panics
    (FieldByName on a non-struct). A missing field reads as the invalid Value. -/
def getField (o : Obj) (f : String) : Option Field :=
  match o with
  | .struct _ fields => some (((fields.find? (fun p => p.1 == f)).map (·.2)).getD (.scalar .nil))
  | _ => none

def Field.asVal : Field → Val
  | .scalar v => v
  | .nested true _ _ => .other .ptr 0
  | .nested false _ _ => .other .struct 0

/-- DataContext.GetValue. -/
def getValue (e : Env) (name : String) : Res Val :=
  match splitDots name with
  | [a] =>
    match e.lookupBase a with
    | some o => .ok (o.asVal (baseIndex e a))
    | none => match e.lookupVar a with
      | some v => .ok v
      | none => .err none
  | [a, b] =>
    match e.lookupBase a with
    | some o => (match getField o b with | some f => .ok f.asVal | none => .panic)
    | none => match e.lookupVar a with
      | some (.other _ id) =>
        -- a local holding (a pointer to) an injected object: its fields are read through it
        (match e.entryAt id with
         | some (_, o) => (match getField o b with | some f => .ok f.asVal | none => .panic)
         | none => .panic)
      | some _ => .panic          -- FieldByName on a local that is not a struct
      | none => .err none
  | [a, b, c] =>
    match e.lookupBase a with
    | some o =>
      (match getField o b with
       | some (.nested _ isNil fields) =>
         if isNil then .panic
         else .ok (((fields.find? (fun p => p.1 == c)).map (·.2)).getD .nil)
       | some (.scalar _) => .panic
       | none => .panic)
    | none => match e.lookupVar a with
      | some _ => .panic
      | none => .err none
  | _ => .err none

/-- Class-crossing conversion of core.SetAttributeValue / SetSingleValue for a target of kind
    `k`.  `none`: reflect panics (`Value.Int()` on a value of another class, …). -/
def convTo (k : K) (v : Val) (cross : Bool) : Option Val :=
  if k.isSigned then
    match v with
    | .i _ x => some (.i k (narrowI k x))
    | .u _ x => if cross then some (.i k (narrowI k x.toInt64)) else none
    | .f _ x => if cross then (match f2i x with | some y => some (.i k (narrowI k y)) | none => some unspecVal) else none
    | _ => none
  else if k.isUnsigned then
    match v with
    | .u _ x => some (.u k (narrowU k x))
    | .i _ x => if cross && x ≥ 0 then some (.u k (narrowU k x.toUInt64)) else none
    | .f _ x => if cross && x ≥ 0.0 then (match f2u x with | some y => some (.u k (narrowU k y)) | none => some unspecVal) else none
    | _ => none
  else if k.isFloat then
    match v with
    | .f _ x => some (.f k (narrowF k x))
    | .i _ x => if cross then some (.f k (narrowF k x.toFloat)) else none
    | .u _ x => if cross then some (.f k (narrowF k x.toFloat)) else none
    | _ => none
  else if k == .string then
    match v with
    | .nil => none                       -- value.Type() of the invalid Value panics
    | w => some (.s w.str)
  else if k == .bool then
    match v with | .b x => some (.b x) | _ => none
  else none

/-- core.SetAttributeValue on struct `o`, field `f`. Result: updated object. -/
def setField (o : Obj) (f : String) (v : Val) : Res Obj :=
  match o with
  | .struct ptr fields =>
    (match fields.find? (fun p => p.1 == f) with
     | none => .err none                                 -- "struct has no this field"
     | some (_, .nested _ _ _) => .panic                 -- field.Set(value) with a scalar: not modelled, reflect panics
     | some (_, .scalar cur) =>
       if !ptr then .err none                            -- not settable
       else match convTo cur.kind v true with
         | some nv => .ok (.struct ptr (setAssoc fields f (.scalar nv)))
         | none => .panic)
  | _ => .err none                                       -- not a struct: field stays invalid

/-- core.SetSingleValue through an injected pointer. -/
def setSingle (o : Obj) (v : Val) : Res Obj :=
  match o with
  | .pscalar cur =>
    if cur.kind == v.kind then .ok (.pscalar v)
    else if cur.kind.isSigned || cur.kind.isUnsigned || cur.kind.isFloat then
      (match v with
       | .i _ _ | .u _ _ | .f _ _ =>
         (match convTo cur.kind v true with
          | some nv => .ok (.pscalar nv)
          | none => .err none)           -- negative into unsigned: falls out of the switch
       | _ => .err none)
    else .err none
  | .val _ | .func _ => .err none        -- "value is unassignable"
  -- a pointer to a container: `Set` panics when the value has the same kind but another type
  -- (the generated programs never assign a container to itself); any other kind is an error
  | .map true _ _ _ => (match v with | .other .map _ | .other .ptr _ => .panic | _ => .err none)
  | .slice true false _ _ => (match v with | .other .slice _ | .other .ptr _ => .panic | _ => .err none)
  | .slice true true _ _ => (match v with | .other .array _ | .other .ptr _ => .panic | _ => .err none)
  | .struct true _ => (match v with | .other .struct _ | .other .ptr _ => .panic | _ => .err none)
  | _ => .err none

/-- DataContext.SetValue. -/
def setValue (e : Env) (name : String) (v : Val) : Res Env :=
  match splitDots name with
  | [a] =>
    (match e.lookupBase a with
     | some o =>
       -- a struct assigned to an injected pointer to a struct of the same type is copied into it
       -- (all structs of the object language have one type)
       (match o, v with
        | .struct true _, .other _ id =>
          (match e.entryAt id with
           | some (_, .struct _ fields) => .ok (e.setBase a (.struct true fields))
           | _ => (match setSingle o v with
              | .ok o' => .ok (e.setBase a o') | .err c => .err c | .panic => .panic))
        | _, _ =>
          (match setSingle o v with
           | .ok o' => .ok (e.setBase a o') | .err c => .err c | .panic => .panic))
     | none => .ok (e.setVar a v))
  | [a, b] =>
    (match e.lookupBase a with
     | some o => (match setField o b v with
        | .ok o' => .ok (e.setBase a o') | .err c => .err c | .panic => .panic)
     | none => match e.lookupVar a with
        | some (.other k id) =>
          -- a local holding a pointer to an injected struct writes through it; a local holding a
          -- struct value is a copy that cannot be set
          (match e.entryAt id with
           | some (n, o) =>
             if k == .ptr then
               (match setField o b v with
                | .ok o' => .ok (e.setBase n o') | .err c => .err c | .panic => .panic)
             else (match o with | .struct _ _ => .err none | _ => .panic)
           | none => .panic)
        | some _ => .panic            -- obj.Type() of a non-struct local / FieldByName
        | none => .err none)
  | [a, b, c] =>
    (match e.lookupBase a with
     | some (.struct ptr fields) =>
       (match fields.find? (fun p => p.1 == b) with
        | some (_, .nested np isNil nf) =>
          if isNil then .panic else
          (match nf.find? (fun p => p.1 == c) with
           | none => .err none
           | some (_, cur) =>
             -- settable iff reached through pointers only
             if !(np || ptr) then .err none else
             if !np && !ptr then .err none else
             match convTo cur.kind v true with
             | some nv => .ok (e.setBase a (.struct ptr (setAssoc fields b (.nested np isNil (setAssoc nf c nv)))))
             | none => .panic)
        | some (_, .scalar _) => .err none
        | none => .err none)
     | some _ => .panic
     | none => match e.lookupVar a with
        | some _ => .panic
        | none => .err none)
  | _ => .err none

/-- core.GetWantedValue: within-class narrowing for container keys and elements. `none` = panic. -/
def wanted (k : K) (v : Val) : Option Val :=
  if v.kind == k then some v
  else if k.isSigned then (match v with | .i _ x => some (.i k (narrowI k x)) | _ => none)
  else if k.isUnsigned then (match v with | .u _ x => some (.u k (narrowU k x)) | _ => none)
  else if k.isFloat then (match v with | .f _ x => some (.f k (narrowF k x)) | _ => none)
  else some v

def valEq : Val → Val → Bool
  | .i _ a, .i _ b => a == b
  | .u _ a, .u _ b => a == b
  | .f _ a, .f _ b => a == b
  | .s a, .s b => a == b
  | .b a, .b b => a == b
  | _, _ => false

def zeroOf (k : K) : Val :=
  if k.isSigned then .i k 0 else if k.isUnsigned then .u k 0 else if k.isFloat then .f k 0.0
  else if k == .string then .s "" else if k == .bool then .b false else .nil

/-- Does a value of this kind pass reflect's assignability check for a container of element
    kind `k` (SetMapIndex / Set)? -/
def assignable (k : K) (v : Val) : Bool := v.kind == k

end GV.Eval
