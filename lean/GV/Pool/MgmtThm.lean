import GV.Pool.Mgmt
namespace GV.Pool
open GV.KC

structure PInv (s : PoolM) : Prop where
  flag   : s.clear = true ↔ s.master = none
  master : ∀ m, s.master = some m → Inv m ∧ ∀ k ∈ s.slots, Inv k ∧ abs k = abs m
  empty  : s.clear = true → ∀ k ∈ s.slots, k = KC.empty

def absP (s : PoolM) : SpecP :=
  { rules := match s.master with | some m => abs m | none => fun _ => none,
    cleared := s.clear, model := s.model }

theorem abs_empty : abs KC.empty = fun _ => none := by
  funext n; simp [abs, KC.get, KC.empty]

theorem publish_inv (s : PoolM) (kc : KC) (h : Inv kc) : PInv (s.publish kc) := by
  refine ⟨by simp [PoolM.publish], ?_, by simp [PoolM.publish]⟩
  intro m hm
  simp only [PoolM.publish, Option.some.injEq] at hm
  subst hm
  refine ⟨h, ?_⟩
  intro k hk
  simp only [PoolM.publish, List.mem_map] at hk
  obtain ⟨_, _, rfl⟩ := hk
  exact ⟨h, rfl⟩

theorem init_inv (order : List KRule) (max model : Nat) (hn : NodupNames order) : PInv (init order max model) := by
  refine ⟨by simp [init], ?_, by simp [init]⟩
  intro m hm
  simp only [init, Option.some.injEq] at hm
  subst hm
  refine ⟨buildFull_inv order hn, ?_⟩
  intro k hk
  simp only [init, List.mem_replicate] at hk
  rw [hk.2]
  exact ⟨buildFull_inv order hn, rfl⟩

/-- **C16 (one operation).** Every management operation keeps the pool invariant, changes the
    denoted rule set and model exactly as the specification says, and answers as it says — in
    particular it never panics. -/
theorem step_refines (s : PoolM) (op : MOp) (h : PInv s) (hw : op.WF) :
    PInv (step s op).1 ∧ absP (step s op).1 = (Spec.step (absP s) op).1 ∧
    (step s op).2 = (Spec.step (absP s) op).2 := by
  cases op with
  | full c =>
    cases c with
    | none => exact ⟨h, rfl, rfl⟩
    | some order =>
      simp only [step, Spec.step]
      split
      · exact ⟨h, rfl, rfl⟩
      · refine ⟨publish_inv s _ (buildFull_inv order hw), ?_, rfl⟩
        simp [absP, PoolM.publish, buildFull_abs]
  | incr c =>
    cases c with
    | none => exact ⟨h, rfl, rfl⟩
    | some order =>
      simp only [step, Spec.step]
      split
      · exact ⟨h, rfl, rfl⟩
      · have hm : Inv (s.master.getD KC.empty) := by
          cases hs : s.master with
          | none => exact empty_inv
          | some m => exact (h.master m hs).1
        refine ⟨publish_inv s _ (buildIncr_inv _ order hm), ?_, rfl⟩
        simp only [absP, PoolM.publish]
        congr 1
        rw [buildIncr_abs _ order hm hw]
        cases hs : s.master with
        | none => simp [abs_empty]
        | some m => simp
  | remove names perm =>
    simp only [step, Spec.step]
    cases hs : s.master with
    | none =>
      have hc : s.clear = true := h.flag.mpr hs
      simp only [absP, hc, Bool.true_or, ite_true]
      exact ⟨h, by simp, trivial⟩
    | some m =>
      have hc : s.clear = false := by
        cases hcl : s.clear
        · rfl
        · have := h.flag.mp hcl; rw [hs] at this; cases this
      obtain ⟨hmi, hsl⟩ := h.master m hs
      simp only [absP, hc, Bool.false_or]
      split
      · exact ⟨h, by simp [hs, hc], rfl⟩
      · refine ⟨⟨by simp [hc], ?_, by simp [hc]⟩, ?_, rfl⟩
        · intro m' hm'
          simp only [Option.some.injEq] at hm'
          subst hm'
          refine ⟨removeRules_inv m names perm hw hmi, ?_⟩
          intro k hk
          simp only [List.mem_map] at hk
          obtain ⟨k0, hk0, rfl⟩ := hk
          obtain ⟨hki, hka⟩ := hsl k0 hk0
          exact ⟨removeRules_inv k0 names perm hw hki, by rw [removeRules_abs, removeRules_abs, hka]⟩
        · simp [hs, hc, removeRules_abs]
  | clear =>
    simp only [step, Spec.step]
    refine ⟨⟨by simp, by simp, ?_⟩, by simp [absP], trivial⟩
    intro _ k hk
    simp only [List.mem_map] at hk
    obtain ⟨_, _, rfl⟩ := hk
    rfl
  | setModel m =>
    simp only [step, Spec.step]
    split
    · exact ⟨⟨h.flag, h.master, h.empty⟩, by simp [absP], rfl⟩
    · exact ⟨h, rfl, rfl⟩

def run (s : PoolM) : List MOp → PoolM × List MOut
  | [] => (s, [])
  | op :: rest => let (s1, o) := step s op; let (s2, os) := run s1 rest; (s2, o :: os)

def Spec.run (s : SpecP) : List MOp → SpecP × List MOut
  | [] => (s, [])
  | op :: rest => let (s1, o) := Spec.step s op; let (s2, os) := Spec.run s1 rest; (s2, o :: os)

/-- **C16.** After any finite sequence of management operations the pool denotes what the
    sequence denotes, every operation answered as specified, and none panicked. -/
theorem history_refines (ops : List MOp) (s : PoolM) (h : PInv s) (hw : ∀ op ∈ ops, op.WF) :
    PInv (run s ops).1 ∧ absP (run s ops).1 = (Spec.run (absP s) ops).1 ∧
    (run s ops).2 = (Spec.run (absP s) ops).2 := by
  induction ops generalizing s with
  | nil => exact ⟨h, rfl, rfl⟩
  | cons op rest ih =>
    obtain ⟨h1, h2, h3⟩ := step_refines s op h (hw op (by simp))
    obtain ⟨i1, i2, i3⟩ := ih (step s op).1 h1 (fun o ho => hw o (by simp [ho]))
    simp only [run, Spec.run]
    rw [← h2, ← h3]
    exact ⟨i1, i2, by rw [i3]⟩

theorem spec_never_panics (s : SpecP) (op : MOp) : (Spec.step s op).2 ≠ .panic := by
  cases op with
  | full c => cases c <;> simp [Spec.step] <;> split <;> simp
  | incr c => cases c <;> simp [Spec.step] <;> split <;> simp
  | remove n p => simp only [Spec.step]; split <;> simp
  | clear => simp [Spec.step]
  | setModel m => simp only [Spec.step]; split <;> simp

/-! ### queries and executions -/

theorem qExist_agrees (s : PoolM) (h : PInv s) (n : String) : qExist s n = ((absP s).rules n).isSome := by
  unfold qExist absP
  cases hs : s.master with
  | none => rfl
  | some m =>
    have hc : s.clear = false := by
      cases hcl : s.clear
      · rfl
      · have := h.flag.mp hcl; rw [hs] at this; cases this
    simp [hc, abs]

theorem qRule_agrees (s : PoolM) (h : PInv s) (n : String) : qRule s n = (absP s).rules n := by
  unfold qRule absP
  cases hs : s.master with
  | none => rfl
  | some m =>
    have hc : s.clear = false := by
      cases hcl : s.clear
      · rfl
      · have := h.flag.mp hcl; rw [hs] at this; cases this
    simp [hc, abs]

/-- every engine instance, initial or additional, runs exactly the denoted set, in non-increasing
    salience order; a cleared pool runs nothing -/
theorem execOn_agrees (s : PoolM) (h : PInv s) (i : Nat) (hi : i < s.slots.length) (r : KRule) :
    r ∈ execOn s i ↔ (absP s).rules r.name = some r := by
  unfold execOn absP
  cases hs : s.master with
  | none =>
    have hc : s.clear = true := h.flag.mpr hs
    simp [hc]
  | some m =>
    have hc : s.clear = false := by
      cases hcl : s.clear
      · rfl
      · have := h.flag.mp hcl; rw [hs] at this; cases this
    obtain ⟨hmi, hsl⟩ := h.master m hs
    have hg : s.slots.getD i KC.empty = s.slots[i] := by simp [List.getD, hi]
    have hk : s.slots.getD i KC.empty ∈ s.slots := by
      rw [hg]; exact List.getElem_mem hi
    obtain ⟨hki, hka⟩ := hsl _ hk
    simp only [hc, Bool.false_eq_true, ite_false]
    rw [← hka, hki.same r]
    unfold abs
    rw [get_eq_some _ hki.uniqE r r.name]
    simp

theorem execOn_sorted (s : PoolM) (h : PInv s) (i : Nat) (hi : i < s.slots.length) :
    (execOn s i).Pairwise (fun a b => a.sal ≥ b.sal) := by
  unfold execOn
  split
  · exact List.Pairwise.nil
  · cases hs : s.master with
    | none =>
      have hc : s.clear = true := h.flag.mpr hs
      simp_all
    | some m =>
      have hg : s.slots.getD i KC.empty = s.slots[i] := by simp [List.getD, hi]
      have hk : s.slots.getD i KC.empty ∈ s.slots := by
        rw [hg]; exact List.getElem_mem hi
      exact ((h.master m hs).2 _ hk).1.sorted

theorem cleared_runs_nothing (s : PoolM) (i : Nat) : (step s .clear).1.clear = true ∧ execOn (step s .clear).1 i = [] := by
  simp [step, execOn]

end GV.Pool
