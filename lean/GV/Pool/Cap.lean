/-
  Pool bookkeeping (C17, C06): transition system of getGengine / putGengineLocked / prepare* /
  the deferred clean-up, for any number of clients and any min < max.

  `acquire` is the body of getGengine under getEngineLock (pop the head of the free list, else
  of the additional list) followed by prepare*'s injection of the request's keys into the
  wrapper's private data context; `release` is the deferred function (delete the request's keys,
  then putGengineLocked, which only starts a goroutine); `put` is that goroutine.  A client that
  finds both lists empty spins: no step.
-/
namespace GV.Pool.Cap

structure CSt where
  free : List Nat                 -- tags in gp.freeGengines
  add  : List Nat                 -- tags in gp.additionGengines
  held : List (Nat × Nat)         -- (client, tag): requests in flight
  pend : List Nat                 -- wrappers handed to a put goroutine that has not run yet
  keys : List (Nat × Nat)         -- (tag, client): request keys present in the tag's data context

def init (min max : Nat) : CSt :=
  { free := List.range min, add := (List.range (max - min)).map (· + min), held := [], pend := [], keys := [] }

inductive Step (min : Nat) : CSt → CSt → Prop
  | acquireFree (s : CSt) (c t : Nat) (rest : List Nat) (hf : s.free = t :: rest)
      (hc : ∀ p ∈ s.held, p.1 ≠ c) :
      Step min s { s with free := rest, held := (c, t) :: s.held, keys := (t, c) :: s.keys }
  | acquireAdd (s : CSt) (c t : Nat) (rest : List Nat) (hf : s.free = []) (ha : s.add = t :: rest)
      (hc : ∀ p ∈ s.held, p.1 ≠ c) :
      Step min s { s with add := rest, held := (c, t) :: s.held, keys := (t, c) :: s.keys }
  /-- the deferred function runs on every outcome of the request: normal return, rule error, panic -/
  | release (s : CSt) (c t : Nat) (h : (c, t) ∈ s.held) :
      Step min s { s with held := s.held.erase (c, t), keys := s.keys.erase (t, c), pend := t :: s.pend }
  | put (s : CSt) (t : Nat) (h : t ∈ s.pend) :
      Step min s (if t < min then { s with pend := s.pend.erase t, free := s.free ++ [t] }
                  else { s with pend := s.pend.erase t, add := s.add ++ [t] })

inductive Reach (min max : Nat) : CSt → Prop
  | init : Reach min max (init min max)
  | step {s t} : Reach min max s → Step min s t → Reach min max t

def tags (s : CSt) : List Nat := s.free ++ s.add ++ s.held.map (·.2) ++ s.pend

structure Inv (max : Nat) (s : CSt) : Prop where
  conserve : (tags s).Perm (List.range max)
  keysHeld : s.keys.Perm (s.held.map (fun p => (p.2, p.1)))

theorem init_tags (min max : Nat) (h : min ≤ max) : tags (init min max) = List.range max := by
  simp only [tags, init, List.map_nil, List.append_nil]
  have : max = min + (max - min) := by omega
  conv => rhs; rw [this, List.range_add]
  congr 1
  apply List.map_congr_left
  intro a _; omega

theorem inv_init (min max : Nat) (h : min ≤ max) : Inv max (init min max) :=
  ⟨by rw [init_tags min max h], by simp [init]⟩

theorem inv_step (min max : Nat) (s t : CSt) (hi : Inv max s) (hs : Step min s t) : Inv max t := by
  obtain ⟨hc, hk⟩ := hi
  cases hs with
  | acquireFree c tg rest hf hcl =>
    refine ⟨?_, ?_⟩
    · refine List.Perm.trans ?_ hc
      simp only [tags, hf, List.map_cons, List.cons_append, List.append_assoc]
      exact (List.perm_middle (l₁ := rest ++ s.add)).trans (by simp) |>.symm |> fun h => by
        simpa [List.append_assoc] using h.symm
    · simp only [List.map_cons]
      exact List.Perm.cons _ hk
  | acquireAdd c tg rest hf ha hcl =>
    refine ⟨?_, ?_⟩
    · refine List.Perm.trans ?_ hc
      simp only [tags, hf, ha, List.map_cons, List.nil_append, List.cons_append, List.append_assoc]
      exact (List.perm_middle (a := tg) (l₁ := rest) (l₂ := List.map (·.2) s.held ++ s.pend)).symm |> fun h => by
        simpa [List.append_assoc] using h.symm
    · simp only [List.map_cons]
      exact List.Perm.cons _ hk
  | release c tg h =>
    refine ⟨?_, ?_⟩
    · refine List.Perm.trans ?_ hc
      simp only [tags, List.append_assoc]
      refine List.Perm.append_left _ (List.Perm.append_left _ ?_)
      have hp := List.perm_cons_erase h
      have hm : (List.map (·.2) s.held).Perm (tg :: List.map (·.2) (s.held.erase (c, tg))) := by
        simpa using hp.map (·.2)
      exact (List.perm_middle).trans (List.Perm.append_right _ hm.symm)
    · have hp := List.perm_cons_erase h
      have hm : (List.map (fun p : Nat × Nat => (p.2, p.1)) s.held).Perm
          ((tg, c) :: List.map (fun p : Nat × Nat => (p.2, p.1)) (s.held.erase (c, tg))) := by
        simpa using hp.map (fun p : Nat × Nat => (p.2, p.1))
      have hk2 := hk.trans hm
      have hmem : (tg, c) ∈ s.keys := hk2.symm.subset (by simp)
      have := (List.perm_cons_erase hmem).symm.trans hk2
      exact (List.Perm.cons_inv this)
  | put tg h =>
    have hp := List.perm_cons_erase h
    split
    · refine ⟨?_, hk⟩
      refine List.Perm.trans ?_ hc
      simp only [tags, List.append_assoc]
      refine List.Perm.append_left _ ?_
      have : (s.add ++ (List.map (·.2) s.held ++ s.pend)).Perm (s.add ++ (List.map (·.2) s.held ++ tg :: s.pend.erase tg)) :=
        List.Perm.append_left _ (List.Perm.append_left _ hp)
      refine List.Perm.trans ?_ this.symm
      simp only [List.singleton_append]
      have h1 : (tg :: (s.add ++ (List.map (·.2) s.held ++ s.pend.erase tg))).Perm
          (s.add ++ (List.map (·.2) s.held ++ tg :: s.pend.erase tg)) := by
        have := List.perm_middle (a := tg) (l₁ := s.add ++ List.map (·.2) s.held) (l₂ := s.pend.erase tg)
        simpa [List.append_assoc] using this.symm
      exact h1
    · refine ⟨?_, hk⟩
      refine List.Perm.trans ?_ hc
      simp only [tags, List.append_assoc]
      refine List.Perm.append_left _ (List.Perm.append_left _ ?_)
      simp only [List.singleton_append]
      have h1 : (tg :: (List.map (·.2) s.held ++ s.pend.erase tg)).Perm (List.map (·.2) s.held ++ tg :: s.pend.erase tg) :=
        (List.perm_middle).symm
      exact h1.trans (List.Perm.append_left _ hp.symm)

theorem inv_reach {min max : Nat} (h : min ≤ max) {s : CSt} (hr : Reach min max s) : Inv max s := by
  induction hr with
  | init => exact inv_init min max h
  | step _ hs ih => exact inv_step min max _ _ ih hs

/-! ### C17 -/

/-- at most `max` requests are in flight -/
theorem at_most_max {min max : Nat} (h : min ≤ max) {s : CSt} (hr : Reach min max s) : s.held.length ≤ max := by
  have := (inv_reach h hr).conserve.length_eq
  simp only [tags, List.length_append, List.length_map, List.length_range] at this
  omega

/-- no engine instance is given to two in-flight requests; nor is one both in flight and free -/
theorem no_double_hand_out {min max : Nat} (h : min ≤ max) {s : CSt} (hr : Reach min max s) : (tags s).Nodup :=
  (inv_reach h hr).conserve.nodup_iff.mpr List.nodup_range

theorem held_tags_nodup {min max : Nat} (h : min ≤ max) {s : CSt} (hr : Reach min max s) :
    (s.held.map (·.2)).Nodup := by
  have := no_double_hand_out h hr
  simp only [tags, List.append_assoc] at this
  exact ((List.nodup_append.mp (List.nodup_append.mp this).2.1).2.1 |> List.nodup_append.mp).1

/-- instances are never lost: when nothing is in flight and every put goroutine has run, all
    `max` instances are on the two lists again -/
theorem all_back {min max : Nat} (h : min ≤ max) {s : CSt} (hr : Reach min max s) (h1 : s.held = []) (h2 : s.pend = []) :
    (s.free ++ s.add).Perm (List.range max) := by
  have := (inv_reach h hr).conserve
  simpa [tags, h1, h2] using this

/-- a request that finds every instance busy waits; as soon as a list is non-empty it can proceed
    (getGengine has no failing return) -/
theorem acquire_enabled (min : Nat) (s : CSt) (c : Nat) (hc : ∀ p ∈ s.held, p.1 ≠ c)
    (h : s.free ≠ [] ∨ s.add ≠ []) : ∃ t, Step min s t := by
  cases hf : s.free with
  | cons t rest => exact ⟨_, .acquireFree s c t rest hf hc⟩
  | nil =>
    cases ha : s.add with
    | cons t rest => exact ⟨_, .acquireAdd s c t rest hf ha hc⟩
    | nil => simp [hf, ha] at h

/-- no deadlock: unless every instance is idle on a list, some step of the pool is enabled -/
theorem progress {min : Nat} (s : CSt) (h : s.held ≠ [] ∨ s.pend ≠ []) : ∃ t, Step min s t := by
  cases hh : s.held with
  | cons p rest => exact ⟨_, .release s p.1 p.2 (by simp [hh])⟩
  | nil =>
    cases hp : s.pend with
    | cons t rest => exact ⟨_, .put s t (by simp [hp])⟩
    | nil => simp [hh, hp] at h

/-! ### C06 (bookkeeping part) -/

/-- a wrapper's data context holds request keys of its current holder only; a wrapper on a free
    list or on its way back holds none -/
theorem keys_owner {min max : Nat} (h : min ≤ max) {s : CSt} (hr : Reach min max s) (t c : Nat) :
    (t, c) ∈ s.keys ↔ (c, t) ∈ s.held := by
  have hk := (inv_reach h hr).keysHeld
  rw [hk.mem_iff]
  simp only [List.mem_map, Prod.mk.injEq, Prod.exists]
  constructor
  · rintro ⟨a, b, hm, rfl, rfl⟩; exact hm
  · intro hm; exact ⟨c, t, hm, rfl, rfl⟩

theorem idle_wrapper_clean {min max : Nat} (h : min ≤ max) {s : CSt} (hr : Reach min max s) (t : Nat)
    (hidle : t ∈ s.free ∨ t ∈ s.add ∨ t ∈ s.pend) (c : Nat) : (t, c) ∉ s.keys := by
  intro hk
  have hheld := (keys_owner h hr t c).mp hk
  have hnd := no_double_hand_out h hr
  have hmem : t ∈ s.held.map (·.2) := List.mem_map.mpr ⟨(c, t), hheld, rfl⟩
  simp only [tags, List.append_assoc] at hnd
  rcases hidle with hf | ha | hp
  · exact (List.nodup_append.mp hnd).2.2 t hf t (by simp [hmem]) rfl
  · exact (List.nodup_append.mp (List.nodup_append.mp hnd).2.1).2.2 t ha t (by simp [hmem]) rfl
  · exact (List.nodup_append.mp (List.nodup_append.mp (List.nodup_append.mp hnd).2.1).2.1).2.2 t hmem t hp rfl

theorem fst_unique (l : List (Nat × Nat)) (hnd : (l.map (·.2)).Nodup) (c1 c2 t : Nat)
    (h1 : (c1, t) ∈ l) (h2 : (c2, t) ∈ l) : c1 = c2 := by
  induction l with
  | nil => simp at h1
  | cons p ps ih =>
    simp only [List.map_cons, List.nodup_cons, List.mem_map, not_exists, not_and] at hnd
    simp only [List.mem_cons] at h1 h2
    rcases h1 with h1 | h1 <;> rcases h2 with h2 | h2
    · have := h1.trans h2.symm
      exact congrArg Prod.fst this
    · subst h1; exact absurd rfl (hnd.1 (c2, t) h2)
    · subst h2; exact absurd rfl (hnd.1 (c1, t) h1)
    · exact ih hnd.2 h1 h2

/-- two requests in flight never share an engine instance (nor its data context) -/
theorem one_holder {min max : Nat} (h : min ≤ max) {s : CSt} (hr : Reach min max s) (c1 c2 t : Nat)
    (h1 : (c1, t) ∈ s.held) (h2 : (c2, t) ∈ s.held) : c1 = c2 :=
  fst_unique s.held (held_tags_nodup h hr) c1 c2 t h1 h2

end GV.Pool.Cap
