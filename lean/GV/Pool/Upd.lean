/-
  Hot updates (C07): transition system of updaters and requests around `updateLock`.

  An update (full, incremental, removal, clear) takes the lock, builds a fresh container —
  version `master + 1`; nothing already published is written (regenerated fact
  `GV.Generated.Pool.inPlaceStores = []`) —, stores it into the per-instance slots one by one
  and into the master, and releases the lock.  A request takes its rule container exactly once:
  prepare* reads its instance's slot while holding the lock (regenerated fact
  `prepareSnapshots`) into a request-private rule builder, so every later read of the
  execution — whatever the execution model, however many stages — sees that container.
  Updates issued from inside a running rule are ordinary updaters: the request holds no lock
  while its rules run.
-/
namespace GV.Pool.Upd

structure USt where
  lock   : Option (Nat × Nat × Nat)   -- updater, its version, number of slots already stored
  master : Nat
  slots  : List Nat                   -- version each instance's slot points to
  snaps  : List (Nat × Nat)           -- (request, version it took)
  done   : List (Nat × Nat)           -- (updater, version) of updates that have returned

def init (max : Nat) : USt := { lock := none, master := 0, slots := List.replicate max 0, snaps := [], done := [] }

inductive Step : USt → USt → Prop
  | begin (s : USt) (u : Nat) (h : s.lock = none) :
      Step s { s with lock := some (u, s.master + 1, 0) }
  | publish (s : USt) (u v k : Nat) (h : s.lock = some (u, v, k)) (hk : k < s.slots.length) :
      Step s { s with lock := some (u, v, k + 1), slots := s.slots.set k v }
  | finish (s : USt) (u v k : Nat) (h : s.lock = some (u, v, k)) (hk : k = s.slots.length) :
      Step s { s with lock := none, master := v, done := (u, v) :: s.done }
  /-- a rejected text: the update returns its error before writing anything (C10) -/
  | abort (s : USt) (u v : Nat) (h : s.lock = some (u, v, 0)) :
      Step s { s with lock := none }
  | snap (s : USt) (r t : Nat) (h : s.lock = none) (ht : t < s.slots.length) :
      Step s { s with snaps := (r, s.slots.getD t 0) :: s.snaps }

inductive Reach (max : Nat) : USt → Prop
  | init : Reach max (init max)
  | step {s t} : Reach max s → Step s t → Reach max t

structure Inv (s : USt) : Prop where
  quiet   : s.lock = none → ∀ x ∈ s.slots, x = s.master
  locked  : ∀ u v k, s.lock = some (u, v, k) → v = s.master + 1 ∧ k ≤ s.slots.length ∧
              (∀ i, i < k → s.slots.getD i 0 = v) ∧ (∀ i, k ≤ i → i < s.slots.length → s.slots.getD i 0 = s.master)
  doneLe  : ∀ p ∈ s.done, p.2 ≤ s.master
  snapLe  : ∀ p ∈ s.snaps, p.2 ≤ s.master

theorem inv_init (max : Nat) : Inv (init max) := by
  refine ⟨?_, ?_, ?_, ?_⟩ <;> simp [init]

theorem getD_set_eq (l : List Nat) (k v : Nat) (hk : k < l.length) : (l.set k v).getD k 0 = v := by
  simp [List.getD, hk]

theorem getD_set_ne (l : List Nat) (k i v : Nat) (h : k ≠ i) : (l.set k v).getD i 0 = l.getD i 0 := by
  simp [List.getD, List.getElem?_set_ne h]

theorem inv_step (s t : USt) (hi : Inv s) (hs : Step s t) : Inv t := by
  obtain ⟨hq, hl, hd, hsn⟩ := hi
  cases hs with
  | begin u h =>
    refine ⟨by simp, ?_, hd, hsn⟩
    intro u' v k hh
    simp only [Option.some.injEq, Prod.mk.injEq] at hh
    obtain ⟨_, rfl, rfl⟩ := hh
    refine ⟨rfl, Nat.zero_le _, by intro i hi; omega, ?_⟩
    intro i _ hi
    have hmem : s.slots.getD i 0 ∈ s.slots := by
      simp only [List.getD, List.getElem?_eq_getElem hi, Option.getD_some]; exact List.getElem_mem hi
    exact hq h _ hmem
  | publish u v k h hk =>
    obtain ⟨hv, _, hlo, hhi⟩ := hl u v k h
    refine ⟨by simp, ?_, hd, hsn⟩
    intro u' v' k' hh
    simp only [Option.some.injEq, Prod.mk.injEq] at hh
    obtain ⟨_, rfl, rfl⟩ := hh
    refine ⟨hv, by simp; omega, ?_, ?_⟩
    · intro i hi
      by_cases hik : i = k
      · subst hik; exact getD_set_eq _ _ _ hk
      · rw [getD_set_ne _ _ _ _ (Ne.symm hik)]; exact hlo i (by omega)
    · intro i hi1 hi2
      simp only [List.length_set] at hi2
      rw [getD_set_ne _ _ _ _ (by omega)]
      exact hhi i (by omega) hi2
  | finish u v k h hk =>
    obtain ⟨hv, _, hlo, _⟩ := hl u v k h
    refine ⟨?_, by simp, ?_, ?_⟩
    · intro _ x hx
      obtain ⟨i, hi, rfl⟩ := List.getElem_of_mem hx
      have hi' : i < s.slots.length := hi
      have := hlo i (by omega)
      simpa [List.getD, List.getElem?_eq_getElem hi'] using this
    · intro p hp
      simp only [List.mem_cons] at hp
      rcases hp with rfl | hp
      · exact Nat.le_refl _
      · have := hd p hp; simp only; omega
    · intro p hp; have := hsn p hp; simp only; omega
  | abort u v h =>
    obtain ⟨_, _, _, hhi⟩ := hl u v 0 h
    refine ⟨?_, by simp, hd, hsn⟩
    intro _ x hx
    obtain ⟨i, hi, rfl⟩ := List.getElem_of_mem hx
    have := hhi i (Nat.zero_le _) hi
    simpa [List.getD, List.getElem?_eq_getElem hi] using this
  | snap r tg h ht =>
    refine ⟨hq, hl, hd, ?_⟩
    intro p hp
    simp only [List.mem_cons] at hp
    rcases hp with rfl | hp
    · have hmem : s.slots.getD tg 0 ∈ s.slots := by
        simp only [List.getD, List.getElem?_eq_getElem ht, Option.getD_some]; exact List.getElem_mem ht
      exact Nat.le_of_eq (hq h _ hmem)
    · exact hsn p hp

theorem inv_reach {max : Nat} {s : USt} (h : Reach max s) : Inv s := by
  induction h with
  | init => exact inv_init max
  | step _ hs ih => exact inv_step _ _ ih hs

/-- what a request takes is the latest completely published version, on whichever instance -/
theorem snap_is_master {max : Nat} {s : USt} (hr : Reach max s) (h : s.lock = none) (t : Nat) (ht : t < s.slots.length) :
    s.slots.getD t 0 = s.master := by
  have hmem : s.slots.getD t 0 ∈ s.slots := by
    simp only [List.getD, List.getElem?_eq_getElem ht, Option.getD_some]; exact List.getElem_mem ht
  exact (inv_reach hr).quiet h _ hmem

/-- **Visibility.** An execution that takes its container after an update has returned runs that
    update's version or a later one — on any engine instance. -/
theorem visible_after_return {max : Nat} {s : USt} (hr : Reach max s) (h : s.lock = none) (t : Nat)
    (ht : t < s.slots.length) (u v : Nat) (hd : (u, v) ∈ s.done) : v ≤ s.slots.getD t 0 := by
  rw [snap_is_master hr h t ht]
  exact (inv_reach hr).doneLe (u, v) hd

/-- **Earlier executions ran earlier versions.** An update that starts now installs a version
    strictly above everything any execution has taken so far. -/
theorem earlier_runs_earlier {max : Nat} {s : USt} (hr : Reach max s) (r w : Nat) (hs : (r, w) ∈ s.snaps) :
    w < s.master + 1 := by
  have := (inv_reach hr).snapLe (r, w) hs
  simp only at this; omega

/-- no instance is left behind: when no update is in progress every slot holds the master's version -/
theorem all_instances_agree {max : Nat} {s : USt} (hr : Reach max s) (h : s.lock = none) :
    ∀ x ∈ s.slots, x = s.master := (inv_reach hr).quiet h

end GV.Pool.Upd
