/-
  Pool management (C16): model of GenginePool.UpdatePooledRules, UpdatePooledRulesIncremental,
  RemoveRules, ClearPoolRules, SetExecModel and of the queries, over the rule-container model of
  GV.KC.  Containers are values: every management operation publishes fresh containers and never
  writes into a published one (regenerated fact `GV.Generated.Pool.inPlaceStores = []`).

  The compiler is a parameter: a text either is rejected or yields the rules it defines, in the
  iteration order of the freshly parsed map (C10, C08).
-/
import GV.KC.Refine
namespace GV.Pool
open GV.KC

structure PoolM where
  master : Option KC       -- gp.ruleBuilder (nil after ClearPoolRules)
  slots  : List KC         -- gp.rbSlice[i].Kc, one per engine instance (initial and additional)
  clear  : Bool
  model  : Nat
deriving Inhabited

inductive MOp
  | full (compiled : Option (List KRule))
  | incr (compiled : Option (List KRule))
  | remove (names : List String) (perm : List KRule → List KRule)
  | clear
  | setModel (m : Nat)

inductive MOut | ok | err | panic
deriving Repr, DecidableEq, Inhabited

def validModel (m : Nat) : Bool := m == 1 || m == 2 || m == 3 || m == 4

def PoolM.publish (s : PoolM) (kc : KC) : PoolM :=
  { s with master := some kc, slots := s.slots.map (fun _ => kc), clear := false }

def step (s : PoolM) : MOp → PoolM × MOut
  | .full none => (s, .err)
  | .full (some order) => if order.isEmpty then (s, .err) else (s.publish (buildFull order), .ok)
  | .incr none => (s, .err)
  | .incr (some order) =>
    if order.isEmpty then (s, .err) else
    -- after ClearPoolRules the master builder is rebuilt empty
    (s.publish (buildIncr (s.master.getD KC.empty) order), .ok)
  | .remove names perm =>
    (match s.master with
     | none => (s, .err)                           -- nothing installed
     | some m =>
       if names.isEmpty then (s, .err) else
       ({ s with master := some (removeRules m names perm),
                 slots := s.slots.map (fun k => removeRules k names perm) }, .ok))
  | .clear => ({ s with master := none, slots := s.slots.map (fun _ => KC.empty), clear := true }, .ok)
  | .setModel m => if validModel m then ({ s with model := m }, .ok) else (s, .err)

/-- queries read the master copy and honour the cleared flag -/
def qExist (s : PoolM) (n : String) : Bool :=
  match s.master with
  | some m => !s.clear && (get m.entities n).isSome
  | none => false
def qNumber (s : PoolM) : Nat :=
  match s.master with
  | some m => if s.clear then 0 else m.entities.length
  | none => 0
def qRule (s : PoolM) (n : String) : Option KRule :=
  match s.master with
  | some m => if s.clear then none else get m.entities n
  | none => none
/-- what an execution on instance `i` runs, in order (nothing when cleared) -/
def execOn (s : PoolM) (i : Nat) : List KRule := if s.clear then [] else (s.slots.getD i KC.empty).sort

/-! ### specification: the denoted rule set and model -/

structure SpecP where
  rules   : RuleSet
  cleared : Bool        -- ClearPoolRules was the last successful change of the set
  model   : Nat

def Spec.step (s : SpecP) : MOp → SpecP × MOut
  | .full none => (s, .err)
  | .full (some order) =>
    if order.isEmpty then (s, .err) else ({ s with rules := Spec.full order, cleared := false }, .ok)
  | .incr none => (s, .err)
  | .incr (some order) =>
    if order.isEmpty then (s, .err) else ({ s with rules := Spec.incr s.rules order, cleared := false }, .ok)
  | .remove names _ =>
    if s.cleared || names.isEmpty then (s, .err) else ({ s with rules := Spec.remove s.rules names }, .ok)
  | .clear => ({ s with rules := fun _ => none, cleared := true }, .ok)
  | .setModel m => if validModel m then ({ s with model := m }, .ok) else (s, .err)

def MOp.WF : MOp → Prop
  | .full (some o) => NodupNames o
  | .incr (some o) => NodupNames o
  | .remove _ p => ∀ l, (p l).Perm l
  | _ => True

def init (order : List KRule) (max : Nat) (model : Nat) : PoolM :=
  { master := some (buildFull order), slots := List.replicate max (buildFull order), clear := false, model := model }

end GV.Pool
