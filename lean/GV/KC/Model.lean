/-
  Rule container (C08): model of builder/rule_builder.go (BuildRuleFromString,
  BuildRuleWithIncremental, RemoveRules), engine/gengine_pool.go updateIncremental (same loop)
  and internal/tool/tool.go BinarySearch, at the level of list values.

  Go map iteration order is a parameter: the new rules arrive as a list in the order the
  `range` over the freshly parsed map happened to visit them; theorems quantify over it.
  The in-place slice updates of the merge loop (the shadowed `newSortRules := append(...)`)
  are modelled by their value-level effect; see DESIGN.md section 4.3 for why the outer slice
  observes the inner writes (equal length ≤ capacity), and the correspondence runs check it.
-/
namespace GV.KC

structure KRule where
  name : String
  sal  : Int
  ver  : Nat          -- identifies body + description
deriving Repr, DecidableEq, Inhabited

structure KC where
  entities : List KRule            -- the RuleEntities map (as an association list, keys unique)
  sort     : List KRule            -- SortRules
  index    : List (String × Nat)   -- SortRulesIndexMap
deriving Repr, DecidableEq, Inhabited

def KC.empty : KC := ⟨[], [], []⟩

def sortDesc (l : List KRule) : List KRule := l.mergeSort (fun a b => decide (a.sal ≥ b.sal))

def indexOf (l : List KRule) : List (String × Nat) := l.zipIdx.map (fun p => (p.1.name, p.2))

def lookupIdx (ix : List (String × Nat)) (n : String) : Nat :=
  ((ix.find? (fun p => p.1 == n)).map (·.2)).getD 0          -- Go: missing key yields 0

/-- Full build: `order` = the parsed rules in map iteration order. -/
def buildFull (order : List KRule) : KC :=
  let s := sortDesc order
  ⟨order, s, indexOf s⟩

/-- tool.BinarySearch on a list sorted by non-increasing salience.  `hi` is Go's `high + 1`.
    Returns (low, mid) with the shadowed `mid`: the hit index on a hit, 0 on a miss. -/
def binarySearch (re : List KRule) (s : Int) (low hi : Nat) : Nat × Nat :=
  if h : low < hi then
    let mid := (low + hi - 1) / 2
    let ms := (re.getD mid default).sal
    if ms == s then (low, mid)
    else if ms < s then binarySearch re s low mid
    else binarySearch re s (mid + 1) hi
  else (low, 0)
termination_by hi - low
decreasing_by all_goals omega

def insertPos (re : List KRule) (s : Int) : Nat :=
  let (low, mid) := binarySearch re s 0 re.length
  if mid == 0 then low else mid

def insertAt (l : List KRule) (p : Nat) (v : KRule) : List KRule := l.take p ++ v :: l.drop p

def setEntity (es : List KRule) (v : KRule) : List KRule :=
  if es.any (fun e => e.name == v.name) then es.map (fun e => if e.name == v.name then v else e) else es ++ [v]

/-- One iteration of the merge loop.  State: (newRuleEntities, newSortRules, live index map). -/
def mergeOne (st : List KRule × List KRule × List (String × Nat)) (v : KRule) :
    List KRule × List KRule × List (String × Nat) :=
  let (es, srt, ix) := st
  match es.find? (fun e => e.name == v.name) with
  | some vm =>
    let i := lookupIdx ix v.name
    if v.sal == vm.sal then
      (setEntity es v, srt.set i v, ix)
    else
      let del := srt.eraseIdx i
      let ins := insertAt del (insertPos del v.sal) v
      (setEntity es v, ins, indexOf ins)
  | none =>
    let ins := insertAt srt (insertPos srt v.sal) v
    (setEntity es v, ins, indexOf ins)

/-- Incremental build: `order` = the newly parsed rules in map iteration order. -/
def buildIncr (kc : KC) (order : List KRule) : KC :=
  let (es, srt, ix) := order.foldl mergeOne (kc.entities, kc.sort, kc.index)
  ⟨es, srt, ix⟩

/-- RemoveRules: `perm` reorders the surviving entities into the iteration order of the new map. -/
def removeRules (kc : KC) (names : List String) (perm : List KRule → List KRule := id) : KC :=
  let es := kc.entities.filter (fun e => !names.contains e.name)
  let s := sortDesc (perm es)
  ⟨es, s, indexOf s⟩

end GV.KC
