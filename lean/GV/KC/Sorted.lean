/-
  Sorted (non-increasing salience) lists: binary-search insertion keeps them sorted.
-/
import GV.KC.Model
namespace GV.KC

def Sorted (l : List KRule) : Prop := l.Pairwise (fun a b => a.sal ≥ b.sal)

theorem sorted_split (l : List KRule) (h : Sorted l) (m : Nat) :
    ∀ a ∈ l.take m, ∀ b ∈ l.drop m, a.sal ≥ b.sal := by
  have : Sorted (l.take m ++ l.drop m) := by rw [List.take_append_drop]; exact h
  exact (List.pairwise_append.mp this).2.2

theorem sorted_take_ge (l : List KRule) (h : Sorted l) (m : Nat) (hm : m < l.length) :
    ∀ a ∈ l.take (m + 1), a.sal ≥ l[m].sal := by
  intro a ha
  rw [List.take_succ_eq_append_getElem hm] at ha
  rcases List.mem_append.mp ha with ha | ha
  · have := sorted_split l h m a ha l[m] (by rw [List.drop_eq_getElem_cons hm]; exact List.mem_cons_self)
    exact this
  · simp at ha; subst ha; exact Int.le_refl _

theorem sorted_drop_le (l : List KRule) (h : Sorted l) (m : Nat) (hm : m < l.length) :
    ∀ b ∈ l.drop m, l[m].sal ≥ b.sal := by
  intro b hb
  rw [List.drop_eq_getElem_cons hm] at hb
  rcases List.mem_cons.mp hb with hb | hb
  · subst hb; exact Int.le_refl _
  · have hx := sorted_split l h (m + 1) l[m] (by rw [List.take_succ_eq_append_getElem hm]; exact List.mem_append_right _ (List.mem_singleton.mpr rfl)) b hb
    exact hx

theorem getD_eq (l : List KRule) (m : Nat) (hm : m < l.length) : l.getD m default = l[m] := by
  simp [List.getD, hm]

/-- What the binary search guarantees about the position it yields. -/
theorem binarySearch_spec (re : List KRule) (s : Int) (hs : Sorted re) (low hi : Nat)
    (hlo : low ≤ hi) (hhi : hi ≤ re.length)
    (h1 : ∀ a ∈ re.take low, a.sal > s) (h2 : ∀ b ∈ re.drop hi, b.sal < s) :
    let r := binarySearch re s low hi
    let p := if r.2 == 0 then r.1 else r.2
    p ≤ re.length ∧ (∀ a ∈ re.take p, a.sal ≥ s) ∧ (∀ b ∈ re.drop p, s ≥ b.sal) := by
  induction hd : hi - low using Nat.strongRecOn generalizing low hi with
  | _ d ih =>
    unfold binarySearch
    by_cases hlt : low < hi
    · simp only [hlt, dite_true]
      have hmid_lt : (low + hi - 1) / 2 < hi := by omega
      have hmid_ge : low ≤ (low + hi - 1) / 2 := by omega
      have hmlen : (low + hi - 1) / 2 < re.length := by omega
      rw [getD_eq re _ hmlen]
      generalize hm : (low + hi - 1) / 2 = mid at *
      by_cases heq : (re[mid].sal == s) = true
      · -- hit
        simp only [heq, ite_true]
        have hsal : re[mid].sal = s := by simpa using heq
        by_cases hz : mid = 0
        · have hl0 : low = 0 := by omega
          subst hz; subst hl0
          simp only [beq_self_eq_true, ite_true]
          refine ⟨Nat.zero_le _, by simp, ?_⟩
          intro b hb
          have := sorted_drop_le re hs 0 hmlen b hb
          omega
        · have : (mid == 0) = false := by simpa using hz
          simp only [this, Bool.false_eq_true, ite_false]
          refine ⟨by omega, ?_, ?_⟩
          · intro a ha
            have hsub : a ∈ re.take (mid + 1) := by
              have : (re.take mid).Sublist (re.take (mid + 1)) := by
                rw [List.take_succ_eq_append_getElem hmlen]; exact List.sublist_append_left _ _
              exact this.subset ha
            have := sorted_take_ge re hs mid hmlen a hsub
            omega
          · intro b hb
            have := sorted_drop_le re hs mid hmlen b hb
            omega
      · simp only [heq, Bool.false_eq_true, ite_false]
        by_cases hless : re[mid].sal < s
        · simp only [hless, ite_true]
          apply ih (mid - low) (by omega) low mid hmid_ge (by omega) h1 _ rfl
          intro b hb
          have := sorted_drop_le re hs mid hmlen b hb
          omega
        · simp only [hless, ite_false]
          have hne : re[mid].sal ≠ s := by simpa using heq
          apply ih (hi - (mid + 1)) (by omega) (mid + 1) hi (by omega) hhi _ h2 rfl
          intro a ha
          have := sorted_take_ge re hs mid hmlen a ha
          omega
    · simp only [hlt, dite_false, beq_self_eq_true, ite_true]
      have : low = hi := by omega
      subst this
      exact ⟨hhi, fun a ha => Int.le_of_lt (h1 a ha), fun b hb => Int.le_of_lt (h2 b hb)⟩

theorem insertPos_spec (re : List KRule) (s : Int) (hs : Sorted re) :
    insertPos re s ≤ re.length ∧ (∀ a ∈ re.take (insertPos re s), a.sal ≥ s) ∧
      (∀ b ∈ re.drop (insertPos re s), s ≥ b.sal) := by
  have := binarySearch_spec re s hs 0 re.length (Nat.zero_le _) (Nat.le_refl _) (by simp) (by simp)
  simpa [insertPos] using this

/-- Inserting at the position found by the binary search keeps the list sorted. -/
theorem insert_sorted (re : List KRule) (v : KRule) (hs : Sorted re) :
    Sorted (insertAt re (insertPos re v.sal) v) := by
  obtain ⟨_, h1, h2⟩ := insertPos_spec re v.sal hs
  unfold insertAt Sorted
  rw [List.pairwise_append]
  refine ⟨hs.sublist (List.take_sublist _ _), ?_, ?_⟩
  · rw [List.pairwise_cons]
    exact ⟨fun b hb => h2 b hb, hs.sublist (List.drop_sublist _ _)⟩
  · intro a ha b hb
    rcases List.mem_cons.mp hb with hb | hb
    · subst hb; exact h1 a ha
    · exact sorted_split re hs _ a ha b hb

theorem insertAt_perm (l : List KRule) (p : Nat) (v : KRule) : (insertAt l p v).Perm (v :: l) := by
  unfold insertAt
  exact (List.perm_middle).trans (by rw [List.take_append_drop])

theorem sortDesc_sorted (l : List KRule) : Sorted (sortDesc l) := by
  have h := List.pairwise_mergeSort (le := fun (a b : KRule) => decide (a.sal ≥ b.sal))
    (by intro a b c; simp; omega) (by intro a b; simp; omega) l
  simpa [sortDesc, Sorted] using h

theorem sortDesc_perm (l : List KRule) : (sortDesc l).Perm l := List.mergeSort_perm _ _

end GV.KC
