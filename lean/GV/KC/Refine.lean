/-
  C08: every operation preserves the invariant and refines the abstract rule-set operation;
  hence any finite history denotes what it says (`history_refines`).
-/
import GV.KC.Inv
namespace GV.KC

/-- Abstract rule set: name ↦ installed rule (salience, description/body version). -/
abbrev RuleSet := String → Option KRule

def Spec.full (order : List KRule) : RuleSet := get order
def Spec.incr (f : RuleSet) (order : List KRule) : RuleSet := fun n => (get order n).or (f n)
def Spec.remove (f : RuleSet) (ns : List String) : RuleSet := fun n => if ns.contains n then none else f n

def abs (kc : KC) : RuleSet := get kc.entities

theorem inv3_of_inv (kc : KC) (h : Inv kc) : Inv3 (kc.entities, kc.sort, kc.index) :=
  ⟨h.uniqE, h.uniqS, h.same, h.sorted, h.idx⟩

theorem foldl_mergeOne (order : List KRule) (st : List KRule × List KRule × List (String × Nat)) (h : Inv3 st) :
    Inv3 (order.foldl mergeOne st) ∧ (order.foldl mergeOne st).1 = order.foldl setEntity st.1 := by
  induction order generalizing st with
  | nil => exact ⟨h, rfl⟩
  | cons v vs ih =>
    obtain ⟨h1, h2⟩ := mergeOne_inv st v h
    obtain ⟨h3, h4⟩ := ih _ h1
    exact ⟨h3, by simp only [List.foldl_cons]; rw [h4, h2]⟩

/-- Incremental build preserves the invariant, for every iteration order of the new rules. -/
theorem buildIncr_inv (kc : KC) (order : List KRule) (h : Inv kc) : Inv (buildIncr kc order) := by
  obtain ⟨h3, _⟩ := foldl_mergeOne order _ (inv3_of_inv kc h)
  unfold buildIncr
  generalize order.foldl mergeOne (kc.entities, kc.sort, kc.index) = r at h3
  obtain ⟨es, srt, ix⟩ := r
  exact ⟨h3.uniqE, h3.uniqS, h3.same, h3.sorted, h3.idx⟩

theorem get_foldl_setEntity (order es : List KRule) (n : String) (hn : NodupNames order) :
    get (order.foldl setEntity es) n = (get order n).or (get es n) := by
  induction order generalizing es with
  | nil => simp [get]
  | cons v vs ih =>
    have hvs : NodupNames vs := by
      unfold NodupNames names at hn ⊢; simp only [List.map_cons, List.nodup_cons] at hn; exact hn.2
    have hv : ∀ r ∈ vs, r.name ≠ v.name := by
      intro r hr heq
      unfold NodupNames names at hn; simp only [List.map_cons, List.nodup_cons] at hn
      exact hn.1 (List.mem_map.mpr ⟨r, hr, heq⟩)
    simp only [List.foldl_cons]
    rw [ih _ hvs, get_setEntity]
    unfold get
    simp only [List.find?_cons]
    by_cases hvn : (v.name == n) = true
    · have : vs.find? (fun r => r.name == n) = none := by
        apply List.find?_eq_none.mpr
        intro x hx
        have h1 : v.name = n := by simpa using hvn
        have := hv x hx
        simp; rw [← h1]; exact this
      simp [hvn, this]
    · simp [hvn]

theorem buildIncr_abs (kc : KC) (order : List KRule) (h : Inv kc) (hn : NodupNames order) :
    abs (buildIncr kc order) = Spec.incr (abs kc) order := by
  obtain ⟨_, h4⟩ := foldl_mergeOne order _ (inv3_of_inv kc h)
  funext n
  unfold abs Spec.incr buildIncr
  generalize hr : order.foldl mergeOne (kc.entities, kc.sort, kc.index) = r at h4
  obtain ⟨es, srt, ix⟩ := r
  simp only at h4 ⊢
  rw [h4]
  exact get_foldl_setEntity order kc.entities n hn

theorem nodup_perm {l₁ l₂ : List KRule} (h : l₁.Perm l₂) (hn : NodupNames l₂) : NodupNames l₁ := by
  unfold NodupNames names at *
  exact ((h.map _).nodup_iff).mpr hn

/-- Full build. -/
theorem buildFull_inv (order : List KRule) (hn : NodupNames order) : Inv (buildFull order) :=
  ⟨hn, nodup_perm (sortDesc_perm order) hn, fun r => (sortDesc_perm order).mem_iff, sortDesc_sorted order, rfl⟩

theorem buildFull_abs (order : List KRule) : abs (buildFull order) = Spec.full order := rfl

/-- Removal, for every iteration order `perm` of the surviving rules. -/
theorem removeRules_inv (kc : KC) (ns : List String) (perm : List KRule → List KRule)
    (hp : ∀ l, (perm l).Perm l) (h : Inv kc) : Inv (removeRules kc ns perm) := by
  have hE : NodupNames (kc.entities.filter (fun e => !ns.contains e.name)) :=
    nodup_sublist (List.filter_sublist) h.uniqE
  refine ⟨hE, nodup_perm ((sortDesc_perm _).trans (hp _)) hE, ?_, sortDesc_sorted _, rfl⟩
  intro r
  exact ((sortDesc_perm _).trans (hp _)).mem_iff

theorem removeRules_abs (kc : KC) (ns : List String) (perm : List KRule → List KRule) :
    abs (removeRules kc ns perm) = Spec.remove (abs kc) ns := by
  funext n
  unfold abs removeRules Spec.remove get
  simp only
  induction kc.entities with
  | nil => simp
  | cons e es ih =>
    simp only [List.filter_cons, List.find?_cons]
    by_cases hc : ns.contains e.name = true
    · simp only [hc, Bool.not_true, Bool.false_eq_true, ite_false]
      rw [ih]
      by_cases hen : (e.name == n) = true
      · have : e.name = n := by simpa using hen
        subst this
        have hm : e.name ∈ ns := by simpa using hc
        simp [hm]
      · simp [hen]
    · have hc' : ns.contains e.name = false := by simpa using hc
      simp only [hc', Bool.not_false, ite_true, List.find?_cons]
      by_cases hen : (e.name == n) = true
      · have : e.name = n := by simpa using hen
        subst this
        have hm : ¬ e.name ∈ ns := by simpa using hc'
        simp [hm]
      · simp only [hen, Bool.false_eq_true, ite_false]; exact ih

/-! ### histories -/

inductive Op
  | full (order : List KRule)
  | incr (order : List KRule)
  | remove (ns : List String) (perm : List KRule → List KRule)

/-- A well-formed operation: one compile unit never defines a name twice (the listener rejects
    such texts, C10), and `perm` only reorders. -/
def Op.WF : Op → Prop
  | .full o => NodupNames o
  | .incr o => NodupNames o
  | .remove _ p => ∀ l, (p l).Perm l

def applyOp (kc : KC) : Op → KC
  | .full o => buildFull o
  | .incr o => buildIncr kc o
  | .remove ns p => removeRules kc ns p

def Spec.applyOp (f : RuleSet) : Op → RuleSet
  | .full o => Spec.full o
  | .incr o => Spec.incr f o
  | .remove ns _ => Spec.remove f ns

theorem empty_inv : Inv KC.empty := ⟨by simp [NodupNames, names, KC.empty], by simp [NodupNames, names, KC.empty],
  by simp [KC.empty], by simp [Sorted, KC.empty], rfl⟩

theorem applyOp_inv (kc : KC) (op : Op) (h : Inv kc) (hw : op.WF) : Inv (applyOp kc op) := by
  cases op with
  | full o => exact buildFull_inv o hw
  | incr o => exact buildIncr_inv kc o h
  | remove ns p => exact removeRules_inv kc ns p hw h

theorem applyOp_abs (kc : KC) (op : Op) (h : Inv kc) (hw : op.WF) :
    abs (applyOp kc op) = Spec.applyOp (abs kc) op := by
  cases op with
  | full o => rfl
  | incr o => exact buildIncr_abs kc o h hw
  | remove ns p => exact removeRules_abs kc ns p

/-- **C08.** After any finite sequence of full builds, incremental builds and removals the
    container satisfies its invariant (unique names, sorted slice = the installed set in
    non-increasing salience order, index map = positions) and denotes exactly what the
    sequence denotes. -/
theorem history_refines (ops : List Op) (hw : ∀ op ∈ ops, op.WF) :
    Inv (ops.foldl applyOp KC.empty) ∧
    abs (ops.foldl applyOp KC.empty) = ops.foldl Spec.applyOp (fun _ => none) := by
  suffices ∀ kc f, Inv kc → abs kc = f →
      Inv (ops.foldl applyOp kc) ∧ abs (ops.foldl applyOp kc) = ops.foldl Spec.applyOp f from
    this KC.empty _ empty_inv (by funext n; simp [abs, get, KC.empty])
  induction ops with
  | nil => intro kc f h1 h2; exact ⟨h1, h2⟩
  | cons op ops ih =>
    intro kc f h1 h2
    have hwop := hw op (by simp)
    simp only [List.foldl_cons]
    apply ih (fun o ho => hw o (by simp [ho])) _ _ (applyOp_inv kc op h1 hwop)
    rw [applyOp_abs kc op h1 hwop, h2]

/-- Existence queries agree with the set. -/
theorem exists_agrees (kc : KC) (h : Inv kc) (n : String) :
    (abs kc n).isSome = kc.sort.any (fun r => r.name == n) := by
  unfold abs get
  cases hf : kc.entities.find? (fun r => r.name == n) with
  | some r =>
    have hr := List.mem_of_find?_eq_some hf
    have hn := List.find?_some hf
    simp only [Option.isSome_some]
    exact (List.any_eq_true.mpr ⟨r, (h.same r).mpr hr, hn⟩).symm
  | none =>
    simp only [Option.isSome_none]
    symm
    apply List.any_eq_false.mpr
    intro x hx
    have := List.find?_eq_none.mp hf x ((h.same x).mp hx)
    simpa using this

end GV.KC
