/-
  C08: invariant of the rule container and refinement to the abstract rule set.
-/
import GV.KC.Sorted
namespace GV.KC

def names (l : List KRule) : List String := l.map (·.name)
def NodupNames (l : List KRule) : Prop := (names l).Nodup

/-- Abstraction: the rule installed under a name. -/
def get (l : List KRule) (n : String) : Option KRule := l.find? (fun r => r.name == n)

structure Inv (kc : KC) : Prop where
  uniqE  : NodupNames kc.entities
  uniqS  : NodupNames kc.sort
  same   : ∀ r, r ∈ kc.sort ↔ r ∈ kc.entities
  sorted : Sorted kc.sort
  idx    : kc.index = indexOf kc.sort

/-! ### setEntity -/

theorem mem_setEntity (es : List KRule) (v r : KRule) :
    r ∈ setEntity es v ↔ r = v ∨ (r ∈ es ∧ r.name ≠ v.name) := by
  unfold setEntity
  by_cases hp : es.any (fun e => e.name == v.name) = true
  · simp only [hp, ite_true, List.mem_map]
    constructor
    · rintro ⟨e, he, heq⟩
      by_cases hn : (e.name == v.name) = true
      · simp [hn] at heq; exact Or.inl heq.symm
      · simp [hn] at heq; subst heq; exact Or.inr ⟨he, by simpa using hn⟩
    · rintro (rfl | ⟨hr, hn⟩)
      · obtain ⟨e, he, hen⟩ := List.any_eq_true.mp hp
        exact ⟨e, he, by simp [hen]⟩
      · exact ⟨r, hr, by simp [hn]⟩
  · have hp' : es.any (fun e => e.name == v.name) = false := by simpa using hp
    simp only [hp', Bool.false_eq_true, ite_false, List.mem_append, List.mem_singleton]
    constructor
    · rintro (hr | rfl)
      · have := List.any_eq_false.mp hp' r hr
        exact Or.inr ⟨hr, by simpa using this⟩
      · exact Or.inl rfl
    · rintro (rfl | ⟨hr, _⟩)
      · exact Or.inr rfl
      · exact Or.inl hr

theorem names_setEntity_present (es : List KRule) (v : KRule) (hp : es.any (fun e => e.name == v.name) = true) :
    names (setEntity es v) = names es := by
  unfold setEntity names
  simp only [hp, ite_true, List.map_map]
  apply List.map_congr_left
  intro e _
  simp only [Function.comp]
  by_cases hn : e.name = v.name
  · simp [hn]
  · simp [hn]

theorem nodup_setEntity (es : List KRule) (v : KRule) (h : NodupNames es) : NodupNames (setEntity es v) := by
  by_cases hp : es.any (fun e => e.name == v.name) = true
  · unfold NodupNames; rw [names_setEntity_present es v hp]; exact h
  · have hp' : es.any (fun e => e.name == v.name) = false := by simpa using hp
    unfold NodupNames names setEntity
    simp only [hp', Bool.false_eq_true, ite_false, List.map_append, List.map_cons, List.map_nil]
    rw [List.nodup_append]
    refine ⟨h, by simp, ?_⟩
    intro a ha b hb
    simp at hb; subst hb
    obtain ⟨e, he, rfl⟩ := List.mem_map.mp ha
    have := List.any_eq_false.mp hp' e he
    simpa using this

theorem get_setEntity (es : List KRule) (v : KRule) (n : String) :
    get (setEntity es v) n = if v.name == n then some v else get es n := by
  unfold get setEntity
  by_cases hp : es.any (fun e => e.name == v.name) = true
  · simp only [hp, ite_true]
    induction es with
    | nil => simp at hp
    | cons e es ih =>
      simp only [List.map_cons, List.find?_cons]
      by_cases hen : (e.name == v.name) = true
      · have hen' : e.name = v.name := by simpa using hen
        simp only [hen, ite_true]
        by_cases hvn : (v.name == n) = true
        · simp [hvn]
        · have : (e.name == n) = false := by rw [hen']; simpa using hvn
          simp only [hvn, this, Bool.false_eq_true, ite_false]
          by_cases hp2 : es.any (fun e => e.name == v.name) = true
          · have := ih hp2; simp only [hvn, Bool.false_eq_true, ite_false] at this; exact this
          · -- no further rule with that name: the map is the identity on the tail
            have hp2' : es.any (fun e => e.name == v.name) = false := by simpa using hp2
            have : es.map (fun e => if (e.name == v.name) = true then v else e) = es := by
              conv => rhs; rw [← List.map_id es]
              apply List.map_congr_left
              intro x hx
              have := List.any_eq_false.mp hp2' x hx
              simp at this; simp [this]
            rw [this]
      · simp only [hen, Bool.false_eq_true, ite_false]
        have hp2 : es.any (fun e => e.name == v.name) = true := by
          simp only [List.any_cons, Bool.or_eq_true] at hp
          rcases hp with h | h
          · exact absurd h hen
          · exact h
        by_cases hn : (e.name == n) = true
        · have hvn : (v.name == n) = false := by
            have h1 : e.name = n := by simpa using hn
            have h2 : e.name ≠ v.name := by simpa using hen
            simp; intro h3; exact h2 (h1.trans h3.symm)
          simp [hn, hvn]
        · simp only [hn, Bool.false_eq_true, ite_false]; exact ih hp2
  · have hp' : es.any (fun e => e.name == v.name) = false := by simpa using hp
    simp only [hp', Bool.false_eq_true, ite_false, List.find?_append, List.find?_cons, List.find?_nil]
    by_cases hvn : (v.name == n) = true
    · have hnone : es.find? (fun r => r.name == n) = none := by
        apply List.find?_eq_none.mpr
        intro x hx
        have := List.any_eq_false.mp hp' x hx
        have h1 : v.name = n := by simpa using hvn
        rw [← h1]; simpa using this
      simp [hvn, hnone]
    · simp only [hvn, Bool.false_eq_true, ite_false]
      cases es.find? (fun r => r.name == n) <;> simp

/-! ### index map -/

theorem lookupIdx_zip (l : List KRule) (n : String) (k : Nat) (h : ∃ r ∈ l, r.name = n) :
    lookupIdx ((l.zipIdx k).map (fun p => (p.1.name, p.2))) n = l.findIdx (fun r => r.name == n) + k := by
  induction l generalizing k with
  | nil => simp at h
  | cons a l ih =>
    simp only [List.zipIdx_cons, List.map_cons, lookupIdx, List.find?_cons, List.findIdx_cons]
    by_cases ha : (a.name == n) = true
    · simp [ha]
    · simp only [ha, Bool.false_eq_true, ite_false, cond_false]
      have h' : ∃ r ∈ l, r.name = n := by
        obtain ⟨r, hr, hn⟩ := h
        rcases List.mem_cons.mp hr with rfl | hr
        · exact absurd (by simpa using hn) ha
        · exact ⟨r, hr, hn⟩
      have := ih (k + 1) h'
      simp only [lookupIdx] at this
      rw [this]; omega

theorem lookupIdx_indexOf (l : List KRule) (n : String) (h : ∃ r ∈ l, r.name = n) :
    lookupIdx (indexOf l) n = l.findIdx (fun r => r.name == n) := by
  have := lookupIdx_zip l n 0 h
  simpa [indexOf] using this

theorem findIdx_spec (l : List KRule) (n : String) (h : ∃ r ∈ l, r.name = n) :
    ∃ hlt : l.findIdx (fun r => r.name == n) < l.length, (l[l.findIdx (fun r => r.name == n)]).name = n := by
  have hlt : l.findIdx (fun r => r.name == n) < l.length :=
    List.findIdx_lt_length_of_exists (by obtain ⟨r, hr, hn⟩ := h; exact ⟨r, hr, by simpa using hn⟩)
  refine ⟨hlt, ?_⟩
  have := List.findIdx_getElem (p := fun r : KRule => r.name == n) (xs := l) (w := hlt)
  simpa using this

/-- With unique names, erasing the position of a name removes exactly the rule of that name. -/
theorem mem_eraseIdx_name (l : List KRule) (hn : NodupNames l) (i : Nat) (hi : i < l.length) (r : KRule) :
    r ∈ l.eraseIdx i ↔ r ∈ l ∧ r.name ≠ l[i].name := by
  rw [List.mem_eraseIdx_iff_getElem]
  have hpw : (names l).Pairwise (· ≠ ·) := hn
  constructor
  · rintro ⟨j, hj, hne, rfl⟩
    refine ⟨List.getElem_mem hj, ?_⟩
    have := List.pairwise_iff_getElem.mp hpw
    rcases Nat.lt_or_gt_of_ne hne with hlt | hgt
    · have := this j i (by simpa [names] using hj) (by simpa [names] using hi) hlt
      simpa [names] using this
    · have := this i j (by simpa [names] using hi) (by simpa [names] using hj) hgt
      have h2 : l[i].name ≠ l[j].name := by simpa [names] using this
      exact fun h => h2 h.symm
  · rintro ⟨hr, hne⟩
    obtain ⟨j, hj, rfl⟩ := List.getElem_of_mem hr
    exact ⟨j, hj, by intro h; subst h; exact hne rfl, rfl⟩

theorem nodup_sublist {l₁ l₂ : List KRule} (h : l₁.Sublist l₂) (hn : NodupNames l₂) : NodupNames l₁ :=
  List.Pairwise.sublist (h.map _) hn

theorem nodup_insertAt (l : List KRule) (p : Nat) (v : KRule) (hn : NodupNames l)
    (hv : ∀ r ∈ l, r.name ≠ v.name) : NodupNames (insertAt l p v) := by
  have hp : (names (insertAt l p v)).Perm (v.name :: names l) := (insertAt_perm l p v).map _
  unfold NodupNames
  rw [hp.nodup_iff, List.nodup_cons]
  refine ⟨?_, hn⟩
  intro hmem
  obtain ⟨r, hr, hrn⟩ := List.mem_map.mp hmem
  exact hv r hr hrn

theorem mem_insertAt (l : List KRule) (p : Nat) (v r : KRule) : r ∈ insertAt l p v ↔ r = v ∨ r ∈ l := by
  rw [(insertAt_perm l p v).mem_iff]; simp

theorem set_eq_insertAt (l : List KRule) (i : Nat) (v : KRule) (hi : i < l.length) :
    l.set i v = insertAt (l.eraseIdx i) i v := by
  unfold insertAt
  rw [List.set_eq_take_append_cons_drop, if_pos hi, List.eraseIdx_eq_take_drop_succ]
  congr 1
  · rw [List.take_append_of_le_length (by simp; omega), List.take_take]; simp
  · congr 1
    rw [List.drop_append_of_le_length (by simp; omega)]
    simp [List.drop_take]

theorem eq_of_name (l : List KRule) (hn : NodupNames l) (a b : KRule) (ha : a ∈ l) (hb : b ∈ l)
    (h : a.name = b.name) : a = b := by
  induction l with
  | nil => simp at ha
  | cons x l ih =>
    have hx : NodupNames l := by
      unfold NodupNames names at hn ⊢; simp only [List.map_cons, List.nodup_cons] at hn; exact hn.2
    have hnot : ∀ r ∈ l, r.name ≠ x.name := by
      intro r hr heq
      unfold NodupNames names at hn; simp only [List.map_cons, List.nodup_cons] at hn
      exact hn.1 (List.mem_map.mpr ⟨r, hr, heq⟩)
    rcases List.mem_cons.mp ha with rfl | ha' <;> rcases List.mem_cons.mp hb with rfl | hb'
    · rfl
    · exact absurd h.symm (hnot b hb')
    · exact absurd h (hnot a ha')
    · exact ih hx ha' hb'

theorem get_eq_some (l : List KRule) (hn : NodupNames l) (r : KRule) (n : String) :
    get l n = some r ↔ r ∈ l ∧ r.name = n := by
  constructor
  · intro h
    exact ⟨List.mem_of_find?_eq_some h, by simpa using List.find?_some h⟩
  · rintro ⟨hr, rfl⟩
    cases hg : get l r.name with
    | none =>
      have := List.find?_eq_none.mp hg r hr
      simp at this
    | some x =>
      have hx := List.mem_of_find?_eq_some hg
      have hxn : x.name = r.name := by simpa using List.find?_some hg
      rw [eq_of_name l hn x r hx hr hxn]

/-- Invariant of the merge loop's working state (entities, sorted slice, live index map). -/
structure Inv3 (st : List KRule × List KRule × List (String × Nat)) : Prop where
  uniqE  : NodupNames st.1
  uniqS  : NodupNames st.2.1
  same   : ∀ r, r ∈ st.2.1 ↔ r ∈ st.1
  sorted : Sorted st.2.1
  idx    : st.2.2 = indexOf st.2.1

theorem sorted_eraseIdx (l : List KRule) (h : Sorted l) (i : Nat) : Sorted (l.eraseIdx i) :=
  h.sublist (List.eraseIdx_sublist l i)

theorem sorted_insertAt_same (l : List KRule) (hs : Sorted l) (i : Nat) (hi : i < l.length) (v : KRule)
    (hv : v.sal = l[i].sal) : Sorted (insertAt (l.eraseIdx i) i v) := by
  -- same salience at the same position: the salience sequence is unchanged
  rw [← set_eq_insertAt l i v hi]
  unfold Sorted at *
  have hmap : (l.set i v).map (·.sal) = l.map (·.sal) := by
    rw [List.map_set]
    apply List.ext_getElem (by simp)
    intro j h1 h2
    simp only [List.getElem_set, List.getElem_map]
    split
    · rename_i hij; subst hij; exact hv
    · rfl
  have h1 : (l.map (·.sal)).Pairwise (· ≥ ·) := List.pairwise_map.mpr hs
  rw [← hmap] at h1
  exact List.pairwise_map.mp h1

theorem mergeOne_inv (st : List KRule × List KRule × List (String × Nat)) (v : KRule) (h : Inv3 st) :
    Inv3 (mergeOne st v) ∧ (mergeOne st v).1 = setEntity st.1 v := by
  obtain ⟨es, srt, ix⟩ := st
  obtain ⟨hE, hS, hsame, hsort, hidx⟩ := h
  simp only at hE hS hsame hsort hidx
  unfold mergeOne
  simp only []
  cases hf : es.find? (fun e => e.name == v.name) with
  | none =>
    simp only []
    have habs : ∀ r ∈ es, r.name ≠ v.name := by
      intro r hr; have := List.find?_eq_none.mp hf r hr; simpa using this
    have habsS : ∀ r ∈ srt, r.name ≠ v.name := fun r hr => habs r ((hsame r).mp hr)
    refine ⟨⟨nodup_setEntity es v hE, nodup_insertAt _ _ _ hS habsS, ?_, insert_sorted srt v hsort, rfl⟩, trivial⟩
    intro r
    simp only [mem_insertAt, mem_setEntity, hsame]
    constructor
    · rintro (rfl | hr)
      · exact Or.inl rfl
      · exact Or.inr ⟨hr, habs r hr⟩
    · rintro (rfl | ⟨hr, _⟩)
      · exact Or.inl rfl
      · exact Or.inr hr
  | some vm =>
    simp only []
    have hvm : vm ∈ es := List.mem_of_find?_eq_some hf
    have hvmn : vm.name = v.name := by simpa using List.find?_some hf
    have hex : ∃ r ∈ srt, r.name = v.name := ⟨vm, (hsame vm).mpr hvm, hvmn⟩
    have hi : lookupIdx ix v.name = srt.findIdx (fun r => r.name == v.name) := by
      rw [hidx]; exact lookupIdx_indexOf srt v.name hex
    obtain ⟨hlt, hname⟩ := findIdx_spec srt v.name hex
    rw [hi]
    generalize srt.findIdx (fun r => r.name == v.name) = i at hlt hname
    have hsi : srt[i] = vm :=
      eq_of_name es hE _ _ ((hsame _).mp (List.getElem_mem hlt)) hvm (hname.trans hvmn.symm)
    have hmemdel : ∀ r, r ∈ srt.eraseIdx i ↔ r ∈ es ∧ r.name ≠ v.name := by
      intro r
      rw [mem_eraseIdx_name srt hS i hlt r, hname, hsame]
    have hdelN : NodupNames (srt.eraseIdx i) := nodup_sublist (List.eraseIdx_sublist _ _) hS
    have hdelabs : ∀ r ∈ srt.eraseIdx i, r.name ≠ v.name := fun r hr => ((hmemdel r).mp hr).2
    by_cases hsal : (v.sal == vm.sal) = true
    · simp only [hsal, ite_true]
      have hsal' : v.sal = srt[i].sal := by rw [hsi]; simpa using hsal
      rw [set_eq_insertAt srt i v hlt]
      refine ⟨⟨nodup_setEntity es v hE, nodup_insertAt _ _ _ hdelN hdelabs, ?_,
        sorted_insertAt_same srt hsort i hlt v hsal', ?_⟩, trivial⟩
      · intro r; simp only [mem_insertAt, mem_setEntity, hmemdel]
      · -- the index map is not rebuilt: positions and names are unchanged
        simp only
        rw [hidx, ← set_eq_insertAt srt i v hlt]
        unfold indexOf
        apply List.ext_getElem (by simp)
        intro j h1 h2
        simp only [List.getElem_map, List.getElem_zipIdx, List.getElem_set, Nat.zero_add]
        split
        · rename_i hij; subst hij; simp [hname]
        · rfl
    · simp only [hsal, Bool.false_eq_true, ite_false]
      refine ⟨⟨nodup_setEntity es v hE, nodup_insertAt _ _ _ hdelN hdelabs, ?_,
        insert_sorted _ v (sorted_eraseIdx srt hsort i), rfl⟩, trivial⟩
      intro r; simp only [mem_insertAt, mem_setEntity, hmemdel]

end GV.KC
