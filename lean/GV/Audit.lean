/-
  Axioms audit: `#audit_ns NS` prints, for every theorem whose name starts with NS, one line
  `AUDIT {"name": .., "axioms": [..]}`.  The check script counts these as obligations and
  rejects any axiom beyond propext / Classical.choice / Quot.sound (a `sorry` shows up as sorryAx).
-/
import Lean
open Lean Elab Command

elab "#audit_ns " ns:ident : command => do
  let env ← getEnv
  let nsName := ns.getId
  let mut names : Array Name := #[]
  for (n, ci) in env.constants.toList do
    if nsName.isPrefixOf n && !n.isInternalDetail then
      match ci with
      | .thmInfo _ => names := names.push n
      | _ => pure ()
  let sorted := names.qsort (fun a b => a.toString < b.toString)
  for n in sorted do
    let ax ← liftCoreM (Lean.collectAxioms n)
    let axs := ax.toList.map (fun a => s!"\"{a}\"")
    IO.println s!"AUDIT \{\"name\": \"{n}\", \"axioms\": [{", ".intercalate axs}]}"
