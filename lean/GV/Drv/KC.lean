import GV.Drv.Util
import GV.KC.Model
namespace GV.Drv
open Lean GV.KC

def parseKRule (j : Json) : KRule := { name := jStr j "name", sal := jInt j "sal", ver := (jInt j "ver").toNat }

def kruleJson (r : KRule) : Json :=
  Json.mkObj [("name", Json.str r.name), ("sal", Json.num (JsonNumber.fromInt r.sal)), ("ver", Json.num (JsonNumber.fromNat r.ver))]

def sortByName (l : List KRule) : List KRule := (l.toArray.qsort (fun a b => a.name < b.name)).toList

def nodupNames (l : List KRule) : Bool := (l.map (·.name)).eraseDups.length == l.length

/-- Replay a history on the container model (tie T2).  The spec state is the abstract map. -/
def kcCase (j : Json) : Json :=
  let ops := jArr j "ops"
  let step := fun (acc : KC × List KRule × List Json) (op : Json) =>
    let (kc, spec, outs) := acc
    let kind := jStr op "kind"
    let rules := (jArr op "rules").map parseKRule
    let nms := jStrList op "names"
    let bad := jStr op "bad"
    let isBad := bad != "" || (kind != "remove" && !nodupNames rules)
    let kc' := if isBad then kc else
      match kind with
      | "full" => buildFull rules
      | "incr" => buildIncr kc rules
      | _ => removeRules kc nms
    -- abstract rule set, as an association list sorted by name
    let spec' := if isBad then spec else
      match kind with
      | "full" => rules
      | "incr" => rules ++ spec.filter (fun r => !(rules.any (fun x => x.name == r.name)))
      | _ => spec.filter (fun r => !nms.contains r.name)
    let out := Json.mkObj [
      ("err", Json.bool isBad),
      ("entities", Json.arr ((sortByName kc'.entities).map kruleJson).toArray),
      ("sort", Json.arr (kc'.sort.map kruleJson).toArray),
      ("index", Json.arr (((kc'.index.toArray.qsort (fun a b => a.1 < b.1)).toList).map
          (fun p => Json.arr #[Json.str p.1, Json.num (JsonNumber.fromNat p.2)])).toArray),
      ("spec", Json.arr ((sortByName spec').map kruleJson).toArray)]
    (kc', spec', outs ++ [out])
  let (_, _, outs) := ops.foldl step (KC.empty, [], [])
  Json.mkObj [("i", jObj j "i"), ("steps", Json.arr outs.toArray)]

end GV.Drv
