import GV.Drv.Util
import GV.Orch.Spec
import GV.Orch.Accept
import GV.Generated.Orch
namespace GV.Drv
open Lean GV.Orch

def parseRule (j : Json) : Rule × Outcome :=
  ({ name := jStr j "name", sal := jInt j "sal" },
   { flag := jBool j "flag", val := optInt (jObj j "val"), fails := jBool j "fails", stop := jBool j "stop" })

def parsePairs (j : Json) : List (String × Option Int) :=
  (arrItems j).map (fun p => match arrItems p with
    | [a, b] => (asStr a, optInt b)
    | _ => ("", none))

def parseEv (j : Json) : Ev :=
  match arrItems j with
  | [k, n] => if asStr k == "S" then .S (asStr n) else .E (asStr n)
  | _ => .S ""

def mapOfLog (log : List (String × Option Int)) : List (String × Option Int) :=
  let names := (log.map (·.1)).eraseDups
  let m := names.filterMap (fun n => (resultMap log n).map (fun v => (n, v)))
  (m.toArray.qsort (fun a b => a.1 < b.1)).toList

def pairsJson (l : List (String × Option Int)) : Json :=
  Json.arr (l.map (fun p => Json.arr #[Json.str p.1, ofOptInt p.2])).toArray

def stagesJson (s : List (List Rule)) : Json :=
  Json.arr (s.map (fun st => Json.arr (st.map (fun r => Json.str r.name)).toArray)).toArray

def finStr : Fin → String
  | .running => "running" | .retOk => "ok" | .retErr => "err" | .panicked => "panic"

/-- One orchestration case: run the generated skeleton (model) and the reference
    semantics (spec) on the configuration, and replay the observed event log. -/
def orchCase (j : Json) : Json :=
  let rs := (jArr j "rules").map parseRule
  let outs := rs
  let out : String → Outcome := fun n => ((outs.find? (fun p => p.1.name == n)).map (·.2)).getD default
  let sortedNames := jStrList j "sorted"
  let sorted := sortedNames.filterMap (fun n => (rs.find? (fun p => p.1.name == n)).map (·.1))
  let prev := match jObj j "prev" with | .null => none | p => some (parsePairs p)
  let cfg : Cfg := {
    rbNil := jBool j "rbNil", sorted := sorted, entities := sorted, out := out, b := jBool j "b",
    n := jInt j "n", m := jInt j "m", names := jStrList j "names",
    dag := (jArr j "dag").map (fun l => (arrItems l).map asStr),
    stop0 := false, prev := prev }
  let mname := jStr j "method"
  let evs := (jArr (jObj j "obs") "events").map parseEv
  match Generated.Orch.all.find? (fun p => p.1 == mname), Method.ofString mname with
  | some (_, sk), some m =>
    let (st, fin) := run sk cfg
    let ex := expect m cfg
    let model := Json.mkObj [
      ("fin", Json.str (finStr fin)),
      ("results", match st.results with | none => Json.null | some l => pairsJson (mapOfLog l)),
      ("stages", stagesJson st.stages),
      ("parOk", Json.bool st.parOk),
      ("accept", Json.bool (acceptsTrace (st.stages.map (·.map (·.name))) evs))]
    let spec := Json.mkObj [
      ("fin", Json.str (if ex.err then "err" else "ok")),
      ("results", pairsJson (mapOfLog ex.results)),
      ("stages", stagesJson ex.stages),
      ("accept", Json.bool (acceptsTrace (ex.stages.map (·.map (·.name))) evs))]
    Json.mkObj [("i", jObj j "i"), ("model", model), ("spec", spec)]
  | _, _ => Json.mkObj [("i", jObj j "i"), ("error", Json.str s!"unknown method {mname}")]

end GV.Drv
