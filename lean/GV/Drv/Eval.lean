import GV.Drv.Util
import GV.Eval.Eval
import GV.Generated.Facts
namespace GV.Drv
open Lean GV.Eval

def parseK (s : String) : K :=
  match s with
  | "int" => .int | "int8" => .int8 | "int16" => .int16 | "int32" => .int32 | "int64" => .int64
  | "uint" => .uint | "uint8" => .uint8 | "uint16" => .uint16 | "uint32" => .uint32 | "uint64" => .uint64
  | "float32" => .float32 | "float64" => .float64 | "string" => .string | "bool" => .bool
  | "ptr" => .ptr | "struct" => .struct | "map" => .map | "slice" => .slice | "array" => .array
  | "func" => .func | "interface" => .iface | _ => .invalid

def kName (k : K) : String := String.ofList k.name

def parseVal (j : Json) : Val :=
  let k := parseK (jStr j "k")
  let v := jStr j "v"
  if k.isSigned then .i k (Int64.ofInt (v.toInt?.getD 0))
  else if k.isUnsigned then .u k (UInt64.ofNat (v.toNat?.getD 0))
  else if k.isFloat then .f k (Float.ofBits (UInt64.ofNat (v.toNat?.getD 0)))
  else match k with
    | .string => .s v
    | .bool => .b (v == "true")
    | .invalid => .nil
    | k => .other k 0

def valJson (v : Val) : Json :=
  match v with
  | .i k x => Json.mkObj [("k", Json.str (kName k)), ("v", Json.str (toString x.toInt))]
  | .u k x => Json.mkObj [("k", Json.str (kName k)), ("v", Json.str (toString x.toNat))]
  | .f k x => Json.mkObj [("k", Json.str (kName k)), ("v", Json.str (toString x.toBits.toNat))]
  | .s x => Json.mkObj [("k", Json.str "string"), ("v", Json.str x)]
  | .b x => Json.mkObj [("k", Json.str "bool"), ("v", Json.str (if x then "true" else "false"))]
  | .nil => Json.mkObj [("k", Json.str "invalid"), ("v", Json.str "")]
  | .other k id => Json.mkObj [("k", Json.str (if id == 4242 then "unspec" else kName k)), ("v", Json.str "")]

def isNull (j : Json) : Bool := match j with | .null => true | _ => false

def natOf (j : Json) (k : String) : Nat := (jStr j k).toNat?.getD 0

def posOf (j : Json) : Pos := ⟨natOf j "LineNum", natOf j "Column"⟩

def parseMapV (j : Json) : MapV :=
  let vk := jStr j "Varkey"
  let sk := jStr j "Strkey"
  let key : Key := if vk != "" then .var vk else if sk != "" then .str sk
    else .int (Int64.ofInt ((jStr j "Intkey").toInt?.getD 0))
  ⟨posOf j, jStr j "Name", key⟩

def parseAOp (pm md : String) : Option AOp :=
  match pm, md with
  | "+", _ => some .add | "-", _ => some .sub | _, "*" => some .mul | _, "/" => some .div | _, _ => none

def parseCOp (s : String) : Option COp :=
  match s with
  | "==" => some .eq | "!=" => some .ne | ">" => some .gt | "<" => some .lt | ">=" => some .ge | "<=" => some .le
  | _ => none

mutual
  partial def parseAtom (j : Json) : Atom :=
    let p := posOf j
    let v := jStr j "Variable"
    if v != "" then .var p v
    else if !isNull (jObj j "Constant") then .const p (parseVal (jObj (jObj j "Constant") "ConstantValue"))
    else if !isNull (jObj j "FunctionCall") then .call p (parseCall .func (jObj j "FunctionCall"))
    else if !isNull (jObj j "MethodCall") then .call p (parseCall .method (jObj j "MethodCall"))
    else if !isNull (jObj j "MapVar") then .mapv p (parseMapV (jObj j "MapVar"))
    else if !isNull (jObj j "ThreeLevelCall") then .call p (parseCall .three (jObj j "ThreeLevelCall"))
    else .empty p

  partial def parseCall (kind : CallKind) (j : Json) : Call :=
    let (name, argsJ) := match kind with
      | .func => (jStr j "FunctionName", jObj j "FunctionArgs")
      | .method => (jStr j "MethodName", jObj j "MethodArgs")
      | .three => (jStr j "ThreeLevel", jObj j "MethodArgs")
    let args : List Json := if isNull argsJ then [] else jArr argsJ "ArgList"
    .mk kind (posOf j) name (args.foldr (fun a acc => Args.cons (parseArg a) acc) Args.nil)

  partial def parseArg (j : Json) : Arg :=
    let v := jStr j "Variable"
    if v != "" then .var v
    else if !isNull (jObj j "Constant") then .const (parseVal (jObj (jObj j "Constant") "ConstantValue"))
    else if !isNull (jObj j "FunctionCall") then .call (parseCall .func (jObj j "FunctionCall"))
    else if !isNull (jObj j "MethodCall") then .call (parseCall .method (jObj j "MethodCall"))
    else if !isNull (jObj j "ThreeLevelCall") then .call (parseCall .three (jObj j "ThreeLevelCall"))
    else if !isNull (jObj j "MapVar") then .mapv (parseMapV (jObj j "MapVar"))
    else if !isNull (jObj j "Expression") then .expr (parseExpr (jObj j "Expression"))
    else .empty

  partial def parseMath (j : Json) : MathE :=
    .mk (posOf j)
      (if isNull (jObj j "ExpressionAtom") then .none else .some (parseAtom (jObj j "ExpressionAtom")))
      (if isNull (jObj j "MathExpressionLeft") then .none else .some (parseMath (jObj j "MathExpressionLeft")))
      (if isNull (jObj j "MathExpressionRight") then .none else .some (parseMath (jObj j "MathExpressionRight")))
      (parseAOp (jStr j "MathPmOperator") (jStr j "MathMdOperator"))

  partial def parseExpr (j : Json) : Expr :=
    .mk (posOf j)
      (if isNull (jObj j "ExpressionLeft") then .none else .some (parseExpr (jObj j "ExpressionLeft")))
      (if isNull (jObj j "ExpressionRight") then .none else .some (parseExpr (jObj j "ExpressionRight")))
      (if isNull (jObj j "ExpressionAtom") then .none else .some (parseAtom (jObj j "ExpressionAtom")))
      (if isNull (jObj j "MathExpression") then .none else .some (parseMath (jObj j "MathExpression")))
      (match jStr j "LogicalOperator" with | "&&" => some .and | "||" => some .or | _ => none)
      (parseCOp (jStr j "ComparisonOperator"))
      (jStr j "NotOperator" == "!")
end

def parseAssign (j : Json) : Assign :=
  { pos := posOf j, var := jStr j "Variable",
    mapv := if isNull (jObj j "MapVar") then none else some (parseMapV (jObj j "MapVar")),
    op := (match jStr j "AssignOperator" with
      | "+=" => .add | "-=" => .sub | "*=" => .mul | "/=" => .div | _ => .set),
    math := if isNull (jObj j "MathExpression") then .none else .some (parseMath (jObj j "MathExpression")),
    expr := if isNull (jObj j "Expression") then .none else .some (parseExpr (jObj j "Expression")) }

mutual
  partial def parseStmt (j : Json) : Stmt :=
    if !isNull (jObj j "IfStmt") then
      let i := jObj j "IfStmt"
      let els : Elifs := if isNull (jObj i "ElseStmt") then .nil else .els (parseOStmts (jObj (jObj i "ElseStmt") "StatementList"))
      let chain := (jArr i "ElseIfStmtList").foldr
        (fun e acc => Elifs.cons (parseExpr (jObj e "Expression")) (parseOStmts (jObj e "StatementList")) acc) els
      .ifs (parseExpr (jObj i "Expression")) (parseOStmts (jObj i "StatementList")) chain
    else if !isNull (jObj j "MethodCall") then .call (parseCall .method (jObj j "MethodCall"))
    else if !isNull (jObj j "FunctionCall") then .call (parseCall .func (jObj j "FunctionCall"))
    else if !isNull (jObj j "Assignment") then .assign (parseAssign (jObj j "Assignment"))
    else if !isNull (jObj j "ConcStatement") then
      let c := jObj j "ConcStatement"
      .conc (((jArr c "Assignments").map (fun a => ConcItem.assign (parseAssign a))) ++
             ((jArr c "FunctionCalls").map (fun a => ConcItem.call (parseCall .func a))) ++
             ((jArr c "MethodCalls").map (fun a => ConcItem.call (parseCall .method a))) ++
             ((jArr c "ThreeLevelCalls").map (fun a => ConcItem.call (parseCall .three a))))
    else if !isNull (jObj j "ThreeLevelCall") then .call (parseCall .three (jObj j "ThreeLevelCall"))
    else if !isNull (jObj j "ForStmt") then
      let f := jObj j "ForStmt"
      let asg := (jArr f "Assignments").map parseAssign
      .for (posOf f) (asg[0]?) (asg[1]?) (parseExpr (jObj f "Expression")) (parseOStmts (jObj f "StatementList"))
    else if !isNull (jObj j "ForRangeStmt") then
      let f := jObj j "ForRangeStmt"
      .forRange (posOf f) (jStr f "keyName") (jStr f "name") (parseOStmts (jObj f "StatementList"))
    else if !isNull (jObj j "BreakStmt") then .brk
    else if !isNull (jObj j "ContinueStmt") then .cont
    else .empty

  partial def parseStmts (j : Json) : Stmts :=
    let list := (jArr j "StatementList").foldr (fun s acc => SList.cons (parseStmt s) acc) SList.nil
    let ret : Ret := if isNull (jObj j "ReturnStatement") then .none
      else if isNull (jObj (jObj j "ReturnStatement") "Expression") then .bare
      else .expr (parseExpr (jObj (jObj j "ReturnStatement") "Expression"))
    .mk list ret

  partial def parseOStmts (j : Json) : OStmts := if isNull j then .none else .some (parseStmts j)
end

def parseFields (j : Json) : List (String × Val) :=
  (arrItems j).filterMap (fun p => match arrItems p with | [n, v] => some (asStr n, parseVal v) | _ => none)

def parseObj (j : Json) : String × Obj :=
  let name := jStr j "name"
  let ptr := jBool j "ptr"
  let o : Obj := match jStr j "type" with
    | "val" => .val (parseVal (jObj j "val"))
    | "pscalar" => .pscalar (parseVal (jObj j "val"))
    | "struct" => .struct ptr ((parseFields (jObj j "fields")).map (fun p => (p.1, Field.scalar p.2)))
    | "map" => .map ptr (parseK (jStr j "keyK")) (parseK (jStr j "elemK"))
        ((jArr j "entries").filterMap (fun p => match arrItems p with | [k, v] => some (parseVal k, parseVal v) | _ => none))
    | "slice" => .slice ptr (jBool j "isArray") (parseK (jStr j "elemK")) ((jArr j "elems").map parseVal)
    | _ => .func (jStr j "func")
  (name, o)

def objJson (p : String × Obj) : Json :=
  let (name, o) := p
  let base : List (String × Json) := [("name", Json.str name)]
  Json.mkObj (base ++ (match o with
    | .val v => [("type", Json.str "val"), ("val", valJson v)]
    | .pscalar v => [("type", Json.str "pscalar"), ("val", valJson v)]
    | .struct ptr fs => [("type", Json.str "struct"), ("ptr", Json.bool ptr),
        ("fields", Json.arr (fs.map (fun f => Json.arr #[Json.str f.1, valJson f.2.asVal])).toArray)]
    | .map ptr _ _ es => [("type", Json.str "map"), ("ptr", Json.bool ptr),
        ("entries", Json.arr (es.map (fun e => Json.arr #[valJson e.1, valJson e.2])).toArray)]
    | .slice ptr _ _ es => [("type", Json.str "slice"), ("ptr", Json.bool ptr),
        ("elems", Json.arr (es.map valJson).toArray)]
    | .func id => [("type", Json.str "func"), ("func", Json.str id)]))

def traceJson (t : List (String × List Val)) : Json :=
  Json.arr (t.map (fun e => Json.mkObj [("fn", Json.str e.1), ("args", Json.arr (e.2.map valJson).toArray)])).toArray

/-- One evaluator case: run every rule of the case, in order, on the dumped AST (model). -/
def evalCase (j : Json) : Json :=
  let env0 : Env := { base := (jArr j "env").map parseObj, vars := [], trace := [] }
  let rs := GV.Generated.Facts.recoverSites
  let P : Params := { maxLoop := GV.Generated.Facts.maxExecuteNum,
                      ruleRecover := rs.contains "RuleEntity.Execute",
                      assignRecover := rs.contains "Assignment.Evaluate",
                      funcRecover := rs.contains "FunctionCall.Evaluate",
                      methodRecover := rs.contains "MethodCall.Evaluate",
                      threeRecover := rs.contains "ThreeLevelCall.Evaluate" }
  let step := fun (acc : Env × List Json) (r : Json) =>
    let (env, outs) := acc
    let ast := jObj r "ast"
    if isNull ast then (env, outs ++ [Json.mkObj [("skip", Json.bool true)]]) else
    let body := parseStmts (jObj (jObj ast "RuleContent") "Statements")
    let res := ruleExecute P { env with trace := [] } body
    let out := Json.mkObj [
      ("outcome", Json.str res.outcome),
      ("cite", match res.cite with | some n => Json.num (JsonNumber.fromNat n) | none => Json.num (JsonNumber.fromInt (-1))),
      ("flag", Json.bool res.flag),
      ("val", valJson res.val),
      ("env", Json.arr (res.env.base.map objJson).toArray),
      ("trace", traceJson res.env.trace.reverse)]
    ({ res.env with vars := [] }, outs ++ [out])
  let (_, outs) := (jArr j "rules").foldl step (env0, [])
  Json.mkObj [("i", jObj j "i"), ("model", Json.arr outs.toArray)]

end GV.Drv
