import Lean.Data.Json
namespace GV.Drv
open Lean

def jStr (j : Json) (k : String) : String := (j.getObjValAs? String k).toOption.getD ""
def jBool (j : Json) (k : String) : Bool := (j.getObjValAs? Bool k).toOption.getD false
def jInt (j : Json) (k : String) : Int := (j.getObjValAs? Int k).toOption.getD 0
def jArr (j : Json) (k : String) : List Json :=
  match j.getObjVal? k with
  | .ok (.arr a) => a.toList
  | _ => []
def jObj (j : Json) (k : String) : Json := (j.getObjVal? k).toOption.getD Json.null
def jStrList (j : Json) (k : String) : List String :=
  (jArr j k).map (fun x => (x.getStr?).toOption.getD "")
def arrItems (j : Json) : List Json := match j with | .arr a => a.toList | _ => []
def asStr (j : Json) : String := (j.getStr?).toOption.getD ""
def asInt (j : Json) : Int := (j.getInt?).toOption.getD 0
def optInt (j : Json) : Option Int := match j with | .null => none | _ => some (asInt j)
def ofOptInt : Option Int → Json | none => Json.null | some i => Json.num (JsonNumber.fromInt i)

end GV.Drv
