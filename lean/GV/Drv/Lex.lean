import GV.Drv.Util
import GV.Eval.Lex
namespace GV.Drv
open Lean GV.Eval.Lex

/-- scenario `lex`: the model's token stream of the case's text (default channel) and whether the
    whole text was read without a token recognition error. -/
def lexCase (j : Json) : Json :=
  let cs := (jStr j "text").toList
  let r := lexAll cs
  let toks := r.1.filter (fun t => t.kind != .skip)
  Json.mkObj [("i", jObj j "i"),
    ("toks", Json.arr (toks.map (fun t => Json.arr #[Json.str t.kind.name, Json.str (String.ofList t.text)])).toArray),
    ("ok", Json.bool r.2.isEmpty),
    ("nskip", Json.num (JsonNumber.fromNat (r.1.length - toks.length)))]

end GV.Drv
