import GV.Drv.Util
import GV.Pool.Mgmt
import GV.Pool.Cap
namespace GV.Drv
open Lean GV.KC GV.Pool

def poolNames : List String := ["a", "b", "c", "d", "e", "f", "zz"]

def parsePRule (j : Json) : KRule := ⟨jStr j "name", jInt j "sal", (jInt j "ver").toNat⟩

def pkruleJson (r : KRule) : Json :=
  Json.mkObj [("name", Json.str r.name), ("sal", Json.num (JsonNumber.fromInt r.sal)), ("ver", Json.num (JsonNumber.fromNat r.ver))]

def parseMOp (j : Json) : MOp :=
  let rules := (jArr j "rules").map parsePRule
  match jStr j "op" with
  | "full" => .full (if jBool j "bad" then none else some rules)
  | "incr" => .incr (if jBool j "bad" then none else some rules)
  | "remove" => .remove (jStrList j "names") id
  | "clear" => .clear
  | _ => .setModel (jInt j "model").toNat      -- negative models are mapped to 0: equally invalid

def pmoutStr : MOut → String | .ok => "ok" | .err => "err" | .panic => "panic"

def psortByName (l : List KRule) : List KRule :=
  l.foldl (fun acc r => (acc.filter (fun x => x.name < r.name)) ++ [r] ++ (acc.filter (fun x => !(x.name < r.name)))) []

def poolMgmt (j : Json) : Json :=
  let initRules := (jArr j "init").map parsePRule
  let max := (jInt j "max").toNat
  let s0 := Pool.init initRules max (jInt j "model").toNat
  let sp0 : SpecP := { rules := Spec.full initRules, cleared := false, model := (jInt j "model").toNat }
  let (_, _, outs) := (jArr j "ops").foldl (fun (acc : PoolM × SpecP × List Json) oj =>
    let (s, sp, outs) := acc
    let op := parseMOp oj
    let (s1, mo) := Pool.step s op
    let (sp1, so) := Spec.step sp op
    let mq := poolNames.filterMap (fun n => qRule s1 n)
    let sq := poolNames.filterMap (fun n => sp1.rules n)
    let execs := (List.range max).map (fun i => Json.arr ((psortByName (execOn s1 i)).map pkruleJson).toArray)
    let o := Json.mkObj [
      ("model", Json.mkObj [("out", Json.str (pmoutStr mo)), ("rules", Json.arr (mq.map pkruleJson).toArray),
                            ("number", Json.num (JsonNumber.fromNat (qNumber s1))), ("execModel", Json.num (JsonNumber.fromNat s1.model)),
                            ("execs", Json.arr execs.toArray)]),
      ("spec", Json.mkObj [("out", Json.str (pmoutStr so)), ("rules", Json.arr (sq.map pkruleJson).toArray),
                           ("number", Json.num (JsonNumber.fromNat sq.length)), ("execModel", Json.num (JsonNumber.fromNat sp1.model))])]
    (s1, sp1, outs ++ [o])) (s0, sp0, [])
  Json.mkObj [("i", jObj j "i"), ("ops", Json.arr outs.toArray)]

/-- capacity / isolation: the numbers the bookkeeping theorems predict -/
def poolCap (j : Json) : Json :=
  let max := (jInt j "max").toNat
  let k := (jInt j "clients").toNat
  Json.mkObj [("i", jObj j "i"), ("peak", Json.num (JsonNumber.fromNat (Nat.min k max))),
              ("done", Json.num (JsonNumber.fromNat k)), ("peak2", Json.num (JsonNumber.fromNat max)),
              ("rules", Json.arr (((jArr j "init").map parsePRule).map pkruleJson).toArray)]

/-- hot updates: the rule set installed after each update (version j = after the first j updates) -/
def poolUpd (j : Json) : Json :=
  let initRules := (jArr j "init").map parsePRule
  let sp0 : SpecP := { rules := Spec.full initRules, cleared := false, model := (jInt j "model").toNat }
  let names := initRules.map (·.name)
  let table := fun (sp : SpecP) => Json.arr ((names.filterMap (fun n => sp.rules n)).map pkruleJson).toArray
  let (_, vs) := (jArr j "ops").foldl (fun (acc : SpecP × List Json) oj =>
    let (sp, vs) := acc
    let sp1 := (Spec.step sp (parseMOp oj)).1
    (sp1, vs ++ [table sp1])) (sp0, [table sp0])
  Json.mkObj [("i", jObj j "i"), ("versions", Json.arr vs.toArray)]

def poolCase (j : Json) : Json :=
  match jStr j "mode" with
  | "mgmt" => poolMgmt j
  | "upd" => poolUpd j
  | _ => poolCap j

end GV.Drv
