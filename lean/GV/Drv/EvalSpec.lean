import GV.Drv.Eval
import GV.Eval.RefStmt
import GV.Eval.FactsParams
import GV.Eval.GrammarTab
namespace GV.Drv
open Lean GV.Eval

/-- rule header constants: @name, @id (the name read as a decimal integer, 0 if it is not one),
    @desc, @sal -/
def atValue (hdr : Json) (sym : String) : Val :=
  let name := jStr hdr "name"
  match sym with
  | "@name" => .s name
  | "@id" => .i .int64 (Int64.ofInt ((name.trimAscii.toString.toInt?).getD 0))
  | "@desc" => .s (if jBool hdr "hasDesc" then jStr hdr "desc" else "")
  | _ => .i .int64 (Int64.ofInt (if jBool hdr "hasSal" then jInt hdr "sal" else 0))

def parseKey (j : Json) : Key :=
  match jStr j "t" with
  | "int" => .int (Int64.ofInt ((jStr j "v").toInt?.getD 0))
  | "str" => .str (jStr j "v")
  | _ => .var (jStr j "v")

def parseAOpSym (s : String) : AOp := match s with | "+" => .add | "-" => .sub | "*" => .mul | _ => .div

/-- the tree stands for a token string the grammar model rejects -/
def rejectRE : RE := .var 0 "#reject#"

mutual
  partial def parseTok (T : PrecTab) (hdr : Json) (j : Json) : Tok :=
    match jStr j "t" with
    | "atom" => .atom (parseRE T hdr (jObj j "e"))
    | "ar" => .ar (parseAOpSym (jStr j "sym"))
    | "cmp" => .cmp ((parseCOp (jStr j "sym")).getD .eq)
    | "log" => .log (if jStr j "sym" == "&&" then .and else .or)
    | "not" => .not (jInt j "line").toNat
    | "lp" => .lp (jInt j "line").toNat
    | _ => .rp
  partial def parseRE (T : PrecTab) (hdr : Json) (j : Json) : RE :=
    let l := (jInt j "line").toNat
    match jStr j "op" with
    | "toks" =>
      -- a token string: read by the parser model with the precedence table `T`
      (match parseTop T ((jArr j "toks").map (parseTok T hdr)) with
       | some t => t
       | none => rejectRE)
    | "lit" => .lit l (parseVal (jObj j "val"))
    | "at" => .lit l (atValue hdr (jStr j "sym"))
    | "var" => .var l (jStr j "sym")
    | "idx" => .idx l (jStr j "sym") (parseKey (jObj j "key"))
    | "call" => .call l (match jStr j "kind" with | "method" => .method | "three" => .three | _ => .func) (jStr j "sym") (parseREs T hdr (jArr j "args"))
    | "ar" => .ar l (parseAOpSym (jStr j "sym")) (parseRE T hdr (jObj j "l")) (parseRE T hdr (jObj j "r"))
    | "cmp" => .cmp l ((parseCOp (jStr j "sym")).getD .eq) (parseRE T hdr (jObj j "l")) (parseRE T hdr (jObj j "r"))
    | "log" => .log l (if jStr j "sym" == "&&" then .and else .or) (parseRE T hdr (jObj j "l")) (parseRE T hdr (jObj j "r"))
    | "not" => .not l (parseRE T hdr (jObj j "l"))
    | _ => .paren l (parseRE T hdr (jObj j "l"))
  partial def parseREs (T : PrecTab) (hdr : Json) (js : List Json) : REs :=
    js.foldr (fun a acc => REs.cons (parseRE T hdr a) acc) REs.nil
end

def parseRAssign (T : PrecTab) (hdr : Json) (j : Json) : RAssign :=
  let t := jObj j "tgt"
  let tgt : RTarget := if jStr t "op" == "idx" then .idx (jInt t "line").toNat (jStr t "sym") (parseKey (jObj t "key"))
    else .var (jStr t "sym")
  { line := (jInt j "line").toNat, tgt := tgt,
    op := (match jStr j "sym" with | "+=" => .add | "-=" => .sub | "*=" => .mul | "/=" => .div | _ => .set),
    e := parseRE T hdr (jObj j "e") }

mutual
  partial def parseRS (T : PrecTab) (hdr : Json) (j : Json) : RS :=
    match jStr j "op" with
    | "assign" => .assign (parseRAssign T hdr j)
    | "call" => .call (parseRE T hdr (jObj j "e"))
    | "if" =>
      let els : RElifs := if isNull (jObj j "else") then .nil else .els (parseRBlock T hdr (jObj j "else"))
      let chain := (jArr j "elifs").foldr
        (fun e acc => RElifs.cons (parseRE T hdr (jObj e "cond")) (parseRBlock T hdr (jObj e "body")) acc) els
      .ifs (parseRE T hdr (jObj j "e")) (parseRBlock T hdr (jObj j "body")) chain
    | "for" => .for (jInt j "line").toNat (parseRAssign T hdr (jObj j "init")) (parseRAssign T hdr (jObj j "step"))
        (parseRE T hdr (jObj j "e")) (parseRBlock T hdr (jObj j "body"))
    | "forRange" => .forRange (jInt j "line").toNat (jStr j "sym") (jStr j "coll") (parseRBlock T hdr (jObj j "body"))
    | "break" => .brk
    | "continue" => .cont
    | _ => .conc ((jArr j "items").map (fun it =>
        if jStr it "op" == "assign" then RConcItem.assign (parseRAssign T hdr it) else RConcItem.call (parseRE T hdr (jObj it "e"))))
  partial def parseRBlock (T : PrecTab) (hdr : Json) (j : Json) : RBlock :=
    let stmts := (jArr j "stmts").foldr (fun s acc => RSList.cons (parseRS T hdr s) acc) RSList.nil
    let ret : RRet := if !jBool j "hasRet" then .none
      else if isNull (jObj j "ret") then .bare else .expr (parseRE T hdr (jObj j "ret"))
    .mk stmts ret
end

/-! canonical text of an AST, positions reduced to lines (for the listener-shape comparison) -/

def showVal (v : Val) : String := (valJson v).compress
def showKey : Key → String | .int i => s!"i{i.toInt}" | .str s => s!"s{s}" | .var x => s!"v{x}"
def showMapV (m : MapV) : String := s!"(mapv @{m.pos.line}@ {m.name} {showKey m.key})"

mutual
  partial def showAtom : Atom → String
    | .var p n => s!"(var @{p.line}@ {n})"
    | .const p v => s!"(const @{p.line}@ {showVal v})"
    | .call p c => s!"(acall @{p.line}@ {showCall c})"
    | .mapv p m => s!"(amapv @{p.line}@ {showMapV m})"
    | .empty p => s!"(empty @{p.line}@)"
  partial def showCall : Call → String
    | .mk kind p n args => s!"(call {repr kind} @{p.line}@ {n} [{showArgs args}])"
  partial def showArgs : Args → String
    | .nil => ""
    | .cons a rest => showArg a ++ " " ++ showArgs rest
  partial def showArg : Arg → String
    | .var n => s!"(argvar {n})" | .const v => s!"(argconst {showVal v})" | .call c => s!"(argcall {showCall c})"
    | .mapv m => s!"(argmapv {showMapV m})" | .expr e => s!"(argexpr {showExpr e})" | .empty => "(argempty)"
  partial def showMath : MathE → String
    | .mk p atom left right op =>
      s!"(math @{p.line}@ {match atom with | .none => "_" | .some a => showAtom a} {match left with | .none => "_" | .some m => showMath m} {match right with | .none => "_" | .some m => showMath m} {repr op})"
  partial def showExpr : Expr → String
    | .mk p left right atom math logic cmp n =>
      s!"(expr @{p.line}@ {match left with | .none => "_" | .some e => showExpr e} {match right with | .none => "_" | .some e => showExpr e} {match atom with | .none => "_" | .some a => showAtom a} {match math with | .none => "_" | .some m => showMath m} {repr logic} {repr cmp} {n})"
end

def showAssign (a : Assign) : String :=
  s!"(assign @{a.pos.line}@ {a.var} {match a.mapv with | none => "_" | some m => showMapV m} {repr a.op} {match a.math with | .none => "_" | .some m => showMath m} {match a.expr with | .none => "_" | .some e => showExpr e})"

mutual
  partial def showStmt : Stmt → String
    | .ifs c t e => s!"(if {showExpr c} {showOStmts t} {showElifs e})"
    | .call c => s!"(scall {showCall c})"
    | .assign a => showAssign a
    | .conc items => "(conc " ++ " ".intercalate (items.map (fun it => match it with
        | .assign a => showAssign a | .call c => showCall c)) ++ ")"
    | .for _ i s c b => s!"(for {match i with | none => "_" | some a => showAssign a} {match s with | none => "_" | some a => showAssign a} {showExpr c} {showOStmts b})"
    | .forRange _ k c b => s!"(forRange {k} {c} {showOStmts b})"
    | .brk => "(break)" | .cont => "(continue)" | .empty => "(emptystmt)"
  partial def showSList : SList → String
    | .nil => ""
    | .cons s rest => showStmt s ++ " " ++ showSList rest
  partial def showStmts : Stmts → String
    | .mk l r => s!"(stmts [{showSList l}] {match r with | .none => "noret" | .bare => "bare" | .expr e => showExpr e})"
  partial def showOStmts : OStmts → String
    | .none => "_" | .some s => showStmts s
  partial def showElifs : Elifs → String
    | .nil => "nil" | .els b => s!"(else {showOStmts b})" | .cons c b rest => s!"(elif {showExpr c} {showOStmts b} {showElifs rest})"
end

/-- does the body contain a token string that the grammar model (reference table) rejects? -/
partial def hasReject (hdr : Json) (j : Json) : Bool :=
  match j with
  | .arr xs => xs.any (hasReject hdr)
  | .obj _ =>
    if jStr j "op" == "toks" then
      (parseTop GrammarIR.refTab ((jArr j "toks").map (parseTok GrammarIR.refTab hdr))).isNone ||
        (jArr j "toks").any (fun t => hasReject hdr (jObj t "e"))
    else
      ["l", "r", "args", "e", "tgt", "init", "step", "body", "elifs", "else", "items", "stmts", "ret", "cond"].any
        (fun k => hasReject hdr (jObj j k))
  | _ => false

def refParams (P : Params) : Params := { P with arith := refArith, cmp := refCmp }

def ruleOutJson (res : RuleOut) : Json :=
  Json.mkObj [
    ("outcome", Json.str res.outcome),
    ("cite", match res.cite with | some n => Json.num (JsonNumber.fromNat n) | none => Json.num (JsonNumber.fromInt (-1))),
    ("flag", Json.bool res.flag),
    ("val", valJson res.val),
    ("env", Json.arr (res.env.base.map objJson).toArray),
    ("trace", traceJson res.env.trace.reverse)]

/-- One evaluator case: model on the dumped AST, reference semantics on the generator's tree,
    and whether the dumped AST has the shape `lower` predicts (positions = lines included). -/
def evalCaseFull (j : Json) : Json :=
  let env0 : Env := { base := (jArr j "env").map parseObj, vars := [], trace := [] }
  let P : Params := factsParams
  -- the specification always recovers: a fault is an error, never a panic
  let SP : Params := refParams { P with ruleRecover := true, assignRecover := true, funcRecover := true,
                                        methodRecover := true, threeRecover := true, maxLoop := 10000 }
  let step := fun (acc : Env × Env × List Json × List Json × List Json) (r : Json) =>
    let (menv, senv, mouts, souts, shapes) := acc
    let ast := jObj r "ast"
    -- specification side: token strings are read with the precedence table the language asks for;
    -- model side (listener-shape comparison): with the table of the parser as it is generated now
    let body := parseRBlock GrammarIR.refTab (jObj r "hdr") (jObj r "body")
    let bodyM := parseRBlock genTab (jObj r "hdr") (jObj r "body")
    let rej := Json.bool (hasReject (jObj r "hdr") (jObj r "body"))
    let sres := denoteRule SP { senv with trace := [] } body
    let senv' := { sres.env with vars := [] }
    if isNull ast then (menv, senv', mouts ++ [Json.mkObj [("skip", Json.bool true)]], souts ++ [ruleOutJson sres],
                        shapes ++ [Json.mkObj [("noast", Json.bool true), ("reject", rej)]])
    else
      let stmts := parseStmts (jObj (jObj ast "RuleContent") "Statements")
      let mres := ruleExecute P { menv with trace := [] } stmts
      let want := showStmts (lowerB bodyM)
      let got := showStmts stmts
      let shape := if want == got then Json.bool true else Json.mkObj [("want", Json.str want), ("got", Json.str got)]
      let wf := Json.bool body.WF
      -- the hypotheses of the end-to-end theorem, checked on every case
      let wk := Json.bool (menv.wkb && senv.wkb && body.LitWK)
      ({ mres.env with vars := [] }, senv', mouts ++ [ruleOutJson mres], souts ++ [ruleOutJson sres],
       shapes ++ [Json.mkObj [("shape", shape), ("wf", wf), ("wk", wk), ("reject", rej)]])
  let (_, _, mouts, souts, shapes) := (jArr j "rules").foldl step (env0, env0, [], [], [])
  Json.mkObj [("i", jObj j "i"), ("model", Json.arr mouts.toArray), ("spec", Json.arr souts.toArray),
              ("shapes", Json.arr shapes.toArray)]

end GV.Drv
