import GV.Drv.Util
import GV.Generated.Compile
import GV.Eval.Lex
namespace GV.Drv
open Lean GV.Compile

structure CR where
  name : String
  sal : Int
  ver : Int

def parseCR (j : Json) : CR := ⟨jStr j "name", jInt j "sal", jInt j "ver"⟩
def crJson (r : CR) : Json := Json.mkObj [("name", Json.str r.name), ("sal", Json.num (JsonNumber.fromInt r.sal)), ("ver", Json.num (JsonNumber.fromInt r.ver))]

def insertSorted (r : CR) : List CR → List CR
  | [] => [r]
  | x :: xs => if r.name < x.name then r :: x :: xs else x :: insertSorted r xs
def sortCR (l : List CR) : List CR := l.foldl (fun acc r => insertSorted r acc) []

/-- full build: the text's rules; incremental: the text's rules over the installed ones -/
def mergeCR (pre text : List CR) : List CR :=
  pre.filter (fun p => !(text.any (fun t => t.name == p.name))) ++ text

def fullEps : List String := ["BuildRuleFromString", "NewGenginePool", "UpdatePooledRules"]

def compileCase (j : Json) : Json :=
  let f := jObj j "front"
  let pre := (jArr j "pre").map parseCR
  let text := (jArr f "rules").map parseCR
  let o : Outcome := { blank := jBool f "blank", lexErr := !(jArr f "lex").isEmpty, parseErr := !(jArr f "parse").isEmpty,
                       listenerErr := !(jArr f "listener").isEmpty, noRules := text.isEmpty }
  let eps := entryPoints.map (fun ep =>
    let m := runN GV.Generated.Compile.all 4 ep o
    let macc := m == .accepted
    let sacc := o.clean
    let after := fun (acc : Bool) =>
      if acc then (if fullEps.contains ep then text else mergeCR pre text)
      else (if ep == "NewGenginePool" then [] else pre)
    Json.mkObj [("ep", Json.str ep), ("model", Json.bool macc), ("spec", Json.bool sacc),
                ("modelRes", Json.str (reprStr m)),
                ("modelAfter", Json.arr ((sortCR (after macc)).map crJson).toArray),
                ("specAfter", Json.arr ((sortCR (after sacc)).map crJson).toArray)])
  Json.mkObj [("i", jObj j "i"), ("valid", Json.bool o.Valid), ("eps", Json.arr eps.toArray),
              ("lexOk", Json.bool (GV.Eval.Lex.lexOk (jStr j "text").toList))]

end GV.Drv
