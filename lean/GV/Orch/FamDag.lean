/-
  DAG model (C13) and the plain concurrent models.
-/
import GV.Orch.FamNM
namespace GV.Orch

theorem runDag_eq (cfg : Cfg) (layers : List (List Name)) (log : List (Name × Option Int))
    (s : Bool) (sl : List Rule) (sg : List (List Rule)) (pk le : Bool) :
    runDag cfg (stdPar .len) true true layers ⟨some log, false, s, sl, sg, pk, le⟩ =
      (⟨some (log ++ resOf cfg (dagFamily cfg layers).flatten), (dagFamily cfg layers).flatten.any (fails cfg),
        s || (dagFamily cfg layers).flatten.any (stops cfg), sl, sg ++ dagFamily cfg layers, pk, le⟩,
       if (dagFamily cfg layers).flatten.any (fails cfg) then .retErr else .running) := by
  induction layers generalizing log s sg pk with
  | nil => simp [runDag, dagFamily]
  | cons layer rest ih =>
    unfold runDag dagFamily
    simp only []
    generalize List.filterMap (lookupRule cfg.entities) layer = rs
    by_cases hemp : rs.isEmpty = true
    · have : rs = [] := by simpa using hemp
      subst this
      simp only [List.isEmpty_nil, Bool.and_self, ite_true, Bool.false_eq_true, ite_false, List.any_nil,
        parStage, List.nil_append, Bool.and_false]
      rw [ih]
    · have hemp' : rs.isEmpty = false := by simpa using hemp
      simp only [hemp', Bool.and_false, Bool.false_eq_true, ite_false]
      rw [runPar_eq cfg (stdPar .len) _ rs _ log rfl rfl]
      simp only [stdPar_add, stdPar_collects, stdPar_done, stdPar_waits, Bool.true_and, Bool.false_or, cntVal]
      by_cases hf : rs.any (fails cfg) = true
      · simp [hf]
      · have hf' : rs.any (fails cfg) = false := by simpa using hf
        simp only [hf', Bool.false_eq_true, ite_false]
        rw [ih]
        simp [resOf_append, hf', Bool.or_assoc]

def dagT : Skel :=
  [⟨[], .retIf .rbNil .err⟩, ⟨[], .reset⟩, ⟨[], .retIf (.dagLen .eq 0) .nil⟩,
   ⟨[], .dag (stdPar .len) true true⟩, ⟨[], .ret .nil⟩]

theorem dagT_obs (cfg : Cfg) (hp : Pre cfg) : obsOf (run dagT cfg) = okObs cfg (dagFamily cfg cfg.dag) := by
  obtain ⟨hrb, hs0, hfl, hperm⟩ := hp
  simp only [run, dagT, exec_retIf, exec_reset, evalCond_rbNil, hrb, Bool.false_eq_true, ite_false]
  simp only [evalCond, CmpOp.eval, initSt]
  by_cases hd : cfg.dag = []
  · simp [hd, obsOf, retFin, okObs, dagFamily]
  · have hd' : ((↑cfg.dag.length : Int) == 0) = false := by
      cases h : cfg.dag with
      | nil => exact absurd h hd
      | cons _ _ => simp; omega
    simp only [hd', Bool.false_eq_true, ite_false]
    simp only [exec, List.all_nil, ite_true, execStmt, hs0]
    rw [runDag_eq]
    by_cases hf : (dagFamily cfg cfg.dag).flatten.any (fails cfg) = true
    · simp [hf, andThen, obsOf, okObs, initSt]
    · simp [hf, andThen, obsOf, okObs, initSt, retFin]

/-- `ExecuteConcurrent`: every installed rule, concurrently. -/
def concT : Skel :=
  [⟨[], .retIf .rbNil .err⟩, ⟨[], .reset⟩, ⟨[], .retIf (.len .entities 0 .eq 0) .err⟩,
   ⟨[], .par .entities .all (stdPar .len)⟩, ⟨[], .retIf .errs .err⟩, ⟨[], .ret .nil⟩]

theorem concT_obs (cfg : Cfg) (hp : Pre cfg) :
    obsOf (run concT cfg) = if cfg.entities.isEmpty then errObs else okObs cfg (parStage cfg.entities) := by
  obtain ⟨hrb, hs0, hfl, hperm⟩ := hp
  simp only [run, concT, exec_retIf, exec_reset, evalCond_rbNil, evalCond_len_eq0, srcList_entities, hrb,
    Bool.false_eq_true, ite_false]
  by_cases he : cfg.entities.isEmpty = true
  · simp [he, obsOf, retFin, errObs, initSt]
  · simp only [he, Bool.false_eq_true, ite_false]
    rw [exec_par cfg .entities .all _ _ _ [] rfl rfl]
    simp only [exec_retIf, exec_ret, evalCond_errs, window, srcList_entities, stdPar, cntVal, initSt,
      Bool.false_or, Bool.true_and, List.nil_append]
    by_cases hf : cfg.entities.any (fails cfg) = true
    · simp [hf, obsOf, retFin, okObs]
    · simp [hf, obsOf, retFin, okObs]

end GV.Orch
