/-
  Executable trace acceptance (tie T2): does an observed start/end event log respect a
  stage plan?  The log must be the concatenation, in stage order, of one segment per
  stage; a segment is an interleaving of exactly one (start, end) pair per rule
  occurrence of the stage, each start before its end.
-/
import GV.Orch.Skel
namespace GV.Orch

inductive Ev | S (n : Name) | E (n : Name)
deriving Repr, DecidableEq, Inhabited

/-- Consume events of one stage: `pending` not yet started, `opened` started and not ended. -/
def acceptStage : List Ev → (pending opened : List Name) → Option (List Ev)
  | [], p, o => if p.isEmpty && o.isEmpty then some [] else none
  | ev :: rest, p, o =>
    if p.isEmpty && o.isEmpty then some (ev :: rest) else
    match ev with
    | .S n => if p.contains n then acceptStage rest (p.erase n) (n :: o) else none
    | .E n => if o.contains n then acceptStage rest p (o.erase n) else none

def acceptsTrace : List (List Name) → List Ev → Bool
  | [], evs => evs.isEmpty
  | st :: sts, evs =>
    match acceptStage evs st [] with
    | none => false
    | some rest => acceptsTrace sts rest

end GV.Orch
