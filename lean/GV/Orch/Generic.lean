/-
  Generic theorems, for EVERY skeleton satisfying a decidable well-formedness predicate
  (not only the twenty-one that exist today):

  * the result map written by a call is exactly {rule ↦ value | rule executed in this call and
    reported `returned`} — nothing stale, nothing missing (C11);
  * the call never panics: no write to a nil map, no nil rule dereference, no statement the
    extractor did not recognise (C09, engine level).
-/
import GV.Orch.Lemmas
namespace GV.Orch

def ParSpec.resultsOk (p : ParSpec) : Bool := p.mode == .ifFlag

def Stmt.resultsOk : Stmt → Bool
  | .reset => false      -- a later reset would drop entries of rules that already ran
  | .retIf _ _ => true
  | .ret _ => true
  | .select m => m != .derefNil
  | .sort => true
  | .seq _ _ mode _ _ => mode == .ifFlag
  | .par _ _ p => p.resultsOk
  | .dag p _ _ => p.resultsOk
  | .unknown _ => false

/-- The method starts with `if rb == nil {return err}; g.returnResult = make(..)` (both
    unconditional) and every later statement keeps the result discipline. -/
def ResultsWF (sk : Skel) : Bool :=
  decide (sk.take 2 = [⟨[], .retIf .rbNil .err⟩, ⟨[], .reset⟩]) && (sk.drop 2).all (fun g => g.stmt.resultsOk)

/-- The invariant: the write log is exactly the `returned` rules among those executed so far. -/
def LogInv (cfg : Cfg) (st : St) : Prop := st.results = some (resOf cfg st.stages.flatten)

theorem runSeq_inv (cfg : Cfg) (a : Arm) (sb : Bool) (rs : List Rule) (st : St) (h : LogInv cfg st) :
    LogInv cfg (runSeq cfg .ifFlag a sb rs st).1 ∧ (runSeq cfg .ifFlag a sb rs st).2 ≠ .panicked := by
  induction rs generalizing st with
  | nil => exact ⟨h, by simp [runSeq]⟩
  | cons r rs ih =>
    unfold runSeq
    simp only []
    have hadd := addRes_ifFlag r (cfg.out r.name) { st with stop := st.stop || (cfg.out r.name).stop, stages := st.stages ++ [[r]], lastE := (cfg.out r.name).fails } _ h
    rw [hadd]
    simp only []
    have hinv : ∀ e : Bool, LogInv cfg { results := some (resOf cfg st.stages.flatten ++ if (cfg.out r.name).flag = true then [(r.name, (cfg.out r.name).val)] else []), errs := e, stop := st.stop || (cfg.out r.name).stop, sel := st.sel, stages := st.stages ++ [[r]], parOk := st.parOk, lastE := (cfg.out r.name).fails } := by
      intro e
      simp [LogInv, resOf_append, resOf_cons]
    generalize a.act cfg.b (cfg.out r.name).fails = act
    cases act with
    | retE => exact ⟨hinv _, by simp only []; split <;> simp⟩
    | retErr => exact ⟨hinv _, by simp⟩
    | retNil => exact ⟨hinv _, by simp⟩
    | collect =>
      simp only []
      split
      · exact ⟨hinv _, by simp⟩
      · exact ih _ (hinv _)
    | cont =>
      simp only []
      split
      · exact ⟨hinv _, by simp⟩
      · exact ih _ (hinv _)

theorem runPar_inv (cfg : Cfg) (p : ParSpec) (cnt : Int) (rs : List Rule) (st : St) (h : LogInv cfg st)
    (hp : p.resultsOk = true) :
    LogInv cfg (runPar cfg p cnt rs st).1 ∧ (runPar cfg p cnt rs st).2 ≠ .panicked := by
  have hm : p.mode = .ifFlag := by simpa [ParSpec.resultsOk] using hp
  rw [runPar_eq cfg p cnt rs st _ h hm]
  refine ⟨?_, by simp⟩
  simp only [LogInv, List.flatten_append, resOf_append, parStage_flat]
where
  parStage_flat : (parStage rs).flatten = rs := by unfold parStage; cases rs <;> simp

theorem runDag_inv (cfg : Cfg) (p : ParSpec) (g e : Bool) (layers : List (List Name)) (st : St)
    (h : LogInv cfg st) (hp : p.resultsOk = true) :
    LogInv cfg (runDag cfg p g e layers st).1 ∧ (runDag cfg p g e layers st).2 ≠ .panicked := by
  induction layers generalizing st with
  | nil => exact ⟨h, by simp [runDag]⟩
  | cons layer rest ih =>
    unfold runDag
    simp only []
    generalize List.filterMap (lookupRule cfg.entities) layer = rs
    by_cases hskip : (g && rs.isEmpty) = true
    · simp only [hskip, ite_true]
      split
      · exact ⟨h, by simp⟩
      · exact ih st h
    · simp only [hskip, Bool.false_eq_true, ite_false]
      have hpar := runPar_inv cfg p (cntVal cfg p.add rs) rs st h hp
      generalize runPar cfg p (cntVal cfg p.add rs) rs st = res at hpar
      obtain ⟨st', fin⟩ := res
      cases fin with
      | running =>
        simp only []
        split
        · exact ⟨hpar.1, by simp⟩
        · exact ih st' hpar.1
      | retOk => exact ⟨hpar.1, by simp⟩
      | retErr => exact ⟨hpar.1, by simp⟩
      | panicked => exact absurd rfl hpar.2

theorem execStmt_inv (cfg : Cfg) (s : Stmt) (st : St) (h : LogInv cfg st) (hs : s.resultsOk = true) :
    LogInv cfg (execStmt cfg st s).1 ∧ (execStmt cfg st s).2 ≠ .panicked := by
  cases s with
  | reset => simp [Stmt.resultsOk] at hs
  | retIf c k =>
    simp only [execStmt]
    split
    · exact ⟨h, by cases k <;> simp [retFin]; split <;> simp⟩
    · exact ⟨h, by simp⟩
  | ret k => exact ⟨h, by cases k <;> simp [execStmt, retFin]; split <;> simp⟩
  | select m =>
    cases m with
    | skip => exact ⟨h, by simp [execStmt]⟩
    | fail => simp only [execStmt]; split <;> exact ⟨h, by simp⟩
    | derefNil => simp [Stmt.resultsOk] at hs
  | sort => exact ⟨h, by simp [execStmt]⟩
  | seq src w mode a sb =>
    have : mode = .ifFlag := by simpa [Stmt.resultsOk] using hs
    subst this
    exact runSeq_inv cfg a sb _ st h
  | par src w p => exact runPar_inv cfg p _ _ st h (by simpa [Stmt.resultsOk] using hs)
  | dag p g e => exact runDag_inv cfg p g e _ st h (by simpa [Stmt.resultsOk] using hs)
  | unknown _ => simp [Stmt.resultsOk] at hs

theorem exec_inv (cfg : Cfg) (sk : Skel) (st : St) (h : LogInv cfg st)
    (hs : sk.all (fun g => g.stmt.resultsOk) = true) :
    LogInv cfg (exec cfg sk st).1 ∧ (exec cfg sk st).2 ≠ .panicked := by
  induction sk generalizing st with
  | nil => exact ⟨h, by simp [exec]⟩
  | cons g gs ih =>
    simp only [List.all_cons, Bool.and_eq_true] at hs
    unfold exec
    split
    · have hst := execStmt_inv cfg g.stmt st h hs.1
      generalize execStmt cfg st g.stmt = res at hst
      obtain ⟨st', fin⟩ := res
      cases fin with
      | running => exact ih st' hst.1 hs.2
      | retOk => exact ⟨hst.1, by simp [andThen]⟩
      | retErr => exact ⟨hst.1, by simp [andThen]⟩
      | panicked => exact absurd rfl hst.2
    · exact ih st h hs.2

/-- **Generic result-map theorem.**  For every well-formed skeleton and every call with a
    non-nil rule builder: the call does not panic, and the write log of the result map is
    exactly the `returned` rules among those the call executed — whatever map an earlier call
    left behind (`cfg.prev` is arbitrary). -/
theorem results_exact (sk : Skel) (hwf : ResultsWF sk = true) (cfg : Cfg) (hrb : cfg.rbNil = false) :
    (run sk cfg).1.results = some (resOf cfg (run sk cfg).1.stages.flatten) ∧ (run sk cfg).2 ≠ .panicked := by
  simp only [ResultsWF, Bool.and_eq_true, decide_eq_true_eq] at hwf
  obtain ⟨h1, h2⟩ := hwf
  have hsk : sk = [⟨[], .retIf .rbNil .err⟩, ⟨[], .reset⟩] ++ sk.drop 2 := by
    rw [← h1, List.take_append_drop]
  generalize sk.drop 2 = rest at hsk h2
  subst hsk
  simp only [List.cons_append, List.nil_append, run, exec_retIf, exec_reset, evalCond, hrb, Bool.false_eq_true,
    ite_false]
  exact exec_inv cfg rest _ (by simp [LogInv, initSt]) h2

end GV.Orch
