/- ExecuteSelectedRulesInverseMixModel: the extracted skeleton is an instance of a proved template (T1 obligation, by `rfl`)
   and therefore conforms to the reference semantics for every configuration. -/
import GV.Orch.Conf.Common
import GV.Generated.Orch
namespace GV.Orch.All
open GV.Orch GV.Generated.Orch

theorem ExecuteSelectedRulesInverseMixModel_shape : ExecuteSelectedRulesInverseMixModel = selInverseT := rfl

theorem conf_ExecuteSelectedRulesInverseMixModel :
    Conforms ExecuteSelectedRulesInverseMixModel .ExecuteSelectedRulesInverseMixModel := by
  intro cfg hp
  rw [ExecuteSelectedRulesInverseMixModel_shape, selInverseT_obs cfg hp, expectObs_eq _ _ hp.flag]
  simp only [spec, hp.rb, Bool.false_eq_true, ite_false]
  cases h : (selected cfg).isEmpty <;> simp [h]

end GV.Orch.All
