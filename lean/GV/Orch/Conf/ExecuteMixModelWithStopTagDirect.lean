/- ExecuteMixModelWithStopTagDirect: the extracted skeleton is an instance of a proved template (T1 obligation, by `rfl`)
   and therefore conforms to the reference semantics for every configuration. -/
import GV.Orch.Conf.Common
import GV.Generated.Orch
namespace GV.Orch.All
open GV.Orch GV.Generated.Orch

theorem ExecuteMixModelWithStopTagDirect_shape : ExecuteMixModelWithStopTagDirect = mixT true := rfl

theorem conf_ExecuteMixModelWithStopTagDirect :
    Conforms ExecuteMixModelWithStopTagDirect .ExecuteMixModelWithStopTagDirect := by
  intro cfg hp
  rw [ExecuteMixModelWithStopTagDirect_shape, mixT_obs cfg hp, expectObs_eq _ _ hp.flag]
  simp only [spec, hp.rb, Bool.false_eq_true, ite_false]
  cases h : cfg.sorted.isEmpty <;> simp [h]

end GV.Orch.All
