/- Execute: the extracted skeleton is an instance of a proved template (T1 obligation, by `rfl`)
   and therefore conforms to the reference semantics for every configuration. -/
import GV.Orch.Conf.Common
import GV.Generated.Orch
namespace GV.Orch.All
open GV.Orch GV.Generated.Orch

theorem Execute_shape : Execute = sortT .sortRules false false stdArm false := rfl

theorem conf_Execute : Conforms Execute .Execute := by
  rw [Execute_shape]
  apply sort_conf _ _ (by decide) _ _ _ _ stdArm_strict
  intro cfg hrb
  simp only [spec, hrb, Bool.false_eq_true, ite_false, srcList, initSt, sortOrder, stdArm_halts, sortFamily]
  cases h : cfg.sorted.isEmpty <;> simp [h]

end GV.Orch.All
