/- ExecuteSelectedNConcurrentMSort: the extracted skeleton is an instance of a proved template (T1 obligation, by `rfl`)
   and therefore conforms to the reference semantics for every configuration. -/
import GV.Orch.Conf.Common
import GV.Generated.Orch
namespace GV.Orch.All
open GV.Orch GV.Generated.Orch

theorem ExecuteSelectedNConcurrentMSort_shape : ExecuteSelectedNConcurrentMSort = selNmT .conc .sorted := rfl

theorem conf_ExecuteSelectedNConcurrentMSort :
    Conforms ExecuteSelectedNConcurrentMSort .ExecuteSelectedNConcurrentMSort := by
  rw [ExecuteSelectedNConcurrentMSort_shape]
  exact selnm_conf _ _ _ (Or.inl rfl) (by intro cfg h; simp [spec, h])

end GV.Orch.All
