/- ExecuteSelectedRulesWithControlAndStopTag: the extracted skeleton is an instance of a proved template (T1 obligation, by `rfl`)
   and therefore conforms to the reference semantics for every configuration. -/
import GV.Orch.Conf.Common
import GV.Generated.Orch
namespace GV.Orch.All
open GV.Orch GV.Generated.Orch

theorem ExecuteSelectedRulesWithControlAndStopTag_shape :
    ExecuteSelectedRulesWithControlAndStopTag = sortT .sortRules true true stdArm true := rfl

theorem conf_ExecuteSelectedRulesWithControlAndStopTag :
    Conforms ExecuteSelectedRulesWithControlAndStopTag .ExecuteSelectedRulesWithControlAndStopTag := by
  rw [ExecuteSelectedRulesWithControlAndStopTag_shape]
  apply sort_conf _ _ (by decide) _ _ _ _ stdArm_strict
  intro cfg hrb
  simp only [spec, hrb, Bool.false_eq_true, ite_false, srcList, sortOrder, stdArm_halts, sortFamily, ite_true]
  cases h : cfg.sorted.isEmpty <;> cases h2 : (selected cfg).isEmpty <;> simp [h, h2]

end GV.Orch.All
