/- ExecuteSelectedRules: the extracted skeleton is an instance of a proved template (T1 obligation, by `rfl`)
   and therefore conforms to the reference semantics for every configuration. -/
import GV.Orch.Conf.Common
import GV.Generated.Orch
namespace GV.Orch.All
open GV.Orch GV.Generated.Orch

theorem ExecuteSelectedRules_shape : ExecuteSelectedRules = sortT .entities true true collectArm false := rfl

theorem conf_ExecuteSelectedRules : Conforms ExecuteSelectedRules .ExecuteSelectedRules := by
  rw [ExecuteSelectedRules_shape]
  apply sort_conf _ _ (by decide) _ _ _ _ collectArm_strict
  intro cfg hrb
  simp only [spec, hrb, Bool.false_eq_true, ite_false, srcList, sortOrder, collectArm_halts, sortFamily,
    ite_true, Bool.not_true]
  cases h : cfg.entities.isEmpty <;> cases h2 : (selected cfg).isEmpty <;> simp [h, h2]

end GV.Orch.All
