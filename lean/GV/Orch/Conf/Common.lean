/-
  Every extracted skeleton (GV.Generated.Orch, regenerated from engine/gengine.go on each run)
  is an instance of a proved template (`*_shape`, by `rfl`: the T1 obligations), hence conforms
  to the reference semantics for every configuration (`conf_*`).
-/
import GV.Orch.FamSelected2
namespace GV.Orch.All
open GV.Orch

def stdArm : Arm := ⟨.collect, .cont, .retErr, .cont⟩
def collectArm : Arm := ⟨.collect, .cont, .collect, .cont⟩

theorem stdArm_strict (b : Bool) : stdArm.Strict b := by
  cases b <;> simp [Arm.Strict, Arm.Regular, Arm.act, stdArm]
theorem collectArm_strict (b : Bool) : collectArm.Strict b := by
  cases b <;> simp [Arm.Strict, Arm.Regular, Arm.act, collectArm]
theorem stdArm_halts (b : Bool) : stdArm.halts b = !b := by cases b <;> rfl
theorem collectArm_halts (b : Bool) : collectArm.halts b = false := by cases b <;> rfl


theorem sort_conf (m : Method) (gsrc : Src) (hg : gsrc ≠ .selected) (sel srt : Bool) (a : Arm) (sb : Bool)
    (hs : ∀ b, a.Strict b)
    (hspec : ∀ cfg : Cfg, cfg.rbNil = false →
      (match spec m cfg with | none => errObs | some st => okObs cfg st) =
      if (srcList cfg (initSt cfg) gsrc).isEmpty then errObs
      else if (sortOrder cfg sel srt).isEmpty then errObs
      else okObs cfg (singletons (takeThrough (seqStop cfg (a.halts cfg.b) sb) (sortOrder cfg sel srt)))) :
    Conforms (sortT gsrc sel srt a sb) m := by
  intro cfg hp
  rw [sortT_obs cfg hp gsrc hg sel srt a sb (hs _), expectObs_eq _ _ hp.flag]
  exact (hspec cfg hp.rb).symm

theorem nm_conf (m : Method) (k1 k2 : StageKind) (hk : k1 = .conc ∨ k2 = .conc)
    (hspec : ∀ cfg : Cfg, cfg.rbNil = false → spec m cfg =
      if nmGuardsOk cfg cfg.sorted.length then some (nmFamily cfg cfg.sorted k1 k2) else none) :
    Conforms (nmT k1 k2) m := by
  intro cfg hp
  rw [nmT_obs cfg hp k1 k2 hk, expectObs_eq _ _ hp.flag, hspec cfg hp.rb]
  cases h : nmGuardsOk cfg cfg.sorted.length <;> simp [h]


theorem selnm_conf (m : Method) (k1 k2 : StageKind) (hk : k1 = .conc ∨ k2 = .conc)
    (hspec : ∀ cfg : Cfg, cfg.rbNil = false → spec m cfg =
      if nmGuardsOk cfg cfg.sorted.length && decide (cfg.n + cfg.m = cfg.names.length)
         && cfg.names.all (fun n => (lookupRule cfg.entities n).isSome)
      then some (nmFamily cfg (sortDesc (selected cfg)) k1 k2) else none) :
    Conforms (selNmT k1 k2) m := by
  intro cfg hp
  rw [selNmT_obs cfg hp k1 k2 hk, expectObs_eq _ _ hp.flag, hspec cfg hp.rb]
  split <;> simp_all


end GV.Orch.All
