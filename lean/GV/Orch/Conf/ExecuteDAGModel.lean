/- ExecuteDAGModel: the extracted skeleton is an instance of a proved template (T1 obligation, by `rfl`)
   and therefore conforms to the reference semantics for every configuration. -/
import GV.Orch.Conf.Common
import GV.Generated.Orch
namespace GV.Orch.All
open GV.Orch GV.Generated.Orch

theorem ExecuteDAGModel_shape : ExecuteDAGModel = dagT := rfl

theorem conf_ExecuteDAGModel : Conforms ExecuteDAGModel .ExecuteDAGModel := by
  intro cfg hp
  rw [ExecuteDAGModel_shape, dagT_obs cfg hp, expectObs_eq _ _ hp.flag]
  simp [spec, hp.rb]

end GV.Orch.All
