/- ExecuteSelectedNSortMConcurrent: the extracted skeleton is an instance of a proved template (T1 obligation, by `rfl`)
   and therefore conforms to the reference semantics for every configuration. -/
import GV.Orch.Conf.Common
import GV.Generated.Orch
namespace GV.Orch.All
open GV.Orch GV.Generated.Orch

theorem ExecuteSelectedNSortMConcurrent_shape : ExecuteSelectedNSortMConcurrent = selNmT .sorted .conc := rfl

theorem conf_ExecuteSelectedNSortMConcurrent :
    Conforms ExecuteSelectedNSortMConcurrent .ExecuteSelectedNSortMConcurrent := by
  rw [ExecuteSelectedNSortMConcurrent_shape]
  exact selnm_conf _ _ _ (Or.inr rfl) (by intro cfg h; simp [spec, h])

end GV.Orch.All
