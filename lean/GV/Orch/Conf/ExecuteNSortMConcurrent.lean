/- ExecuteNSortMConcurrent: the extracted skeleton is an instance of a proved template (T1 obligation, by `rfl`)
   and therefore conforms to the reference semantics for every configuration. -/
import GV.Orch.Conf.Common
import GV.Generated.Orch
namespace GV.Orch.All
open GV.Orch GV.Generated.Orch

theorem ExecuteNSortMConcurrent_shape : ExecuteNSortMConcurrent = nmT .sorted .conc := rfl

theorem conf_ExecuteNSortMConcurrent : Conforms ExecuteNSortMConcurrent .ExecuteNSortMConcurrent := by
  rw [ExecuteNSortMConcurrent_shape]
  exact nm_conf _ _ _ (Or.inr rfl) (by intro cfg h; simp [spec, h])

end GV.Orch.All
