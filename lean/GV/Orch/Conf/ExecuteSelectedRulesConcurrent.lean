/- ExecuteSelectedRulesConcurrent: the extracted skeleton is an instance of a proved template (T1 obligation, by `rfl`)
   and therefore conforms to the reference semantics for every configuration. -/
import GV.Orch.Conf.Common
import GV.Generated.Orch
namespace GV.Orch.All
open GV.Orch GV.Generated.Orch

theorem ExecuteSelectedRulesConcurrent_shape : ExecuteSelectedRulesConcurrent = selConcT := rfl

theorem conf_ExecuteSelectedRulesConcurrent :
    Conforms ExecuteSelectedRulesConcurrent .ExecuteSelectedRulesConcurrent := by
  intro cfg hp
  rw [ExecuteSelectedRulesConcurrent_shape, selConcT_obs cfg hp, expectObs_eq _ _ hp.flag]
  simp only [spec, hp.rb, Bool.false_eq_true, ite_false]
  cases h : cfg.entities.isEmpty <;> cases h2 : (selected cfg).isEmpty <;> simp [h, h2]

end GV.Orch.All
