/- ExecuteNConcurrentMConcurrent: the extracted skeleton is an instance of a proved template (T1 obligation, by `rfl`)
   and therefore conforms to the reference semantics for every configuration. -/
import GV.Orch.Conf.Common
import GV.Generated.Orch
namespace GV.Orch.All
open GV.Orch GV.Generated.Orch

theorem ExecuteNConcurrentMConcurrent_shape : ExecuteNConcurrentMConcurrent = nmT .conc .conc := rfl

theorem conf_ExecuteNConcurrentMConcurrent :
    Conforms ExecuteNConcurrentMConcurrent .ExecuteNConcurrentMConcurrent := by
  rw [ExecuteNConcurrentMConcurrent_shape]
  exact nm_conf _ _ _ (Or.inl rfl) (by intro cfg h; simp [spec, h])

end GV.Orch.All
