/-
  Inverse-mix family (C05, C12): all but the last rule concurrently, then the last one.
-/
import GV.Orch.FamMix
namespace GV.Orch

def contArm : Arm := ⟨.cont, .cont, .cont, .cont⟩
theorem contArm_regular (b : Bool) : contArm.Regular b := by
  cases b <;> simp [Arm.Regular, Arm.act, contArm]
@[simp] theorem contArm_halts (b : Bool) : contArm.halts b = false := by cases b <;> rfl
@[simp] theorem contArm_collects (b : Bool) : contArm.collects b = false := by cases b <;> rfl

@[simp] theorem evalCond_len_le2 (cfg : Cfg) (st : St) (src : Src) :
    evalCond cfg st (.len src 0 .le 2) = decide ((srcList cfg st src).length ≤ 2) := by
  simp only [evalCond, CmpOp.eval, Int.sub_zero]
  apply decide_eq_decide.mpr; omega

def inverseCore (src : Src) : Skel :=
  [⟨[.len src 0 .le 2], .seq src .all .ifFlag haltArm false⟩,
   ⟨[.len src 0 .le 2], .ret .nil⟩,
   ⟨[], .par src .init (stdPar .lenMinus1)⟩,
   ⟨[], .retIf .errs .err⟩,
   ⟨[], .seq src .last .ifFlag contArm false⟩,
   ⟨[], .ret .lastE⟩]

theorem seqStop_false_false (cfg : Cfg) : seqStop cfg false false = fun _ => false := by
  funext r; simp [seqStop]

theorem takeThrough_never (l : List α) : takeThrough (fun _ => false) l = l := by
  induction l with
  | nil => rfl
  | cons a l ih => simp [takeThrough, ih]

theorem lastFail_append_single (cfg : Cfg) (d : Bool) (l : List Rule) (x : Rule) :
    lastFail cfg d (l ++ [x]) = fails cfg x := by
  induction l generalizing d with
  | nil => rfl
  | cons a l ih => simp [lastFail, ih]

theorem inverseCore_obs (cfg : Cfg) (src : Src) (st : St)
    (h1 : st.results = some []) (h2 : st.errs = false) (h3 : st.stop = false) (h4 : st.stages = [])
    (h5 : st.parOk = true) (hne : srcList cfg st src ≠ [])
    (hsel : ∀ st' : St, st'.sel = st.sel → srcList cfg st' src = srcList cfg st src) :
    obsOf (exec cfg (inverseCore src) st) = okObs cfg (inverseFamily cfg (srcList cfg st src)) := by
  unfold inverseCore
  rw [exec_guarded]
  simp only [List.all_cons, List.all_nil, Bool.and_true, evalCond_len_le2]
  by_cases hle : (srcList cfg st src).length ≤ 2
  · -- short list: strictly sequential, stop at the first failure
    simp only [hle, decide_true, ite_true]
    rw [exec_seq cfg src .all haltArm false _ st [] (haltArm_regular _) h1 (by intro h; cases h),
      andThen_seqResult]
    simp only [haltArm_halts, Bool.true_and, window, seqStop_true_false]
    have hs' : srcList cfg (seqResult cfg haltArm false (srcList cfg st src) st []).1 src = srcList cfg st src :=
      hsel _ (by simp [seqResult])
    by_cases hf : (takeThrough (fails cfg) (srcList cfg st src)).any (fails cfg) = true
    · simp [hf, seqResult, obsOf, inverseFamily, hle, okObs, sortFamily, seqStop_true_false, h4, h5]
    · simp only [hf, Bool.false_eq_true, ite_false]
      rw [exec_guarded]
      simp only [List.all_cons, List.all_nil, Bool.and_true, evalCond_len_le2, hs', hle, decide_true, ite_true,
        exec_ret]
      simp [hf, seqResult, obsOf, inverseFamily, hle, okObs, sortFamily, seqStop_true_false, h4, h5, retFin]
  · simp only [hle, decide_false, Bool.false_eq_true, ite_false]
    rw [exec_guarded]
    simp only [List.all_cons, List.all_nil, Bool.and_true, evalCond_len_le2, hle, decide_false, Bool.false_eq_true,
      ite_false]
    rw [exec_par cfg src .init _ _ st [] h1 rfl]
    simp only [exec_retIf, evalCond_errs, h2, Bool.false_or, stdPar, Bool.true_and, window, cntVal]
    have hlen : 2 < (srcList cfg st src).length := by omega
    have hinit : (List.take ((srcList cfg st src).length - 1) (srcList cfg st src)).length =
        (srcList cfg st src).length - 1 := by simp
    have hpar : parStage (List.take ((srcList cfg st src).length - 1) (srcList cfg st src)) =
        [List.take ((srcList cfg st src).length - 1) (srcList cfg st src)] := by
      unfold parStage
      cases hx : List.take ((srcList cfg st src).length - 1) (srcList cfg st src) with
      | nil => rw [hx] at hinit; simp at hinit; omega
      | cons _ _ => simp
    have hcnt : ((↑(srcList cfg st src).length : Int) - 1 ==
        ↑(List.take ((srcList cfg st src).length - 1) (srcList cfg st src)).length) = true := by
      rw [hinit]; simp; omega
    have hcnt' : ((↑(srcList cfg st src).length : Int) - 1 = ↑((srcList cfg st src).length - 1)) := by omega
    by_cases hf : (List.take ((srcList cfg st src).length - 1) (srcList cfg st src)).any (fails cfg) = true
    · simp [hf, obsOf, retFin, inverseFamily, hle, okObs, hpar, h4, h5, hcnt, hcnt']
    · simp only [hf, Bool.false_eq_true, ite_false]
      rw [exec_seq cfg src .last contArm false _ _ _ (contArm_regular _) rfl (by intro h; cases h),
        andThen_seqResult]
      simp only [contArm_halts, Bool.false_and, Bool.false_eq_true, ite_false, exec_ret, window]
      simp only [hsel]
      simp only [seqResult, contArm_halts, contArm_collects, seqStop_false_false, takeThrough_never,
        Bool.false_and, Bool.or_false, retFin]
      -- the last rule
      obtain ⟨x, hx⟩ : ∃ x, List.drop ((srcList cfg st src).length - 1) (srcList cfg st src) = [x] := by
        have : (List.drop ((srcList cfg st src).length - 1) (srcList cfg st src)).length = 1 := by
          simp; omega
        match hd : List.drop ((srcList cfg st src).length - 1) (srcList cfg st src), this with
        | [x], _ => exact ⟨x, rfl⟩
      simp only [hx, lastFail, singletons, List.map_cons, List.map_nil]
      by_cases hfx : fails cfg x = true
      · simp [hfx, obsOf, inverseFamily, hle, okObs, hpar, h4, h5, hcnt, hcnt', hf, hx, singletons, resOf_append]
      · simp [hfx, obsOf, inverseFamily, hle, okObs, hpar, h4, h5, hcnt, hcnt', hf, hx, singletons, resOf_append]

end GV.Orch
