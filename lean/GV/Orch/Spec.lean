/-
  Reference semantics of the execution models, written from the property statements
  (C04, C05, C11, C12, C13, C14), not from the code: which rules run, grouped in
  barrier-separated stages, whether the call reports an error, and the result map.
-/
import GV.Orch.Skel
namespace GV.Orch

inductive Method
  | Execute | ExecuteWithStopTagDirect | ExecuteConcurrent | ExecuteMixModel
  | ExecuteMixModelWithStopTagDirect | ExecuteSelectedRules | ExecuteSelectedRulesWithControl
  | ExecuteSelectedRulesWithControlAsGivenSortedName | ExecuteSelectedRulesWithControlAndStopTag
  | ExecuteSelectedRulesWithControlAndStopTagAsGivenSortedName | ExecuteSelectedRulesConcurrent
  | ExecuteSelectedRulesMixModel | ExecuteInverseMixModel | ExecuteSelectedRulesInverseMixModel
  | ExecuteNSortMConcurrent | ExecuteNConcurrentMSort | ExecuteNConcurrentMConcurrent
  | ExecuteSelectedNSortMConcurrent | ExecuteSelectedNConcurrentMSort
  | ExecuteSelectedNConcurrentMConcurrent | ExecuteDAGModel
deriving Repr, DecidableEq, Inhabited

def Method.all : List Method :=
  [.Execute, .ExecuteWithStopTagDirect, .ExecuteConcurrent, .ExecuteMixModel,
   .ExecuteMixModelWithStopTagDirect, .ExecuteSelectedRules, .ExecuteSelectedRulesWithControl,
   .ExecuteSelectedRulesWithControlAsGivenSortedName, .ExecuteSelectedRulesWithControlAndStopTag,
   .ExecuteSelectedRulesWithControlAndStopTagAsGivenSortedName, .ExecuteSelectedRulesConcurrent,
   .ExecuteSelectedRulesMixModel, .ExecuteInverseMixModel, .ExecuteSelectedRulesInverseMixModel,
   .ExecuteNSortMConcurrent, .ExecuteNConcurrentMSort, .ExecuteNConcurrentMConcurrent,
   .ExecuteSelectedNSortMConcurrent, .ExecuteSelectedNConcurrentMSort,
   .ExecuteSelectedNConcurrentMConcurrent, .ExecuteDAGModel]

def Method.name (m : Method) : String := (reprStr m).replace "GV.Orch.Method." ""

def Method.ofString (s : String) : Option Method := Method.all.find? (fun m => m.name == s)

/-- Prefix of `l` up to and including the first element satisfying `p`. -/
def takeThrough (p : α → Bool) : List α → List α
  | [] => []
  | x :: xs => if p x then [x] else x :: takeThrough p xs

def fails (cfg : Cfg) (r : Rule) : Bool := (cfg.out r.name).fails
def stops (cfg : Cfg) (r : Rule) : Bool := (cfg.out r.name).stop

def singletons (l : List Rule) : List (List Rule) := l.map ([·])
def parStage (l : List Rule) : List (List Rule) := if l.isEmpty then [] else [l]

/-- Does execution of a sorted stage end after rule `r`?  `haltOnFail`: stop-on-error policy;
    `useStop`: the variant reads the stop tag. -/
def seqStop (cfg : Cfg) (haltOnFail useStop : Bool) (r : Rule) : Bool :=
  (haltOnFail && fails cfg r) || (useStop && stops cfg r)

/-- Sorted family: one rule at a time in `order`; stop at the first failing rule under
    stop-on-error, and after the rule that sets the stop tag when the variant has one. -/
def sortFamily (cfg : Cfg) (order : List Rule) (b useStop : Bool) : List (List Rule) :=
  singletons (takeThrough (seqStop cfg (!b) useStop) order)

/-- Mix: the first rule alone; the others concurrently iff it neither failed nor set the tag. -/
def mixFamily (cfg : Cfg) (order : List Rule) (useStop : Bool) : List (List Rule) :=
  match order with
  | [] => []
  | f :: rest =>
    if fails cfg f || (useStop && stops cfg f) then [[f]] else [f] :: parStage rest

/-- Inverse mix: all but the last concurrently; the last iff none of them failed. -/
def inverseFamily (cfg : Cfg) (order : List Rule) : List (List Rule) :=
  if order.length ≤ 2 then sortFamily cfg order false false
  else
    let i := order.take (order.length - 1)
    if i.any (fails cfg) then [i] else [i] ++ singletons (order.drop (order.length - 1))

def selected (cfg : Cfg) : List Rule := cfg.names.filterMap (lookupRule cfg.entities)

inductive StageKind | sorted | conc

/-- N-M family over `order` (already restricted to the installed or selected rules). -/
def nmFamily (cfg : Cfg) (order : List Rule) (k1 k2 : StageKind) : List (List Rule) :=
  let s1 := order.take cfg.n.toNat
  let s2 := (order.drop cfg.n.toNat).take cfg.m.toNat
  let st1 := match k1 with
    | .sorted => sortFamily cfg s1 cfg.b false
    | .conc => parStage s1
  if !cfg.b && s1.any (fails cfg) then st1
  else st1 ++ (match k2 with
    | .sorted => sortFamily cfg s2 cfg.b false
    | .conc => parStage s2)

def nmGuardsOk (cfg : Cfg) (len : Nat) : Bool :=
  decide (0 < cfg.n) && decide (0 < cfg.m) && decide (cfg.n + cfg.m ≤ len)

def dagFamily (cfg : Cfg) : List (List Name) → List (List Rule)
  | [] => []
  | layer :: rest =>
    let rs := layer.filterMap (lookupRule cfg.entities)
    if rs.any (fails cfg) then parStage rs else parStage rs ++ dagFamily cfg rest

/-- `none`: the call is rejected before any rule runs (it returns an error).
    `some stages`: the rules that run, in barrier-separated stages. -/
def spec (m : Method) (cfg : Cfg) : Option (List (List Rule)) :=
  if cfg.rbNil then none else
  let sel := selected cfg
  let selSorted := sortDesc sel
  let nonEmpty (l : List Rule) (k : List (List Rule)) : Option (List (List Rule)) :=
    if l.isEmpty then none else some k
  let selNM (k1 k2 : StageKind) : Option (List (List Rule)) :=
    if nmGuardsOk cfg cfg.sorted.length && decide (cfg.n + cfg.m = cfg.names.length)
       && cfg.names.all (fun n => (lookupRule cfg.entities n).isSome)
    then some (nmFamily cfg selSorted k1 k2) else none
  match m with
  | .Execute => nonEmpty cfg.sorted (sortFamily cfg cfg.sorted cfg.b false)
  | .ExecuteWithStopTagDirect => nonEmpty cfg.sorted (sortFamily cfg cfg.sorted cfg.b true)
  | .ExecuteConcurrent => nonEmpty cfg.entities (parStage cfg.entities)
  | .ExecuteMixModel => nonEmpty cfg.sorted (mixFamily cfg cfg.sorted false)
  | .ExecuteMixModelWithStopTagDirect => nonEmpty cfg.sorted (mixFamily cfg cfg.sorted true)
  | .ExecuteSelectedRules =>
    if cfg.entities.isEmpty then none else nonEmpty sel (sortFamily cfg selSorted true false)
  | .ExecuteSelectedRulesWithControl =>
    if cfg.sorted.isEmpty then none else nonEmpty sel (sortFamily cfg selSorted cfg.b false)
  | .ExecuteSelectedRulesWithControlAsGivenSortedName =>
    if cfg.sorted.isEmpty then none else nonEmpty sel (sortFamily cfg sel cfg.b false)
  | .ExecuteSelectedRulesWithControlAndStopTag =>
    if cfg.sorted.isEmpty then none else nonEmpty sel (sortFamily cfg selSorted cfg.b true)
  | .ExecuteSelectedRulesWithControlAndStopTagAsGivenSortedName =>
    if cfg.sorted.isEmpty then none else nonEmpty sel (sortFamily cfg sel cfg.b true)
  | .ExecuteSelectedRulesConcurrent =>
    if cfg.entities.isEmpty then none else nonEmpty sel (parStage sel)
  | .ExecuteSelectedRulesMixModel =>
    if cfg.entities.isEmpty then none else
    nonEmpty sel (if sel.length ≤ 2 then sortFamily cfg selSorted false false
                  else mixFamily cfg selSorted false)
  | .ExecuteInverseMixModel => nonEmpty cfg.sorted (inverseFamily cfg cfg.sorted)
  | .ExecuteSelectedRulesInverseMixModel => nonEmpty sel (inverseFamily cfg selSorted)
  | .ExecuteNSortMConcurrent =>
    if nmGuardsOk cfg cfg.sorted.length then some (nmFamily cfg cfg.sorted .sorted .conc) else none
  | .ExecuteNConcurrentMSort =>
    if nmGuardsOk cfg cfg.sorted.length then some (nmFamily cfg cfg.sorted .conc .sorted) else none
  | .ExecuteNConcurrentMConcurrent =>
    if nmGuardsOk cfg cfg.sorted.length then some (nmFamily cfg cfg.sorted .conc .conc) else none
  | .ExecuteSelectedNSortMConcurrent => selNM .sorted .conc
  | .ExecuteSelectedNConcurrentMSort => selNM .conc .sorted
  | .ExecuteSelectedNConcurrentMConcurrent => selNM .conc .conc
  | .ExecuteDAGModel => some (dagFamily cfg cfg.dag)

/-- Expected observable result of a call. -/
structure Expect where
  err     : Bool
  stages  : List (List Rule)
  results : List (Name × Option Int)
deriving Repr, DecidableEq

def returned (cfg : Cfg) (r : Rule) : Bool := (cfg.out r.name).flag && !(cfg.out r.name).fails

def expect (m : Method) (cfg : Cfg) : Expect :=
  match spec m cfg with
  | none => { err := true, stages := [], results := [] }
  | some st =>
    { err := st.flatten.any (fails cfg), stages := st,
      results := (st.flatten.filter (returned cfg)).map (fun r => (r.name, (cfg.out r.name).val)) }

end GV.Orch
