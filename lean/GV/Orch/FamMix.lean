/-
  Mix family (C05, C14): the first rule alone, then the others concurrently.
-/
import GV.Orch.FamSort
namespace GV.Orch

def haltArm : Arm := ⟨.retErr, .cont, .retErr, .cont⟩

theorem haltArm_regular (b : Bool) : haltArm.Regular b := by
  cases b <;> simp [Arm.Regular, Arm.act, haltArm]
theorem haltArm_strict (b : Bool) : haltArm.Strict b := by
  cases b <;> simp [Arm.Strict, Arm.Regular, Arm.act, haltArm]
@[simp] theorem haltArm_halts (b : Bool) : haltArm.halts b = true := by cases b <;> rfl
@[simp] theorem haltArm_collects (b : Bool) : haltArm.collects b = false := by cases b <;> rfl

def stdPar (c : Cnt) : ParSpec := ⟨c, .ifFlag, true, true, true⟩
@[simp] theorem stdPar_add (c : Cnt) : (stdPar c).add = c := rfl
@[simp] theorem stdPar_mode (c : Cnt) : (stdPar c).mode = .ifFlag := rfl
@[simp] theorem stdPar_collects (c : Cnt) : (stdPar c).collects = true := rfl
@[simp] theorem stdPar_done (c : Cnt) : (stdPar c).done = true := rfl
@[simp] theorem stdPar_waits (c : Cnt) : (stdPar c).waits = true := rfl

/-- `ExecuteMixModel` / `ExecuteMixModelWithStopTagDirect`. -/
def mixT (useStop : Bool) : Skel :=
  [⟨[], .retIf .rbNil .err⟩, ⟨[], .reset⟩, ⟨[], .retIf (.len .sortRules 0 .eq 0) .err⟩,
   ⟨[], .seq .sortRules .head .ifFlag haltArm false⟩,
   ⟨(if useStop then [.notStop] else []) ++ [.len .sortRules 1 .ge 1], .par .sortRules .tail (stdPar .lenMinus1)⟩,
   ⟨[], .retIf .errs .err⟩, ⟨[], .ret .nil⟩]

@[simp] theorem evalCond_len1_ge1 (cfg : Cfg) (st : St) (src : Src) :
    evalCond cfg st (.len src 1 .ge 1) = decide (2 ≤ (srcList cfg st src).length) := by
  simp only [evalCond, CmpOp.eval]
  apply decide_eq_decide.mpr; omega

theorem seqStop_true_false (cfg : Cfg) : seqStop cfg true false = fails cfg := by
  funext r; simp [seqStop]

theorem mixT_obs (cfg : Cfg) (hp : Pre cfg) (useStop : Bool) :
    obsOf (run (mixT useStop) cfg) =
      if cfg.sorted.isEmpty then errObs else okObs cfg (mixFamily cfg cfg.sorted useStop) := by
  obtain ⟨hrb, hs0, hfl, hperm⟩ := hp
  simp only [run, mixT, exec_retIf, exec_reset, evalCond_len_eq0, evalCond_rbNil, hrb, srcList_sortRules,
    Bool.false_eq_true, ite_false]
  cases hl : cfg.sorted with
  | nil => simp [obsOf, retFin, errObs, initSt]
  | cons f rest =>
    simp only [List.isEmpty_cons, Bool.false_eq_true, ite_false]
    rw [exec_seq cfg .sortRules .head haltArm false _ _ [] (haltArm_regular _) rfl (by intro h; cases h),
      andThen_seqResult]
    simp only [haltArm_halts, haltArm_collects, Bool.true_and, window, srcList_sortRules, hl, List.take_succ_cons,
      List.take_zero, seqStop_true_false, takeThrough, ite_self, List.any_cons, List.any_nil, Bool.or_false]
    by_cases hf : fails cfg f = true
    · simp [hf, seqResult, obsOf, mixFamily, okObs, takeThrough, singletons, initSt, seqStop_true_false,
        resOf_cons]
    · have hf' : fails cfg f = false := by simpa using hf
      simp only [hf', Bool.false_eq_true, ite_false]
      rw [exec_guarded]
      simp only [seqResult, haltArm_halts, haltArm_collects, seqStop_true_false, takeThrough, ite_self,
        List.any_cons, List.any_nil, Bool.or_false, Bool.false_and, initSt, hs0, Bool.false_or, List.nil_append,
        singletons, List.map_cons, List.map_nil, lastFail, hf']
      have parCase : ∀ (conds : List Cond),
          (conds.all (evalCond cfg
            { results := some (resOf cfg [f]), stop := stops cfg f, stages := [[f]], lastE := false }) =
              (!(useStop && stops cfg f) && decide (2 ≤ rest.length + 1))) →
          obsOf (if conds.all (evalCond cfg
              { results := some (resOf cfg [f]), stop := stops cfg f, stages := [[f]], lastE := false }) = true
            then exec cfg [⟨[], .par .sortRules .tail (stdPar .lenMinus1)⟩, ⟨[], .retIf .errs .err⟩, ⟨[], .ret .nil⟩]
              { results := some (resOf cfg [f]), stop := stops cfg f, stages := [[f]], lastE := false }
            else exec cfg [⟨[], .retIf .errs .err⟩, ⟨[], .ret .nil⟩]
              { results := some (resOf cfg [f]), stop := stops cfg f, stages := [[f]], lastE := false }) =
          okObs cfg (mixFamily cfg (f :: rest) useStop) := by
        intro conds hc
        rw [hc]
        by_cases hstopf : (useStop && stops cfg f) = true
        · simp [hstopf, obsOf, retFin, mixFamily, hf', okObs, resOf_cons]
        · have hstopf' : (useStop && stops cfg f) = false := by simpa using hstopf
          by_cases h2 : 2 ≤ rest.length + 1
          · simp only [hstopf', Bool.not_false, Bool.true_and, h2, decide_true, ite_true]
            rw [exec_par cfg .sortRules .tail _ _ _ (resOf cfg [f]) rfl rfl]
            simp only [exec_retIf, exec_ret, evalCond_errs, window, srcList_sortRules, hl, List.drop_succ_cons,
              List.drop_zero, stdPar, cntVal, List.length_cons, Bool.false_or, Bool.true_and]
            have hne : rest ≠ [] := by intro h; simp [h] at h2
            have hpar : parStage rest = [rest] := by unfold parStage; cases rest <;> simp_all
            by_cases hr : rest.any (fails cfg) = true
            · simp [hr, obsOf, retFin, mixFamily, hf', okObs, hpar, resOf_cons, hstopf']
            · simp [hr, obsOf, retFin, mixFamily, hf', okObs, hpar, resOf_cons, hstopf']
          · have hre : rest = [] := by
              cases rest with
              | nil => rfl
              | cons _ _ => simp at h2
            simp [hstopf', h2, hre, obsOf, retFin, mixFamily, hf', okObs, resOf_cons, parStage]
      cases useStop
      · apply parCase
        simp [hl]
      · apply parCase
        simp [hl]

end GV.Orch
