/-
  Interleaving semantics of a stage plan (C05, C13, and "one at a time" for C04):
  main spawns one goroutine per rule of the current stage after `wg.Add(|stage|)`, each
  goroutine logs its start, later its end and calls `wg.Done()`; main passes `wg.Wait()` only
  when the counter is zero.  Goroutines may start while main is still spawning.

  Theorem `barrier`: in every reachable final state the history is the concatenation, in stage
  order, of one segment per stage whose starts and whose ends are each a permutation of the
  stage's rules — for every stage list and every interleaving.
-/
import GV.Orch.Accept
namespace GV.Orch.Sched
open GV.Orch

structure LSt where
  idx     : Nat
  todo    : List Name
  spawned : List Name
  running : List Name
  wg      : Nat
  hist    : List Ev

def stageAt (stages : List (List Name)) (i : Nat) : List Name := stages.getD i []

def init (stages : List (List Name)) : LSt :=
  { idx := 0, todo := stageAt stages 0, spawned := [], running := [], wg := (stageAt stages 0).length, hist := [] }

inductive Step (stages : List (List Name)) : LSt → LSt → Prop
  | spawn (s : LSt) (r : Name) (h : r ∈ s.todo) :
      Step stages s { s with todo := s.todo.erase r, spawned := r :: s.spawned }
  | start (s : LSt) (r : Name) (h : r ∈ s.spawned) :
      Step stages s { s with spawned := s.spawned.erase r, running := r :: s.running, hist := s.hist ++ [.S r] }
  | finish (s : LSt) (r : Name) (h : r ∈ s.running) :
      Step stages s { s with running := s.running.erase r, wg := s.wg - 1, hist := s.hist ++ [.E r] }
  | pass (s : LSt) (h1 : s.todo = []) (h2 : s.wg = 0) (h3 : s.idx < stages.length) :
      Step stages s { s with idx := s.idx + 1, todo := stageAt stages (s.idx + 1), spawned := [], running := [],
                             wg := (stageAt stages (s.idx + 1)).length }

inductive Reach (stages : List (List Name)) : LSt → Prop
  | init : Reach stages (init stages)
  | step {s t} : Reach stages s → Step stages s t → Reach stages t

def starts (evs : List Ev) : List Name := evs.filterMap (fun e => match e with | .S n => some n | .E _ => none)
def ends (evs : List Ev) : List Name := evs.filterMap (fun e => match e with | .E n => some n | .S _ => none)

@[simp] theorem starts_append (a b : List Ev) : starts (a ++ b) = starts a ++ starts b := by simp [starts]
@[simp] theorem ends_append (a b : List Ev) : ends (a ++ b) = ends a ++ ends b := by simp [ends]

/-- A complete segment of one stage. -/
def Seg (rs : List Name) (seg : List Ev) : Prop := (starts seg).Perm rs ∧ (ends seg).Perm rs

inductive SegsOk : List (List Name) → List (List Ev) → Prop
  | nil : SegsOk [] []
  | cons {rs seg rss segs} : Seg rs seg → SegsOk rss segs → SegsOk (rs :: rss) (seg :: segs)

theorem SegsOk.snoc {a : List (List Name)} {b : List (List Ev)} {r : List Name} {s : List Ev}
    (h : SegsOk a b) (hs : Seg r s) : SegsOk (a ++ [r]) (b ++ [s]) := by
  induction h with
  | nil => exact .cons hs .nil
  | cons h1 _ ih => exact .cons h1 ih

structure Inv (stages : List (List Name)) (s : LSt) : Prop where
  le     : s.idx ≤ stages.length
  decomp : ∃ done cur, s.hist = done.flatten ++ cur ∧ SegsOk (stages.take s.idx) done ∧
      (starts cur ++ s.todo ++ s.spawned).Perm (stageAt stages s.idx) ∧
      (ends cur ++ s.running).Perm (starts cur)
  count  : s.wg = s.todo.length + s.spawned.length + s.running.length

theorem inv_init (stages : List (List Name)) : Inv stages (init stages) := by
  refine ⟨Nat.zero_le _, ⟨[], [], ?_, ?_, ?_, ?_⟩, ?_⟩ <;> simp [init, starts, ends, SegsOk.nil]

theorem inv_step (stages : List (List Name)) (s t : LSt) (hi : Inv stages s) (hs : Step stages s t) :
    Inv stages t := by
  obtain ⟨hle, ⟨done, cur, hh, hdone, hst, hen⟩, hc⟩ := hi
  cases hs with
  | spawn r h =>
    refine ⟨hle, ⟨done, cur, hh, hdone, ?_, hen⟩, ?_⟩
    · refine List.Perm.trans ?_ hst
      have := List.perm_cons_erase h
      simp only [List.append_assoc]
      refine List.Perm.append_left _ ?_
      exact (List.perm_middle).trans (List.Perm.trans (List.Perm.append_right _ this.symm) (by simp))
    · simp only [List.length_cons]
      have := List.length_erase_of_mem h
      have : 0 < s.todo.length := List.length_pos_of_mem h
      omega
  | start r h =>
    refine ⟨hle, ⟨done, cur ++ [.S r], by simp [hh], hdone, ?_, ?_⟩, ?_⟩
    · refine List.Perm.trans ?_ hst
      have hp := List.perm_cons_erase h
      simp only [starts_append, List.append_assoc]
      refine List.Perm.append_left _ ?_
      have : starts [Ev.S r] = [r] := rfl
      rw [this]
      refine List.Perm.trans ?_ (List.Perm.append_left _ hp.symm)
      simp only [List.singleton_append]
      exact List.perm_middle.symm
    · simp only [ends_append, starts_append]
      have h1 : ends [Ev.S r] = [] := rfl
      have h2 : starts [Ev.S r] = [r] := rfl
      rw [h1, h2, List.append_nil]
      exact (List.perm_middle).trans ((List.Perm.cons r hen).trans (List.perm_append_singleton r _).symm)
    · simp only [List.length_cons]
      have := List.length_erase_of_mem h
      have : 0 < s.spawned.length := List.length_pos_of_mem h
      omega
  | finish r h =>
    refine ⟨hle, ⟨done, cur ++ [.E r], by simp [hh], hdone, ?_, ?_⟩, ?_⟩
    · have h1 : starts [Ev.E r] = [] := rfl
      simp only [starts_append, h1, List.append_nil]
      exact hst
    · have h1 : ends [Ev.E r] = [r] := rfl
      have h2 : starts [Ev.E r] = [] := rfl
      simp only [ends_append, starts_append, h1, h2, List.append_nil, List.append_assoc]
      refine List.Perm.trans ?_ hen
      refine List.Perm.append_left _ ?_
      exact (List.perm_cons_erase h).symm
    · have := List.length_erase_of_mem h
      have : 0 < s.running.length := List.length_pos_of_mem h
      simp only
      omega
  | pass h1 h2 h3 =>
    have hsp : s.spawned = [] := by
      have : s.spawned.length = 0 := by omega
      exact List.length_eq_zero_iff.mp this
    have hru : s.running = [] := by
      have : s.running.length = 0 := by omega
      exact List.length_eq_zero_iff.mp this
    refine ⟨h3, ⟨done ++ [cur], [], by simp [hh], ?_, by simp [starts], by simp [ends, starts]⟩, by simp⟩
    rw [List.take_add_one]
    have hget : stages[s.idx]? = some (stageAt stages s.idx) := by
      simp [stageAt, List.getD, h3]
    rw [hget]
    simp only [Option.toList]
    refine hdone.snoc ⟨?_, ?_⟩
    · simpa [h1, hsp] using hst
    · have := hen
      rw [hru, List.append_nil] at this
      exact this.trans (by simpa [h1, hsp] using hst)

theorem inv_reach {stages : List (List Name)} {s : LSt} (h : Reach stages s) : Inv stages s := by
  induction h with
  | init => exact inv_init stages
  | step _ hs ih => exact inv_step stages _ _ ih hs

theorem no_events_nil (cur : List Ev) (h1 : starts cur = []) (h2 : ends cur = []) : cur = [] := by
  cases cur with
  | nil => rfl
  | cons e t => cases e <;> simp [starts, ends] at h1 h2

/-- **Barrier theorem.**  Whatever the interleaving, when the call has passed its last `Wait`
    the history is one complete segment per stage, in stage order. -/
theorem barrier {stages : List (List Name)} {s : LSt} (h : Reach stages s) (hfin : s.idx = stages.length) :
    ∃ segs, s.hist = segs.flatten ∧ SegsOk stages segs := by
  obtain ⟨_, ⟨done, cur, hh, hdone, hst, hen⟩, _⟩ := inv_reach h
  have hnil : stageAt stages s.idx = [] := by simp [stageAt, hfin]
  rw [hnil] at hst
  have h0 := List.Perm.eq_nil hst
  simp only [List.append_eq_nil_iff] at h0
  have hs : starts cur = [] := h0.1.1
  rw [hs] at hen
  have he : ends cur = [] := by
    have := List.Perm.eq_nil hen
    simp only [List.append_eq_nil_iff] at this
    exact this.1
  refine ⟨done, ?_, ?_⟩
  · rw [hh, no_events_nil cur hs he, List.append_nil]
  · rw [hfin, List.take_length] at hdone; exact hdone

/-- The WaitGroup counter never disagrees with the number of goroutines still to finish,
    so `Wait` cannot pass early and `Done` never drives the counter negative. -/
theorem counter_exact {stages : List (List Name)} {s : LSt} (h : Reach stages s) :
    s.wg = s.todo.length + s.spawned.length + s.running.length := (inv_reach h).count

/-- Enabledness: a non-final reachable state always has a successor (no deadlock in the model;
    liveness of the real scheduler is assumed, not proved). -/
theorem progress {stages : List (List Name)} {s : LSt} (h : Reach stages s) (hlt : s.idx < stages.length) :
    ∃ t, Step stages s t := by
  have hc := counter_exact h
  cases ht : s.todo with
  | cons r _ => exact ⟨_, .spawn s r (by simp [ht])⟩
  | nil =>
    cases hsp : s.spawned with
    | cons r _ => exact ⟨_, .start s r (by simp [hsp])⟩
    | nil =>
      cases hr : s.running with
      | cons r _ => exact ⟨_, .finish s r (by simp [hr])⟩
      | nil => exact ⟨_, .pass s ht (by simp [hc, ht, hsp, hr]) hlt⟩

/-! ### The executable checker used by the correspondence run is sound for this specification -/

theorem acceptStage_sound (evs : List Ev) (p o : List Name) (rest : List Ev)
    (h : acceptStage evs p o = some rest) :
    ∃ seg, evs = seg ++ rest ∧ (starts seg).Perm p ∧ (ends seg).Perm (o ++ starts seg) := by
  induction evs generalizing p o with
  | nil =>
    simp only [acceptStage] at h
    split at h
    · rename_i hc
      simp at hc h
      subst h
      exact ⟨[], rfl, by simp [starts, hc.1], by simp [ends, starts, hc.2]⟩
    · simp at h
  | cons ev evs ih =>
    simp only [acceptStage] at h
    split at h
    · rename_i hc
      simp at hc h
      subst h
      exact ⟨[], rfl, by simp [starts, hc.1], by simp [ends, starts, hc.2]⟩
    · cases ev with
      | S n =>
        simp only at h
        split at h
        · rename_i hmem
          obtain ⟨seg, h1, h2, h3⟩ := ih _ _ h
          have hmem' : n ∈ p := by simpa using hmem
          refine ⟨.S n :: seg, by simp [h1], ?_, ?_⟩
          · show (n :: starts seg).Perm p
            exact (List.Perm.cons n h2).trans (List.perm_cons_erase hmem').symm
          · show (ends seg).Perm (o ++ n :: starts seg)
            exact h3.trans (by simpa using (List.perm_middle (a := n) (l₁ := o) (l₂ := starts seg)).symm)
        · simp at h
      | E n =>
        simp only at h
        split at h
        · rename_i hmem
          obtain ⟨seg, h1, h2, h3⟩ := ih _ _ h
          have hmem' : n ∈ o := by simpa using hmem
          refine ⟨.E n :: seg, by simp [h1], ?_, ?_⟩
          · show (starts seg).Perm p
            exact h2
          · show (n :: ends seg).Perm (o ++ starts seg)
            exact (List.Perm.cons n h3).trans
              (List.Perm.append_right _ (List.perm_cons_erase hmem').symm)
        · simp at h

theorem acceptsTrace_sound (stages : List (List Name)) (evs : List Ev) (h : acceptsTrace stages evs = true) :
    ∃ segs, evs = segs.flatten ∧ SegsOk stages segs := by
  induction stages generalizing evs with
  | nil =>
    simp [acceptsTrace] at h
    exact ⟨[], by simp [h], .nil⟩
  | cons st sts ih =>
    simp only [acceptsTrace] at h
    split at h
    · simp at h
    · rename_i rest hst
      obtain ⟨seg, h1, h2, h3⟩ := acceptStage_sound evs st [] rest hst
      obtain ⟨segs, h4, h5⟩ := ih rest h
      refine ⟨seg :: segs, by simp [h1, h4], .cons ⟨h2, ?_⟩ h5⟩
      simpa using h3.trans h2

end GV.Orch.Sched
