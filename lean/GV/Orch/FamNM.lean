/-
  N-M family (C05, C12): two stages over the N+M highest-priority (or selected) rules.
-/
import GV.Orch.FamInverse
namespace GV.Orch

def nmArm : Arm := ⟨.collect, .cont, .retE, .cont⟩
theorem nmArm_regular (b : Bool) : nmArm.Regular b := by
  cases b <;> simp [Arm.Regular, Arm.act, nmArm]
@[simp] theorem nmArm_halts (b : Bool) : nmArm.halts b = !b := by cases b <;> rfl
@[simp] theorem nmArm_collects (b : Bool) : nmArm.collects b = b := by cases b <;> rfl

def nmStage (src : Src) (w : Win) (c : Cnt) : StageKind → GStmt
  | .sorted => ⟨[], .seq src w .ifFlag nmArm false⟩
  | .conc => ⟨[], .par src w (stdPar c)⟩

def nmCore (src : Src) (k1 k2 : StageKind) : Skel :=
  [nmStage src .takeN .n k1] ++
  (match k1 with | .conc => [⟨[.notB], .retIf .errs .err⟩] | .sorted => []) ++
  [nmStage src .dropNTakeM .m k2, ⟨[], .retIf .errs .err⟩, ⟨[], .ret .nil⟩]

theorem any_takeThrough (p : α → Bool) (l : List α) : (takeThrough p l).any p = l.any p := by
  induction l with
  | nil => rfl
  | cons a l ih =>
    unfold takeThrough
    by_cases h : p a = true
    · simp [h]
    · simp [h, ih]

def StageKind.isSorted : StageKind → Bool | .sorted => true | .conc => false
def stageLastE (cfg : Cfg) (k : StageKind) (le : Bool) (ran : List Rule) : Bool :=
  match k with | .sorted => lastFail cfg le ran | .conc => le

/-- What one stage does to the state, in closed form. -/
def stageRun (cfg : Cfg) (k : StageKind) (rs : List Rule) : List (List Rule) :=
  match k with
  | .sorted => sortFamily cfg rs cfg.b false
  | .conc => parStage rs

theorem nmFamily_eq (cfg : Cfg) (order : List Rule) (k1 k2 : StageKind) :
    nmFamily cfg order k1 k2 =
      (if !cfg.b && (order.take cfg.n.toNat).any (fails cfg) then stageRun cfg k1 (order.take cfg.n.toNat)
       else stageRun cfg k1 (order.take cfg.n.toNat) ++
            stageRun cfg k2 ((order.drop cfg.n.toNat).take cfg.m.toNat)) := by
  unfold nmFamily stageRun
  cases k1 <;> cases k2 <;> rfl

/-- Executing one stage from a state without collected errors (or under continue-on-error). -/
theorem exec_nmStage (cfg : Cfg) (src : Src) (w : Win) (c : Cnt) (k : StageKind) (gs : Skel) (st : St)
    (log : List (Name × Option Int)) (hres : st.results = some log)
    (hc : cntVal cfg c (srcList cfg st src) = (window cfg w (srcList cfg st src)).length) :
    exec cfg (nmStage src w c k :: gs) st =
      let rs := window cfg w (srcList cfg st src)
      let ran := (stageRun cfg k rs).flatten
      if k.isSorted && !cfg.b && rs.any (fails cfg) then
        ({ st with results := some (log ++ resOf cfg ran), stages := st.stages ++ stageRun cfg k rs,
                   stop := st.stop || ran.any (stops cfg), lastE := lastFail cfg st.lastE ran }, .retErr)
      else exec cfg gs
        { st with results := some (log ++ resOf cfg ran), stages := st.stages ++ stageRun cfg k rs,
                  stop := st.stop || ran.any (stops cfg),
                  errs := st.errs || ran.any (fails cfg),
                  lastE := stageLastE cfg k st.lastE ran } := by
  cases k
  · -- sorted stage
    simp only [nmStage]
    rw [exec_seq cfg src w nmArm false gs st log (nmArm_regular _) hres (by intro h; cases h), andThen_seqResult]
    simp only [nmArm_halts, nmArm_collects, stageRun, sortFamily, singletons_flatten, Bool.true_and,
      StageKind.isSorted, stageLastE]
    cases hb : cfg.b
    · simp only [Bool.not_false, Bool.true_and, seqStop_true_false, any_takeThrough]
      by_cases hf : (window cfg w (srcList cfg st src)).any (fails cfg) = true
      · simp [hf, seqResult, hb, seqStop_true_false, any_takeThrough]
      · simp [hf, seqResult, hb, seqStop_true_false, any_takeThrough]
    · simp [seqResult, hb, seqStop_false_false, takeThrough_never]
  · simp only [nmStage]
    rw [exec_par cfg src w _ gs st log hres rfl]
    simp [stageRun, stdPar, hc, StageKind.isSorted, stageLastE]

theorem stageRun_any (cfg : Cfg) (k : StageKind) (rs : List Rule) (hb : cfg.b = true ∨ rs.any (fails cfg) = false ∨ k = .conc) :
    (stageRun cfg k rs).flatten = rs := by
  cases k
  · simp only [stageRun, sortFamily, singletons_flatten]
    rcases hb with hb | hb | hb
    · simp [hb, seqStop_false_false, takeThrough_never]
    · apply takeThrough_all'
      intro x hx
      have : fails cfg x = false := by
        have := List.any_eq_false.mp hb x hx; simpa using this
      simp [seqStop, this]
    · cases hb
  · simp [stageRun]
where
  takeThrough_all' {α : Type} {p : α → Bool} {l : List α} (h : ∀ x ∈ l, p x = false) : takeThrough p l = l := by
    induction l with
    | nil => rfl
    | cons a l ih =>
      have := h a (by simp)
      simp [takeThrough, this]
      exact ih (fun x hx => h x (by simp [hx]))

/-- `exec_nmStage` for a state given field by field (so that `rw` finds the write log). -/
theorem exec_nmStage' (cfg : Cfg) (src : Src) (w : Win) (c : Cnt) (k : StageKind) (gs : Skel)
    (log : List (Name × Option Int)) (e s : Bool) (sl : List Rule) (sg : List (List Rule)) (pk le : Bool)
    (hc : cntVal cfg c (srcList cfg ⟨some log, e, s, sl, sg, pk, le⟩ src) =
          (window cfg w (srcList cfg ⟨some log, e, s, sl, sg, pk, le⟩ src)).length) :
    exec cfg (nmStage src w c k :: gs) ⟨some log, e, s, sl, sg, pk, le⟩ =
      let rs := window cfg w (srcList cfg ⟨some log, e, s, sl, sg, pk, le⟩ src)
      let ran := (stageRun cfg k rs).flatten
      if k.isSorted && !cfg.b && rs.any (fails cfg) then
        (⟨some (log ++ resOf cfg ran), e, s || ran.any (stops cfg), sl, sg ++ stageRun cfg k rs, pk,
          lastFail cfg le ran⟩, .retErr)
      else exec cfg gs
        ⟨some (log ++ resOf cfg ran), e || ran.any (fails cfg), s || ran.any (stops cfg), sl,
         sg ++ stageRun cfg k rs, pk, stageLastE cfg k le ran⟩ := by
  rw [exec_nmStage cfg src w c k gs _ log rfl hc]

theorem nmCore_obs (cfg : Cfg) (src : Src) (k1 k2 : StageKind) (hk : k1 = .conc ∨ k2 = .conc) (st : St)
    (h1 : st.results = some []) (h2 : st.errs = false) (h4 : st.stages = []) (h5 : st.parOk = true)
    (hn : 0 < cfg.n) (hm : 0 < cfg.m) (hlen : cfg.n + cfg.m ≤ (srcList cfg st src).length)
    (hsel : ∀ st' : St, st'.sel = st.sel → srcList cfg st' src = srcList cfg st src) :
    obsOf (exec cfg (nmCore src k1 k2) st) = okObs cfg (nmFamily cfg (srcList cfg st src) k1 k2) := by
  have hc1 : cntVal cfg .n (srcList cfg st src) = (window cfg .takeN (srcList cfg st src)).length := by
    simp [cntVal, window]; omega
  have hc2 : ∀ st' : St, st'.sel = st.sel →
      cntVal cfg .m (srcList cfg st' src) = (window cfg .dropNTakeM (srcList cfg st' src)).length := by
    intro st' h; rw [hsel st' h]; simp [cntVal, window]; omega
  rw [nmFamily_eq]
  generalize hs1 : List.take cfg.n.toNat (srcList cfg st src) = s1
  generalize hs2 : List.take cfg.m.toNat (List.drop cfg.n.toNat (srcList cfg st src)) = s2
  have key : ∀ (k : StageKind) (rs : List Rule), (!cfg.b && rs.any (fails cfg)) = false →
      (stageRun cfg k rs).flatten = rs := by
    intro k rs h
    apply stageRun_any
    cases hb : cfg.b <;> simp_all
  -- the first stage
  have stage1 : ∀ gs, exec cfg (nmStage src .takeN .n k1 :: gs) st =
      if k1.isSorted && !cfg.b && s1.any (fails cfg) then
        (⟨some (resOf cfg (stageRun cfg k1 s1).flatten), false, st.stop || (stageRun cfg k1 s1).flatten.any (stops cfg),
          st.sel, stageRun cfg k1 s1, true, lastFail cfg st.lastE (stageRun cfg k1 s1).flatten⟩, .retErr)
      else exec cfg gs
        ⟨some (resOf cfg (stageRun cfg k1 s1).flatten), (stageRun cfg k1 s1).flatten.any (fails cfg),
         st.stop || (stageRun cfg k1 s1).flatten.any (stops cfg), st.sel, stageRun cfg k1 s1, true,
         stageLastE cfg k1 st.lastE (stageRun cfg k1 s1).flatten⟩ := by
    intro gs
    rw [exec_nmStage cfg src .takeN .n k1 gs st [] h1 hc1]
    simp only [window, h2, h4, h5, List.nil_append, Bool.false_or, hs1]
  -- the second stage, from the state the first one leaves
  have stage2 : ∀ gs e s sg le, exec cfg (nmStage src .dropNTakeM .m k2 :: gs)
        ⟨some (resOf cfg s1), e, s, st.sel, sg, true, le⟩ =
      if k2.isSorted && !cfg.b && s2.any (fails cfg) then
        (⟨some (resOf cfg s1 ++ resOf cfg (stageRun cfg k2 s2).flatten), e,
          s || (stageRun cfg k2 s2).flatten.any (stops cfg), st.sel, sg ++ stageRun cfg k2 s2, true,
          lastFail cfg le (stageRun cfg k2 s2).flatten⟩, .retErr)
      else exec cfg gs
        ⟨some (resOf cfg s1 ++ resOf cfg (stageRun cfg k2 s2).flatten), e || (stageRun cfg k2 s2).flatten.any (fails cfg),
         s || (stageRun cfg k2 s2).flatten.any (stops cfg), st.sel, sg ++ stageRun cfg k2 s2, true,
         stageLastE cfg k2 le (stageRun cfg k2 s2).flatten⟩ := by
    intro gs e s sg le
    rw [exec_nmStage' cfg src .dropNTakeM .m k2 gs _ _ _ _ _ _ _ (hc2 _ rfl)]
    simp only [hsel, window, hs2]
  by_cases hhalt : (!cfg.b && s1.any (fails cfg)) = true
  · -- stop-on-error and a failure in stage one: stage two does not run
    have hb : cfg.b = false := by cases h : cfg.b <;> simp_all
    have hf : s1.any (fails cfg) = true := by cases h : cfg.b <;> simp_all
    simp only [hhalt, ite_true]
    cases k1
    · simp only [nmCore, List.cons_append, List.nil_append, List.append_nil, stage1]
      simp [StageKind.isSorted, stageLastE, hb, hf, obsOf, okObs, stageRun, sortFamily, seqStop_true_false, any_takeThrough]
    · simp only [nmCore, List.cons_append, List.nil_append, List.append_nil, stage1]
      simp only [StageKind.isSorted, Bool.false_and, Bool.false_eq_true, ite_false, stageRun, parStage_flatten]
      rw [exec_guarded]
      simp [StageKind.isSorted, stageLastE, hb, hf, obsOf, okObs, retFin]
  · have hhalt' : (!cfg.b && s1.any (fails cfg)) = false := by simpa using hhalt
    have hfl1 := key k1 s1 hhalt'
    have hskip : (k1.isSorted && !cfg.b && s1.any (fails cfg)) = false := by
      cases k1 <;> simp_all [StageKind.isSorted]
    simp only [hhalt', Bool.false_eq_true, ite_false]
    -- reach the second stage
    have reach : exec cfg (nmCore src k1 k2) st =
        exec cfg [nmStage src .dropNTakeM .m k2, ⟨[], .retIf .errs .err⟩, ⟨[], .ret .nil⟩]
          ⟨some (resOf cfg s1), s1.any (fails cfg), st.stop || s1.any (stops cfg), st.sel, stageRun cfg k1 s1, true,
           stageLastE cfg k1 st.lastE s1⟩ := by
      cases k1
      · simp only [nmCore, List.cons_append, List.nil_append, List.append_nil, stage1, hskip, hfl1,
          Bool.false_eq_true, ite_false]
      · simp only [nmCore, List.cons_append, List.nil_append, List.append_nil, stage1, hskip, hfl1,
          Bool.false_eq_true, ite_false]
        rw [exec_guarded]
        cases hb : cfg.b
        · have : s1.any (fails cfg) = false := by simp_all
          simp [hb, this]
        · simp [hb]
    rw [reach, stage2]
    by_cases hhalt2 : (k2.isSorted && !cfg.b && s2.any (fails cfg)) = true
    · have hk2 : k2 = .sorted := by cases k2 <;> simp_all [StageKind.isSorted]
      subst hk2
      have hb : cfg.b = false := by cases h : cfg.b <;> simp_all [StageKind.isSorted]
      have hf2 : s2.any (fails cfg) = true := by cases h : cfg.b <;> simp_all [StageKind.isSorted]
      simp only [okObs, List.flatten_append, hfl1, obsOf]
      simp [StageKind.isSorted, stageLastE, hb, hf2, stageRun, sortFamily, seqStop_true_false, any_takeThrough, resOf_append]
    · have hhalt2' : (k2.isSorted && !cfg.b && s2.any (fails cfg)) = false := by simpa using hhalt2
      simp only [hhalt2', Bool.false_eq_true, ite_false, exec_retIf, exec_ret, evalCond_errs]
      have hfl2 : (stageRun cfg k2 s2).flatten = s2 := by
        apply stageRun_any
        cases k2 <;> cases hb : cfg.b <;> simp_all [StageKind.isSorted]
      by_cases hf1 : s1.any (fails cfg) = true <;> by_cases hf2 : s2.any (fails cfg) = true <;>
        simp [hf1, hf2, obsOf, okObs, retFin, resOf_append, hfl1, hfl2]

end GV.Orch
