/-
  Closed forms for the loops of the orchestration semantics.
-/
import GV.Orch.Spec
namespace GV.Orch

def resOf (cfg : Cfg) (l : List Rule) : List (Name × Option Int) :=
  (l.filter (fun r => (cfg.out r.name).flag)).map (fun r => (r.name, (cfg.out r.name).val))

@[simp] theorem resOf_nil (cfg : Cfg) : resOf cfg [] = [] := rfl

theorem resOf_cons (cfg : Cfg) (r : Rule) (l : List Rule) :
    resOf cfg (r :: l) = (if (cfg.out r.name).flag then [(r.name, (cfg.out r.name).val)] else []) ++ resOf cfg l := by
  unfold resOf; by_cases h : (cfg.out r.name).flag <;> simp [h]

theorem resOf_append (cfg : Cfg) (a b : List Rule) : resOf cfg (a ++ b) = resOf cfg a ++ resOf cfg b := by
  simp [resOf]

theorem addRes_ifFlag (r : Rule) (o : Outcome) (st : St) (log : List (Name × Option Int))
    (h : st.results = some log) :
    addRes .ifFlag r o st =
      some { st with results := some (log ++ if o.flag then [(r.name, o.val)] else []) } := by
  cases st; cases hf : o.flag <;> simp_all [addRes]

/-- `halts`: a failing rule ends the call; `collects`: it is recorded and the loop goes on. -/
def Arm.halts (a : Arm) (b : Bool) : Bool := a.act b true == .retErr || a.act b true == .retE
def Arm.collects (a : Arm) (b : Bool) : Bool := a.act b true == .collect

/-- An arm is regular when a successful rule lets the loop continue and a failing one is
    either collected, ends the call with an error, or is ignored (`cont`). -/
def Arm.Regular (a : Arm) (b : Bool) : Prop :=
  a.act b false = .cont ∧ a.act b true ≠ .retNil

def lastFail (cfg : Cfg) (d : Bool) : List Rule → Bool
  | [] => d
  | r :: rs => lastFail cfg (fails cfg r) rs

/-- Closed form of `runSeq` in `AddMode.ifFlag`. -/
def seqResult (cfg : Cfg) (a : Arm) (sb : Bool) (rs : List Rule) (st : St)
    (log : List (Name × Option Int)) : St × Fin :=
  let ex := takeThrough (seqStop cfg (a.halts cfg.b) sb) rs
  ({ st with results := some (log ++ resOf cfg ex),
             stages := st.stages ++ singletons ex,
             stop := st.stop || ex.any (stops cfg),
             errs := st.errs || (a.collects cfg.b && ex.any (fails cfg)),
             lastE := lastFail cfg st.lastE ex },
   if a.halts cfg.b && ex.any (fails cfg) then .retErr else .running)

/-- State after one sequentially executed rule. -/
def afterRule (cfg : Cfg) (a : Arm) (r : Rule) (st : St) (log : List (Name × Option Int)) : St :=
  { st with results := some (log ++ resOf cfg [r]),
            stages := st.stages ++ [[r]],
            stop := st.stop || stops cfg r,
            errs := st.errs || (a.collects cfg.b && fails cfg r),
            lastE := fails cfg r }

theorem seqResult_cons_stop (cfg : Cfg) (a : Arm) (sb : Bool) (r : Rule) (rs : List Rule) (st : St)
    (log : List (Name × Option Int)) (h : seqStop cfg (a.halts cfg.b) sb r = true) :
    seqResult cfg a sb (r :: rs) st log =
      (afterRule cfg a r st log, if a.halts cfg.b && fails cfg r then .retErr else .running) := by
  simp [seqResult, takeThrough, h, afterRule, singletons, lastFail]

theorem seqResult_cons_go (cfg : Cfg) (a : Arm) (sb : Bool) (r : Rule) (rs : List Rule) (st : St)
    (log : List (Name × Option Int)) (h : seqStop cfg (a.halts cfg.b) sb r = false) :
    seqResult cfg a sb (r :: rs) st log =
      seqResult cfg a sb rs (afterRule cfg a r st log) (log ++ resOf cfg [r]) := by
  have hh : (a.halts cfg.b && fails cfg r) = false := by
    simp [seqStop] at h; cases hx : a.halts cfg.b <;> cases hy : fails cfg r <;> simp_all
  simp only [seqResult, takeThrough, h, afterRule, singletons, lastFail, Bool.false_eq_true, ite_false,
    List.map_cons, List.any_cons]
  refine Prod.ext ?_ ?_
  · simp only [resOf_cons, resOf_nil, List.append_nil, List.append_assoc, List.cons_append, List.nil_append,
      Bool.or_assoc]
    congr 1
    cases a.collects cfg.b <;> simp [Bool.or_assoc]
  · simp only
    cases hx : a.halts cfg.b <;> simp_all


theorem runSeq_eq (cfg : Cfg) (a : Arm) (sb : Bool) (hreg : a.Regular cfg.b)
    (rs : List Rule) (st : St) (log : List (Name × Option Int))
    (hres : st.results = some log) (hstop : sb = true → st.stop = false) :
    runSeq cfg .ifFlag a sb rs st = seqResult cfg a sb rs st log := by
  induction rs generalizing st log with
  | nil =>
    simp [runSeq, seqResult, takeThrough, singletons, lastFail]
    cases st; simp_all
  | cons r rs ih =>
    obtain ⟨hok, hne⟩ := hreg
    unfold runSeq
    simp only []
    have hadd := addRes_ifFlag r (cfg.out r.name) { st with stop := st.stop || (cfg.out r.name).stop, stages := st.stages ++ [[r]], lastE := (cfg.out r.name).fails } log hres
    rw [hadd]
    simp only []
    by_cases hS : seqStop cfg (a.halts cfg.b) sb r = true
    · rw [seqResult_cons_stop _ _ _ _ _ _ _ hS]
      by_cases hf : (cfg.out r.name).fails = true
      · rw [hf]
        cases hfa : a.act cfg.b true with
        | retNil => exact absurd hfa hne
        | retE => simp [afterRule, Arm.halts, Arm.collects, hfa, fails, stops, hf, resOf_cons]
        | retErr => simp [afterRule, Arm.halts, Arm.collects, hfa, fails, stops, hf, resOf_cons]
        | collect =>
          have hsb : sb = true ∧ (cfg.out r.name).stop = true := by
            simp [seqStop, Arm.halts, hfa, stops] at hS; exact hS
          simp [afterRule, Arm.halts, Arm.collects, hfa, fails, stops, hf, resOf_cons, hsb.1, hsb.2]
        | cont =>
          have hsb : sb = true ∧ (cfg.out r.name).stop = true := by
            simp [seqStop, Arm.halts, hfa, stops] at hS; exact hS
          simp [afterRule, Arm.halts, Arm.collects, hfa, fails, stops, hf, resOf_cons, hsb.1, hsb.2]
      · have hf' : (cfg.out r.name).fails = false := by simpa using hf
        rw [hf', hok]
        have hsb : sb = true ∧ (cfg.out r.name).stop = true := by
          simp [seqStop, fails, hf', stops] at hS; exact hS
        simp [afterRule, fails, stops, hf', resOf_cons, hsb.1, hsb.2]
    · have hS' : seqStop cfg (a.halts cfg.b) sb r = false := by simpa using hS
      rw [seqResult_cons_go _ _ _ _ _ _ _ hS']
      have hnostop : sb = true → (st.stop || (cfg.out r.name).stop) = false := by
        intro h1
        have h0 := hstop h1
        simp [seqStop, h1, stops] at hS'
        simp [h0, hS'.2]
      by_cases hf : (cfg.out r.name).fails = true
      · rw [hf]
        cases hfa : a.act cfg.b true with
        | retNil => exact absurd hfa hne
        | retE => simp [seqStop, Arm.halts, hfa, fails, hf] at hS'
        | retErr => simp [seqStop, Arm.halts, hfa, fails, hf] at hS'
        | collect =>
          simp only []
          have hc : (sb && (st.stop || (cfg.out r.name).stop)) = false := by
            cases hsb : sb
            · simp
            · simp [hnostop hsb]
          simp only [hc, Bool.false_eq_true, ite_false]
          rw [ih _ (log ++ resOf cfg [r])]
          · congr 1
            simp [afterRule, Arm.collects, hfa, fails, stops, hf, resOf_cons]
          · simp [resOf_cons]
          · intro h1; simpa using hnostop h1
        | cont =>
          simp only []
          have hc : (sb && (st.stop || (cfg.out r.name).stop)) = false := by
            cases hsb : sb
            · simp
            · simp [hnostop hsb]
          simp only [hc, Bool.false_eq_true, ite_false]
          rw [ih _ (log ++ resOf cfg [r])]
          · congr 1
            simp [afterRule, Arm.collects, hfa, fails, stops, hf, resOf_cons]
          · simp [resOf_cons]
          · intro h1; simpa using hnostop h1
      · have hf' : (cfg.out r.name).fails = false := by simpa using hf
        rw [hf', hok]
        simp only []
        have hc : (sb && (st.stop || (cfg.out r.name).stop)) = false := by
          cases hsb : sb
          · simp
          · simp [hnostop hsb]
        simp only [hc, Bool.false_eq_true, ite_false]
        rw [ih _ (log ++ resOf cfg [r])]
        · congr 1
          simp [afterRule, fails, stops, hf', resOf_cons]
        · simp [resOf_cons]
        · intro h1; simpa using hnostop h1

theorem addAll_ifFlag (cfg : Cfg) (rs : List Rule) (st : St) (log : List (Name × Option Int))
    (h : st.results = some log) :
    addAll cfg .ifFlag rs st = some { st with results := some (log ++ resOf cfg rs) } := by
  induction rs generalizing st log with
  | nil => cases st; simp_all [addAll]
  | cons r rs ih =>
    unfold addAll
    rw [addRes_ifFlag r (cfg.out r.name) st log h]
    simp only []
    rw [ih _ (log ++ if (cfg.out r.name).flag then [(r.name, (cfg.out r.name).val)] else [])]
    · simp [resOf_cons]
    · rfl

/-- Closed form of a well-formed fan-out. -/
theorem runPar_eq (cfg : Cfg) (p : ParSpec) (cnt : Int) (rs : List Rule) (st : St)
    (log : List (Name × Option Int)) (h : st.results = some log) (hm : p.mode = .ifFlag) :
    runPar cfg p cnt rs st =
      ({ st with results := some (log ++ resOf cfg rs),
                 stages := st.stages ++ parStage rs,
                 stop := st.stop || rs.any (stops cfg),
                 errs := st.errs || (p.collects && rs.any (fails cfg)),
                 parOk := st.parOk && (cnt == rs.length) && p.done && p.waits }, .running) := by
  unfold runPar
  simp only [hm]
  have hadd := addAll_ifFlag cfg rs { st with stages := if rs.isEmpty then st.stages else st.stages ++ [rs], stop := st.stop || rs.any (fun r => (cfg.out r.name).stop), errs := st.errs || (p.collects && rs.any (fun r => (cfg.out r.name).fails)), parOk := st.parOk && (cnt == rs.length) && p.done && p.waits } log h
  rw [hadd]
  have hf : fails cfg = fun r => (cfg.out r.name).fails := rfl
  have hs : stops cfg = fun r => (cfg.out r.name).stop := rfl
  simp only [parStage, hf, hs]
  cases hrs : rs.isEmpty <;> simp [hrs]

/-! ### sequencing lemmas -/

@[simp] theorem andThen_running (st : St) (k : St → St × Fin) : andThen (st, .running) k = k st := rfl
@[simp] theorem andThen_retOk (st : St) (k : St → St × Fin) : andThen (st, .retOk) k = (st, .retOk) := rfl
@[simp] theorem andThen_retErr (st : St) (k : St → St × Fin) : andThen (st, .retErr) k = (st, .retErr) := rfl
@[simp] theorem andThen_panicked (st : St) (k : St → St × Fin) : andThen (st, .panicked) k = (st, .panicked) := rfl

theorem andThen_ite (c : Prop) [Decidable c] (a b : St × Fin) (k : St → St × Fin) :
    andThen (if c then a else b) k = if c then andThen a k else andThen b k := by
  split <;> rfl

theorem andThen_retFin (st : St) (kd : RetKind) (k : St → St × Fin) :
    andThen (st, retFin kd st) k = (st, retFin kd st) := by
  cases kd <;> simp [retFin]
  split <;> rfl

@[simp] theorem exec_nil (cfg : Cfg) (st : St) : exec cfg [] st = (st, .running) := rfl

@[simp] theorem exec_retIf (cfg : Cfg) (c : Cond) (k : RetKind) (gs : Skel) (st : St) :
    exec cfg (⟨[], .retIf c k⟩ :: gs) st =
      if evalCond cfg st c then (st, retFin k st) else exec cfg gs st := by
  simp only [exec, List.all_nil, ite_true, execStmt]
  rw [andThen_ite]
  simp [andThen_retFin]

@[simp] theorem exec_ret (cfg : Cfg) (k : RetKind) (gs : Skel) (st : St) :
    exec cfg (⟨[], .ret k⟩ :: gs) st = (st, retFin k st) := by
  simp only [exec, List.all_nil, ite_true, execStmt, andThen_retFin]

@[simp] theorem exec_reset (cfg : Cfg) (gs : Skel) (st : St) :
    exec cfg (⟨[], .reset⟩ :: gs) st = exec cfg gs { st with results := some [] } := by
  simp [exec, execStmt]

theorem exec_guarded (cfg : Cfg) (cs : List Cond) (s : Stmt) (gs : Skel) (st : St) :
    exec cfg (⟨cs, s⟩ :: gs) st =
      if cs.all (evalCond cfg st) then exec cfg (⟨[], s⟩ :: gs) st else exec cfg gs st := by
  simp [exec]

/-- A sequential loop in closed form, followed by the rest of the method. -/
theorem exec_seq (cfg : Cfg) (src : Src) (w : Win) (a : Arm) (sb : Bool) (gs : Skel) (st : St)
    (log : List (Name × Option Int)) (hreg : a.Regular cfg.b)
    (hres : st.results = some log) (hstop : sb = true → st.stop = false) :
    exec cfg (⟨[], .seq src w .ifFlag a sb⟩ :: gs) st =
      andThen (seqResult cfg a sb (window cfg w (srcList cfg st src)) st log) (exec cfg gs) := by
  simp only [exec, List.all_nil, ite_true, execStmt]
  rw [runSeq_eq cfg a sb hreg _ st log hres hstop]

theorem exec_par (cfg : Cfg) (src : Src) (w : Win) (p : ParSpec) (gs : Skel) (st : St)
    (log : List (Name × Option Int)) (hres : st.results = some log) (hm : p.mode = .ifFlag) :
    exec cfg (⟨[], .par src w p⟩ :: gs) st =
      exec cfg gs
        { st with results := some (log ++ resOf cfg (window cfg w (srcList cfg st src))),
                  stages := st.stages ++ parStage (window cfg w (srcList cfg st src)),
                  stop := st.stop || (window cfg w (srcList cfg st src)).any (stops cfg),
                  errs := st.errs || (p.collects && (window cfg w (srcList cfg st src)).any (fails cfg)),
                  parOk := st.parOk && (cntVal cfg p.add (srcList cfg st src) == (window cfg w (srcList cfg st src)).length) && p.done && p.waits } := by
  simp only [exec, List.all_nil, ite_true, execStmt]
  rw [runPar_eq cfg p _ _ st log hres hm]
  rfl

end GV.Orch
