/-
  What it means for an extracted skeleton to conform to a method's reference semantics.
-/
import GV.Orch.Lemmas
namespace GV.Orch

/-- Observable projection of a run. -/
structure Obs where
  fin     : Fin
  stages  : List (List Rule)
  results : Option (List (Name × Option Int))
  parOk   : Bool
deriving DecidableEq, Repr

def obsOf (r : St × Fin) : Obs := ⟨r.2, r.1.stages, r.1.results, r.1.parOk⟩

def expectObs (m : Method) (cfg : Cfg) : Obs :=
  let ex := expect m cfg
  ⟨if ex.err then .retErr else .retOk, ex.stages, some ex.results, true⟩

/-- Observation of a call rejected before any rule ran. -/
def errObs : Obs := ⟨.retErr, [], some [], true⟩

/-- Observation of a call that ran `stages`. -/
def okObs (cfg : Cfg) (stages : List (List Rule)) : Obs :=
  ⟨if stages.flatten.any (fails cfg) then .retErr else .retOk, stages, some (resOf cfg stages.flatten), true⟩

/-- A rule that reports `returned` did not fail (rule level: GV.Props.C11.flag_iff). -/
def FlagOk (cfg : Cfg) : Prop := ∀ n, (cfg.out n).flag = true → (cfg.out n).fails = false

/-- The caller's side of the contract. -/
structure Pre (cfg : Cfg) : Prop where
  rb    : cfg.rbNil = false
  stop0 : cfg.stop0 = false
  flag  : FlagOk cfg
  perm  : cfg.entities.Perm cfg.sorted     -- the rule map and the sorted slice hold the same rules

def Conforms (sk : Skel) (m : Method) : Prop :=
  ∀ cfg : Cfg, Pre cfg → obsOf (run sk cfg) = expectObs m cfg

theorem resOf_eq_returned (cfg : Cfg) (h : FlagOk cfg) (l : List Rule) :
    (l.filter (returned cfg)).map (fun r => (r.name, (cfg.out r.name).val)) = resOf cfg l := by
  unfold resOf
  congr 1
  apply List.filter_congr
  intro r _
  unfold returned
  cases hf : (cfg.out r.name).flag
  · simp
  · simp [h r.name hf]

theorem expectObs_eq (m : Method) (cfg : Cfg) (h : FlagOk cfg) :
    expectObs m cfg = match spec m cfg with | none => errObs | some st => okObs cfg st := by
  unfold expectObs expect
  cases spec m cfg with
  | none => simp [errObs]
  | some st => simp only [okObs, resOf_eq_returned cfg h]

@[simp] theorem singletons_flatten (l : List Rule) : (singletons l).flatten = l := by
  induction l with
  | nil => rfl
  | cons a l ih => simp [singletons] at *; exact ih

@[simp] theorem parStage_flatten (l : List Rule) : (parStage l).flatten = l := by
  unfold parStage; cases l <;> simp

theorem sortDesc_short (l : List Rule) (h : l.length < 2) : sortDesc l = l := by
  match l, h with
  | [], _ => simp [sortDesc]
  | [a], _ => simp [sortDesc]

@[simp] theorem sortDesc_eq_nil (l : List Rule) : sortDesc l = [] ↔ l = [] := by
  have h := (List.mergeSort_perm l (fun a b => decide (a.sal ≥ b.sal))).length_eq
  constructor
  · intro h1; simp [sortDesc] at h1; rw [h1] at h; exact List.length_eq_zero_iff.mp h.symm
  · intro h1; subst h1; simp [sortDesc]

@[simp] theorem sortDesc_isEmpty (l : List Rule) : (sortDesc l).isEmpty = l.isEmpty := by
  cases h : l.isEmpty
  · have : ¬ sortDesc l = [] := by rw [sortDesc_eq_nil]; simpa using h
    simpa using this
  · have : sortDesc l = [] := by rw [sortDesc_eq_nil]; simpa using h
    simp [this]

end GV.Orch
