/-
  Sorted family (C04, C12, C14): template skeleton and its conformance proof.
-/
import GV.Orch.Conform
namespace GV.Orch

theorem andThen_seqResult (cfg : Cfg) (a : Arm) (sb : Bool) (rs : List Rule) (st : St)
    (log : List (Name × Option Int)) (k : St → St × Fin) :
    andThen (seqResult cfg a sb rs st log) k =
      if (a.halts cfg.b && (takeThrough (seqStop cfg (a.halts cfg.b) sb) rs).any (fails cfg)) = true
      then ((seqResult cfg a sb rs st log).1, .retErr) else k (seqResult cfg a sb rs st log).1 := by
  unfold seqResult
  simp only []
  split <;> simp [andThen]

/-- An arm that never ignores a failure. -/
def Arm.Strict (a : Arm) (b : Bool) : Prop := a.Regular b ∧ a.act b true ≠ .cont

theorem Arm.Strict.halts_or_collects {a : Arm} {b : Bool} (h : a.Strict b) :
    (a.halts b = true ∧ a.collects b = false) ∨ (a.halts b = false ∧ a.collects b = true) := by
  obtain ⟨⟨_, h2⟩, h3⟩ := h
  unfold Arm.halts Arm.collects
  cases hx : a.act b true <;> simp_all

/-- The common tail `seq …; if len(eMsg)>0 {return err}; return nil`. -/
theorem exec_seq_tail (cfg : Cfg) (src : Src) (a : Arm) (sb : Bool) (st : St)
    (log : List (Name × Option Int)) (hs : a.Strict cfg.b)
    (hres : st.results = some log) (herrs : st.errs = false) (hstop : st.stop = false) :
    obsOf (exec cfg [⟨[], .seq src .all .ifFlag a sb⟩, ⟨[], .retIf .errs .err⟩, ⟨[], .ret .nil⟩] st) =
      let ex := takeThrough (seqStop cfg (a.halts cfg.b) sb) (srcList cfg st src)
      ⟨if ex.any (fails cfg) then .retErr else .retOk, st.stages ++ singletons ex,
       some (log ++ resOf cfg ex), st.parOk⟩ := by
  rw [exec_seq cfg src .all a sb _ st log hs.1 hres (fun _ => hstop), andThen_seqResult]
  simp only [exec_retIf, exec_ret, evalCond, window]
  rcases hs.halts_or_collects with ⟨h1, h2⟩ | ⟨h1, h2⟩
  · simp only [h1, h2, Bool.true_and, Bool.false_and, Bool.or_false, seqResult, herrs]
    split <;> simp_all [obsOf, retFin]
  · simp only [h1, h2, Bool.true_and, Bool.false_and, Bool.or_false, seqResult, herrs, Bool.false_eq_true,
      ite_false, Bool.false_or]
    split <;> simp_all [obsOf, retFin]

/-- Template of the sorted family. `gsrc`: list whose emptiness is checked first; `sel`: rules are
    selected by name; `srt`: the selection is sorted (under the guard `len >= 2`). -/
def sortT (gsrc : Src) (sel srt : Bool) (a : Arm) (sb : Bool) : Skel :=
  [⟨[], .retIf .rbNil .err⟩, ⟨[], .reset⟩, ⟨[], .retIf (.len gsrc 0 .eq 0) .err⟩] ++
  (if sel then
    [⟨[], .select .skip⟩, ⟨[], .retIf (.len .selected 0 .lt 1) .err⟩] ++
      (if srt then [⟨[.len .selected 0 .ge 2], .sort⟩] else [])
   else []) ++
  [⟨[], .seq (if sel then .selected else .sortRules) .all .ifFlag a sb⟩,
   ⟨[], .retIf .errs .err⟩, ⟨[], .ret .nil⟩]

def sortOrder (cfg : Cfg) (sel srt : Bool) : List Rule :=
  if sel then (if srt then sortDesc (selected cfg) else selected cfg) else cfg.sorted

@[simp] theorem evalCond_rbNil (cfg : Cfg) (st : St) : evalCond cfg st .rbNil = cfg.rbNil := rfl
@[simp] theorem evalCond_errs (cfg : Cfg) (st : St) : evalCond cfg st .errs = st.errs := rfl
@[simp] theorem evalCond_notB (cfg : Cfg) (st : St) : evalCond cfg st .notB = !cfg.b := rfl
@[simp] theorem evalCond_notStop (cfg : Cfg) (st : St) : evalCond cfg st .notStop = !st.stop := rfl

@[simp] theorem evalCond_len_eq0 (cfg : Cfg) (st : St) (src : Src) :
    evalCond cfg st (.len src 0 .eq 0) = (srcList cfg st src).isEmpty := by
  simp only [evalCond, CmpOp.eval, Int.sub_zero]
  cases h : srcList cfg st src <;> simp
  omega

@[simp] theorem evalCond_len_lt1 (cfg : Cfg) (st : St) (src : Src) :
    evalCond cfg st (.len src 0 .lt 1) = (srcList cfg st src).isEmpty := by
  simp only [evalCond, CmpOp.eval, Int.sub_zero]
  cases h : srcList cfg st src <;> simp
  omega

@[simp] theorem evalCond_len_ge2 (cfg : Cfg) (st : St) (src : Src) :
    evalCond cfg st (.len src 0 .ge 2) = decide (2 ≤ (srcList cfg st src).length) := by
  simp only [evalCond, CmpOp.eval, Int.sub_zero]
  apply decide_eq_decide.mpr; omega

@[simp] theorem srcList_sortRules (cfg : Cfg) (st : St) : srcList cfg st .sortRules = cfg.sorted := rfl
@[simp] theorem srcList_entities (cfg : Cfg) (st : St) : srcList cfg st .entities = cfg.entities := rfl
@[simp] theorem srcList_selected (cfg : Cfg) (st : St) : srcList cfg st .selected = st.sel := rfl

theorem exec_select_skip (cfg : Cfg) (gs : Skel) (st : St) :
    exec cfg (⟨[], .select .skip⟩ :: gs) st = exec cfg gs { st with sel := selected cfg } := by
  simp [exec, execStmt, selected]

theorem exec_sort_guarded (cfg : Cfg) (gs : Skel) (st : St) :
    exec cfg (⟨[.len .selected 0 .ge 2], .sort⟩ :: gs) st = exec cfg gs { st with sel := sortDesc st.sel } := by
  rw [exec_guarded]
  simp only [List.all_cons, List.all_nil, Bool.and_true, evalCond_len_ge2, srcList_selected]
  by_cases h : 2 ≤ st.sel.length
  · simp [h, exec, execStmt]
  · have : sortDesc st.sel = st.sel := sortDesc_short _ (by omega)
    simp [h, this]

theorem sortT_obs (cfg : Cfg) (hp : Pre cfg) (gsrc : Src) (hg : gsrc ≠ .selected) (sel srt : Bool) (a : Arm) (sb : Bool)
    (hs : a.Strict cfg.b) :
    obsOf (run (sortT gsrc sel srt a sb) cfg) =
      if (srcList cfg (initSt cfg) gsrc).isEmpty then errObs
      else if (sortOrder cfg sel srt).isEmpty then errObs
      else okObs cfg (singletons (takeThrough (seqStop cfg (a.halts cfg.b) sb) (sortOrder cfg sel srt))) := by
  obtain ⟨hrb, hs0, hfl, hperm⟩ := hp
  have hgs : ∀ st : St, srcList cfg st gsrc = srcList cfg (initSt cfg) gsrc := by
    intro st; cases gsrc <;> simp_all [srcList]
  have tail : ∀ (src : Src) (st : St), st.results = some [] → st.errs = false → st.stop = false →
      st.stages = [] → st.parOk = true →
      obsOf (exec cfg [⟨[], .seq src .all .ifFlag a sb⟩, ⟨[], .retIf .errs .err⟩, ⟨[], .ret .nil⟩] st) =
        if (srcList cfg st src).isEmpty then ⟨.retOk, [], some [], true⟩
        else okObs cfg (singletons (takeThrough (seqStop cfg (a.halts cfg.b) sb) (srcList cfg st src))) := by
    intro src st h1 h2 h3 h4 h5
    rw [exec_seq_tail cfg src a sb st [] hs h1 h2 h3]
    simp only [h4, h5, List.nil_append, okObs, singletons_flatten]
    cases hl : srcList cfg st src <;> simp [takeThrough, singletons]
  cases sel
  · -- installed rules
    simp only [run, sortT, Bool.false_eq_true, ite_false, List.append_nil, List.cons_append, List.nil_append,
      exec_retIf, exec_reset, evalCond_len_eq0, evalCond_rbNil, hrb, sortOrder, hgs]
    by_cases he : (srcList cfg (initSt cfg) gsrc).isEmpty = true
    · simp only [he, ite_true]; simp [obsOf, retFin, errObs, initSt]
    · simp only [he, Bool.false_eq_true, ite_false]
      rw [tail .sortRules _ rfl rfl (by simpa [initSt] using hs0) rfl rfl]
      simp only [srcList_sortRules]
      by_cases hso : cfg.sorted.isEmpty = true
      · -- the guard list is not empty but the sorted list is: excluded by `Pre.perm`
        exfalso; apply he
        have h0 : cfg.sorted = [] := by simpa using hso
        cases gsrc
        · simpa [srcList] using hso
        · have := hperm.length_eq
          simp [h0] at this
          simp [srcList, this]
        · exact absurd rfl hg
      · simp [hso]
  · simp only [run, sortT, ite_true, List.append_nil, List.cons_append, List.nil_append, List.append_assoc,
      exec_retIf, exec_reset, evalCond_len_eq0, evalCond_rbNil, hrb, sortOrder, hgs, exec_select_skip,
      evalCond_len_lt1, srcList_selected, Bool.false_eq_true, ite_false]
    by_cases he : (srcList cfg (initSt cfg) gsrc).isEmpty = true
    · simp only [he, ite_true]; simp [obsOf, retFin, errObs, initSt]
    · simp only [he, Bool.false_eq_true, ite_false]
      by_cases hsel : (selected cfg).isEmpty = true
      · have h0 : selected cfg = [] := by simpa using hsel
        cases srt <;> simp [hsel, h0, obsOf, retFin, errObs, initSt, sortDesc]
      · simp only [hsel, Bool.false_eq_true, ite_false]
        cases srt
        · simp only [Bool.false_eq_true, ite_false, List.nil_append]
          rw [tail .selected _ rfl rfl (by simpa [initSt] using hs0) rfl rfl]
          simp [hsel]
        · simp only [ite_true, List.cons_append, List.nil_append, exec_sort_guarded]
          rw [tail .selected _ rfl rfl (by simpa [initSt] using hs0) rfl rfl]
          have : (sortDesc (selected cfg)).isEmpty = false := by
            have := (List.mergeSort_perm (selected cfg) (fun a b => decide (a.sal ≥ b.sal))).length_eq
            cases h1 : sortDesc (selected cfg) with
            | nil => simp [sortDesc] at h1; simp [h1] at this; exact absurd (List.length_eq_zero_iff.mp this.symm) (by simpa using hsel)
            | cons _ _ => rfl
          simp [this]

end GV.Orch
