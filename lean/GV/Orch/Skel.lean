/-
  Orchestration skeletons: the normal form every `Gengine.Execute*` method of
  engine/gengine.go is translated into by /verif/extract (tie T1), and the
  deterministic part of its semantics.

  Rule bodies are opaque here: executing a rule has an `Outcome` that does not depend on
  the schedule.  Under that abstraction *which* rules run, in which stage, the returned
  error and the contents of the result map are deterministic; only the interleaving inside
  a concurrent stage is not.  The interleaving is the subject of `GV.Orch.Sched`.
-/
namespace GV.Orch

abbrev Name := String

structure Rule where
  name : Name
  sal  : Int
deriving Repr, DecidableEq, Inhabited

/-- What `RuleEntity.Execute` yields for one rule (opaque body). -/
structure Outcome where
  flag  : Bool            -- third result: a `return` statement was reached
  val   : Option Int      -- the returned value (`none` = nil interface)
  fails : Bool            -- err != nil
  stop  : Bool            -- the body sets the caller's stop tag
deriving Repr, DecidableEq, Inhabited

/-- Where a slice of rules comes from. -/
inductive Src | sortRules | entities | selected
deriving Repr, DecidableEq, Inhabited

/-- Window on a source list. `takeN` = `x[:n]`, `dropNTakeM` = `x[n:][:m]`. -/
inductive Win | all | head | tail | init | last | takeN | dropNTakeM | unknown
deriving Repr, DecidableEq, Inhabited

/-- Argument of `wg.Add`. `len`/`lenMinus1` refer to the source list. -/
inductive Cnt | len | lenMinus1 | n | m | unknown
deriving Repr, DecidableEq, Inhabited

/-- Action after one sequentially executed rule.
    `retE` = `return e` (nil when the rule did not fail), `retErr` = `return errors.New(..)`. -/
inductive Act | cont | collect | retE | retErr | retNil
deriving Repr, DecidableEq, Inhabited

/-- Error handling after a rule, tabulated over (b, rule failed). -/
structure Arm where
  tt : Act   -- b = true,  failed
  tf : Act   -- b = true,  ok
  ft : Act   -- b = false, failed
  ff : Act   -- b = false, ok
deriving Repr, DecidableEq, Inhabited

def Arm.act (a : Arm) (b failed : Bool) : Act :=
  match b, failed with
  | true, true => a.tt | true, false => a.tf | false, true => a.ft | false, false => a.ff

inductive AddMode | ifFlag | always | never
deriving Repr, DecidableEq, Inhabited

inductive Missing | skip | fail | derefNil
deriving Repr, DecidableEq, Inhabited

inductive CmpOp | eq | ne | lt | le | gt | ge
deriving Repr, DecidableEq, Inhabited

def CmpOp.eval (o : CmpOp) (a b : Int) : Bool :=
  match o with
  | .eq => a == b | .ne => a != b | .lt => decide (a < b) | .le => decide (a ≤ b)
  | .gt => decide (a > b) | .ge => decide (a ≥ b)

/-- Conditions of `if` statements that occur in the methods. -/
inductive Cond
  | rbNil
  | notB
  | notStop
  | errs                                  -- len(eMsg) > 0
  | len (src : Src) (minus : Int) (op : CmpOp) (k : Int)   -- len(src) - minus  op  k
  | nCmp (op : CmpOp) (k : Int)           -- n op k
  | mCmp (op : CmpOp) (k : Int)           -- m op k
  | nmLen (op : CmpOp) (src : Src)        -- n + m  op  len(src)
  | nmNames (op : CmpOp)                  -- n + m  op  len(names)
  | dagLen (op : CmpOp) (k : Int)         -- len(dag) op k
  | unknown (s : String)
deriving Repr, DecidableEq, Inhabited

inductive RetKind | nil | err | lastE
deriving Repr, DecidableEq, Inhabited

structure ParSpec where
  add      : Cnt
  mode     : AddMode
  collects : Bool     -- a failing goroutine appends to eMsg (under errLock)
  done     : Bool     -- wg.Done() on every path of the goroutine body
  waits    : Bool     -- wg.Wait() after the spawning loop
deriving Repr, DecidableEq, Inhabited

inductive Stmt
  | reset                                             -- g.returnResult = make(...)
  | retIf (c : Cond) (k : RetKind)                    -- if c { return … }
  | ret (k : RetKind)
  | select (m : Missing)                              -- rules := names.filterMap lookup
  | sort                                              -- sort.SliceStable(rules, sal desc)
  | seq (src : Src) (w : Win) (mode : AddMode) (arm : Arm) (stopBreak : Bool)
  | par (src : Src) (w : Win) (p : ParSpec)
  | dag (p : ParSpec) (guardNonEmpty : Bool) (retIfErrsEach : Bool)
  | unknown (s : String)
deriving Repr, DecidableEq, Inhabited

/-- A statement together with the conditions of the `if` blocks enclosing it. -/
structure GStmt where
  conds : List Cond
  stmt  : Stmt
deriving Repr, DecidableEq, Inhabited

abbrev Skel := List GStmt

/-- One call. -/
structure Cfg where
  rbNil    : Bool := false
  sorted   : List Rule                 -- rb.Kc.SortRules
  entities : List Rule                 -- rb.Kc.RuleEntities, in this call's iteration order
  out      : Name → Outcome
  b        : Bool := true
  n        : Int := 0
  m        : Int := 0
  names    : List Name := []
  dag      : List (List Name) := []
  stop0    : Bool := false             -- value of the stop tag on entry
  prev     : Option (List (Name × Option Int)) := none   -- g.returnResult before the call

inductive Fin | running | retOk | retErr | panicked
deriving Repr, DecidableEq, Inhabited

structure St where
  results : Option (List (Name × Option Int))   -- write log of the result map; none = nil map
  errs    : Bool := false
  stop    : Bool := false
  sel     : List Rule := []
  stages  : List (List Rule) := []     -- executed rules, grouped by barrier-separated stage
  parOk   : Bool := true               -- every fan-out so far had Add = #goroutines, Done, Wait
  lastE   : Bool := false
deriving Repr, Inhabited

def lookupRule (rs : List Rule) (n : Name) : Option Rule := rs.find? (fun r => r.name == n)

def srcList (cfg : Cfg) (st : St) : Src → List Rule
  | .sortRules => cfg.sorted
  | .entities  => cfg.entities
  | .selected  => st.sel

def window (cfg : Cfg) (w : Win) (l : List Rule) : List Rule :=
  match w with
  | .all => l
  | .head => l.take 1
  | .tail => l.drop 1
  | .init => l.take (l.length - 1)
  | .last => l.drop (l.length - 1)
  | .takeN => l.take cfg.n.toNat
  | .dropNTakeM => (l.drop cfg.n.toNat).take cfg.m.toNat
  | .unknown => []

def cntVal (cfg : Cfg) (c : Cnt) (l : List Rule) : Int :=
  match c with
  | .len => l.length
  | .lenMinus1 => (l.length : Int) - 1
  | .n => cfg.n
  | .m => cfg.m
  | .unknown => -1

def evalCond (cfg : Cfg) (st : St) : Cond → Bool
  | .rbNil => cfg.rbNil
  | .notB => !cfg.b
  | .notStop => !st.stop
  | .errs => st.errs
  | .len src minus op k => op.eval ((srcList cfg st src).length - minus) k
  | .nCmp op k => op.eval cfg.n k
  | .mCmp op k => op.eval cfg.m k
  | .nmLen op src => op.eval (cfg.n + cfg.m) (srcList cfg st src).length
  | .nmNames op => op.eval (cfg.n + cfg.m) cfg.names.length
  | .dagLen op k => op.eval cfg.dag.length k
  | .unknown _ => false

def sortDesc (l : List Rule) : List Rule := l.mergeSort (fun a b => decide (a.sal ≥ b.sal))

def addRes (mode : AddMode) (r : Rule) (o : Outcome) (st : St) : Option St :=
  if mode == .always || (mode == .ifFlag && o.flag) then
    match st.results with
    | none => none
    | some m => some { st with results := some (m ++ [(r.name, o.val)]) }
  else some st

def retFin (k : RetKind) (st : St) : Fin :=
  match k with
  | .nil => .retOk
  | .err => .retErr
  | .lastE => if st.lastE then .retErr else .retOk

def runSeq (cfg : Cfg) (mode : AddMode) (arm : Arm) (stopBreak : Bool) :
    List Rule → St → St × Fin
  | [], st => (st, .running)
  | r :: rs, st =>
    let o := cfg.out r.name
    let st1 := { st with stop := st.stop || o.stop, stages := st.stages ++ [[r]],
                         lastE := o.fails }
    match addRes mode r o st1 with
    | none => (st1, .panicked)
    | some st2 =>
      match arm.act cfg.b o.fails with
      | .retE => (st2, if o.fails then .retErr else .retOk)
      | .retErr => (st2, .retErr)
      | .retNil => (st2, .retOk)
      | .collect =>
        let st3 := { st2 with errs := true }
        if stopBreak && st3.stop then (st3, .running) else runSeq cfg mode arm stopBreak rs st3
      | .cont =>
        if stopBreak && st2.stop then (st2, .running) else runSeq cfg mode arm stopBreak rs st2

def addAll (cfg : Cfg) (mode : AddMode) : List Rule → St → Option St
  | [], st => some st
  | r :: rs, st =>
    match addRes mode r (cfg.out r.name) st with
    | none => none
    | some st' => addAll cfg mode rs st'

/-- A fan-out over `rs`: every rule runs; the write log lists them in window order
    (the real order is schedule dependent, the resulting map is not). -/
def runPar (cfg : Cfg) (p : ParSpec) (cnt : Int) (rs : List Rule) (st : St) : St × Fin :=
  let st1 := { st with
      stages := if rs.isEmpty then st.stages else st.stages ++ [rs],
      stop := st.stop || rs.any (fun r => (cfg.out r.name).stop),
      errs := st.errs || (p.collects && rs.any (fun r => (cfg.out r.name).fails)),
      parOk := st.parOk && (cnt == rs.length) && p.done && p.waits }
  match addAll cfg p.mode rs st1 with
  | none => (st1, .panicked)
  | some st2 => (st2, .running)

def runDag (cfg : Cfg) (p : ParSpec) (guardNonEmpty retEach : Bool) :
    List (List Name) → St → St × Fin
  | [], st => (st, .running)
  | layer :: rest, st =>
    let rs := layer.filterMap (lookupRule cfg.entities)
    let r := if guardNonEmpty && rs.isEmpty then (st, Fin.running)
             else runPar cfg p (cntVal cfg p.add rs) rs st
    match r with
    | (st', .running) =>
      if retEach && st'.errs then (st', .retErr) else runDag cfg p guardNonEmpty retEach rest st'
    | other => other

def execStmt (cfg : Cfg) (st : St) : Stmt → St × Fin
  | .reset => ({ st with results := some [] }, .running)
  | .retIf c k => if evalCond cfg st c then (st, retFin k st) else (st, .running)
  | .ret k => (st, retFin k st)
  | .select m =>
    let found := cfg.names.filterMap (lookupRule cfg.entities)
    let missing := cfg.names.any (fun n => (lookupRule cfg.entities n).isNone)
    match m with
    | .skip => ({ st with sel := found }, .running)
    | .fail => if missing then (st, .retErr) else ({ st with sel := found }, .running)
    | .derefNil => if missing then (st, .panicked) else ({ st with sel := found }, .running)
  | .sort => ({ st with sel := sortDesc st.sel }, .running)
  | .seq src w mode arm sb => runSeq cfg mode arm sb (window cfg w (srcList cfg st src)) st
  | .par src w p =>
    let l := srcList cfg st src
    runPar cfg p (cntVal cfg p.add l) (window cfg w l) st
  | .dag p g e => runDag cfg p g e cfg.dag st
  | .unknown _ => (st, .panicked)

/-- Sequencing: continue with `k` only when the previous statement fell through. -/
def andThen (r : St × Fin) (k : St → St × Fin) : St × Fin :=
  match r with
  | (st', .running) => k st'
  | other => other

def exec (cfg : Cfg) : Skel → St → St × Fin
  | [], st => (st, .running)
  | g :: gs, st =>
    if g.conds.all (evalCond cfg st) then andThen (execStmt cfg st g.stmt) (exec cfg gs)
    else exec cfg gs st

def initSt (cfg : Cfg) : St := { results := cfg.prev, stop := cfg.stop0 }

def run (sk : Skel) (cfg : Cfg) : St × Fin := exec cfg sk (initSt cfg)

/-- Flattened list of executed rules in stage order. -/
def St.trace (st : St) : List Rule := st.stages.flatten

/-- The result map denoted by the write log (last write wins). -/
def resultMap (log : List (Name × Option Int)) (n : Name) : Option (Option Int) :=
  (log.reverse.find? (fun p => p.1 == n)).map (·.2)

end GV.Orch
