/-
  Wrappers: N-M and inverse-mix over installed or selected rules; selected concurrent / mix.
-/
import GV.Orch.FamDag
namespace GV.Orch

theorem exec_sort (cfg : Cfg) (gs : Skel) (st : St) :
    exec cfg (⟨[], .sort⟩ :: gs) st = exec cfg gs { st with sel := sortDesc st.sel } := by
  simp [exec, execStmt]

theorem exec_select_fail (cfg : Cfg) (gs : Skel) (st : St) :
    exec cfg (⟨[], .select .fail⟩ :: gs) st =
      if cfg.names.any (fun n => (lookupRule cfg.entities n).isNone) then (st, .retErr)
      else exec cfg gs { st with sel := selected cfg } := by
  simp only [exec, List.all_nil, ite_true, execStmt, selected]
  split <;> simp [andThen]

@[simp] theorem evalCond_nle0 (cfg : Cfg) (st : St) : evalCond cfg st (.nCmp .le 0) = decide (cfg.n ≤ 0) := rfl
@[simp] theorem evalCond_mle0 (cfg : Cfg) (st : St) : evalCond cfg st (.mCmp .le 0) = decide (cfg.m ≤ 0) := rfl
@[simp] theorem evalCond_nmNames (cfg : Cfg) (st : St) :
    evalCond cfg st (.nmNames .ne) = (cfg.n + cfg.m != (cfg.names.length : Int)) := rfl
@[simp] theorem evalCond_nmLen (cfg : Cfg) (st : St) :
    evalCond cfg st (.nmLen .gt .sortRules) = decide (cfg.n + cfg.m > (cfg.sorted.length : Int)) := rfl
@[simp] theorem evalCond_len_eqk (cfg : Cfg) (st : St) (src : Src) (k : Nat) :
    evalCond cfg st (.len src 0 .eq k) = ((srcList cfg st src).length == k) := by
  simp only [evalCond, CmpOp.eval, Int.sub_zero]
  cases h : (srcList cfg st src).length == k
  · have : (srcList cfg st src).length ≠ k := by simpa using h
    simp; omega
  · have : (srcList cfg st src).length = k := by simpa using h
    simp [this]

theorem ite_skip {α : Type} {c : Bool} {a b : α} (h : c = false) : (if c = true then a else b) = b := by simp [h]
theorem ite_take {α : Type} {c : Bool} {a b : α} (h : c = true) : (if c = true then a else b) = a := by simp [h]

theorem obsOf_err (st : St) (h1 : st.stages = []) (h2 : st.results = some []) (h3 : st.parOk = true) :
    obsOf (st, retFin .err st) = errObs := by
  simp [obsOf, retFin, errObs, h1, h2, h3]

@[simp] theorem evalCond_len_eq1 (cfg : Cfg) (st : St) (src : Src) :
    evalCond cfg st (.len src 0 .eq 1) = ((srcList cfg st src).length == 1) := by
  have := evalCond_len_eqk cfg st src 1; simpa using this
@[simp] theorem evalCond_len_eq2 (cfg : Cfg) (st : St) (src : Src) :
    evalCond cfg st (.len src 0 .eq 2) = ((srcList cfg st src).length == 2) := by
  have := evalCond_len_eqk cfg st src 2; simpa using this

/-- N-M over the installed rules. -/
def nmT (k1 k2 : StageKind) : Skel :=
  [⟨[], .retIf .rbNil .err⟩, ⟨[], .reset⟩, ⟨[], .retIf (.nCmp .le 0) .err⟩, ⟨[], .retIf (.mCmp .le 0) .err⟩,
   ⟨[], .retIf (.nmLen .gt .sortRules) .err⟩] ++ nmCore .sortRules k1 k2

theorem nmT_obs (cfg : Cfg) (hp : Pre cfg) (k1 k2 : StageKind) (hk : k1 = .conc ∨ k2 = .conc) :
    obsOf (run (nmT k1 k2) cfg) =
      if nmGuardsOk cfg cfg.sorted.length then okObs cfg (nmFamily cfg cfg.sorted k1 k2) else errObs := by
  obtain ⟨hrb, hs0, hfl, hperm⟩ := hp
  simp only [run, nmT, List.cons_append, List.nil_append, exec_retIf, exec_reset, evalCond_rbNil, hrb,
    Bool.false_eq_true, ite_false, evalCond_nle0, evalCond_mle0, evalCond_nmLen, srcList_sortRules]
  by_cases hn : cfg.n ≤ 0
  · have hc := decide_eq_true hn
    simp only [hc, ite_true]
    rw [obsOf_err _ rfl rfl rfl, ite_skip]
    simp [nmGuardsOk]; intro h; omega
  have hc := decide_eq_false hn
  simp only [hc, Bool.false_eq_true, ite_false]
  clear hc
  by_cases hm : cfg.m ≤ 0
  · have hc := decide_eq_true hm
    simp only [hc, ite_true]
    rw [obsOf_err _ rfl rfl rfl, ite_skip]
    simp [nmGuardsOk]; intro _ h; omega
  have hc := decide_eq_false hm
  simp only [hc, Bool.false_eq_true, ite_false]
  clear hc
  by_cases hl : cfg.n + cfg.m > (cfg.sorted.length : Int)
  · have hc := decide_eq_true hl
    simp only [hc, ite_true]
    rw [obsOf_err _ rfl rfl rfl, ite_skip]
    simp [nmGuardsOk]; intro _ _; omega
  have hc := decide_eq_false hl
  simp only [hc, Bool.false_eq_true, ite_false]
  clear hc
  have h1 : 0 < cfg.n := by omega
  have h2 : 0 < cfg.m := by omega
  have h3 : cfg.n + cfg.m ≤ (cfg.sorted.length : Int) := by omega
  rw [ite_take (by simp [nmGuardsOk, h1, h2, h3])]
  rw [nmCore_obs cfg .sortRules k1 k2 hk _ rfl rfl rfl rfl h1 h2 (by simpa using h3) (by intro st' _; rfl)]
  rfl

theorem filterMap_length_of_all {α β : Type} (f : α → Option β) (l : List α)
    (h : l.any (fun n => (f n).isNone) = false) : (l.filterMap f).length = l.length := by
  induction l with
  | nil => rfl
  | cons a l ih =>
    simp only [List.any_cons, Bool.or_eq_false_iff] at h
    cases hx : f a with
    | none => simp [hx] at h
    | some r => simp [List.filterMap_cons, hx, ih h.2]

theorem selected_length_of_all (cfg : Cfg)
    (h : cfg.names.any (fun n => (lookupRule cfg.entities n).isNone) = false) :
    (selected cfg).length = cfg.names.length :=
  filterMap_length_of_all _ _ h

theorem all_isSome_iff (cfg : Cfg) :
    cfg.names.all (fun n => (lookupRule cfg.entities n).isSome) =
      !cfg.names.any (fun n => (lookupRule cfg.entities n).isNone) := by
  induction cfg.names with
  | nil => rfl
  | cons a l ih => cases h : lookupRule cfg.entities a <;> simp [h, ih]

/-- N-M over selected rules. -/
def selNmT (k1 k2 : StageKind) : Skel :=
  [⟨[], .retIf .rbNil .err⟩, ⟨[], .reset⟩, ⟨[], .retIf (.nCmp .le 0) .err⟩, ⟨[], .retIf (.mCmp .le 0) .err⟩,
   ⟨[], .retIf (.nmNames .ne) .err⟩, ⟨[], .retIf (.nmLen .gt .sortRules) .err⟩,
   ⟨[], .select .fail⟩, ⟨[], .sort⟩] ++ nmCore .selected k1 k2

theorem selNmT_obs (cfg : Cfg) (hp : Pre cfg) (k1 k2 : StageKind) (hk : k1 = .conc ∨ k2 = .conc) :
    obsOf (run (selNmT k1 k2) cfg) =
      if nmGuardsOk cfg cfg.sorted.length && decide (cfg.n + cfg.m = cfg.names.length)
         && cfg.names.all (fun n => (lookupRule cfg.entities n).isSome)
      then okObs cfg (nmFamily cfg (sortDesc (selected cfg)) k1 k2) else errObs := by
  obtain ⟨hrb, hs0, hfl, hperm⟩ := hp
  simp only [run, selNmT, List.cons_append, List.nil_append, exec_retIf, exec_reset, evalCond_rbNil, hrb,
    Bool.false_eq_true, ite_false, evalCond_nle0, evalCond_mle0, evalCond_nmLen, evalCond_nmNames,
    srcList_sortRules, exec_select_fail, exec_sort]
  by_cases hn : cfg.n ≤ 0
  · have hc := decide_eq_true hn
    simp only [hc, ite_true]
    rw [obsOf_err _ rfl rfl rfl, ite_skip]
    simp [nmGuardsOk]; intro h; omega
  have hc := decide_eq_false hn
  simp only [hc, Bool.false_eq_true, ite_false]
  clear hc
  by_cases hm : cfg.m ≤ 0
  · have hc := decide_eq_true hm
    simp only [hc, ite_true]
    rw [obsOf_err _ rfl rfl rfl, ite_skip]
    simp [nmGuardsOk]; intro _ h; omega
  have hc := decide_eq_false hm
  simp only [hc, Bool.false_eq_true, ite_false]
  clear hc
  by_cases hnames' : ¬ (cfg.n + cfg.m = (cfg.names.length : Int))
  · have hc := bne_iff_ne.mpr hnames'
    simp only [hc, ite_true]
    rw [obsOf_err _ rfl rfl rfl, ite_skip]
    simp [hnames']
  have hnames : cfg.n + cfg.m = (cfg.names.length : Int) := Classical.not_not.mp hnames'
  have hc := bne_eq_false_iff_eq.mpr hnames
  simp only [hc, Bool.false_eq_true, ite_false]
  clear hc
  by_cases hl : cfg.n + cfg.m > (cfg.sorted.length : Int)
  · have hc := decide_eq_true hl
    simp only [hc, ite_true]
    rw [obsOf_err _ rfl rfl rfl, ite_skip]
    simp [nmGuardsOk]; intro _ _ _; omega
  have hc := decide_eq_false hl
  simp only [hc, Bool.false_eq_true, ite_false]
  clear hc
  have h1 : 0 < cfg.n := by omega
  have h2 : 0 < cfg.m := by omega
  have h3 : cfg.n + cfg.m ≤ (cfg.sorted.length : Int) := by omega
  by_cases hmiss : cfg.names.any (fun n => (lookupRule cfg.entities n).isNone) = true
  · rw [ite_take hmiss, ite_skip (by simp [all_isSome_iff, hmiss])]
    simp [obsOf, errObs, initSt]
  have hmiss' : cfg.names.any (fun n => (lookupRule cfg.entities n).isNone) = false := by simpa using hmiss
  rw [ite_skip hmiss', ite_take (by simp [nmGuardsOk, h1, h2, hnames, all_isSome_iff, hmiss']; omega)]
  have hsl : (sortDesc (selected cfg)).length = cfg.names.length := by
    rw [← selected_length_of_all cfg hmiss']
    exact (List.mergeSort_perm _ _).length_eq
  rw [nmCore_obs cfg .selected k1 k2 hk _ rfl rfl rfl rfl h1 h2
    (by simp only [srcList_selected]; rw [hsl]; omega) (by intro st' h; simp [srcList, h])]
  rfl

end GV.Orch
