/-
  Inverse-mix wrappers, selected concurrent and selected mix.
-/
import GV.Orch.FamSelected
namespace GV.Orch

/-- `ExecuteInverseMixModel`. -/
def inverseT : Skel :=
  [⟨[], .retIf .rbNil .err⟩, ⟨[], .reset⟩, ⟨[], .retIf (.len .sortRules 0 .eq 0) .err⟩] ++ inverseCore .sortRules

theorem inverseT_obs (cfg : Cfg) (hp : Pre cfg) :
    obsOf (run inverseT cfg) =
      if cfg.sorted.isEmpty then errObs else okObs cfg (inverseFamily cfg cfg.sorted) := by
  obtain ⟨hrb, hs0, hfl, hperm⟩ := hp
  simp only [run, inverseT, List.cons_append, List.nil_append, exec_retIf, exec_reset, evalCond_rbNil, hrb,
    Bool.false_eq_true, ite_false, evalCond_len_eq0, srcList_sortRules]
  by_cases he : cfg.sorted.isEmpty = true
  · simp only [he, ite_true]; rw [obsOf_err _ rfl rfl rfl]
  · simp only [he, Bool.false_eq_true, ite_false]
    rw [inverseCore_obs cfg .sortRules _ rfl rfl (by simpa [initSt] using hs0) rfl rfl
      (by simpa using he) (by intro st' _; rfl)]
    rfl

/-- `ExecuteSelectedRulesInverseMixModel`. -/
def selInverseT : Skel :=
  [⟨[], .retIf .rbNil .err⟩, ⟨[], .reset⟩, ⟨[], .select .skip⟩, ⟨[], .retIf (.len .selected 0 .eq 0) .err⟩,
   ⟨[], .sort⟩] ++ inverseCore .selected

theorem selInverseT_obs (cfg : Cfg) (hp : Pre cfg) :
    obsOf (run selInverseT cfg) =
      if (selected cfg).isEmpty then errObs else okObs cfg (inverseFamily cfg (sortDesc (selected cfg))) := by
  obtain ⟨hrb, hs0, hfl, hperm⟩ := hp
  simp only [run, selInverseT, List.cons_append, List.nil_append, exec_retIf, exec_reset, evalCond_rbNil, hrb,
    Bool.false_eq_true, ite_false, evalCond_len_eq0, srcList_selected, exec_select_skip, exec_sort]
  by_cases he : (selected cfg).isEmpty = true
  · simp only [he, ite_true]; rw [obsOf_err _ rfl rfl rfl]
  · simp only [he, Bool.false_eq_true, ite_false]
    rw [inverseCore_obs cfg .selected _ rfl rfl (by simpa [initSt] using hs0) rfl rfl
      (by simp only [srcList_selected]; intro h; apply he; rw [sortDesc_eq_nil] at h; simp [h])
      (by intro st' h; simp [srcList, h])]
    rfl

/-- `ExecuteSelectedRulesConcurrent`. -/
def selConcT : Skel :=
  [⟨[], .retIf .rbNil .err⟩, ⟨[], .reset⟩, ⟨[], .retIf (.len .entities 0 .eq 0) .err⟩,
   ⟨[], .select .skip⟩, ⟨[], .retIf (.len .selected 0 .eq 0) .err⟩,
   ⟨[.len .selected 0 .eq 1], .seq .selected .head .ifFlag haltArm false⟩,
   ⟨[.len .selected 0 .eq 1], .ret .nil⟩,
   ⟨[], .par .selected .all (stdPar .len)⟩, ⟨[], .retIf .errs .err⟩, ⟨[], .ret .nil⟩]

theorem selConcT_obs (cfg : Cfg) (hp : Pre cfg) :
    obsOf (run selConcT cfg) =
      if cfg.entities.isEmpty then errObs
      else if (selected cfg).isEmpty then errObs else okObs cfg (parStage (selected cfg)) := by
  obtain ⟨hrb, hs0, hfl, hperm⟩ := hp
  simp only [run, selConcT, exec_retIf, exec_reset, evalCond_rbNil, hrb, Bool.false_eq_true, ite_false,
    evalCond_len_eq0, srcList_entities, srcList_selected, exec_select_skip]
  by_cases he : cfg.entities.isEmpty = true
  · simp only [he, ite_true]; rw [obsOf_err _ rfl rfl rfl]
  simp only [he, Bool.false_eq_true, ite_false]
  by_cases hs : (selected cfg).isEmpty = true
  · simp only [hs, ite_true]; rw [obsOf_err _ rfl rfl rfl]
  simp only [hs, Bool.false_eq_true, ite_false]
  rw [exec_guarded]
  simp only [List.all_cons, List.all_nil, Bool.and_true]
  simp only [evalCond_len_eq1, srcList_selected]
  by_cases hone : (selected cfg).length = 1
  · -- exactly one selected rule: executed synchronously
    obtain ⟨r, hr⟩ : ∃ r, selected cfg = [r] := by
      match h : selected cfg, hone with
      | [r], _ => exact ⟨r, rfl⟩
    simp only [hone, beq_self_eq_true, ite_true]
    rw [exec_seq cfg .selected .head haltArm false _ _ [] (haltArm_regular _) rfl (by intro h; cases h),
      andThen_seqResult]
    simp only [haltArm_halts, Bool.true_and, window, srcList_selected, hr, List.take_succ_cons, List.take_zero,
      seqStop_true_false, takeThrough, ite_self, List.any_cons, List.any_nil, Bool.or_false]
    by_cases hf : fails cfg r = true
    · simp [hf, seqResult, obsOf, okObs, takeThrough, singletons, initSt, seqStop_true_false, resOf_cons, parStage]
    · have hf' : fails cfg r = false := by simpa using hf
      simp only [hf', Bool.false_eq_true, ite_false]
      rw [exec_guarded]
      simp [seqResult, evalCond_len_eq1, hr, obsOf, okObs, takeThrough, singletons, initSt, seqStop_true_false,
        resOf_cons, parStage, hf', retFin, lastFail]
  · have hne : ((selected cfg).length == 1) = false := by simpa using hone
    simp only [hne, Bool.false_eq_true, ite_false]
    rw [exec_guarded]
    simp only [List.all_cons, List.all_nil, Bool.and_true, evalCond_len_eq1, srcList_selected, hne, Bool.false_eq_true, ite_false]
    rw [exec_par cfg .selected .all _ _ _ [] rfl rfl]
    simp only [exec_retIf, exec_ret, evalCond_errs, window, srcList_selected, stdPar_add, stdPar_collects,
      stdPar_done, stdPar_waits, cntVal, initSt, Bool.false_or, Bool.true_and, List.nil_append]
    by_cases hf : (selected cfg).any (fails cfg) = true
    · simp [hf, obsOf, retFin, okObs]
    · simp [hf, obsOf, retFin, okObs]

/-- `ExecuteSelectedRulesMixModel`. -/
def selMixT : Skel :=
  [⟨[], .retIf .rbNil .err⟩, ⟨[], .reset⟩, ⟨[], .retIf (.len .entities 0 .eq 0) .err⟩,
   ⟨[], .select .skip⟩, ⟨[], .retIf (.len .selected 0 .eq 0) .err⟩,
   ⟨[.len .selected 0 .eq 1], .seq .selected .head .ifFlag haltArm false⟩,
   ⟨[.len .selected 0 .eq 1], .ret .nil⟩,
   ⟨[], .sort⟩,
   ⟨[.len .selected 0 .eq 2], .seq .selected .all .ifFlag haltArm false⟩,
   ⟨[.len .selected 0 .eq 2], .ret .nil⟩,
   ⟨[], .seq .selected .head .ifFlag haltArm false⟩,
   ⟨[], .par .selected .tail (stdPar .lenMinus1)⟩, ⟨[], .retIf .errs .err⟩, ⟨[], .ret .nil⟩]

theorem sortDesc_length (l : List Rule) : (sortDesc l).length = l.length :=
  (List.mergeSort_perm _ _).length_eq

theorem selMixT_obs (cfg : Cfg) (hp : Pre cfg) :
    obsOf (run selMixT cfg) =
      if cfg.entities.isEmpty then errObs
      else if (selected cfg).isEmpty then errObs
      else okObs cfg (if (selected cfg).length ≤ 2 then sortFamily cfg (sortDesc (selected cfg)) false false
                      else mixFamily cfg (sortDesc (selected cfg)) false) := by
  obtain ⟨hrb, hs0, hfl, hperm⟩ := hp
  simp only [run, selMixT, exec_retIf, exec_reset, evalCond_rbNil, hrb, Bool.false_eq_true, ite_false,
    evalCond_len_eq0, srcList_entities, srcList_selected, exec_select_skip]
  by_cases he : cfg.entities.isEmpty = true
  · simp only [he, ite_true]; rw [obsOf_err _ rfl rfl rfl]
  simp only [he, Bool.false_eq_true, ite_false]
  by_cases hs : (selected cfg).isEmpty = true
  · simp only [hs, ite_true]; rw [obsOf_err _ rfl rfl rfl]
  simp only [hs, Bool.false_eq_true, ite_false]
  rw [exec_guarded]
  simp only [List.all_cons, List.all_nil, Bool.and_true, evalCond_len_eq1, srcList_selected]
  by_cases hone : (selected cfg).length = 1
  · -- exactly one selected rule
    obtain ⟨r, hr⟩ : ∃ r, selected cfg = [r] := by
      match h : selected cfg, hone with
      | [r], _ => exact ⟨r, rfl⟩
    simp only [hone, beq_self_eq_true, ite_true]
    rw [exec_seq cfg .selected .head haltArm false _ _ [] (haltArm_regular _) rfl (by intro h; cases h),
      andThen_seqResult]
    simp only [haltArm_halts, Bool.true_and, window, srcList_selected, hr, List.take_succ_cons, List.take_zero,
      seqStop_true_false, takeThrough, ite_self, List.any_cons, List.any_nil, Bool.or_false]
    have hsd : sortDesc [r] = [r] := by simp [sortDesc]
    by_cases hf : fails cfg r = true
    · simp [hf, seqResult, obsOf, okObs, takeThrough, singletons, initSt, seqStop_true_false, resOf_cons,
        sortFamily, hsd]
    · have hf' : fails cfg r = false := by simpa using hf
      simp only [hf', Bool.false_eq_true, ite_false]
      rw [exec_guarded]
      simp [seqResult, evalCond_len_eq1, hr, obsOf, okObs, takeThrough, singletons, initSt, seqStop_true_false,
        resOf_cons, hf', retFin, lastFail, sortFamily, hsd]
  · have hne : ((selected cfg).length == 1) = false := by simpa using hone
    simp only [hne, Bool.false_eq_true, ite_false]
    rw [exec_guarded]
    simp only [List.all_cons, List.all_nil, Bool.and_true, evalCond_len_eq1, srcList_selected, hne,
      Bool.false_eq_true, ite_false, exec_sort]
    rw [exec_guarded]
    simp only [List.all_cons, List.all_nil, Bool.and_true, evalCond_len_eq2, srcList_selected, sortDesc_length]
    by_cases htwo : (selected cfg).length = 2
    · simp only [htwo, beq_self_eq_true, ite_true]
      rw [exec_seq cfg .selected .all haltArm false _ _ [] (haltArm_regular _) rfl (by intro h; cases h),
        andThen_seqResult]
      simp only [haltArm_halts, Bool.true_and, window, srcList_selected, seqStop_true_false]
      by_cases hf : (takeThrough (fails cfg) (sortDesc (selected cfg))).any (fails cfg) = true
      · simp [hf, seqResult, obsOf, okObs, initSt, seqStop_true_false, sortFamily, htwo]
      · simp only [hf, Bool.false_eq_true, ite_false]
        rw [exec_guarded]
        simp [seqResult, evalCond_len_eq2, sortDesc_length, htwo, obsOf, okObs, initSt, seqStop_true_false, hf,
          retFin, sortFamily]
    · have hne2 : ((selected cfg).length == 2) = false := by simpa using htwo
      simp only [hne2, Bool.false_eq_true, ite_false]
      rw [exec_guarded]
      simp only [List.all_cons, List.all_nil, Bool.and_true, evalCond_len_eq2, srcList_selected, sortDesc_length,
        hne2, Bool.false_eq_true, ite_false]
      have hlen : 3 ≤ (sortDesc (selected cfg)).length := by
        rw [sortDesc_length]
        have : (selected cfg).length ≠ 0 := by
          intro h; apply hs; simpa using h
        omega
      have hgt : ¬ (selected cfg).length ≤ 2 := by rw [sortDesc_length] at hlen; omega
      simp only [hgt, ite_false]
      generalize hso : sortDesc (selected cfg) = order at hlen
      match order, hlen with
      | f :: rest, hlen =>
        rw [exec_seq cfg .selected .head haltArm false _ _ [] (haltArm_regular _) rfl (by intro h; cases h),
          andThen_seqResult]
        simp only [haltArm_halts, Bool.true_and, window, srcList_selected, List.take_succ_cons, List.take_zero,
          seqStop_true_false, takeThrough, ite_self, List.any_cons, List.any_nil, Bool.or_false]
        by_cases hf : fails cfg f = true
        · simp [hf, seqResult, obsOf, mixFamily, okObs, takeThrough, singletons, initSt, seqStop_true_false,
            resOf_cons]
        · have hf' : fails cfg f = false := by simpa using hf
          simp only [hf', Bool.false_eq_true, ite_false]
          simp only [seqResult, haltArm_halts, haltArm_collects, seqStop_true_false, takeThrough, ite_self,
            List.any_cons, List.any_nil, Bool.or_false, Bool.false_and, initSt, hs0, Bool.false_or,
            List.nil_append, singletons, List.map_cons, List.map_nil, lastFail, hf']
          rw [exec_par cfg .selected .tail _ _ _ (resOf cfg [f]) rfl rfl]
          simp only [exec_retIf, exec_ret, evalCond_errs, window, srcList_selected, List.drop_succ_cons,
            List.drop_zero, stdPar_add, stdPar_collects, stdPar_done, stdPar_waits, cntVal, List.length_cons,
            Bool.false_or, Bool.true_and]
          have hne : rest ≠ [] := by intro h; simp [h] at hlen
          have hpar : parStage rest = [rest] := by unfold parStage; cases rest <;> simp_all
          by_cases hr : rest.any (fails cfg) = true
          · simp [hr, obsOf, retFin, mixFamily, hf', okObs, hpar, resOf_cons]
          · simp [hr, obsOf, retFin, mixFamily, hf', okObs, hpar, resOf_cons]

end GV.Orch
