/-
  All twenty-one execution methods conform to the reference semantics.
-/
import GV.Orch.Conf.Execute
import GV.Orch.Conf.ExecuteWithStopTagDirect
import GV.Orch.Conf.ExecuteSelectedRules
import GV.Orch.Conf.ExecuteSelectedRulesWithControl
import GV.Orch.Conf.ExecuteSelectedRulesWithControlAsGivenSortedName
import GV.Orch.Conf.ExecuteSelectedRulesWithControlAndStopTag
import GV.Orch.Conf.ExecuteSelectedRulesWithControlAndStopTagAsGivenSortedName
import GV.Orch.Conf.ExecuteConcurrent
import GV.Orch.Conf.ExecuteMixModel
import GV.Orch.Conf.ExecuteMixModelWithStopTagDirect
import GV.Orch.Conf.ExecuteSelectedRulesConcurrent
import GV.Orch.Conf.ExecuteSelectedRulesMixModel
import GV.Orch.Conf.ExecuteInverseMixModel
import GV.Orch.Conf.ExecuteSelectedRulesInverseMixModel
import GV.Orch.Conf.ExecuteNSortMConcurrent
import GV.Orch.Conf.ExecuteNConcurrentMSort
import GV.Orch.Conf.ExecuteNConcurrentMConcurrent
import GV.Orch.Conf.ExecuteSelectedNSortMConcurrent
import GV.Orch.Conf.ExecuteSelectedNConcurrentMSort
import GV.Orch.Conf.ExecuteSelectedNConcurrentMConcurrent
import GV.Orch.Conf.ExecuteDAGModel
namespace GV.Orch.All
open GV.Orch GV.Generated.Orch

/-- The skeleton extracted for a method. -/
def skelOf : Method → Skel
  | .Execute => Execute | .ExecuteWithStopTagDirect => ExecuteWithStopTagDirect
  | .ExecuteConcurrent => ExecuteConcurrent | .ExecuteMixModel => ExecuteMixModel
  | .ExecuteMixModelWithStopTagDirect => ExecuteMixModelWithStopTagDirect
  | .ExecuteSelectedRules => ExecuteSelectedRules
  | .ExecuteSelectedRulesWithControl => ExecuteSelectedRulesWithControl
  | .ExecuteSelectedRulesWithControlAsGivenSortedName => ExecuteSelectedRulesWithControlAsGivenSortedName
  | .ExecuteSelectedRulesWithControlAndStopTag => ExecuteSelectedRulesWithControlAndStopTag
  | .ExecuteSelectedRulesWithControlAndStopTagAsGivenSortedName =>
      ExecuteSelectedRulesWithControlAndStopTagAsGivenSortedName
  | .ExecuteSelectedRulesConcurrent => ExecuteSelectedRulesConcurrent
  | .ExecuteSelectedRulesMixModel => ExecuteSelectedRulesMixModel
  | .ExecuteInverseMixModel => ExecuteInverseMixModel
  | .ExecuteSelectedRulesInverseMixModel => ExecuteSelectedRulesInverseMixModel
  | .ExecuteNSortMConcurrent => ExecuteNSortMConcurrent | .ExecuteNConcurrentMSort => ExecuteNConcurrentMSort
  | .ExecuteNConcurrentMConcurrent => ExecuteNConcurrentMConcurrent
  | .ExecuteSelectedNSortMConcurrent => ExecuteSelectedNSortMConcurrent
  | .ExecuteSelectedNConcurrentMSort => ExecuteSelectedNConcurrentMSort
  | .ExecuteSelectedNConcurrentMConcurrent => ExecuteSelectedNConcurrentMConcurrent
  | .ExecuteDAGModel => ExecuteDAGModel

/-- All twenty-one execution methods conform to the reference semantics. -/
theorem conforms_all (m : Method) : Conforms (skelOf m) m := by
  cases m
  · exact conf_Execute
  · exact conf_ExecuteWithStopTagDirect
  · exact conf_ExecuteConcurrent
  · exact conf_ExecuteMixModel
  · exact conf_ExecuteMixModelWithStopTagDirect
  · exact conf_ExecuteSelectedRules
  · exact conf_ExecuteSelectedRulesWithControl
  · exact conf_ExecuteSelectedRulesWithControlAsGivenSortedName
  · exact conf_ExecuteSelectedRulesWithControlAndStopTag
  · exact conf_ExecuteSelectedRulesWithControlAndStopTagAsGivenSortedName
  · exact conf_ExecuteSelectedRulesConcurrent
  · exact conf_ExecuteSelectedRulesMixModel
  · exact conf_ExecuteInverseMixModel
  · exact conf_ExecuteSelectedRulesInverseMixModel
  · exact conf_ExecuteNSortMConcurrent
  · exact conf_ExecuteNConcurrentMSort
  · exact conf_ExecuteNConcurrentMConcurrent
  · exact conf_ExecuteSelectedNSortMConcurrent
  · exact conf_ExecuteSelectedNConcurrentMSort
  · exact conf_ExecuteSelectedNConcurrentMConcurrent
  · exact conf_ExecuteDAGModel

end GV.Orch.All
