/-
  Every extracted skeleton (GV.Generated.Orch, regenerated from engine/gengine.go on each run)
  is an instance of a proved template (`*_shape`, by `rfl`: the T1 obligations), hence conforms
  to the reference semantics for every configuration (`conf_*`).
-/
import GV.Orch.FamSelected2
import GV.Generated.Orch
namespace GV.Orch.All
open GV.Orch GV.Generated.Orch

def stdArm : Arm := ⟨.collect, .cont, .retErr, .cont⟩
def collectArm : Arm := ⟨.collect, .cont, .collect, .cont⟩

theorem stdArm_strict (b : Bool) : stdArm.Strict b := by
  cases b <;> simp [Arm.Strict, Arm.Regular, Arm.act, stdArm]
theorem collectArm_strict (b : Bool) : collectArm.Strict b := by
  cases b <;> simp [Arm.Strict, Arm.Regular, Arm.act, collectArm]
theorem stdArm_halts (b : Bool) : stdArm.halts b = !b := by cases b <;> rfl
theorem collectArm_halts (b : Bool) : collectArm.halts b = false := by cases b <;> rfl

/-! ### shapes (T1 obligations) -/
theorem Execute_shape : Execute = sortT .sortRules false false stdArm false := rfl
theorem ExecuteWithStopTagDirect_shape : ExecuteWithStopTagDirect = sortT .sortRules false false stdArm true := rfl
theorem ExecuteSelectedRules_shape : ExecuteSelectedRules = sortT .entities true true collectArm false := rfl
theorem ExecuteSelectedRulesWithControl_shape :
    ExecuteSelectedRulesWithControl = sortT .sortRules true true stdArm false := rfl
theorem ExecuteSelectedRulesWithControlAsGivenSortedName_shape :
    ExecuteSelectedRulesWithControlAsGivenSortedName = sortT .sortRules true false stdArm false := rfl
theorem ExecuteSelectedRulesWithControlAndStopTag_shape :
    ExecuteSelectedRulesWithControlAndStopTag = sortT .sortRules true true stdArm true := rfl
theorem ExecuteSelectedRulesWithControlAndStopTagAsGivenSortedName_shape :
    ExecuteSelectedRulesWithControlAndStopTagAsGivenSortedName = sortT .sortRules true false stdArm true := rfl
theorem ExecuteConcurrent_shape : ExecuteConcurrent = concT := rfl
theorem ExecuteMixModel_shape : ExecuteMixModel = mixT false := rfl
theorem ExecuteMixModelWithStopTagDirect_shape : ExecuteMixModelWithStopTagDirect = mixT true := rfl
theorem ExecuteSelectedRulesConcurrent_shape : ExecuteSelectedRulesConcurrent = selConcT := rfl
theorem ExecuteSelectedRulesMixModel_shape : ExecuteSelectedRulesMixModel = selMixT := rfl
theorem ExecuteInverseMixModel_shape : ExecuteInverseMixModel = inverseT := rfl
theorem ExecuteSelectedRulesInverseMixModel_shape : ExecuteSelectedRulesInverseMixModel = selInverseT := rfl
theorem ExecuteNSortMConcurrent_shape : ExecuteNSortMConcurrent = nmT .sorted .conc := rfl
theorem ExecuteNConcurrentMSort_shape : ExecuteNConcurrentMSort = nmT .conc .sorted := rfl
theorem ExecuteNConcurrentMConcurrent_shape : ExecuteNConcurrentMConcurrent = nmT .conc .conc := rfl
theorem ExecuteSelectedNSortMConcurrent_shape : ExecuteSelectedNSortMConcurrent = selNmT .sorted .conc := rfl
theorem ExecuteSelectedNConcurrentMSort_shape : ExecuteSelectedNConcurrentMSort = selNmT .conc .sorted := rfl
theorem ExecuteSelectedNConcurrentMConcurrent_shape :
    ExecuteSelectedNConcurrentMConcurrent = selNmT .conc .conc := rfl
theorem ExecuteDAGModel_shape : ExecuteDAGModel = dagT := rfl

/-! ### conformance -/

section
variable (cfg : Cfg) (hp : Pre cfg)

private theorem sort_conf (m : Method) (gsrc : Src) (hg : gsrc ≠ .selected) (sel srt : Bool) (a : Arm) (sb : Bool)
    (hs : ∀ b, a.Strict b)
    (hspec : ∀ cfg : Cfg, cfg.rbNil = false →
      (match spec m cfg with | none => errObs | some st => okObs cfg st) =
      if (srcList cfg (initSt cfg) gsrc).isEmpty then errObs
      else if (sortOrder cfg sel srt).isEmpty then errObs
      else okObs cfg (singletons (takeThrough (seqStop cfg (a.halts cfg.b) sb) (sortOrder cfg sel srt)))) :
    Conforms (sortT gsrc sel srt a sb) m := by
  intro cfg hp
  rw [sortT_obs cfg hp gsrc hg sel srt a sb (hs _), expectObs_eq _ _ hp.flag]
  exact (hspec cfg hp.rb).symm
end

theorem conf_Execute : Conforms Execute .Execute := by
  rw [Execute_shape]
  apply sort_conf _ _ (by decide) _ _ _ _ stdArm_strict
  intro cfg hrb
  simp only [spec, hrb, Bool.false_eq_true, ite_false, srcList, initSt, sortOrder, stdArm_halts, sortFamily]
  cases h : cfg.sorted.isEmpty <;> simp [h]

theorem conf_ExecuteWithStopTagDirect : Conforms ExecuteWithStopTagDirect .ExecuteWithStopTagDirect := by
  rw [ExecuteWithStopTagDirect_shape]
  apply sort_conf _ _ (by decide) _ _ _ _ stdArm_strict
  intro cfg hrb
  simp only [spec, hrb, Bool.false_eq_true, ite_false, srcList, initSt, sortOrder, stdArm_halts, sortFamily]
  cases h : cfg.sorted.isEmpty <;> simp [h]

theorem conf_ExecuteSelectedRules : Conforms ExecuteSelectedRules .ExecuteSelectedRules := by
  rw [ExecuteSelectedRules_shape]
  apply sort_conf _ _ (by decide) _ _ _ _ collectArm_strict
  intro cfg hrb
  simp only [spec, hrb, Bool.false_eq_true, ite_false, srcList, sortOrder, collectArm_halts, sortFamily,
    ite_true, Bool.not_true]
  cases h : cfg.entities.isEmpty <;> cases h2 : (selected cfg).isEmpty <;> simp [h, h2]

theorem conf_ExecuteSelectedRulesWithControl :
    Conforms ExecuteSelectedRulesWithControl .ExecuteSelectedRulesWithControl := by
  rw [ExecuteSelectedRulesWithControl_shape]
  apply sort_conf _ _ (by decide) _ _ _ _ stdArm_strict
  intro cfg hrb
  simp only [spec, hrb, Bool.false_eq_true, ite_false, srcList, sortOrder, stdArm_halts, sortFamily, ite_true]
  cases h : cfg.sorted.isEmpty <;> cases h2 : (selected cfg).isEmpty <;> simp [h, h2]

theorem conf_ExecuteSelectedRulesWithControlAsGivenSortedName :
    Conforms ExecuteSelectedRulesWithControlAsGivenSortedName .ExecuteSelectedRulesWithControlAsGivenSortedName := by
  rw [ExecuteSelectedRulesWithControlAsGivenSortedName_shape]
  apply sort_conf _ _ (by decide) _ _ _ _ stdArm_strict
  intro cfg hrb
  simp only [spec, hrb, Bool.false_eq_true, ite_false, srcList, sortOrder, stdArm_halts, sortFamily, ite_true]
  cases h : cfg.sorted.isEmpty <;> cases h2 : (selected cfg).isEmpty <;> simp [h, h2]

theorem conf_ExecuteSelectedRulesWithControlAndStopTag :
    Conforms ExecuteSelectedRulesWithControlAndStopTag .ExecuteSelectedRulesWithControlAndStopTag := by
  rw [ExecuteSelectedRulesWithControlAndStopTag_shape]
  apply sort_conf _ _ (by decide) _ _ _ _ stdArm_strict
  intro cfg hrb
  simp only [spec, hrb, Bool.false_eq_true, ite_false, srcList, sortOrder, stdArm_halts, sortFamily, ite_true]
  cases h : cfg.sorted.isEmpty <;> cases h2 : (selected cfg).isEmpty <;> simp [h, h2]

theorem conf_ExecuteSelectedRulesWithControlAndStopTagAsGivenSortedName :
    Conforms ExecuteSelectedRulesWithControlAndStopTagAsGivenSortedName
      .ExecuteSelectedRulesWithControlAndStopTagAsGivenSortedName := by
  rw [ExecuteSelectedRulesWithControlAndStopTagAsGivenSortedName_shape]
  apply sort_conf _ _ (by decide) _ _ _ _ stdArm_strict
  intro cfg hrb
  simp only [spec, hrb, Bool.false_eq_true, ite_false, srcList, sortOrder, stdArm_halts, sortFamily, ite_true]
  cases h : cfg.sorted.isEmpty <;> cases h2 : (selected cfg).isEmpty <;> simp [h, h2]

theorem conf_ExecuteConcurrent : Conforms ExecuteConcurrent .ExecuteConcurrent := by
  intro cfg hp
  rw [ExecuteConcurrent_shape, concT_obs cfg hp, expectObs_eq _ _ hp.flag]
  simp only [spec, hp.rb, Bool.false_eq_true, ite_false]
  cases h : cfg.entities.isEmpty <;> simp [h]

theorem conf_ExecuteMixModel : Conforms ExecuteMixModel .ExecuteMixModel := by
  intro cfg hp
  rw [ExecuteMixModel_shape, mixT_obs cfg hp, expectObs_eq _ _ hp.flag]
  simp only [spec, hp.rb, Bool.false_eq_true, ite_false]
  cases h : cfg.sorted.isEmpty <;> simp [h]

theorem conf_ExecuteMixModelWithStopTagDirect :
    Conforms ExecuteMixModelWithStopTagDirect .ExecuteMixModelWithStopTagDirect := by
  intro cfg hp
  rw [ExecuteMixModelWithStopTagDirect_shape, mixT_obs cfg hp, expectObs_eq _ _ hp.flag]
  simp only [spec, hp.rb, Bool.false_eq_true, ite_false]
  cases h : cfg.sorted.isEmpty <;> simp [h]

theorem conf_ExecuteSelectedRulesConcurrent :
    Conforms ExecuteSelectedRulesConcurrent .ExecuteSelectedRulesConcurrent := by
  intro cfg hp
  rw [ExecuteSelectedRulesConcurrent_shape, selConcT_obs cfg hp, expectObs_eq _ _ hp.flag]
  simp only [spec, hp.rb, Bool.false_eq_true, ite_false]
  cases h : cfg.entities.isEmpty <;> cases h2 : (selected cfg).isEmpty <;> simp [h, h2]

theorem conf_ExecuteSelectedRulesMixModel :
    Conforms ExecuteSelectedRulesMixModel .ExecuteSelectedRulesMixModel := by
  intro cfg hp
  rw [ExecuteSelectedRulesMixModel_shape, selMixT_obs cfg hp, expectObs_eq _ _ hp.flag]
  simp only [spec, hp.rb, Bool.false_eq_true, ite_false]
  cases h : cfg.entities.isEmpty <;> cases h2 : (selected cfg).isEmpty <;> simp [h, h2]

theorem conf_ExecuteInverseMixModel : Conforms ExecuteInverseMixModel .ExecuteInverseMixModel := by
  intro cfg hp
  rw [ExecuteInverseMixModel_shape, inverseT_obs cfg hp, expectObs_eq _ _ hp.flag]
  simp only [spec, hp.rb, Bool.false_eq_true, ite_false]
  cases h : cfg.sorted.isEmpty <;> simp [h]

theorem conf_ExecuteSelectedRulesInverseMixModel :
    Conforms ExecuteSelectedRulesInverseMixModel .ExecuteSelectedRulesInverseMixModel := by
  intro cfg hp
  rw [ExecuteSelectedRulesInverseMixModel_shape, selInverseT_obs cfg hp, expectObs_eq _ _ hp.flag]
  simp only [spec, hp.rb, Bool.false_eq_true, ite_false]
  cases h : (selected cfg).isEmpty <;> simp [h]

private theorem nm_conf (m : Method) (k1 k2 : StageKind) (hk : k1 = .conc ∨ k2 = .conc)
    (hspec : ∀ cfg : Cfg, cfg.rbNil = false → spec m cfg =
      if nmGuardsOk cfg cfg.sorted.length then some (nmFamily cfg cfg.sorted k1 k2) else none) :
    Conforms (nmT k1 k2) m := by
  intro cfg hp
  rw [nmT_obs cfg hp k1 k2 hk, expectObs_eq _ _ hp.flag, hspec cfg hp.rb]
  cases h : nmGuardsOk cfg cfg.sorted.length <;> simp [h]

theorem conf_ExecuteNSortMConcurrent : Conforms ExecuteNSortMConcurrent .ExecuteNSortMConcurrent := by
  rw [ExecuteNSortMConcurrent_shape]
  exact nm_conf _ _ _ (Or.inr rfl) (by intro cfg h; simp [spec, h])

theorem conf_ExecuteNConcurrentMSort : Conforms ExecuteNConcurrentMSort .ExecuteNConcurrentMSort := by
  rw [ExecuteNConcurrentMSort_shape]
  exact nm_conf _ _ _ (Or.inl rfl) (by intro cfg h; simp [spec, h])

theorem conf_ExecuteNConcurrentMConcurrent :
    Conforms ExecuteNConcurrentMConcurrent .ExecuteNConcurrentMConcurrent := by
  rw [ExecuteNConcurrentMConcurrent_shape]
  exact nm_conf _ _ _ (Or.inl rfl) (by intro cfg h; simp [spec, h])

private theorem selnm_conf (m : Method) (k1 k2 : StageKind) (hk : k1 = .conc ∨ k2 = .conc)
    (hspec : ∀ cfg : Cfg, cfg.rbNil = false → spec m cfg =
      if nmGuardsOk cfg cfg.sorted.length && decide (cfg.n + cfg.m = cfg.names.length)
         && cfg.names.all (fun n => (lookupRule cfg.entities n).isSome)
      then some (nmFamily cfg (sortDesc (selected cfg)) k1 k2) else none) :
    Conforms (selNmT k1 k2) m := by
  intro cfg hp
  rw [selNmT_obs cfg hp k1 k2 hk, expectObs_eq _ _ hp.flag, hspec cfg hp.rb]
  split <;> simp_all

theorem conf_ExecuteSelectedNSortMConcurrent :
    Conforms ExecuteSelectedNSortMConcurrent .ExecuteSelectedNSortMConcurrent := by
  rw [ExecuteSelectedNSortMConcurrent_shape]
  exact selnm_conf _ _ _ (Or.inr rfl) (by intro cfg h; simp [spec, h])

theorem conf_ExecuteSelectedNConcurrentMSort :
    Conforms ExecuteSelectedNConcurrentMSort .ExecuteSelectedNConcurrentMSort := by
  rw [ExecuteSelectedNConcurrentMSort_shape]
  exact selnm_conf _ _ _ (Or.inl rfl) (by intro cfg h; simp [spec, h])

theorem conf_ExecuteSelectedNConcurrentMConcurrent :
    Conforms ExecuteSelectedNConcurrentMConcurrent .ExecuteSelectedNConcurrentMConcurrent := by
  rw [ExecuteSelectedNConcurrentMConcurrent_shape]
  exact selnm_conf _ _ _ (Or.inl rfl) (by intro cfg h; simp [spec, h])

theorem conf_ExecuteDAGModel : Conforms ExecuteDAGModel .ExecuteDAGModel := by
  intro cfg hp
  rw [ExecuteDAGModel_shape, dagT_obs cfg hp, expectObs_eq _ _ hp.flag]
  simp [spec, hp.rb]

/-- The skeleton extracted for a method. -/
def skelOf : Method → Skel
  | .Execute => Execute | .ExecuteWithStopTagDirect => ExecuteWithStopTagDirect
  | .ExecuteConcurrent => ExecuteConcurrent | .ExecuteMixModel => ExecuteMixModel
  | .ExecuteMixModelWithStopTagDirect => ExecuteMixModelWithStopTagDirect
  | .ExecuteSelectedRules => ExecuteSelectedRules
  | .ExecuteSelectedRulesWithControl => ExecuteSelectedRulesWithControl
  | .ExecuteSelectedRulesWithControlAsGivenSortedName => ExecuteSelectedRulesWithControlAsGivenSortedName
  | .ExecuteSelectedRulesWithControlAndStopTag => ExecuteSelectedRulesWithControlAndStopTag
  | .ExecuteSelectedRulesWithControlAndStopTagAsGivenSortedName =>
      ExecuteSelectedRulesWithControlAndStopTagAsGivenSortedName
  | .ExecuteSelectedRulesConcurrent => ExecuteSelectedRulesConcurrent
  | .ExecuteSelectedRulesMixModel => ExecuteSelectedRulesMixModel
  | .ExecuteInverseMixModel => ExecuteInverseMixModel
  | .ExecuteSelectedRulesInverseMixModel => ExecuteSelectedRulesInverseMixModel
  | .ExecuteNSortMConcurrent => ExecuteNSortMConcurrent | .ExecuteNConcurrentMSort => ExecuteNConcurrentMSort
  | .ExecuteNConcurrentMConcurrent => ExecuteNConcurrentMConcurrent
  | .ExecuteSelectedNSortMConcurrent => ExecuteSelectedNSortMConcurrent
  | .ExecuteSelectedNConcurrentMSort => ExecuteSelectedNConcurrentMSort
  | .ExecuteSelectedNConcurrentMConcurrent => ExecuteSelectedNConcurrentMConcurrent
  | .ExecuteDAGModel => ExecuteDAGModel

/-- All twenty-one execution methods conform to the reference semantics. -/
theorem conforms_all (m : Method) : Conforms (skelOf m) m := by
  cases m
  · exact conf_Execute
  · exact conf_ExecuteWithStopTagDirect
  · exact conf_ExecuteConcurrent
  · exact conf_ExecuteMixModel
  · exact conf_ExecuteMixModelWithStopTagDirect
  · exact conf_ExecuteSelectedRules
  · exact conf_ExecuteSelectedRulesWithControl
  · exact conf_ExecuteSelectedRulesWithControlAsGivenSortedName
  · exact conf_ExecuteSelectedRulesWithControlAndStopTag
  · exact conf_ExecuteSelectedRulesWithControlAndStopTagAsGivenSortedName
  · exact conf_ExecuteSelectedRulesConcurrent
  · exact conf_ExecuteSelectedRulesMixModel
  · exact conf_ExecuteInverseMixModel
  · exact conf_ExecuteSelectedRulesInverseMixModel
  · exact conf_ExecuteNSortMConcurrent
  · exact conf_ExecuteNConcurrentMSort
  · exact conf_ExecuteNConcurrentMConcurrent
  · exact conf_ExecuteSelectedNSortMConcurrent
  · exact conf_ExecuteSelectedNConcurrentMSort
  · exact conf_ExecuteSelectedNConcurrentMConcurrent
  · exact conf_ExecuteDAGModel

end GV.Orch.All
