/-
  Compile entry points (C10).  The lexer / parser / listener are a parameter: what matters of a
  text is which error lists come out non-empty (`Outcome`).  An entry point is the ordered list
  of events extracted from its source (`GV.Generated.Compile`): listeners attached, tree walked,
  error lists checked, other compile functions called, installed state first written.
-/
namespace GV.Compile

inductive Ev
  | checkBlank | attachLexer | attachParser | walk
  | checkLexer | checkParser | checkListener | checkNoRules
  | call (f : String)
  | mutate
  | missing
deriving Repr, DecidableEq, Inhabited

/-- What the front end reports for a text. -/
structure Outcome where
  blank       : Bool   -- only white space
  lexErr      : Bool   -- the lexer reported a token recognition error
  parseErr    : Bool   -- the parser reported a syntax error
  listenerErr : Bool   -- the listener recorded an error (e.g. a duplicate rule name)
  noRules     : Bool   -- the container built from the text holds no rule
deriving Repr, DecidableEq, Inhabited

/-- Facts about the grammar (`primary : ruleEntity+`): a blank text does not parse, and a text
    that passes all three error lists defines at least one rule. -/
def Outcome.Valid (o : Outcome) : Bool :=
  (!o.blank || o.parseErr) && (!(!o.lexErr && !o.parseErr && !o.listenerErr) || !o.noRules)

inductive Res
  | accepted
  | rejected (mutatedBefore : Bool)
  | broken
deriving Repr, DecidableEq, Inhabited

structure St where
  lexAtt  : Bool := false
  parAtt  : Bool := false
  walked  : Bool := false
  mutated : Bool := false
deriving Repr, DecidableEq, Inhabited

/-- An error listener collects what happens during the walk, if it was attached before it. -/
def runList (callee : String → Res) : List Ev → Outcome → St → Res
  | [], _, _ => .accepted
  | ev :: rest, o, s =>
    match ev with
    | .checkBlank => if o.blank then .rejected s.mutated else runList callee rest o s
    | .attachLexer => runList callee rest o (if s.walked then s else { s with lexAtt := true })
    | .attachParser => runList callee rest o (if s.walked then s else { s with parAtt := true })
    | .walk => runList callee rest o { s with walked := true }
    | .checkLexer => if s.lexAtt && s.walked && o.lexErr then .rejected s.mutated else runList callee rest o s
    | .checkParser => if s.parAtt && s.walked && o.parseErr then .rejected s.mutated else runList callee rest o s
    | .checkListener => if s.walked && o.listenerErr then .rejected s.mutated else runList callee rest o s
    | .checkNoRules => if o.noRules then .rejected s.mutated else runList callee rest o s
    | .call f =>
      (match callee f with
       | .accepted => runList callee rest o s
       | .rejected _ => .rejected s.mutated     -- the callee worked on a fresh builder
       | .broken => .broken)
    | .mutate => runList callee rest o { s with mutated := true }
    | .missing => .broken

def lookup (defs : List (String × List Ev)) (f : String) : Option (List Ev) :=
  (defs.find? (fun p => p.1 == f)).map (·.2)

def runN (defs : List (String × List Ev)) : Nat → String → Outcome → Res
  | 0, _, _ => .broken
  | n + 1, f, o =>
    match lookup defs f with
    | none => .broken
    | some evs => runList (fun g => runN defs n g o) evs o {}

/-- The language: texts the front end has nothing to say against. -/
def Outcome.clean (o : Outcome) : Bool := !o.blank && !o.lexErr && !o.parseErr && !o.listenerErr && !o.noRules

/-- The five entry points of the statement. -/
def entryPoints : List String :=
  ["BuildRuleFromString", "BuildRuleWithIncremental", "NewGenginePool", "UpdatePooledRules", "UpdatePooledRulesIncremental"]

/-- The listener's fold over the rule definitions of a text, with the duplicate check. -/
def addAll (dupCheck : Bool) : List String → List String → Option (List String)
  | acc, [] => some acc
  | acc, n :: rest => if dupCheck && acc.contains n then none else addAll dupCheck (acc ++ [n]) rest

end GV.Compile
