import GV.Orch.Skel
import GV.Orch.Spec
import GV.Orch.Accept
import GV.Generated.Orch
