import GV.Drv.Orch
import GV.Drv.KC
import GV.Drv.Eval
import GV.Drv.EvalSpec
import GV.Drv.Compile
import GV.Drv.Pool
import GV.Drv.Lex
open Lean GV.Drv

def handle (line : String) : String :=
  match Json.parse line with
  | .error e => (Json.mkObj [("error", Json.str e)]).compress
  | .ok j =>
    match jStr j "scn" with
    | "orch" => (orchCase j).compress
    | "kc" => (kcCase j).compress
    | "eval" => (evalCaseFull j).compress
    | "compile" => (compileCase j).compress
    | "pool" => (poolCase j).compress
    | "lex" => (lexCase j).compress
    | s => (Json.mkObj [("i", jObj j "i"), ("error", Json.str s!"unknown scenario {s}")]).compress

partial def loop (h : IO.FS.Stream) (out : IO.FS.Stream) : IO Unit := do
  let line ← h.getLine
  if line.isEmpty then return ()
  let t := line.trimAscii.toString
  if !t.isEmpty then
    out.putStrLn (handle t)
  loop h out

def main : IO Unit := do
  let out ← IO.getStdout
  loop (← IO.getStdin) out
  out.flush
