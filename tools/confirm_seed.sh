#!/bin/bash
# usage: confirm_seed.sh <seed-out-dir> <id> : confirm a seeded change in a scratch worktree and store it under /verif/seeded/<id>
# checks: compiles; existing suite shows only the two baseline failures; demo fails with the change and passes without.
set -u
src=$1; id=$2
RACEFLAG=${RACEFLAG:-}
export GOFLAGS=-mod=mod GOPROXY=off GOSUMDB=off GOTOOLCHAIN=local
wt=/tmp/confirm_$id
rm -rf $wt; git -C /repo worktree add -q $wt HEAD || exit 2
cd $wt
mkdir -p test/seeddemo && cp $src/demo_test.go test/seeddemo/demo_test.go
go test $RACEFLAG -count=1 ./test/seeddemo/ > /tmp/confirm_$id.clean.log 2>&1; clean_rc=$?
git apply $src/patch.diff || { echo "$id: patch does not apply"; cd /; git -C /repo worktree remove --force $wt; exit 2; }
go build ./builder/... ./context/... ./engine/... ./internal/... > /tmp/confirm_$id.build.log 2>&1; build_rc=$?
go test $RACEFLAG -count=1 ./test/seeddemo/ > /tmp/confirm_$id.mut.log 2>&1; mut_rc=$?
rm -rf test/seeddemo
fails=$(go test -vet=off -count=1 ./... 2>&1 | grep -E '^--- FAIL' | sed -E 's/ \([0-9.]+s\)//' | sort | tr '\n' ' ')
cd /; git -C /repo worktree remove --force $wt
ok=1
[ $clean_rc -eq 0 ] || ok=0
[ $build_rc -eq 0 ] || ok=0
[ $mut_rc -ne 0 ] || ok=0
case "$fails" in
  "--- FAIL: Test_lexer --- FAIL: Test_pligin ") ;;
  *) ok=0 ;;
esac
echo "$id: clean_demo_rc=$clean_rc build_rc=$build_rc mutated_demo_rc=$mut_rc suite_failures=[$fails] confirmed=$ok"
if [ $ok -eq 1 ]; then
  mkdir -p /verif/seeded/$id
  cp $src/patch.diff $src/demo_test.go /verif/seeded/$id/
  python3 - "$src/meta.json" "/verif/seeded/$id/meta.json" "$id" <<'PY'
import json,sys
m=json.load(open(sys.argv[1]))
m["id"]=sys.argv[3]
m["confirmed_by"]="tools/confirm_seed.sh in a scratch worktree: demo passes on HEAD, fails with patch; go build ok; go test ./... shows only Test_lexer and Test_pligin failing (as on HEAD)"
json.dump(m,open(sys.argv[2],"w"),indent=1)
PY
fi
