#!/bin/bash
# usage: try_patch.sh <patch.diff> <Cxx> [more Cxx...] : apply a seeded change to /repo, run the checks, undo it.
set -u
patch=$1; shift
cd /repo || exit 2
if ! git diff --quiet; then echo "repo dirty"; exit 2; fi
git apply "$patch" || { echo "patch does not apply"; exit 2; }
for p in "$@"; do
  (cd /verif && ./check "$p" --tier "${TIER:-quick}" 2>&1 | tail -4)
done
git -C /repo checkout -- .
# restore generated files for the unchanged tree
(cd /verif && ./extract/extract >/dev/null)
