#!/usr/bin/env python3
"""debug helper: run a scenario and print issue details.  usage: show_issues.py <scn> <filter> <n> [seed] [aspects]"""
import sys, os, json, collections
sys.path.insert(0, '/verif/checklib')
import runner, scenarios
import subprocess; subprocess.run(["go","build","-tags","verif","-o","harness","."],cwd="/verif/harness",env=dict(__import__("os").environ,GOFLAGS="-mod=mod",GOPROXY="off",GOSUMDB="off",GOTOOLCHAIN="local"))
ROOT='/verif'; LEAN='/verif/lean'
GOENV=dict(os.environ, GOFLAGS="-mod=mod", GOPROXY="off", GOSUMDB="off", GOTOOLCHAIN="local")
scn, flt, n = sys.argv[1], sys.argv[2], int(sys.argv[3])
seed = int(sys.argv[4]) if len(sys.argv) > 4 else 1
aspects = sys.argv[5].split(',') if len(sys.argv) > 5 else None
cases = runner.run_harness(ROOT, GOENV, scn, seed, n, flt or None)
outs, rc, err = runner.run_driver(LEAN, cases)
mod = scenarios.SCN[scn]
cnt = collections.Counter(); shown = 0
for c in cases:
    o = outs.get(c.get('i'))
    for iss in mod.compare(c, o) if o else [{'aspect':'driver','kind':'x','detail':'no out'}]:
        if aspects and iss['aspect'] not in aspects: continue
        cnt[(iss['aspect'], iss['kind'])] += 1
        if shown < int(os.environ.get('SHOW', '6')):
            shown += 1
            print('---- case', c.get('i'), iss['aspect'], iss['kind']); print(iss['detail'][:700])
            if os.environ.get('TEXT'): print(c.get('text'))
print(len(cases), 'cases', dict(cnt)); print(err[-300:] if rc else '')
