#!/bin/bash
# run every claimed check on the current tree (default quick) and validate the evidence files
cd /verif
tier=${1:-quick}
ids=$(python3 -c "import json;print(' '.join(c['property_id'] for c in json.load(open('MANIFEST.json'))['checks']))")
rc=0
for p in $ids; do ./check $p --tier $tier 2>&1 | grep -v "^WARNING" | tail -2; [ ${PIPESTATUS[0]} -eq 0 ] || rc=1; done
python3-vt - <<'PY'
import json,jsonschema
m=json.load(open('/verif/MANIFEST.json'))
jsonschema.validate(m,json.load(open('/root/.vp/MANIFEST.schema.json')))
for c in m['checks']:
    jsonschema.validate(json.load(open(c['evidence_file'])),json.load(open('/root/.vp/EVIDENCE.schema.json')))
print('manifest+evidence valid')
PY
exit $rc
