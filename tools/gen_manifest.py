#!/usr/bin/env python3
"""Regenerate /verif/MANIFEST.json from checklib/registry.py (claimed properties) and properties.jsonl."""
import json, sys, os
ROOT = os.path.dirname(os.path.dirname(os.path.abspath(__file__)))
sys.path.insert(0, os.path.join(ROOT, "checklib"))
from registry import PROPS, MANIFEST_TEXT, NOT_APPLICABLE

props = [json.loads(l) for l in open(os.path.join(ROOT, "properties.jsonl"))]
claimed = [p["id"] for p in props if p["id"] in PROPS]
m = {
    "version": 1,
    "setup_cmd": "./check setup",
    "hooks": {
        "guard": "verif",
        "enable": "go build -tags verif (the harness module in /verif/harness replaces github.com/bilibili/gengine => /repo)",
        "baseline_off_cmd": "cd /repo && go test -json -vet=off -count=1 -timeout 25m ./...",
        "source_commits": json.load(open(os.path.join(ROOT, "hooks.json")))["source_commits"] if os.path.exists(os.path.join(ROOT, "hooks.json")) else [],
        "add_only": True,
    },
    "engines": [
        {"name": "lean-gv", "path": "/verif/lean", "serves_properties": claimed,
         "kind_free_text": "Lean 4 (core only) models, reference semantics, theorems; compiled driver for the correspondence check; axioms audit"},
        {"name": "extract", "path": "/verif/extract", "serves_properties": claimed,
         "kind_free_text": "Go AST -> Lean data translator: regenerates lean/GV/Generated/*.lean from /repo on every run (tie T1)"},
        {"name": "harness", "path": "/verif/harness", "serves_properties": claimed,
         "kind_free_text": "Go differential harness: runs the real code (built with -tags verif from /repo) on seeded generated cases, gate scheduler for goroutines (tie T2)"},
    ],
    "checks": [],
    "not_applicable": [],
    "notes": "Every check = ./check <id>: extract -> lake build of the property's theorem module + axioms audit -> harness/driver correspondence -> verdict (DESIGN.md 2.3). Known findings: /verif/known_findings.json.",
}
for p in props:
    pid = p["id"]
    if pid in PROPS:
        t = MANIFEST_TEXT.get(pid, {})
        m["checks"].append({
            "property_id": pid,
            "quick_cmd": "./check %s --tier quick" % pid,
            "thorough_cmd": "./check %s --tier thorough" % pid,
            "evidence_file": "/verif/evidence/%s.json" % pid,
            "replay_cmd_template": "./check replay {path}",
            "engine": "lean-gv",
            "level_claimed": {"category": PROPS[pid].get("level", "proof"),
                              "text": t.get("text", "Lean theorems over a model tied to the code by regeneration and differential runs"),
                              "design_ref": t.get("design_ref", "DESIGN.md section 5 (%s)" % pid)},
            "level_note": t.get("note", "trusted: Lean kernel, extractor, harness and comparator; see evidence.coverage.trusted_base"),
            "technique": t.get("technique", "Lean 4 proof + regenerated model + differential correspondence"),
        })
    else:
        m["not_applicable"].append({"property_id": pid, "reason": NOT_APPLICABLE.get(pid, "machinery not built yet in this session; not claimed")})
json.dump(m, open(os.path.join(ROOT, "MANIFEST.json"), "w"), indent=1)
print("claimed:", claimed)
