"""Per-scenario comparison of Impl (harness observation), Model and Spec (Lean driver)."""
import json


class Orch:
    """aspects: outcome (ok/err), trace (stage plan acceptance), results (result map),
    crash (panic / hang / process crash)."""

    @staticmethod
    def norm_outcome(o):
        return "panic" if o in ("panic", "crash", "hang") else o

    @staticmethod
    def compare(c, o):
        issues = []
        obs = c.get("obs") or {}
        oc = obs.get("outcome")
        if oc == "harness-crash":
            return [{"aspect": "driver", "kind": "impl-vs-model", "method": c.get("method"),
                     "detail": "harness crashed outside a case: %s" % obs.get("note")}]
        if oc == "builderr":
            return [{"aspect": "build", "kind": "impl-vs-model", "method": c.get("method"),
                     "detail": "rule text rejected by builder: %s" % obs.get("note")}]
        noc = Orch.norm_outcome(oc)
        for side in ("spec", "model"):
            s = o.get(side) or {}
            kind = "impl-vs-spec" if side == "spec" else "impl-vs-model"
            fin = s.get("fin")
            if noc == "panic" or fin == "panic":
                if noc != fin:
                    issues.append({"aspect": "crash", "kind": kind, "method": c.get("method"),
                                   "detail": "impl outcome %s, %s says %s: %s" % (oc, side, fin, (obs.get("note") or "")[:300])})
                continue
            if noc != fin:
                issues.append({"aspect": "outcome", "kind": kind, "method": c.get("method"),
                               "detail": "impl returned %s, %s says %s" % (oc, side, fin)})
            if not s.get("accept"):
                issues.append({"aspect": "trace", "kind": kind, "method": c.get("method"),
                               "detail": "events %s not accepted by %s stages %s" % (json.dumps(obs.get("events")), side, json.dumps(s.get("stages")))})
            if (obs.get("results") or []) != (s.get("results") or []):
                issues.append({"aspect": "results-model" if side == "model" else "results-plan", "kind": kind,
                               "method": c.get("method"),
                               "detail": "impl results %s, %s says %s" % (json.dumps(obs.get("results")), side, json.dumps(s.get("results")))})
        # C11 proper: the map must hold exactly the rules that ran to completion in THIS call and returned
        if noc != "panic":
            rules = {r["name"]: r for r in (c.get("rules") or [])}
            ended = [e[1] for e in (obs.get("events") or []) if e[0] == "E"]
            want = sorted({n: rules[n]["val"] for n in ended if n in rules and rules[n]["flag"] and not rules[n]["fails"]}.items())
            got = sorted((k, v) for k, v in (obs.get("results") or []))
            if [list(x) for x in want] != [list(x) for x in got]:
                issues.append({"aspect": "results", "kind": "impl-vs-spec", "method": c.get("method"),
                               "detail": "result map %s but the rules that ran and returned are %s" % (json.dumps(got), json.dumps(want))})
        # model vs spec (guard against driver/model drift; impossible when the theorems hold)
        m, s = o.get("model") or {}, o.get("spec") or {}
        def mvs(aspect):
            issues.append({"aspect": aspect, "kind": "model-vs-spec", "method": c.get("method"),
                           "detail": "model %s spec %s" % (json.dumps(m)[:400], json.dumps(s)[:400])})
        if m.get("fin") == "panic":
            mvs("crash")
        else:
            if m.get("fin") != s.get("fin"):
                mvs("outcome")
            if m.get("stages") != s.get("stages"):
                mvs("trace")
            if m.get("results") != s.get("results"):
                mvs("results-plan")
        return issues

    @staticmethod
    def classify(c):
        rules = c.get("rules") or []
        key = json.dumps([c.get("method"), c.get("b"), c.get("n"), c.get("m"), c.get("names"), c.get("dag"),
                          [(r["name"], r["sal"], r["flag"], r["fails"], r["stop"]) for r in rules],
                          c.get("prev") is None, (c.get("obs") or {}).get("events")])
        nontrivial = len((c.get("obs") or {}).get("events") or []) >= 4
        return key, nontrivial

    @staticmethod
    def histo(c):
        obs = c.get("obs") or {}
        yield "method:" + str(c.get("method"))
        yield "outcome:" + str(obs.get("outcome"))
        yield "rules:%d" % len(c.get("rules") or [])
        yield "started:%d" % (len([e for e in (obs.get("events") or []) if e[0] == "S"]))
        yield "strategy:%s" % c.get("strategy")
        yield "prev:%s" % ("fresh" if c.get("prev") is None else "used")

    @staticmethod
    def sample(c, o):
        return {"method": c.get("method"), "b": c.get("b"), "n": c.get("n"), "m": c.get("m"), "names": c.get("names"),
                "dag": c.get("dag"), "rules": [[r["name"], r["sal"], r["beh"]] for r in c.get("rules") or []],
                "obs": c.get("obs"), "model": (o or {}).get("model")}


SCN = {"orch": Orch}
