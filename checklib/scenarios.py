"""Per-scenario comparison of Impl (harness observation), Model and Spec (Lean driver)."""
import json
import re


class Orch:
    """aspects: outcome (ok/err), trace (stage plan acceptance), results (result map),
    crash (panic / hang / process crash)."""

    @staticmethod
    def norm_outcome(o):
        return "panic" if o in ("panic", "crash", "hang") else o

    @staticmethod
    def compare(c, o):
        issues = []
        obs = c.get("obs") or {}
        oc = obs.get("outcome")
        if oc == "harness-crash":
            return [{"aspect": "driver", "kind": "impl-vs-model", "method": c.get("method"),
                     "detail": "harness crashed outside a case: %s" % obs.get("note")}]
        if oc == "builderr":
            return [{"aspect": "build", "kind": "impl-vs-model", "method": c.get("method"),
                     "detail": "rule text rejected by builder: %s" % obs.get("note")}]
        noc = Orch.norm_outcome(oc)
        for side in ("spec", "model"):
            s = o.get(side) or {}
            kind = "impl-vs-spec" if side == "spec" else "impl-vs-model"
            fin = s.get("fin")
            if noc == "panic" or fin == "panic":
                if noc != fin:
                    issues.append({"aspect": "crash", "kind": kind, "method": c.get("method"),
                                   "detail": "impl outcome %s, %s says %s: %s" % (oc, side, fin, (obs.get("note") or "")[:300])})
                continue
            if noc != fin:
                issues.append({"aspect": "outcome", "kind": kind, "method": c.get("method"),
                               "detail": "impl returned %s, %s says %s" % (oc, side, fin)})
            if not s.get("accept"):
                issues.append({"aspect": "trace", "kind": kind, "method": c.get("method"),
                               "detail": "events %s not accepted by %s stages %s" % (json.dumps(obs.get("events")), side, json.dumps(s.get("stages")))})
            if (obs.get("results") or []) != (s.get("results") or []):
                issues.append({"aspect": "results-model" if side == "model" else "results-plan", "kind": kind,
                               "method": c.get("method"),
                               "detail": "impl results %s, %s says %s" % (json.dumps(obs.get("results")), side, json.dumps(s.get("results")))})
        # the rule outcomes the orchestration model takes as input are measured on the real engine:
        # they must be what the rule bodies say (a failing body fails, a quiet one does not)
        for ru in c.get("rules") or []:
            must_fail = ru.get("beh") in ("fail", "failret", "retafterfail", "straybreak", "straycont", "bigfail")
            if ru.get("beh") in ("ret", "bare", "silent") or must_fail:
                if bool(ru.get("fails")) != must_fail:
                    issues.append({"aspect": "outcome", "kind": "impl-vs-spec", "method": c.get("method"),
                                   "detail": "rule %s (body: %s) executed on its own %s" % (ru.get("name"), ru.get("beh"),
                                             "reports no error" if must_fail else "reports an error")})
        # C11 proper: the map must hold exactly the rules that ran to completion in THIS call and returned
        if noc != "panic":
            rules = {r["name"]: r for r in (c.get("rules") or [])}
            ended = [e[1] for e in (obs.get("events") or []) if e[0] == "E"]
            want = sorted({n: rules[n]["val"] for n in ended if n in rules and rules[n]["flag"] and not rules[n]["fails"]}.items())
            got = sorted((k, v) for k, v in (obs.get("results") or []))
            if [list(x) for x in want] != [list(x) for x in got]:
                issues.append({"aspect": "results", "kind": "impl-vs-spec", "method": c.get("method"),
                               "detail": "result map %s but the rules that ran and returned are %s" % (json.dumps(got), json.dumps(want))})
        # model vs spec (guard against driver/model drift; impossible when the theorems hold)
        m, s = o.get("model") or {}, o.get("spec") or {}
        def mvs(aspect):
            issues.append({"aspect": aspect, "kind": "model-vs-spec", "method": c.get("method"),
                           "detail": "model %s spec %s" % (json.dumps(m)[:400], json.dumps(s)[:400])})
        if m.get("fin") == "panic":
            mvs("crash")
        else:
            if m.get("fin") != s.get("fin"):
                mvs("outcome")
            if m.get("stages") != s.get("stages"):
                mvs("trace")
            if m.get("results") != s.get("results"):
                mvs("results-plan")
        return issues

    @staticmethod
    def classify(c):
        rules = c.get("rules") or []
        key = json.dumps([c.get("method"), c.get("b"), c.get("n"), c.get("m"), c.get("names"), c.get("dag"),
                          [(r["name"], r["sal"], r["flag"], r["fails"], r["stop"]) for r in rules],
                          c.get("prev") is None, (c.get("obs") or {}).get("events")])
        nontrivial = len((c.get("obs") or {}).get("events") or []) >= 4
        return key, nontrivial

    @staticmethod
    def histo(c):
        obs = c.get("obs") or {}
        yield "method:" + str(c.get("method"))
        yield "outcome:" + str(obs.get("outcome"))
        yield "rules:%d" % len(c.get("rules") or [])
        yield "started:%d" % (len([e for e in (obs.get("events") or []) if e[0] == "S"]))
        yield "strategy:%s" % c.get("strategy")
        yield "prev:%s" % ("fresh" if c.get("prev") is None else "used")

    @staticmethod
    def sample(c, o):
        return {"method": c.get("method"), "b": c.get("b"), "n": c.get("n"), "m": c.get("m"), "names": c.get("names"),
                "dag": c.get("dag"), "rules": [[r["name"], r["sal"], r["beh"]] for r in c.get("rules") or []],
                "obs": c.get("obs"), "model": (o or {}).get("model")}


class KCScn:
    """aspects: set (installed set = what the history denotes), sorted (slice is the set in
    non-increasing salience order), index (index map = positions), exec (sort model runs the
    slice in order with the current bodies), exists, atomic (a rejected operation changes
    nothing and reports an error), model (impl vs model up to ties), crash."""

    @staticmethod
    def rl(x):
        return [(r["name"], r["sal"], r["ver"]) for r in (x or [])]

    @staticmethod
    def groups(lst):
        g = []
        for n, s, v in lst:
            if g and g[-1][0] == s:
                g[-1][1].add((n, v))
            else:
                g.append([s, {(n, v)}])
        return g

    @staticmethod
    def compare(c, o):
        issues = []
        def add(aspect, kind, k, detail):
            issues.append({"aspect": aspect, "kind": kind, "method": "kc", "detail": "op %d (%s): %s" % (k, c["ops"][k]["kind"], detail)})
        steps = (o or {}).get("steps") or []
        prev = {"entities": [], "sort": [], "index": []}
        for k, op in enumerate(c.get("ops") or []):
            a = op.get("after") or {}
            if op.get("panic"):
                add("crash", "impl-vs-spec", k, "panic: %s" % op["panic"][:200])
                continue
            if k >= len(steps):
                add("driver", "impl-vs-model", k, "no driver step")
                continue
            st = steps[k]
            ent, srt = KCScn.rl(a.get("entities")), KCScn.rl(a.get("sort"))
            spec = KCScn.rl(st.get("spec"))
            if bool(op.get("err")) != bool(st.get("err")):
                add("atomic", "impl-vs-spec", k, "impl err=%s, expected err=%s (bad=%r)" % (op.get("err"), st.get("err"), op.get("bad")))
            if st.get("err") and (a.get("entities") != prev["entities"] or a.get("sort") != prev["sort"] or a.get("index") != prev["index"]):
                add("atomic", "impl-vs-spec", k, "rejected operation changed the container: before %s after %s" % (prev["sort"], a.get("sort")))
            if ent != spec:
                add("set", "impl-vs-spec", k, "installed %s, history denotes %s" % (ent, spec))
            if sorted(srt) != sorted(ent):
                add("sorted", "impl-vs-spec", k, "sorted slice %s is not a permutation of the rule map %s" % (srt, ent))
            if any(srt[i][1] < srt[i + 1][1] for i in range(len(srt) - 1)):
                add("sorted", "impl-vs-spec", k, "slice not in non-increasing salience order: %s" % (srt,))
            idx = [(x[0], x[1]) for x in (a.get("index") or [])]
            want_idx = sorted((r[0], i) for i, r in enumerate(srt))
            # the index map is only read for names that are installed; stale extra keys are harmless
            if sorted(x for x in idx if x[0] in {r[0] for r in srt}) != want_idx:
                add("index", "impl-vs-spec", k, "index map %s, positions %s" % (idx, want_idx))
            if (a.get("trace") or []) != [r[0] for r in srt]:
                add("exec", "impl-vs-spec", k, "sort model ran %s, slice is %s" % (a.get("trace"), [r[0] for r in srt]))
            if [list(x) for x in (a.get("results") or [])] != [[n, v] for n, s_, v in sorted(ent)]:
                add("exec", "impl-vs-spec", k, "results %s, installed versions %s" % (a.get("results"), sorted(ent)))
            if (a.get("exists") or []) != [any(r[0] == n for r in spec) for n in c.get("pool") or []]:
                add("exists", "impl-vs-spec", k, "IsExist %s for set %s" % (a.get("exists"), spec))
            m_srt = KCScn.rl(st.get("sort"))
            if KCScn.groups(m_srt) != KCScn.groups(srt) or KCScn.rl(st.get("entities")) != ent:
                add("model", "impl-vs-model", k, "impl slice %s, model slice %s" % (srt, m_srt))
            if KCScn.rl(st.get("entities")) != spec:
                add("model", "model-vs-spec", k, "model %s spec %s" % (st.get("entities"), spec))
            prev = {"entities": a.get("entities"), "sort": a.get("sort"), "index": a.get("index")}
        return issues

    @staticmethod
    def classify(c):
        ops = c.get("ops") or []
        key = json.dumps([[op["kind"], op["bad"], [(r["name"], r["sal"]) for r in op["rules"]], op["names"]] for op in ops])
        nontrivial = len(ops) >= 2 and any(len((op.get("after") or {}).get("sort") or []) >= 2 for op in ops)
        return key, nontrivial

    @staticmethod
    def histo(c):
        ops = c.get("ops") or []
        yield "ops:%d" % len(ops)
        for op in ops:
            yield "op:%s%s" % (op["kind"], ("/" + op["bad"]) if op["bad"] else "")
            srt = (op.get("after") or {}).get("sort") or []
            yield "size:%d" % len(srt)
            sal = [r["sal"] for r in srt]
            if len(set(sal)) < len(sal):
                yield "ties:yes"

    @staticmethod
    def sample(c, o):
        return {"ops": [[op["kind"], op["bad"], [(r["name"], r["sal"], r["ver"]) for r in op["rules"]], op["names"],
                         [r["name"] for r in (op.get("after") or {}).get("sort") or []]] for op in c.get("ops") or []]}


class EvalScn:
    """aspects: value (outcome class / returned value / flag), state (host objects after the rule),
    trace (observer calls), cite (cited line), panic (a Go panic escaped Execute), hang."""

    @staticmethod
    def norm_env(env):
        out = {}
        for o in env or []:
            t = o.get("type")
            if t in ("val", "pscalar"):
                out[o["name"]] = o.get("val")
            elif t == "struct":
                out[o["name"]] = [[f[0], f[1]] for f in (o.get("fields") or [])]
            elif t == "map":
                out[o["name"]] = sorted([json.dumps(e, sort_keys=True) for e in (o.get("entries") or [])])
            elif t == "slice":
                out[o["name"]] = o.get("elems") or []
        return out

    @staticmethod
    def norm_trace(tr):
        """events of conc children (obsC / note) may come in any order: sort each maximal run"""
        out, run = [], []
        for ev in tr or []:
            if ev.get("fn") in ("obsC", "note", "mark"):
                run.append(json.dumps(ev, sort_keys=True))
            else:
                out.extend(sorted(run)); run = []
                out.append(json.dumps(ev, sort_keys=True))
        out.extend(sorted(run))
        return out

    @staticmethod
    def compare(c, o):
        issues = []
        ob = c.get("obs") or {}
        if ob.get("outcome") in ("crash", "harness-crash"):
            return [{"aspect": "panic", "kind": "impl-vs-spec", "method": c.get("mode"),
                     "detail": "the process died while executing this case (a panic in a goroutine nobody recovers): %s | text: %s"
                               % ((ob.get("note") or "")[-600:], (c.get("text") or "")[:400])}]
        pr = c.get("probe")
        if pr and pr.get("got") != pr.get("want"):
            issues.append({"aspect": "conc-locals", "kind": "impl-vs-spec", "method": c.get("mode"),
                           "detail": "%d concurrent executions of one rule entity, each returning its own tick(): got %s, expected %s | %s"
                                     % (pr.get("k"), pr.get("got"), pr.get("want"), pr.get("text"))})
        if c.get("mode") == "parse":
            # token strings under arbitrary (also damaged) bracketings: the grammar model of the driver
            # and the real parser must agree on whether the string is an expression at all
            rej = any((sh or {}).get("reject") for sh in (o or {}).get("shapes") or [])
            if c.get("build") and not rej:
                return [{"aspect": "parse", "kind": "impl-vs-spec", "method": "parse",
                         "detail": "the parser rejects a token string that is an expression of the language: %s | text: %s"
                                   % (c["build"][:200], (c.get("text") or "")[:300])}]
            if rej and not c.get("build"):
                return [{"aspect": "parse", "kind": "impl-vs-spec", "method": "parse",
                         "detail": "the parser accepts a token string that is not an expression of the language | text: %s"
                                   % (c.get("text") or "")[:300]}]
            if rej:
                return issues
        if c.get("build"):
            return [{"aspect": "build", "kind": "impl-vs-model", "method": c.get("mode"),
                     "detail": "generated text rejected: %s" % c["build"][:300]}]
        for k, sh in enumerate((o or {}).get("shapes") or []):
            if not sh or sh.get("noast"):
                continue
            nm = (c.get("rules") or [{}] * (k + 1))[k].get("hdr", {}).get("name")
            if sh.get("wk") is False:
                issues.append({"aspect": "driver", "kind": "impl-vs-model", "method": c.get("mode"),
                               "detail": "rule %d (%s): the environment or a literal of the generated case is not well kinded: the end-to-end theorem's hypotheses are not met" % (k, nm)})
            if sh.get("wf") is not True:
                issues.append({"aspect": "driver", "kind": "impl-vs-model", "method": c.get("mode"),
                               "detail": "rule %d (%s): generated reference tree is not well-formed" % (k, nm)})
            if sh.get("shape") is not True:
                w, g = sh["shape"].get("want", ""), sh["shape"].get("got", "")
                structural = re.sub(r"@\d+@", "@", w) != re.sub(r"@\d+@", "@", g)
                i = 0
                while i < min(len(w), len(g)) and w[i] == g[i]:
                    i += 1
                issues.append({"aspect": "shape" if structural else "shape-pos", "kind": "impl-vs-model", "method": c.get("mode"),
                               "detail": "rule %d (%s): the listener's AST is not the lowering of the program: expected ...%s  got ...%s"
                                         % (k, nm, w[max(0, i - 80):i + 80], g[max(0, i - 80):i + 80])})
        for side, kind in (("model", "impl-vs-model"), ("spec", "impl-vs-spec")):
            outs = (o or {}).get(side)
            if outs is None:
                continue
            for k, r in enumerate(c.get("rules") or []):
                res = r.get("result") or {}
                if k >= len(outs):
                    issues.append({"aspect": "driver", "kind": kind, "method": c.get("mode"), "detail": "rule %d: no %s output" % (k, side)})
                    break
                m = outs[k]
                if m.get("skip"):
                    continue
                if '"unspec"' in json.dumps(m):
                    break      # an out-of-range float->int conversion happened: implementation defined, not compared
                def add(aspect, detail):
                    issues.append({"aspect": aspect, "kind": kind, "method": c.get("mode"),
                                   "detail": "rule %d (%s): %s | impl msg: %s" % (k, r["hdr"]["name"], detail, (res.get("msg") or "")[:160])})
                oc = res.get("outcome")
                if oc == "hang":
                    add("hang", "execution did not return within 20 s")
                    break
                if oc == "panic" or m.get("outcome") == "panic":
                    if oc != m.get("outcome"):
                        add("panic", "impl %s, %s %s" % (oc, side, m.get("outcome")))
                    if oc == "panic":
                        break
                    continue
                if oc != m.get("outcome"):
                    add("value", "impl outcome %s, %s %s" % (oc, side, m.get("outcome")))
                    continue
                if oc == "ok" and (res.get("flag") != m.get("flag") or res.get("val") != m.get("val")):
                    add("value", "impl returned flag=%s %s, %s flag=%s %s" % (res.get("flag"), res.get("val"), side, m.get("flag"), m.get("val")))
                if oc == "err" and bool(res.get("flag")) != bool(m.get("flag")):
                    add("value", "impl reports returned=%s for a failed rule, %s says %s" % (res.get("flag"), side, m.get("flag")))
                if oc == "err" and res.get("cite") != m.get("cite"):
                    add("cite", "impl cites line %s, %s line %s" % (res.get("cite"), side, m.get("cite")))
                if EvalScn.norm_env(res.get("env")) != EvalScn.norm_env(m.get("env")):
                    a, b = EvalScn.norm_env(res.get("env")), EvalScn.norm_env(m.get("env"))
                    diff = {n: (a.get(n), b.get(n)) for n in set(a) | set(b) if a.get(n) != b.get(n)}
                    add("state", "host state differs (impl, %s): %s" % (side, json.dumps(diff)[:400]))
                if EvalScn.norm_trace(res.get("trace")) != EvalScn.norm_trace(m.get("trace")):
                    add("trace", "observer calls impl %s, %s %s" % (json.dumps(res.get("trace"))[:200], side, json.dumps(m.get("trace"))[:200]))
        return issues

    @staticmethod
    def classify(c):
        key = c.get("text", "")
        nontrivial = any((r.get("result") or {}).get("outcome") == "ok" for r in c.get("rules") or [])
        return key, nontrivial

    @staticmethod
    def histo(c):
        yield "mode:%s" % c.get("mode")
        yield "rules:%d" % len(c.get("rules") or [])
        for r in c.get("rules") or []:
            yield "outcome:%s" % (r.get("result") or {}).get("outcome")
        t = c.get("text", "")
        for kw in ("if", "else if", "for", "forRange", "break", "continue", "conc", "return", "+=", "@"):
            if (" " + kw + " ") in t or (kw + " ") in t:
                yield "has:%s" % kw

    @staticmethod
    def sample(c, o):
        return {"mode": c.get("mode"), "text": c.get("text", "")[:600],
                "results": [{k: (r.get("result") or {}).get(k) for k in ("outcome", "cite", "flag", "val")} for r in c.get("rules") or []]}


class CompileScn:
    """aspects: accept (accept / reject per entry point), after (installed set after the call),
    order (salience order of the installed set), crash (an entry point panicked), front (grammar
    assumptions of the model), state (container self-consistency)."""

    @staticmethod
    def compare(c, o):
        issues = []
        def add(aspect, kind, ep, detail):
            issues.append({"aspect": aspect, "kind": kind, "method": ep,
                           "detail": "%s [%s text %r]: %s" % (ep, c.get("kind"), (c.get("text") or "")[:200], detail)})
        if not (o or {}).get("valid", True):
            add("front", "impl-vs-model", "front-end", "front-end outcome contradicts the grammar facts the model assumes: %s" % json.dumps(c.get("front"))[:300])
        # the lexer's answer the model takes as a parameter against the lexer model (C01l): an error the
        # lexer reports must be a position where no token rule matches.  Only this direction: the parser
        # drives the lexer lazily and `primary : ruleEntity+` has no EOF, so what follows the last
        # complete rule (or the parser's first error) may never be lexed at all.
        if "lexOk" in (o or {}) and (c.get("front") or {}).get("lex") and o["lexOk"]:
            add("front", "impl-vs-model", "lexer", "the lexer reports %s, the lexer model reads the whole text" % (c["front"]["lex"][:1],))
        exp = {e["ep"]: e for e in (o or {}).get("eps") or []}
        strict = c.get("kind") in ("valid", "nosal")
        for r in c.get("results") or []:
            ep = r["ep"]
            e = exp.get(ep)
            if e is None:
                add("driver", "impl-vs-model", ep, "no model output")
                continue
            if r.get("panic"):
                add("crash", "impl-vs-spec", ep, "entry point panicked: %s" % r.get("err"))
                continue
            if r.get("note"):
                add("state", "impl-vs-model", ep, r["note"])
            for side, kind in (("model", "impl-vs-model"), ("spec", "impl-vs-spec")):
                if bool(r.get("ok")) != bool(e[side]):
                    add("accept", kind, ep, "impl %s, %s %s (lexer errors %s, parser errors %s, listener errors %s) | %s"
                        % ("accepts" if r.get("ok") else "rejects", side, "accepts" if e[side] else "rejects",
                           len(c["front"].get("lex") or []), len(c["front"].get("parse") or []), len(c["front"].get("listener") or []), r.get("err", "")))
                    continue
                want = [(x["name"], x["sal"], x["ver"]) for x in e[side + "After"]]
                if ep == "NewGenginePool" and not r.get("ok"):
                    continue
                got_q = sorted((x["name"], x["sal"]) for x in r.get("query") or [])
                if got_q != sorted((n, s_) for n, s_, _ in want):
                    add("after", kind, ep, "installed set (name, salience) is %s, %s says %s" % (got_q, side, sorted((n, s_) for n, s_, _ in want)))
                    continue
                if strict or not r.get("ok"):
                    got = sorted((x["name"], x["sal"], x["ver"]) for x in r.get("after") or [])
                    if got != sorted(want):
                        add("after", kind, ep, "executing the installed set gives (name, salience, value) %s, %s says %s" % (got, side, sorted(want)))
            sals = [x["sal"] for x in r.get("after") or []]
            if (strict or not r.get("ok")) and any(a < b for a, b in zip(sals, sals[1:])):
                add("order", "impl-vs-spec", ep, "sort model ran the installed rules in salience order %s" % sals)
        return issues

    @staticmethod
    def classify(c):
        return c.get("text", ""), any(r.get("ok") for r in c.get("results") or [])

    @staticmethod
    def histo(c):
        f = c.get("front") or {}
        yield "kind:%s" % c.get("kind")
        yield "front:%s%s%s%s" % ("B" if f.get("blank") else "", "L" if f.get("lex") else "", "P" if f.get("parse") else "", "S" if f.get("listener") else "") 
        yield "vector:" + "".join("A" if r.get("ok") else ("P" if r.get("panic") else "R") for r in c.get("results") or [])

    @staticmethod
    def sample(c, o):
        return {"kind": c.get("kind"), "text": (c.get("text") or "")[:300],
                "front": {k: len(v) if isinstance(v, list) else v for k, v in (c.get("front") or {}).items()},
                "vector": "".join("A" if r.get("ok") else ("P" if r.get("panic") else "R") for r in c.get("results") or [])}


class PoolScn:
    """aspects: op (outcome of a management operation), query, exec (what the instances run),
    crash, capacity, iso (request isolation), leak (data visible after the call), mutated
    (returned result map changed later), atomic / visible (C07)."""

    NAMES = ["a", "b", "c", "d", "e", "f"]

    @staticmethod
    def exec_issues(add, ex, want, side, kind, check_rules=True, iso="iso"):
        """want: list of {name, ver}"""
        res = ex.get("results") or {}
        got = sorted((n, v // 1000) for n, v in res.items())
        for n, v in res.items():
            if v % 1000 != ex.get("id"):
                add(iso, "impl-vs-spec", "request %s got result %s=%s computed from request %s" % (ex.get("id"), n, v, v % 1000))
        if ex.get("panic"):
            add("crash", "impl-vs-spec", "request %s panicked: %s" % (ex.get("id"), ex.get("panic")))
            return
        if check_rules and got != sorted((r["name"], r["ver"]) for r in want):
            add("exec", kind, "request %s ran (rule, version) %s, %s says %s | err %s"
                % (ex.get("id"), got, side, sorted((r["name"], r["ver"]) for r in want), (ex.get("err") or "")[:100]))
        elif check_rules and not ex.get("err") and ex.get("runs") is not None and ex.get("runs") != len(want):
            # every installed rule ran and returned, yet the number of rule executions differs: a rule ran twice
            add("exec", kind, "request %s started %s rule executions, %s says the installed set has %s rules (each runs exactly once)"
                % (ex.get("id"), ex.get("runs"), side, len(want)))

    @staticmethod
    def compare(c, o):
        issues = []
        mode = c.get("mode")
        def add(aspect, kind, detail):
            issues.append({"aspect": aspect, "kind": kind, "method": mode, "detail": detail})
        if c.get("buildErr"):
            add("build", "impl-vs-model", "pool construction failed: %s" % c["buildErr"])
            return issues
        if mode == "mgmt":
            outs = (o or {}).get("ops") or []
            for k, op in enumerate(c.get("ops") or []):
                if k >= len(outs):
                    add("driver", "impl-vs-model", "no model output for op %d" % k)
                    break
                desc = "op %d %s%s" % (k, op["op"], " (rejected text)" if op.get("bad") else "")
                impl = "panic" if op.get("panic") else ("ok" if op.get("ok") else "err")
                for side, kind in (("model", "impl-vs-model"), ("spec", "impl-vs-spec")):
                    e = outs[k][side]
                    if impl == "panic":
                        if e["out"] != "panic":
                            add("crash", kind, "%s panicked (%s), %s says %s | history %s" % (desc, op.get("panic"), side, e["out"], [x["op"] for x in c["ops"][:k + 1]]))
                        continue
                    if impl != e["out"]:
                        add("op", kind, "%s returned %s (%s), %s says %s" % (desc, impl, op.get("err", ""), side, e["out"]))
                        continue
                    q = op.get("queries") or {}
                    want = {r["name"]: r for r in e["rules"]}
                    got_names = sorted(n for n, v in (q.get("exist") or {}).items() if v)
                    if got_names != sorted(want):
                        add("query", kind, "after %s IsExist says %s, %s says %s" % (desc, got_names, side, sorted(want)))
                    if q.get("number") != e["number"]:
                        add("query", kind, "after %s GetRulesNumber=%s, %s says %s" % (desc, q.get("number"), side, e["number"]))
                    if (q.get("sal") or {}) != {n: r["sal"] for n, r in want.items()}:
                        add("query", kind, "after %s saliences %s, %s says %s" % (desc, q.get("sal"), side, {n: r["sal"] for n, r in want.items()}))
                    if (q.get("desc") or {}) != {n: "v%d" % r["ver"] for n, r in want.items()}:
                        add("query", kind, "after %s descriptions %s, %s says %s" % (desc, q.get("desc"), side, {n: "v%d" % r["ver"] for n, r in want.items()}))
                    if q.get("model") != e["execModel"]:
                        add("query", kind, "after %s GetExecModel=%s, %s says %s" % (desc, q.get("model"), side, e["execModel"]))
                    for ex in op.get("execs") or []:
                        PoolScn.exec_issues(lambda a, kd, d: add(a, kd, "after %s: %s" % (desc, d)), ex, e["rules"], side, kind)
                if impl == "panic":
                    break
            return issues
        if mode == "churn":
            for op in c.get("ops") or []:
                if op.get("panic"):
                    add("crash", "impl-vs-spec", "%s panicked while requests were running: %s" % (op.get("op"), op.get("panic")))
            for ex in c.get("execs") or []:
                if ex.get("panic"):
                    add("crash", "impl-vs-spec", "request %s (%s) panicked while management operations were running: %s" % (ex.get("id"), ex.get("method"), ex.get("panic")))
            return issues
        if mode == "upd":
            vers = [sorted((r["name"], r["ver"]) for r in v) for v in (o or {}).get("versions") or []]
            ops = c.get("ops") or []
            for k, op in enumerate(ops):
                if op.get("start") and not op.get("ok"):
                    add("op", "impl-vs-spec", "update %d (%s) failed: %s %s" % (k, op.get("op"), op.get("err"), op.get("panic")))
            for ex in c.get("execs") or []:
                if ex.get("panic"):
                    add("crash", "impl-vs-spec", "request %s (%s) panicked: %s" % (ex.get("id"), ex.get("method"), ex.get("panic")))
                    continue
                res = ex.get("results") or {}
                got = sorted((n, v // 1000) for n, v in res.items())
                done_before = sum(1 for op in ops if op.get("end") and op["end"] < ex["start"])
                started_before_end = sum(1 for op in ops if op.get("start") and op["start"] < ex["end"])
                match = [j for j, v in enumerate(vers) if v == got]
                hist = "updates %s" % [(op.get("op"), "inside a rule" if op.get("inside") else "other goroutine", op.get("start"), op.get("end")) for op in ops if op.get("start")]
                removed = any(op.get("op") == "remove" for op in ops)
                if removed and not got and "N-M execute model" in (ex.get("err") or ""):
                    # the N-M models demand n + m = number of installed rules; the request was sized for the
                    # initial rule set and a removal changed the count: refused up front, nothing ran
                    continue
                if not match:
                    add("atomic", "impl-vs-spec", "request %s (%s, clock %s-%s) ran (rule, version) %s: not the rule set of any single installed version %s | %s | err %s"
                        % (ex.get("id"), ex.get("method"), ex.get("start"), ex.get("end"), got, vers, hist, (ex.get("err") or "")[:80]))
                elif max(match) < done_before:
                    add("visible", "impl-vs-spec", "request %s (%s) started at %s after update %d had returned, and ran version %s %s | %s"
                        % (ex.get("id"), ex.get("method"), ex.get("start"), done_before, match, got, hist))
                elif min(match) > started_before_end:
                    add("visible", "impl-vs-spec", "request %s (%s) ended at %s before update %d started, and ran version %s | %s"
                        % (ex.get("id"), ex.get("method"), ex.get("end"), min(match), match, hist))
                for n, v in res.items():
                    if v % 1000 != ex.get("id"):
                        add("iso", "impl-vs-spec", "request %s got result %s=%s computed from request %s" % (ex.get("id"), n, v, v % 1000))
            return issues
        exp = o or {}
        rules = exp.get("rules") or []
        if mode == "cap":
            if c.get("peak", 0) > c.get("max"):
                add("capacity", "impl-vs-spec", "%s requests were inside their rules simultaneously on a pool of %s instances" % (c.get("peak"), c.get("max")))
            if c.get("peak") != exp.get("peak"):
                add("capacity", "impl-vs-spec" if c.get("peak", 0) > exp.get("peak", 0) else "impl-vs-model",
                    "%s clients on %s instances: %s ran simultaneously, expected %s" % (c.get("clients"), c.get("max"), c.get("peak"), exp.get("peak")))
            if c.get("done") != exp.get("done"):
                add("capacity", "impl-vs-spec", "%s of %s requests completed after the gate was opened (waiters must proceed)" % (c.get("done"), c.get("clients")))
            if c.get("peak2") != exp.get("peak2"):
                add("capacity", "impl-vs-spec", "after %s requests (some failing) only %s of %s instances could be used simultaneously" % (c.get("clients"), c.get("peak2"), c.get("max")))
            for ex in c.get("execs2") or []:
                res = ex.get("results") or {}
                if any(v % 1000 != ex.get("id") for v in res.values()) or ex.get("out") != ex.get("id") or ex.get("echo") != ex.get("id"):
                    add("double", "impl-vs-spec", "second round, request %s: results %s, its own object out=%s echo=%s - another in-flight request used the same engine instance"
                        % (ex.get("id"), res, ex.get("out"), ex.get("echo")))
            for ex in c.get("execs") or []:
                failing = ex.get("id", 0) % 3 == 0
                PoolScn.exec_issues(add, ex, [] if failing else rules, "spec", "impl-vs-spec", check_rules=not failing or c.get("model") == 1, iso="double")
                if not failing and (ex.get("out") != ex.get("id") or ex.get("echo") != ex.get("id")):
                    add("double", "impl-vs-spec", "request %s: its own object holds out=%s echo=%s - another in-flight request used the same engine instance" % (ex.get("id"), ex.get("out"), ex.get("echo")))
                if failing and not ex.get("err"):
                    add("exec", "impl-vs-spec", "request %s: a rule panicking in an injected function reported no error" % ex.get("id"))
        if mode == "iso":
            for ex in c.get("execs") or []:
                PoolScn.exec_issues(add, ex, rules, "spec", "impl-vs-spec")
                if ex.get("out") != ex.get("id") or ex.get("echo") != ex.get("id"):
                    add("iso", "impl-vs-spec", "request %s: its own object holds out=%s echo=%s" % (ex.get("id"), ex.get("out"), ex.get("echo")))
            for ex in c.get("execs2") or []:
                PoolScn.exec_issues(add, ex, rules, "spec", "impl-vs-spec")
                if ex.get("out") != ex.get("id") or ex.get("echo") != ex.get("id"):
                    add("iso", "impl-vs-spec", "request %s (%s): its own object holds out=%s echo=%s" % (ex.get("id"), ex.get("method"), ex.get("out"), ex.get("echo")))
            for pr in [c.get("probe") or {}] + (c.get("probes") or []):
                if pr.get("method") in ("selected-none", "dag-empty", "dag-unknown"):
                    if pr.get("results"):
                        add("leak", "impl-vs-spec", "request %s (%s) named no existing rule and was handed the results %s" % (pr.get("id"), pr.get("method"), pr.get("results")))
                    continue
                if pr.get("results") or not pr.get("err"):
                    add("leak", "impl-vs-spec", "request %s injected nothing and ran rules reading q: results %s err %r" % (pr.get("id"), pr.get("results"), pr.get("err")))
            if c.get("mutated"):
                add("mutated", "impl-vs-spec", "a result map handed back to a caller changed after later requests. %s" % (c.get("note") or ""))
        return issues

    @staticmethod
    def classify(c):
        key = json.dumps({k: c.get(k) for k in ("mode", "min", "max", "model", "init", "clients")}, sort_keys=True) + \
            json.dumps([(op.get("op"), op.get("rules"), op.get("names"), op.get("model"), op.get("bad")) for op in c.get("ops") or []])
        return key, bool(c.get("ops")) or bool(c.get("execs"))

    @staticmethod
    def histo(c):
        yield "mode:%s" % c.get("mode")
        yield "pool:%s-%s" % (c.get("min"), c.get("max"))
        yield "execModel:%s" % c.get("model")
        for op in c.get("ops") or []:
            yield "op:%s%s:%s" % (op.get("op"), "-bad" if op.get("bad") else "", "panic" if op.get("panic") else ("ok" if op.get("ok") else "err"))
        if c.get("clients"):
            yield "clients:%s" % c.get("clients")

    @staticmethod
    def sample(c, o):
        return {"mode": c.get("mode"), "pool": [c.get("min"), c.get("max")], "model": c.get("model"),
                "ops": [op.get("op") for op in c.get("ops") or []], "clients": c.get("clients"), "peak": c.get("peak")}


class LexScn:
    """aspects: tokens (token stream of the default channel: kinds and texts), lexerr (a token
    recognition error is reported iff the model finds a position where no token rule matches),
    crash (the lexer panicked)."""

    @staticmethod
    def compare(c, o):
        issues = []
        def add(aspect, detail):
            issues.append({"aspect": aspect, "kind": "impl-vs-spec", "method": "lexer",
                           "detail": "lexer on %r: %s" % ((c.get("text") or "")[:200], detail)})
        if c.get("panic"):
            add("crash", "the lexer panicked: %s" % c["panic"])
            return issues
        it = [tuple(t) for t in c.get("toks") or []]
        mt = [tuple(t) for t in (o or {}).get("toks") or []]
        ierr = bool(c.get("errs"))
        if ierr != (not o.get("ok")):
            add("lexerr", "the lexer %s, the grammar's token rules %s"
                % ("reports %s" % c["errs"][:2] if ierr else "reports no error",
                   "match the whole text" if o.get("ok") else "match nothing after %d tokens" % len(mt)))
        elif (it != mt) if not ierr else (it[:len(mt)] != mt):
            k = next((j for j in range(min(len(it), len(mt))) if it[j] != mt[j]), min(len(it), len(mt)))
            add("tokens", "token %d is %s, the grammar's token rules (longest match, first rule) give %s"
                % (k, it[k] if k < len(it) else "missing", mt[k] if k < len(mt) else "nothing"))
        return issues

    @staticmethod
    def classify(c):
        return c.get("text", ""), bool(c.get("toks")) and not c.get("errs")

    @staticmethod
    def histo(c):
        yield "kind:%s" % c.get("kind")
        yield "lexerr:%s" % ("yes" if c.get("errs") else "no")
        for t in c.get("toks") or []:
            yield "tok:%s" % t[0]

    @staticmethod
    def sample(c, o):
        return {"text": (c.get("text") or "")[:200], "tokens": [t[0] for t in c.get("toks") or []][:20]}


SCN = {"orch": Orch, "kc": KCScn, "eval": EvalScn, "compile": CompileScn, "pool": PoolScn, "lex": LexScn}
