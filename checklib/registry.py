"""Property registry: theorem modules, correspondence scenarios, owned aspects."""

SORT_METHODS = "Execute,ExecuteSelectedRules,ExecuteSelectedRulesWithControl"
MIX_NM = ("ExecuteMixModel,ExecuteSelectedRulesMixModel,ExecuteInverseMixModel,ExecuteSelectedRulesInverseMixModel,"
          "ExecuteNSortMConcurrent,ExecuteNConcurrentMSort,ExecuteNConcurrentMConcurrent,"
          "ExecuteSelectedNSortMConcurrent,ExecuteSelectedNConcurrentMSort,ExecuteSelectedNConcurrentMConcurrent")
SELECTED = ("ExecuteSelectedRules,ExecuteSelectedRulesWithControl,ExecuteSelectedRulesWithControlAsGivenSortedName,"
            "ExecuteSelectedRulesWithControlAndStopTag,ExecuteSelectedRulesWithControlAndStopTagAsGivenSortedName,"
            "ExecuteSelectedRulesConcurrent,ExecuteSelectedRulesMixModel,ExecuteSelectedRulesInverseMixModel,"
            "ExecuteSelectedNSortMConcurrent,ExecuteSelectedNConcurrentMSort,ExecuteSelectedNConcurrentMConcurrent")
STOP = ("ExecuteWithStopTagDirect,ExecuteMixModelWithStopTagDirect,ExecuteSelectedRulesWithControlAndStopTag,"
        "ExecuteSelectedRulesWithControlAndStopTagAsGivenSortedName")

TB_COMMON = [
    "Lean 4.33 kernel; axioms allowed: propext, Classical.choice, Quot.sound (audited per theorem)",
    "/verif/extract (Go AST -> Lean skeleton translator) and the JSON line protocol",
    "/verif/harness gate scheduler and /verif/checklib comparator",
    "rule bodies are opaque in orchestration theorems (outcome measured per rule by the harness)",
    "sync.WaitGroup / goroutine semantics modelled as a counter LTS, not verified",
]

PROPS = {
    "C04": {
        "lean": ["GV.Props.C04"],
        "scenarios": [{"scn": "orch", "filter": SORT_METHODS, "n": {"quick": 250, "thorough": 3000},
                       "aspects": ["outcome", "trace", "driver", "build"]}],
        "rule": "random rule sets (1-7 rules, saliences with ties / negatives / full int64 range, behaviours ret/bare/silent/fail/failing-return), sort-model methods, both error policies; non-trivial = at least two rules started; distinct by canonical case text",
        "trusted_base": TB_COMMON,
        "assumptions": ["sort.SliceStable is a stable sort", "rule outcome independent of schedule"],
    },
    "C05": {
        "lean": ["GV.Props.C05"],
        "scenarios": [{"scn": "orch", "filter": MIX_NM, "n": {"quick": 300, "thorough": 4000},
                       "aspects": ["outcome", "trace", "driver", "build"]}],
        "rule": "random rule sets, mix / inverse-mix / N-M methods (plain and selected), random n/m incl. invalid, gate-scheduled goroutines with three grant strategies; non-trivial = at least two rules started",
        "trusted_base": TB_COMMON,
        "assumptions": ["Go scheduler fairness (liveness is not proved)", "rule outcome independent of schedule"],
    },
    "C11": {
        "lean": ["GV.Props.C11"],
        "scenarios": [{"scn": "orch", "n": {"quick": 400, "thorough": 5000},
                       "aspects": ["results", "driver", "build"]}],
        "rule": "all 21 Execute* methods, fresh engine or engine used by a previous call, returning / bare-return / silent / failing / failing-return rules; non-trivial = at least two rules started",
        "trusted_base": TB_COMMON,
        "assumptions": [],
    },
    "C12": {
        "lean": ["GV.Props.C12"],
        "scenarios": [{"scn": "orch", "filter": SELECTED, "n": {"quick": 300, "thorough": 4000},
                       "aspects": ["outcome", "trace", "crash", "driver", "build"]}],
        "rule": "selected-rule methods, name lists = random sub-permutations plus unknown names, empty lists",
        "trusted_base": TB_COMMON,
        "assumptions": [],
    },
    "C13": {
        "lean": ["GV.Props.C13"],
        "scenarios": [{"scn": "orch", "filter": "ExecuteDAGModel", "n": {"quick": 200, "thorough": 3000},
                       "aspects": ["outcome", "trace", "driver", "build"]}],
        "rule": "DAG layerings (0-4 layers, width 0-3, unknown and repeated names), failing subsets, gate scheduler",
        "trusted_base": TB_COMMON,
        "assumptions": [],
    },
    "C14": {
        "lean": ["GV.Props.C14"],
        "scenarios": [{"scn": "orch", "filter": STOP, "n": {"quick": 250, "thorough": 3000},
                       "aspects": ["outcome", "trace", "driver", "build"]}],
        "rule": "stop-tag variants; each rule sets the tag with probability 1/4",
        "trusted_base": TB_COMMON,
        "assumptions": [],
    },
    "C09": {
        "lean": ["GV.Props.C09"],
        "scenarios": [{"scn": "orch", "n": {"quick": 400, "thorough": 5000},
                       "aspects": ["crash", "driver", "build"]}],
        "rule": "all 21 Execute* methods with failing rules in every position; crash = panic in the caller, process death (panic in a goroutine) or hang",
        "trusted_base": TB_COMMON,
        "assumptions": ["injected functions terminate"],
    },
}
