"""Property registry: theorem modules, correspondence scenarios, owned aspects."""

SORT_METHODS = "Execute,ExecuteSelectedRules,ExecuteSelectedRulesWithControl"
MIX_NM = ("ExecuteMixModel,ExecuteSelectedRulesMixModel,ExecuteInverseMixModel,ExecuteSelectedRulesInverseMixModel,"
          "ExecuteNSortMConcurrent,ExecuteNConcurrentMSort,ExecuteNConcurrentMConcurrent,"
          "ExecuteSelectedNSortMConcurrent,ExecuteSelectedNConcurrentMSort,ExecuteSelectedNConcurrentMConcurrent")
SELECTED = ("ExecuteSelectedRules,ExecuteSelectedRulesWithControl,ExecuteSelectedRulesWithControlAsGivenSortedName,"
            "ExecuteSelectedRulesWithControlAndStopTag,ExecuteSelectedRulesWithControlAndStopTagAsGivenSortedName,"
            "ExecuteSelectedRulesConcurrent,ExecuteSelectedRulesMixModel,ExecuteSelectedRulesInverseMixModel,"
            "ExecuteSelectedNSortMConcurrent,ExecuteSelectedNConcurrentMSort,ExecuteSelectedNConcurrentMConcurrent")
STOP = ("ExecuteWithStopTagDirect,ExecuteMixModelWithStopTagDirect,ExecuteSelectedRulesWithControlAndStopTag,"
        "ExecuteSelectedRulesWithControlAndStopTagAsGivenSortedName")

TB_COMMON = [
    "Lean 4.33 kernel; axioms allowed: propext, Classical.choice, Quot.sound (audited per theorem)",
    "/verif/extract (Go AST -> Lean skeleton translator) and the JSON line protocol",
    "/verif/harness gate scheduler and /verif/checklib comparator",
    "rule bodies are opaque in orchestration theorems (outcome measured per rule by the harness)",
    "sync.WaitGroup / goroutine semantics modelled as a counter LTS, not verified",
]

TB_EVAL = [
    "Lean 4.33 kernel; axioms allowed: propext, Classical.choice, Quot.sound (audited per theorem)",
    "hand-written Lean model of the interpreter (internal/base *.Evaluate, RuleEntity.Execute), of the data context "
    "(context/data_context.go) and of the reflect helpers (internal/core), value level over the object language of "
    "GV.Eval.Store; tied to the code by differential runs: the AST the real listener builds is dumped by reflection and "
    "interpreted by the model, the real engine runs the same text on the same injected objects, and the reference "
    "semantics is run on the generator's reference tree",
    "ANTLR-generated lexer/parser: text -> tree is not modelled; tied by comparing the dumped AST with the lowering of the "
    "reference tree (aspects shape / shape-pos)",
    "facts regenerated from source on every run: recover sites, maxExecuteNum, sentinel errors (/verif/extract)",
    "/verif/harness (generators, renderer, reflection dumper, host function library) and /verif/checklib comparator",
    "Go reflect / strconv / float64 arithmetic as modelled by Lean's Int64/UInt64/Float; float->int conversion of "
    "unrepresentable values is implementation defined and excluded (marked unspec, skipped)",
]
TB_POOL = [
    "Lean 4.33 kernel; axioms allowed: propext, Classical.choice, Quot.sound (audited per theorem)",
    "hand-written Lean models of the pool: management operations over rule-container values (GV.Pool.Mgmt), free-list / in-flight / put-goroutine bookkeeping as a transition system (GV.Pool.Cap); tied to the code by facts regenerated from engine/gengine_pool.go on every run (shape of every Execute* method, of getGengine / putGengineLocked, in-place stores into containers, locking of updates: GV.Generated.Pool) and by differential runs against the real pool",
    "rule container model of C08 and compile outcome of C10 as parameters",
    "/verif/extract, /verif/harness (parking gates, logical clock), /verif/checklib comparator",
    "sync.Mutex / goroutine semantics as modelled (atomic steps under getEngineLock, put goroutine as a separate step), not verified; Go scheduler fairness assumed",
]
EVAL_FP = ["internal/base:", "context:", "internal/core:", "internal/iter:", "internal/iparser:"]

PROPS = {
    "C04": {
        "lean": ["GV.Props.C04"],
        "scenarios": [{"scn": "orch", "filter": SORT_METHODS, "n": {"quick": 250, "thorough": 3000},
                       "aspects": ["outcome", "trace", "driver", "build"]},
                      {"scn": "kc", "n": {"quick": 200, "thorough": 2000},
                       "aspects": ["exec", "sorted", "crash", "driver"]}],
        "rule": "histories of full / incremental builds and removals after each of which the sort model is executed (order of the installed list is what the sort model runs); random rule sets (1-7 rules, saliences with ties / negatives / full int64 range, behaviours ret/bare/silent/fail/failing-return), sort-model methods, both error policies; non-trivial = at least two rules started; distinct by canonical case text",
        "trusted_base": TB_COMMON,
        "assumptions": ["sort.SliceStable is a stable sort", "rule outcome independent of schedule"],
    },
    "C05": {
        "lean": ["GV.Props.C05", "GV.Props.Fanout"],
        "scenarios": [{"scn": "orch", "filter": MIX_NM, "n": {"quick": 300, "thorough": 4000},
                       "aspects": ["outcome", "trace", "driver", "build"]}],
        "rule": "random rule sets, mix / inverse-mix / N-M methods (plain and selected), random n/m incl. invalid, gate-scheduled goroutines with three grant strategies; non-trivial = at least two rules started",
        "trusted_base": TB_COMMON,
        "assumptions": ["Go scheduler fairness (liveness is not proved)", "rule outcome independent of schedule"],
    },
    "C11": {
        "lean": ["GV.Props.C11", "GV.Props.Fanout"],
        "scenarios": [{"scn": "orch", "n": {"quick": 400, "thorough": 5000},
                       "aspects": ["results", "results-model", "driver", "build"]}],
        "rule": "all 21 Execute* methods, fresh engine or engine used by a previous call, returning / bare-return / silent / failing / failing-return rules; non-trivial = at least two rules started",
        "trusted_base": TB_COMMON,
        "assumptions": [],
    },
    "C12": {
        "lean": ["GV.Props.C12"],
        "scenarios": [{"scn": "orch", "filter": SELECTED, "n": {"quick": 300, "thorough": 4000},
                       "aspects": ["outcome", "trace", "crash", "driver", "build"]}],
        "rule": "selected-rule methods, name lists = random sub-permutations plus unknown names, empty lists",
        "trusted_base": TB_COMMON,
        "assumptions": [],
    },
    "C13": {
        "lean": ["GV.Props.C13", "GV.Props.Fanout"],
        "scenarios": [{"scn": "orch", "filter": "ExecuteDAGModel", "n": {"quick": 200, "thorough": 3000},
                       "aspects": ["outcome", "trace", "driver", "build"]}],
        "rule": "DAG layerings (0-4 layers, width 0-3, unknown and repeated names), failing subsets, gate scheduler",
        "trusted_base": TB_COMMON,
        "assumptions": [],
    },
    "C14": {
        "lean": ["GV.Props.C14"],
        "scenarios": [{"scn": "orch", "filter": STOP, "n": {"quick": 250, "thorough": 3000},
                       "aspects": ["outcome", "trace", "driver", "build"]}],
        "rule": "stop-tag variants; each rule sets the tag with probability 1/4",
        "trusted_base": TB_COMMON,
        "assumptions": [],
    },
    "C09": {
        "lean": ["GV.Props.C09", "GV.Props.C09r", "GV.Props.Locks"],
        "scenarios": [{"scn": "orch", "n": {"quick": 400, "thorough": 5000},
                       "aspects": ["crash", "driver", "build"]},
                      {"scn": "eval", "filter": "ill", "n": {"quick": 300, "thorough": 4000},
                       "aspects": ["panic", "hang", "driver", "build"]},
                      {"scn": "eval", "filter": "conc", "n": {"quick": 100, "thorough": 1500},
                       "aspects": ["panic", "hang", "driver", "build"]}],
        "rule": "engine: all 21 Execute* methods with failing rules in every position; crash = panic in the caller, process death (panic in a goroutine) or hang; rules: ill mode (one construct in eight ill-typed / unknown / out of range / panicking, unbounded loops incl. always-continue, writes reflect refuses) and conc mode with failing children, each execution under a 20 s watchdog",
        "trusted_base": TB_COMMON + TB_EVAL, "fingerprints": EVAL_FP,
        "assumptions": ["injected functions terminate"],
    },
    "C08": {
        "lean": ["GV.Props.C08"],
        "scenarios": [{"scn": "kc", "n": {"quick": 300, "thorough": 3000},
                       "aspects": ["set", "sorted", "index", "exec", "exists", "model", "crash", "driver"]},
                      {"scn": "kc", "filter": "long", "n": {"quick": 60, "thorough": 800},
                       "aspects": ["set", "sorted", "index", "exec", "exists", "model", "crash", "driver"]}],
        "rule": "random histories (1-10 and 1-40 operations) of BuildRuleFromString / BuildRuleWithIncremental / RemoveRules over 7 names, saliences in a 5-value range (ties) or the whole int64 range, several rules per call, rejected texts in between; after every operation the container is dumped and the sort model executed; non-trivial = at least two operations and two installed rules",
        "trusted_base": [
            "Lean 4.33 kernel; axioms allowed: propext, Classical.choice, Quot.sound (audited per theorem)",
            "hand-written Lean model of BuildRuleFromString / BuildRuleWithIncremental / updateIncremental / RemoveRules / BinarySearch (value level; slice aliasing argued in DESIGN.md 4.3), tied by the differential runs and by source fingerprints",
            "/verif/harness and /verif/checklib comparator; sort.SliceStable assumed stable; Go map iteration order arbitrary (a parameter of the model)"],
        "fingerprints": ["builder:", "internal/tool:", "internal/base:KnowledgeContext", "engine:updateIncremental"],
        "assumptions": ["one compile unit never defines a name twice (rejected by the listener, C10)"],
    },
    "C01": {
        "lean": ["GV.Props.C01", "GV.Props.C01p", "GV.Props.C01l"],
        "scenarios": [{"scn": "eval", "filter": "expr", "n": {"quick": 400, "thorough": 6000},
                       "aspects": ["value", "shape", "driver", "build"]},
                      {"scn": "eval", "filter": "matrix", "n": {"quick": 196, "thorough": 1960},
                       "aspects": ["value", "shape", "driver", "build"]},
                      {"scn": "eval", "filter": "parse", "n": {"quick": 400, "thorough": 6000},
                       "aspects": ["value", "shape", "parse", "driver", "build"]},
                      {"scn": "lex", "n": {"quick": 1500, "thorough": 30000},
                       "aspects": ["tokens", "lexerr", "crash", "driver"]}],
        "rule": "lex: texts glued from keywords in several spellings, names with one to four dots, integer / real / exponent fragments (well formed and broken), operators and their two-character neighbours, string literals with escapes, doubled and missing quotes, comments with and without a final newline, and characters no rule matches, with and without white space between the fragments: the token stream (kinds and texts) of the generated ANTLR lexer (hook builder.VerifTokens) must be the one the lexer model computes and an error must be reported iff the model finds a position where no token rule matches; parse: token strings of random expressions under random bracketings (needed brackets dropped, redundant ones added; one in eight damaged) as return value, assignment right-hand side or condition: the driver reads them with the parser model (reference table for the specification, regenerated table for the listener-shape comparison), accept / reject must agree; expr: random expression trees (depth 2-5) over literals, injected scalars of all 12 numeric kinds, strings, bools, struct fields, map / slice elements, locals, calls, rendered with minimal parentheses; @name/@id/@desc/@sal with several rules per text; matrix: every ordered pair of operand kinds x 10 operators with boundary values (2^53 neighbours, int64/uint64 extremes, zero divisors); non-trivial = the rule returned a value",
        "trusted_base": TB_EVAL, "fingerprints": EVAL_FP + ["internal/iantlr:"],
        "assumptions": ["float64 operations of Go and of Lean's Float are both IEEE-754 binary64"],
    },
    "C02": {
        "lean": ["GV.Props.C02"],
        "scenarios": [{"scn": "eval", "filter": "stmt", "n": {"quick": 300, "thorough": 4000},
                       "aspects": ["value", "state", "trace", "shape", "driver", "build", "hang"]}],
        "rule": "random statement programs (nested if / else-if / else, for, forRange, break, continue, return at any depth, conc, plain and compound assignments to locals, struct fields, pointer scalars, map / slice / array elements, observer calls), random injected data incl. boundary values; non-trivial = the rule ran to completion",
        "trusted_base": TB_EVAL, "fingerprints": EVAL_FP,
        "assumptions": [],
    },
    "C03": {
        "lean": ["GV.Props.C03"],
        "scenarios": [{"scn": "eval", "filter": "stmt", "n": {"quick": 300, "thorough": 4000},
                       "aspects": ["value", "state", "trace", "driver", "build"]},
                      {"scn": "eval", "filter": "locals", "n": {"quick": 100, "thorough": 1000},
                       "aspects": ["value", "state", "driver", "build"]},
                      {"scn": "eval", "filter": "matrix", "n": {"quick": 98, "thorough": 980},
                       "aspects": ["value", "driver", "build"]}],
        "rule": "programs reading and writing injected scalars (by value / by pointer), struct fields (pointer and value receivers), maps (string / int64 / int32 keys, pointer and value), slices, arrays, calling injected functions with every numeric parameter kind and methods; host state compared after every rule; a name injected while the rule runs; non-trivial = the rule ran to completion",
        "trusted_base": TB_EVAL, "fingerprints": EVAL_FP,
        "assumptions": ["converted values are representable in the target (otherwise implementation defined: skipped)"],
    },
    "C10": {
        "lean": ["GV.Props.C10"],
        "scenarios": [{"scn": "compile", "n": {"quick": 600, "thorough": 8000},
                       "aspects": ["accept", "after", "order", "crash", "front", "state", "driver"]}],
        "rule": "texts: valid (1-3 rules over 6 names, saliences with ties / extremes / omitted), duplicate rule names, a character the lexer has no token for between two tokens, token-level mutations (drop / duplicate / swap / truncate), random bytes (alone or after a valid prefix), blank and comment-only texts; each submitted to BuildRuleFromString, BuildRuleWithIncremental, NewGenginePool, UpdatePooledRules, UpdatePooledRulesIncremental from a known installed set under recover; accept vector, installed set (container dump / pool queries) and executed values compared with model and spec; front-end outcome from the verif hook builder.VerifFrontEnd; non-trivial = some entry point accepted",
        "trusted_base": [
            "Lean 4.33 kernel; axioms allowed: propext, Classical.choice, Quot.sound (audited per theorem)",
            "/verif/extract compile-event translator (listeners attached, error lists checked, first write of installed state, compile calls) regenerating GV.Generated.Compile on every run",
            "ANTLR lexer / parser / listener are a parameter of the model (five observable answers); grammar facts assumed: a blank text does not parse, a text without errors defines a rule (checked on every generated text: aspect front)",
            "verif hook builder.VerifFrontEnd (build tag verif), /verif/harness, /verif/checklib comparator",
            "totality of the ANTLR runtime and of the listener on error-recovered trees is exercised by the mutation stream, not proved (partial)"],
        "fingerprints": ["builder:", "engine:getKc", "engine:makeRuleBuilder", "engine:UpdatePooledRules", "engine:NewGenginePool", "internal/iparser:"],
        "assumptions": [],
    },
    "C06": {
        "lean": ["GV.Props.C06"],
        "scenarios": [{"scn": "pool", "filter": "iso", "n": {"quick": 120, "thorough": 1500},
                       "aspects": ["iso", "leak", "mutated", "exec", "crash", "driver", "build"]},
                      {"scn": "pool", "filter": "cap", "n": {"quick": 60, "thorough": 800},
                       "aspects": ["iso", "crash", "driver", "build"]}],
        "rule": "pools (1,2) (2,3) (1,3) (2,4), all four execution models, 1-3 rules; K <= max simultaneous requests with unique ids, all parked inside their rules at the same time, each rule writes the id into the request's own object before and after parking and returns version*1000+id; then a request that injects nothing (must fail to see q), then more traffic and a comparison of the result maps handed out earlier; cap mode: more clients than instances, a third of them failing",
        "trusted_base": TB_POOL, "fingerprints": ["engine:"],
        "assumptions": ["rule bodies reach injected data only through the instance's data context (C03, C15)"],
    },
    "C07": {
        "lean": ["GV.Props.C07"],
        "scenarios": [{"scn": "pool", "filter": "upd", "n": {"quick": 150, "thorough": 2000},
                       "aspects": ["atomic", "visible", "op", "crash", "iso", "driver", "build"]}],
        "rule": "pools (1,2) (2,3) (1,3) (2,4), 3-5 rules with distinct saliences, 1-3 full / incremental updates redefining all or some rules with a new version tag; each update is issued either from inside the first rule a request runs or from another goroutine while max requests are parked mid-execution; requests go through ten pool entry points (model-following, sort, concurrent, mix, inverse mix, the three N-M models with n=1, DAG with two layers, selected rules); after every update max further requests; every result map must be the rule set of one installed version inside the window given by the logical clock",
        "trusted_base": TB_POOL + ["atomicity / visibility oracle: result map = version table computed by the Lean spec, window from the harness's logical clock (comparator)"],
        "fingerprints": ["engine:", "builder:"],
        "assumptions": ["Go scheduler fairness"],
    },
    "C19": {
        "lean": ["GV.Props.C19"],
        "scenarios": [{"scn": "pool", "filter": "upd", "race": True, "n": {"quick": 40, "thorough": 400}, "aspects": ["race"]},
                      {"scn": "pool", "filter": "cap", "race": True, "n": {"quick": 30, "thorough": 300}, "aspects": ["race"]},
                      {"scn": "pool", "filter": "iso", "race": True, "n": {"quick": 30, "thorough": 300}, "aspects": ["race"]},
                      {"scn": "pool", "filter": "mgmt", "race": True, "n": {"quick": 30, "thorough": 300}, "aspects": ["race"]},
                      {"scn": "pool", "filter": "churn", "race": True, "n": {"quick": 40, "thorough": 400}, "aspects": ["race", "crash"]},
                      {"scn": "orch", "race": True, "env": {"VERIF_NOGATE": "1"}, "n": {"quick": 250, "thorough": 3000}, "aspects": ["race"]},
                      {"scn": "eval", "filter": "conc", "race": True, "n": {"quick": 60, "thorough": 600}, "aspects": ["race"]},
                      {"scn": "eval", "filter": "locals", "race": True, "n": {"quick": 40, "thorough": 400}, "aspects": ["race"]}],
        "rule": "the concurrency scenarios of C05-C07, C13, C15, C17, C18 (pool requests from many goroutines with updates from other goroutines and from inside rules, management sequences, all 21 engine execution methods under the gate scheduler, conc blocks, concurrent executions of one rule entity) run with the Go race detector; a report counts when the innermost non-runtime frame of an access is in gengine's source (accesses made through reflect to user data are the rules' own); non-trivial = a scenario case ran",
        "trusted_base": TB_POOL + ["Go race detector (supporting evidence only; it observes the schedules that happened)",
                                   "/verif/extract lock-region analysis (syntactic: Lock / Unlock / defer Unlock, go func starts with no lock) and the list of tracked locations",
                                   "Go memory model: happens-before = program order + mutex release/acquire + go/Wait edges"],
        "fingerprints": ["engine:", "context:", "builder:", "internal/base:ConcStatement"],
        "assumptions": ["user data reached through reflect is the rules' responsibility"],
    },
    "C16": {
        "lean": ["GV.Props.C16"],
        "scenarios": [{"scn": "pool", "filter": "mgmt", "n": {"quick": 150, "thorough": 2000},
                       "aspects": ["op", "query", "exec", "crash", "iso", "driver", "build"]}],
        "rule": "random sequences of 2-8 management operations (full / incremental updates with 1-3 rules over 6 names, rejected texts, removals incl. unknown and empty name lists, clear, SetExecModel incl. invalid values) on pools (1,2) (2,3) (1,3) (2,4); after every operation all queries and max simultaneous parked requests, so that every instance - initial and additional - executes; non-trivial = at least one operation",
        "trusted_base": TB_POOL, "fingerprints": ["engine:", "builder:"],
        "assumptions": [],
    },
    "C17": {
        "lean": ["GV.Props.C17", "GV.Props.Locks"],
        "scenarios": [{"scn": "pool", "filter": "cap", "n": {"quick": 120, "thorough": 1500},
                       "aspects": ["capacity", "double", "exec", "crash", "driver", "build"]}],
        "rule": "max+1 .. max+4 clients on pools (1,2) (2,3) (1,3) (2,4), every rule parks in an injected function, a third of the requests fail (panicking injected function); peak number of requests simultaneously inside their rules, completion of all clients after the gate opens, and a second round of max simultaneous requests",
        "trusted_base": TB_POOL + ["peak concurrency is measured with a settle timeout (0.5 s / 0.8 s): a slower machine can only under-count, reported as correspondence break, never as a violation of at-most-max"],
        "fingerprints": ["engine:"],
        "assumptions": ["Go scheduler fairness (a spinning getGengine caller eventually obtains the lock)"],
    },
    "C15": {
        "lean": ["GV.Props.C15"],
        "scenarios": [{"scn": "eval", "filter": "locals", "n": {"quick": 200, "thorough": 3000},
                       "aspects": ["value", "state", "trace", "conc-locals", "driver", "build"]},
                      {"scn": "eval", "filter": "stmt", "n": {"quick": 150, "thorough": 2000},
                       "aspects": ["value", "driver", "build"]}],
        "rule": "2-4 rules per text reusing the same local names: assigned at top level / nested in if / in loops / only while an injected flag holds / never; every rule possibly executed twice; a local whose name is injected mid-rule; plus K = 2-6 barrier-synchronised concurrent executions of one rule entity, each of which must return its own tick(); non-trivial = a rule returned a value",
        "trusted_base": TB_EVAL + ["the concurrent probe's oracle (each execution returns its own tick) is computed by the harness"],
        "fingerprints": EVAL_FP, "assumptions": [],
    },
    "C18": {
        "lean": ["GV.Props.C18", "GV.Props.Locks", "GV.Props.Fanout"],
        "scenarios": [{"scn": "eval", "filter": "conc", "n": {"quick": 300, "thorough": 4000},
                       "aspects": ["value", "state", "trace", "cite", "hang", "panic", "shape", "driver", "build"]}],
        "rule": "programs in which about a third of the statements are conc blocks of 1-9 independent children (assignments to distinct fields / locals / pointer scalars, observer function calls and method calls with distinct arguments and a delay, at most one failing child: panic, unknown name, unknown field, dotted read of an undefined local), followed by statements that read what the block wrote; observer events of one block compared as a set, their position relative to the other events exactly; non-trivial = the rule ran to completion",
        "trusted_base": TB_EVAL + ["sync.WaitGroup / goroutine semantics modelled as a counter LTS (GV.Orch.Sched), not verified",
                                   "children of one conc block are independent in generated programs (sequential order of the model is one of the equivalent orders)"],
        "fingerprints": EVAL_FP, "assumptions": ["Go scheduler fairness"],
    },
    "C20": {
        "lean": ["GV.Props.C20"],
        "scenarios": [{"scn": "eval", "filter": "lines", "n": {"quick": 250, "thorough": 3000},
                       "aspects": ["cite", "shape-pos", "driver", "build"]},
                      {"scn": "eval", "filter": "ill", "n": {"quick": 350, "thorough": 4000},
                       "aspects": ["cite", "shape-pos", "driver", "build"]}],
        "rule": "lines: 1-3 rules per text, every token possibly on its own line, blank lines; ill: one construct in eight is ill-typed / unknown / out of range / panicking (arithmetic, comparison, logic, calls, assignments, element accesses, forRange); the cited line is compared with the line of the failing construct in the generator's reference tree; non-trivial = a rule failed citing a line",
        "trusted_base": TB_EVAL, "fingerprints": EVAL_FP,
        "assumptions": [],
    },
}

ORCH_NOTE = ("Model = skeleton regenerated from engine/gengine.go by /verif/extract on every run (T1); theorems hold for all "
             "rule sets, outcomes, n/m, name lists and interleavings; rule bodies are opaque (their outcome is measured per rule "
             "by the harness). Trusted: Lean kernel (axioms propext/Classical.choice/Quot.sound), extractor, harness gate "
             "scheduler, comparator, WaitGroup/goroutine semantics as modelled by the counter LTS; Go scheduler fairness assumed.")

EVAL_NOTE = ("Model = hand-written Lean interpreter over the AST the real listener builds (dumped by reflection on every run), "
             "Spec = reference semantics over reference trees; theorems hold for all programs, environments and values of the "
             "object language; tie = differential runs Impl vs Model vs Spec plus listener-shape comparison; source fingerprints only "
             "widen the search. Not modelled: ANTLR text->tree, reflect internals, Go scheduler. Trusted: Lean kernel, harness, comparator.")

MANIFEST_TEXT = {
    "C04": {"text": "Proof: the extracted skeletons of Execute / ExecuteSelectedRules / ExecuteSelectedRulesWithControl are instances (rfl) of the sorted-family template, which conforms to the reference semantics for every configuration (order, exactly once, both error policies); differential runs of the real engine against model and spec find the replay when an obligation breaks.",
            "note": ORCH_NOTE + " Sortedness of the installed list itself is C08's invariant.",
            "technique": "Lean 4 conformance proof over regenerated orchestration skeleton + gate-scheduled differential runs"},
    "C05": {"text": "Proof: (1) conformance of the ten mix / inverse-mix / N-M skeletons (which rules, which stage, both policies, all n/m, fan-outs well formed); (2) barrier theorem over the WaitGroup LTS for every stage plan and every interleaving; trace checker proved sound. Gate-scheduled runs of the real engine are replayed through the checker. Regenerated premises of the WaitGroup transition system (GV.Props.Fanout, kernel-decided): no goroutine closure of the fan-out sites refers to a variable of an enclosing loop, Done() is called only inside the goroutine it accounts for, every worker closure signals exactly once.",
            "note": ORCH_NOTE, "technique": "Lean 4 conformance proof + invariant proof over interleaving LTS + gate-scheduled differential runs"},
    "C09": {"text": "Proof (engine level): for every ResultsWF skeleton no execution method panics; extracted skeletons are ResultsWF by decide. Rule-level fault containment is checked by differential fault injection (see evidence).",
            "note": ORCH_NOTE, "technique": "Lean 4 generic no-panic theorem over regenerated skeletons + fault-injection differential runs"},
    "C11": {"text": "Proof: for every ResultsWF skeleton (all 21 extracted ones, by decide) the result-map write log is exactly the executed rules that returned, for an arbitrary previous map; differential runs compare the real map with the rules that actually ran and returned. Regenerated premises of the WaitGroup transition system (GV.Props.Fanout, kernel-decided): no goroutine closure of the fan-out sites refers to a variable of an enclosing loop, Done() is called only inside the goroutine it accounts for, every worker closure signals exactly once.",
            "note": ORCH_NOTE, "technique": "Lean 4 generic invariant proof over regenerated skeletons + differential runs"},
    "C12": {"text": "Proof: conformance of the eleven selected-rule skeletons to the reference semantics (selection = named existing rules in caller order, sorted / as-given / concurrent / mix / inverse / N-M variants, strict N-M guards).",
            "note": ORCH_NOTE, "technique": "Lean 4 conformance proof over regenerated skeletons + differential runs"},
    "C13": {"text": "Proof: conformance of the DAG skeleton (layers, occurrences, unknown names skipped, failure stops) + barrier theorem for every layering and interleaving. Regenerated premises of the WaitGroup transition system (GV.Props.Fanout, kernel-decided): no goroutine closure of the fan-out sites refers to a variable of an enclosing loop, Done() is called only inside the goroutine it accounts for, every worker closure signals exactly once.",
            "note": ORCH_NOTE, "technique": "Lean 4 conformance proof + LTS barrier invariant + gate-scheduled differential runs"},
    "C14": {"text": "Proof: conformance of the four stop-tag skeletons; corollaries: tag never set => identical to the plain variant; the setting rule is the last to run; mix runs nothing else.",
            "note": ORCH_NOTE, "technique": "Lean 4 conformance proof over regenerated skeletons + differential runs"},
}

MANIFEST_TEXT["C08"] = {
    "text": "Proof: container invariant (unique names, sorted slice is a permutation of the rule map in non-increasing salience order, index map = positions) is preserved by full build, incremental merge (binary-search insertion with the shadowed mid) and removal for every map iteration order, and each operation refines the abstract rule-set operation; history_refines lifts this to every finite history. Differential histories against the real builder tie the hand-written model to the code.",
    "note": "Model of the merge loop is hand-written (value level), tied by differential histories and source fingerprints rather than regenerated; Lean kernel + harness + comparator trusted.",
    "technique": "Lean 4 invariant + refinement proof + differential operation histories"}

MANIFEST_TEXT.update({
    "C01": {"text": "Proof: (l) text to tokens: the lexer model (maximal munch over all token rules of gengine.g4; token-type, literal, keyword, rule-body and priority tables regenerated on every run from the generated lexer and the grammar file and judged by kernel-decided obligations C01_lex_*_regenerated): C01_lex_partition / C01_lex_reject / C01_lex_guard_never_rejects (an accepted text is exactly the concatenation of its tokens, blanks and comments; a rejected one has a position where no rule matches), C01_lex_name / C01_lex_int / C01_lex_real / C01_lex_string / C01_lex_fixed (names, keywords in any spelling, digit strings and plain string literals of any length and every fixed token are one token of their kind; a sign is never part of a number), C01_lex_spaced (round trip of blank-separated token lists); differential run lex compares kinds and texts of all tokens and the presence of an error with the generated ANTLR lexer (hook builder.VerifTokens). (p) text to tree: C01_parse_roundtrip - the parser model (ANTLR's precedence-climbing form of the rules expression / mathExpression, its precedence table regenerated on every run from the generated parser and cross-checked against the grammar file by kernel-decided obligations) reads back every canonical tree (brackets exactly where an operand binds looser than, or on the right as loosely as, its operator; any shape, depth, redundant brackets) from the tree's tokens, so * / bind tighter than + -, arithmetic tighter than comparison, comparison tighter than && / || (one level), left associativity and parentheses hold for all expressions; clause theorems on the smallest distinguishing texts; differential run eval/parse compares the model with the real parser on random bracketings and damaged strings (accept / reject, listener shape, value). (a) arith_correct / cmp_correct / goCmpInt_exact: the code's arithmetic and comparison primitives equal the reference semantics for all operand values of all kinds (64-bit wrapping, float promotion, exact integer comparison, string concat, errors for ill-typed operands and zero divisors); (b) lowerX_correct: the interpreter on the AST shape the listener builds computes the reference meaning of every well-formed expression tree in every environment, for arbitrary primitives; (c) C01_end_to_end / C01_interpreter_reference: on every well-kinded environment the meaning with the code's primitives and with the reference primitives agree - same environment afterwards, same value, or both fail - by mutual induction over trees with well-kindedness as an invariant of the data layer (getValue / element reads / conversions / stores / the function library preserve it). Differential runs (random trees, kind x kind x operator matrix with boundary values, @-constants) tie model, listener shape and primitives to the code.",
            "note": EVAL_NOTE, "technique": "Lean 4 proof (lexer partition / round trip by induction over fuel and token lists, parser round-trip by structural induction with fuel monotonicity, value-level equalities, structural induction over expression trees; kernel-decided regenerated grammar / arithmetic tables) + differential runs incl. lexer token streams, listener-shape and parser comparison"},
    "C02": {"text": "Proof: C02_end_to_end (for the recover sites and loop bound regenerated from the source): executing a rule - interpreter with the code's own primitives on the AST the listener builds - ends in the same environment (host state, observer trace) with the same outcome, return flag and value as the reference semantics with reference primitives, for every well-formed program with well-kinded literals and every well-kinded environment (the driver checks these hypotheses on every generated case with a proved-sound executable test). It composes rule_refines: for every well-formed statement program, environment and primitives, RuleEntity.Execute's model on the listener's AST equals the reference meaning (source order, first true branch, for/forRange, break/continue innermost, return from any depth, compound assignment, flat locals); clause theorems read each sentence off the reference semantics (loops absorb break/continue, forRange visits each key once, step after continue). Differential runs on random statement programs compare value, host state and observer trace.",
            "note": EVAL_NOTE, "technique": "Lean 4 refinement proof (mutual structural induction) + clause theorems + differential runs"},
    "C03": {"text": "Proof: theorems over the data-layer model: injected names win for reads and writes, writes leave every other object and every other field untouched, field writes store the converted value, conversions within and across numeric classes, narrowing preserves representable values, arguments positional and converted, missing map key reads zero. Differential runs compare host-visible state after every rule over structs, pointers, maps, slices, arrays, functions and methods.",
            "note": EVAL_NOTE, "technique": "Lean 4 proofs over the store model + differential state comparison"},
    "C15": {"text": "Proof: an execution's outcome is independent of any incoming local table (fresh locals), an unassigned local reads as not-found, injected state is what is passed from rule to rule, injected names win over locals. Differential runs: rule sequences and repeated executions reusing local names, a name injected mid-rule, and barrier-synchronised concurrent executions of one rule entity. Regenerated facts (kernel-decided): RuleEntity.Execute hands a table made on the spot to the rule's statements, nothing stores it, it is passed only to Evaluate and the data context's accessors, and no method of internal/base writes to the (shared) rule tree.",
            "note": EVAL_NOTE + " Concurrent executions: the model gives each execution its own table by construction; that the code does is checked by the concurrent probe only (partial).",
            "technique": "Lean 4 proofs over the interpreter model + differential runs + concurrent probe"},
    "C18": {"text": "Proof: (1) the reference meaning of a conc block runs every child exactly once and fails, after all children, iff one failed, with the first error (C18_all_children_run, C18_child_error_fails_block, C18_all_ok), tied to the interpreter by rule_refines; (2) join: the fan-out is the one-stage instance of the WaitGroup transition system: in every interleaving Wait is passed only after every child started and ended exactly once (C18_join, C18_no_early_pass). Differential runs with delayed observer children, failing children and statements reading the block's writes. Regenerated premises of the WaitGroup transition system (GV.Props.Fanout, kernel-decided): no goroutine closure of the fan-out sites refers to a variable of an enclosing loop, Done() is called only inside the goroutine it accounts for, every worker closure signals exactly once. Lock balance (GV.Props.Locks): the lock skeleton of every function that touches a mutex is regenerated; a proved-sound abstract interpreter shows that no way out of such a function - return at any depth, panic in a callee - leaves a mutex held. The conc node keeps nothing between executions (regenerated: no method writes to the node it is called on).",
            "note": EVAL_NOTE + " The WaitGroup LTS is hand-written from ConcStatement.Evaluate (Add(n); n goroutines ending in Done; Wait) and tied by the trace comparison; lock discipline of lockVars is exercised (hang detection), not proved.",
            "technique": "Lean 4 proofs (induction over children + LTS invariant) + differential runs"},
    "C20": {"text": "Proof: C20_cited_line_is_a_construct / C20_interpreter_cites: whenever the error of a failed rule cites a line, that line is the line of a construct of the rule (mutual induction over expressions, arguments, assignments, statements, loops, conc blocks; for every program, environment and primitives), also for the interpreter on the listener's AST; lowering copies each construct's line into its AST node; the reference semantics cites the failing construct's own line for arithmetic, comparison, logic, call and assignment faults and keeps the innermost citation; rule_refines / lowerX_correct carry this to the interpreter. Differential runs over multi-line renderings compare the line the real error cites with the failing construct's line in the reference tree, and the positions the listener recorded with the lowering (shape-pos). Regenerated from the listener: every recorded line / column is that of the construct's first token.",
            "note": EVAL_NOTE, "technique": "Lean 4 proofs over reference semantics + differential cited-line and position comparison"},
})
MANIFEST_TEXT["C10"] = {
    "text": "Proof: over the event lists regenerated from the five entry points' sources and the whole (finite) table of front-end outcomes: every error is reported before the installed set is first written (all-or-nothing); every entry point accepts exactly the texts against which lexer, parser and listener report nothing (same language, rejected by one iff by all); a repeated rule name makes the listener record an error (fold lemma over the regenerated duplicate check) and every entry point reject. Differential runs submit mutated texts to all entry points and compare accept vectors and the installed set before/after with model and spec. Partial: that the ANTLR front end returns normally on every byte string is exercised (mutation stream under recover), not proved.",
    "note": "Model = event lists regenerated on every run (T1); front end is a parameter observed through a verif hook; trusted: Lean kernel, extractor, harness, comparator.",
    "technique": "Lean 4 kernel-decided theorems over regenerated entry-point descriptors + list induction for duplicates + differential mutation runs"}
MANIFEST_TEXT["C07"] = {
    "text": "Proof: invariant of the updater / request transition system around updateLock (any number of instances, updaters, requests, every interleaving, updates from inside rules included): when no update is in progress every instance's slot holds the master version; hence the container a request takes is one installed version (atomic), at least the version of every update that has returned (visible), and below the version of any update starting later. Premises regenerated from the source on every run and decided by the kernel: prepare* take the container once under updateLock into a request-private builder; no management operation writes into a possibly published container; every management operation holds updateLock throughout. Differential runs: version-tagged rules, updates from inside rules and from other goroutines against parked executions over ten entry points.",
    "note": "That the engine's execution methods read the container only through the rule builder they are given is by the regenerated orchestration skeletons (C04/C05/C13). Trusted: Lean kernel, extractor, harness clock and comparator; sync.Mutex semantics as modelled.",
    "technique": "Lean 4 invariant proof over an interleaving transition system + kernel-decided regenerated premises + differential update/execution histories"}
MANIFEST_TEXT["C19"] = {
    "text": "Proof: (1) lock discipline is sound: in every well-formed trace (mutex semantics) two accesses made under one lock are ordered by happens-before, so a location all of whose accesses hold its guard has no data race - any number of threads, locks, locations, events; (2) the lock table regenerated from engine/, context/, builder/ on every run puts every access to the pool's free lists, cleared flag, execution model, master and per-instance rule builders, the data context's tables, the builder's container and the engine's result map under its guard (kernel-decided), with owner accesses of the result map (before the fan-out, after the join) exempt by the barrier theorem; published containers are immutable (C07's regenerated copy-on-write fact). Supporting runs: the concurrency scenarios under the Go race detector; every report touching gengine source is reported with the detector's stacks as replay. Partial: Go memory model, extractor precision and the completeness of the tracked-location list are trusted.",
    "note": "The race detector only supports the search for a failing schedule; the claim rests on the discipline theorem and the regenerated table. Trusted: Lean kernel, extractor, harness, comparator.",
    "technique": "Lean 4 proof of lockset soundness over traces + kernel-decided regenerated lock table + race-detector runs as search"}
MANIFEST_TEXT["C16"] = {
    "text": "Proof: refinement of the pool's management operations (full / incremental update, removal, clear, SetExecModel) to the denoted (rule set, cleared, model): every operation keeps the invariant (master and every instance hold well-formed containers denoting the same set), changes the denoted set as specified and answers as specified - so no sequence panics - lifted to every finite history; queries answer from the denoted set; every instance, initial or additional, runs exactly the denoted set in salience order; a cleared pool runs nothing and a full or incremental update brings it back. Differential runs compare every operation, all queries and one execution per instance with model and spec.",
    "note": "Model hand-written over container values; that updates never write into a published container is a regenerated fact (GV.Generated.Pool.inPlaceStores) used by C07. Trusted: Lean kernel, extractor, harness, comparator.",
    "technique": "Lean 4 refinement proof over operation histories + differential management sequences with per-instance executions"}
MANIFEST_TEXT["C17"] = {
    "text": "Proof: invariant of the free-list / in-flight / put-goroutine transition system for any number of clients, any min <= max, every interleaving: the tags on the two lists, in flight and on their way back are a permutation of 0..max-1; hence at most max in flight, no instance handed to two requests, all instances back when nothing is in flight, acquire enabled whenever a list is non-empty, some step enabled unless idle. Regenerated facts: every pool Execute* method releases in a deferred function installed right after prepare (so on return, error and panic alike); getGengine / putGengineLocked have the modelled shape. Differential runs measure peak concurrency with more clients than instances, failing requests, and capacity afterwards. Lock balance (GV.Props.Locks): the lock skeleton of every function that touches a mutex is regenerated; a proved-sound abstract interpreter shows that no way out of such a function - return at any depth, panic in a callee - leaves a mutex held. Lock order: ranked acquisition excludes wait cycles (theorem); the acquisition order of the current source, computed over the regenerated skeletons and call-graph summaries, is decided by the kernel to go up in the ranking; the analysis is proved sound within a function (every acquisition of every execution of a checked skeleton is a computed edge), its resolution of callees is a heuristic.",
    "note": "Liveness = enabledness + scheduler fairness (assumed). Trusted: Lean kernel, extractor, harness, comparator.",
    "technique": "Lean 4 invariant proof over an interleaving transition system + regenerated method-shape facts + differential concurrency runs"}
MANIFEST_TEXT["C06"] = {
    "text": "Proof: (1) in every reachable state of the pool transition system an instance has at most one holder and its data context holds request keys of that holder only, none when idle or on its way back; (2) every engine execution method allocates a fresh result map and writes exactly what its rules returned (C11's theorem over regenerated skeletons), so a map handed back holds only that request's values and is never written again; (3) regenerated facts: every pool method deletes exactly the keys it injected in the deferred clean-up before handing the instance back. Differential runs: simultaneous parked requests with unique ids echoing them into results and their own objects, a later request that injects nothing, result maps compared after later traffic.",
    "note": "Rule bodies reach data only through the instance's private data context (C03, C15): that part is by the evaluator model, not re-proved here. Trusted: Lean kernel, extractor, harness, comparator.",
    "technique": "Lean 4 invariant proof over an interleaving transition system + regenerated facts + differential isolation runs"}
MANIFEST_TEXT["C09"] = {"text": "Proof: engine level: for every ResultsWF skeleton (all 21 extracted ones) no execution method panics; rule level: with the recover at RuleEntity.Execute (fact regenerated from source) no rule body and no data make the rule's execution panic, an unbounded for loop is cut off with an error after maxExecuteNum iterations, and the interpreter model is total. Differential fault injection: ill-typed programs, panicking injected functions, unbounded loops, failing conc children, in a child process with a hang timeout. Lock balance (GV.Props.Locks): the lock skeleton of every function that touches a mutex is regenerated; a proved-sound abstract interpreter shows that no way out of such a function - return at any depth, panic in a callee - leaves a mutex held.",
    "note": ORCH_NOTE + " " + EVAL_NOTE, "technique": "Lean 4 no-panic theorems over regenerated skeletons and facts + totality of the interpreter model + fault-injection differential runs"}

NOT_APPLICABLE = {}
