"""Property registry: theorem modules, correspondence scenarios, owned aspects."""

SORT_METHODS = "Execute,ExecuteSelectedRules,ExecuteSelectedRulesWithControl"
MIX_NM = ("ExecuteMixModel,ExecuteSelectedRulesMixModel,ExecuteInverseMixModel,ExecuteSelectedRulesInverseMixModel,"
          "ExecuteNSortMConcurrent,ExecuteNConcurrentMSort,ExecuteNConcurrentMConcurrent,"
          "ExecuteSelectedNSortMConcurrent,ExecuteSelectedNConcurrentMSort,ExecuteSelectedNConcurrentMConcurrent")
SELECTED = ("ExecuteSelectedRules,ExecuteSelectedRulesWithControl,ExecuteSelectedRulesWithControlAsGivenSortedName,"
            "ExecuteSelectedRulesWithControlAndStopTag,ExecuteSelectedRulesWithControlAndStopTagAsGivenSortedName,"
            "ExecuteSelectedRulesConcurrent,ExecuteSelectedRulesMixModel,ExecuteSelectedRulesInverseMixModel,"
            "ExecuteSelectedNSortMConcurrent,ExecuteSelectedNConcurrentMSort,ExecuteSelectedNConcurrentMConcurrent")
STOP = ("ExecuteWithStopTagDirect,ExecuteMixModelWithStopTagDirect,ExecuteSelectedRulesWithControlAndStopTag,"
        "ExecuteSelectedRulesWithControlAndStopTagAsGivenSortedName")

TB_COMMON = [
    "Lean 4.33 kernel; axioms allowed: propext, Classical.choice, Quot.sound (audited per theorem)",
    "/verif/extract (Go AST -> Lean skeleton translator) and the JSON line protocol",
    "/verif/harness gate scheduler and /verif/checklib comparator",
    "rule bodies are opaque in orchestration theorems (outcome measured per rule by the harness)",
    "sync.WaitGroup / goroutine semantics modelled as a counter LTS, not verified",
]

PROPS = {
    "C04": {
        "lean": ["GV.Props.C04"],
        "scenarios": [{"scn": "orch", "filter": SORT_METHODS, "n": {"quick": 250, "thorough": 3000},
                       "aspects": ["outcome", "trace", "driver", "build"]}],
        "rule": "random rule sets (1-7 rules, saliences with ties / negatives / full int64 range, behaviours ret/bare/silent/fail/failing-return), sort-model methods, both error policies; non-trivial = at least two rules started; distinct by canonical case text",
        "trusted_base": TB_COMMON,
        "assumptions": ["sort.SliceStable is a stable sort", "rule outcome independent of schedule"],
    },
}
