"""Property registry: theorem modules, correspondence scenarios, owned aspects."""

SORT_METHODS = "Execute,ExecuteSelectedRules,ExecuteSelectedRulesWithControl"
MIX_NM = ("ExecuteMixModel,ExecuteSelectedRulesMixModel,ExecuteInverseMixModel,ExecuteSelectedRulesInverseMixModel,"
          "ExecuteNSortMConcurrent,ExecuteNConcurrentMSort,ExecuteNConcurrentMConcurrent,"
          "ExecuteSelectedNSortMConcurrent,ExecuteSelectedNConcurrentMSort,ExecuteSelectedNConcurrentMConcurrent")
SELECTED = ("ExecuteSelectedRules,ExecuteSelectedRulesWithControl,ExecuteSelectedRulesWithControlAsGivenSortedName,"
            "ExecuteSelectedRulesWithControlAndStopTag,ExecuteSelectedRulesWithControlAndStopTagAsGivenSortedName,"
            "ExecuteSelectedRulesConcurrent,ExecuteSelectedRulesMixModel,ExecuteSelectedRulesInverseMixModel,"
            "ExecuteSelectedNSortMConcurrent,ExecuteSelectedNConcurrentMSort,ExecuteSelectedNConcurrentMConcurrent")
STOP = ("ExecuteWithStopTagDirect,ExecuteMixModelWithStopTagDirect,ExecuteSelectedRulesWithControlAndStopTag,"
        "ExecuteSelectedRulesWithControlAndStopTagAsGivenSortedName")

TB_COMMON = [
    "Lean 4.33 kernel; axioms allowed: propext, Classical.choice, Quot.sound (audited per theorem)",
    "/verif/extract (Go AST -> Lean skeleton translator) and the JSON line protocol",
    "/verif/harness gate scheduler and /verif/checklib comparator",
    "rule bodies are opaque in orchestration theorems (outcome measured per rule by the harness)",
    "sync.WaitGroup / goroutine semantics modelled as a counter LTS, not verified",
]

PROPS = {
    "C04": {
        "lean": ["GV.Props.C04"],
        "scenarios": [{"scn": "orch", "filter": SORT_METHODS, "n": {"quick": 250, "thorough": 3000},
                       "aspects": ["outcome", "trace", "driver", "build"]}],
        "rule": "random rule sets (1-7 rules, saliences with ties / negatives / full int64 range, behaviours ret/bare/silent/fail/failing-return), sort-model methods, both error policies; non-trivial = at least two rules started; distinct by canonical case text",
        "trusted_base": TB_COMMON,
        "assumptions": ["sort.SliceStable is a stable sort", "rule outcome independent of schedule"],
    },
    "C05": {
        "lean": ["GV.Props.C05"],
        "scenarios": [{"scn": "orch", "filter": MIX_NM, "n": {"quick": 300, "thorough": 4000},
                       "aspects": ["outcome", "trace", "driver", "build"]}],
        "rule": "random rule sets, mix / inverse-mix / N-M methods (plain and selected), random n/m incl. invalid, gate-scheduled goroutines with three grant strategies; non-trivial = at least two rules started",
        "trusted_base": TB_COMMON,
        "assumptions": ["Go scheduler fairness (liveness is not proved)", "rule outcome independent of schedule"],
    },
    "C11": {
        "lean": ["GV.Props.C11"],
        "scenarios": [{"scn": "orch", "n": {"quick": 400, "thorough": 5000},
                       "aspects": ["results", "results-model", "driver", "build"]}],
        "rule": "all 21 Execute* methods, fresh engine or engine used by a previous call, returning / bare-return / silent / failing / failing-return rules; non-trivial = at least two rules started",
        "trusted_base": TB_COMMON,
        "assumptions": [],
    },
    "C12": {
        "lean": ["GV.Props.C12"],
        "scenarios": [{"scn": "orch", "filter": SELECTED, "n": {"quick": 300, "thorough": 4000},
                       "aspects": ["outcome", "trace", "crash", "driver", "build"]}],
        "rule": "selected-rule methods, name lists = random sub-permutations plus unknown names, empty lists",
        "trusted_base": TB_COMMON,
        "assumptions": [],
    },
    "C13": {
        "lean": ["GV.Props.C13"],
        "scenarios": [{"scn": "orch", "filter": "ExecuteDAGModel", "n": {"quick": 200, "thorough": 3000},
                       "aspects": ["outcome", "trace", "driver", "build"]}],
        "rule": "DAG layerings (0-4 layers, width 0-3, unknown and repeated names), failing subsets, gate scheduler",
        "trusted_base": TB_COMMON,
        "assumptions": [],
    },
    "C14": {
        "lean": ["GV.Props.C14"],
        "scenarios": [{"scn": "orch", "filter": STOP, "n": {"quick": 250, "thorough": 3000},
                       "aspects": ["outcome", "trace", "driver", "build"]}],
        "rule": "stop-tag variants; each rule sets the tag with probability 1/4",
        "trusted_base": TB_COMMON,
        "assumptions": [],
    },
    "C09": {
        "lean": ["GV.Props.C09"],
        "scenarios": [{"scn": "orch", "n": {"quick": 400, "thorough": 5000},
                       "aspects": ["crash", "driver", "build"]}],
        "rule": "all 21 Execute* methods with failing rules in every position; crash = panic in the caller, process death (panic in a goroutine) or hang",
        "trusted_base": TB_COMMON,
        "assumptions": ["injected functions terminate"],
    },
    "C08": {
        "lean": ["GV.Props.C08"],
        "scenarios": [{"scn": "kc", "n": {"quick": 300, "thorough": 3000},
                       "aspects": ["set", "sorted", "index", "exec", "exists", "model", "crash", "driver"]},
                      {"scn": "kc", "filter": "long", "n": {"quick": 60, "thorough": 800},
                       "aspects": ["set", "sorted", "index", "exec", "exists", "model", "crash", "driver"]}],
        "rule": "random histories (1-10 and 1-40 operations) of BuildRuleFromString / BuildRuleWithIncremental / RemoveRules over 7 names, saliences in a 5-value range (ties) or the whole int64 range, several rules per call, rejected texts in between; after every operation the container is dumped and the sort model executed; non-trivial = at least two operations and two installed rules",
        "trusted_base": [
            "Lean 4.33 kernel; axioms allowed: propext, Classical.choice, Quot.sound (audited per theorem)",
            "hand-written Lean model of BuildRuleFromString / BuildRuleWithIncremental / updateIncremental / RemoveRules / BinarySearch (value level; slice aliasing argued in DESIGN.md 4.3), tied by the differential runs and by source fingerprints",
            "/verif/harness and /verif/checklib comparator; sort.SliceStable assumed stable; Go map iteration order arbitrary (a parameter of the model)"],
        "fingerprints": ["builder:", "internal/tool:", "internal/base:KnowledgeContext", "engine:updateIncremental"],
        "assumptions": ["one compile unit never defines a name twice (rejected by the listener, C10)"],
    },
    "C02": {
        "lean": ["GV.Props.C02"],
        "scenarios": [{"scn": "eval", "filter": "stmt", "n": {"quick": 300, "thorough": 4000},
                       "aspects": ["value", "state", "trace", "driver", "build", "hang"]}],
        "rule": "random statement programs (nested if / else-if / else, for, forRange, break, continue, return at any depth, plain and compound assignments to locals, struct fields, pointer scalars, map / slice / array elements, observer calls), random injected data incl. boundary values; non-trivial = the rule ran to completion",
        "trusted_base": [],
        "fingerprints": ["internal/base:", "context:", "internal/core:", "internal/iter:"],
        "assumptions": [],
    },
}

ORCH_NOTE = ("Model = skeleton regenerated from engine/gengine.go by /verif/extract on every run (T1); theorems hold for all "
             "rule sets, outcomes, n/m, name lists and interleavings; rule bodies are opaque (their outcome is measured per rule "
             "by the harness). Trusted: Lean kernel (axioms propext/Classical.choice/Quot.sound), extractor, harness gate "
             "scheduler, comparator, WaitGroup/goroutine semantics as modelled by the counter LTS; Go scheduler fairness assumed.")

MANIFEST_TEXT = {
    "C04": {"text": "Proof: the extracted skeletons of Execute / ExecuteSelectedRules / ExecuteSelectedRulesWithControl are instances (rfl) of the sorted-family template, which conforms to the reference semantics for every configuration (order, exactly once, both error policies); differential runs of the real engine against model and spec find the replay when an obligation breaks.",
            "note": ORCH_NOTE + " Sortedness of the installed list itself is C08's invariant.",
            "technique": "Lean 4 conformance proof over regenerated orchestration skeleton + gate-scheduled differential runs"},
    "C05": {"text": "Proof: (1) conformance of the ten mix / inverse-mix / N-M skeletons (which rules, which stage, both policies, all n/m, fan-outs well formed); (2) barrier theorem over the WaitGroup LTS for every stage plan and every interleaving; trace checker proved sound. Gate-scheduled runs of the real engine are replayed through the checker.",
            "note": ORCH_NOTE, "technique": "Lean 4 conformance proof + invariant proof over interleaving LTS + gate-scheduled differential runs"},
    "C09": {"text": "Proof (engine level): for every ResultsWF skeleton no execution method panics; extracted skeletons are ResultsWF by decide. Rule-level fault containment is checked by differential fault injection (see evidence).",
            "note": ORCH_NOTE, "technique": "Lean 4 generic no-panic theorem over regenerated skeletons + fault-injection differential runs"},
    "C11": {"text": "Proof: for every ResultsWF skeleton (all 21 extracted ones, by decide) the result-map write log is exactly the executed rules that returned, for an arbitrary previous map; differential runs compare the real map with the rules that actually ran and returned.",
            "note": ORCH_NOTE, "technique": "Lean 4 generic invariant proof over regenerated skeletons + differential runs"},
    "C12": {"text": "Proof: conformance of the eleven selected-rule skeletons to the reference semantics (selection = named existing rules in caller order, sorted / as-given / concurrent / mix / inverse / N-M variants, strict N-M guards).",
            "note": ORCH_NOTE, "technique": "Lean 4 conformance proof over regenerated skeletons + differential runs"},
    "C13": {"text": "Proof: conformance of the DAG skeleton (layers, occurrences, unknown names skipped, failure stops) + barrier theorem for every layering and interleaving.",
            "note": ORCH_NOTE, "technique": "Lean 4 conformance proof + LTS barrier invariant + gate-scheduled differential runs"},
    "C14": {"text": "Proof: conformance of the four stop-tag skeletons; corollaries: tag never set => identical to the plain variant; the setting rule is the last to run; mix runs nothing else.",
            "note": ORCH_NOTE, "technique": "Lean 4 conformance proof over regenerated skeletons + differential runs"},
}

MANIFEST_TEXT["C08"] = {
    "text": "Proof: container invariant (unique names, sorted slice is a permutation of the rule map in non-increasing salience order, index map = positions) is preserved by full build, incremental merge (binary-search insertion with the shadowed mid) and removal for every map iteration order, and each operation refines the abstract rule-set operation; history_refines lifts this to every finite history. Differential histories against the real builder tie the hand-written model to the code.",
    "note": "Model of the merge loop is hand-written (value level), tied by differential histories and source fingerprints rather than regenerated; Lean kernel + harness + comparator trusted.",
    "technique": "Lean 4 invariant + refinement proof + differential operation histories"}

NOT_APPLICABLE = {}
