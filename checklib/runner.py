"""Verdict protocol implementation shared by all properties."""
import os, sys, json, subprocess, time, fcntl, hashlib, re, shutil

ALLOWED_AXIOMS = {"propext", "Classical.choice", "Quot.sound"}


class Lock:
    def __init__(self, root):
        self.path = os.path.join(root, ".build.lock")

    def __enter__(self):
        self.f = open(self.path, "w")
        fcntl.flock(self.f, fcntl.LOCK_EX)
        return self

    def __exit__(self, *a):
        fcntl.flock(self.f, fcntl.LOCK_UN)
        self.f.close()


def sh(cmd, cwd=None, env=None, timeout=3600, inp=None):
    p = subprocess.run(cmd, cwd=cwd, env=env, stdout=subprocess.PIPE, stderr=subprocess.STDOUT,
                       timeout=timeout, input=inp)
    return p.returncode, p.stdout.decode("utf-8", "replace")


def build_tools(ROOT, REPO, LEAN, GOENV, lean_targets):
    """Steps 1-2 (and the harness build).  Returns dict with logs and status."""
    info = {}
    # extractor
    rc, out = sh(["go", "build", "-o", os.path.join(ROOT, "extract", "extract"), "."],
                 cwd=os.path.join(ROOT, "extract"), env=GOENV)
    info["extract_build"] = (rc, out)
    if rc != 0:
        return info
    rc, out = sh([os.path.join(ROOT, "extract", "extract"), "-repo", REPO,
                  "-out", os.path.join(LEAN, "GV", "Generated")], env=GOENV)
    info["extract_run"] = (rc, out)
    # diff generated vs expectation for the unchanged tree
    changed = []
    gen_dir = os.path.join(LEAN, "GV", "Generated")
    exp_dir = os.path.join(LEAN, "expected", "Generated")
    if os.path.isdir(exp_dir):
        for f in sorted(os.listdir(exp_dir)):
            a = open(os.path.join(exp_dir, f)).read()
            try:
                b = open(os.path.join(gen_dir, f)).read()
            except FileNotFoundError:
                b = ""
            if a != b:
                changed.append(f)
    info["generated_changed"] = [f for f in changed if f.endswith(".lean")]
    # staleness fingerprints of hand-modelled functions
    changed_funcs = []
    try:
        a = dict(map(tuple, json.load(open(os.path.join(exp_dir, "fingerprints.json")))))
        b = dict(map(tuple, json.load(open(os.path.join(gen_dir, "fingerprints.json")))))
        changed_funcs = sorted(k for k in set(a) | set(b) if a.get(k) != b.get(k))
    except (OSError, ValueError):
        pass
    info["changed_funcs"] = changed_funcs
    # lean
    rc, out = sh(["lake", "build"] + lean_targets + ["driver"], cwd=LEAN, timeout=3000)
    info["lake"] = (rc, out)
    # harness (copy go.sum so that module resolution stays offline)
    try:
        shutil.copyfile(os.path.join(REPO, "go.sum"), os.path.join(ROOT, "harness", "go.sum"))
    except OSError:
        pass
    hb = os.path.join(ROOT, "harness", "harness")
    try:
        os.remove(hb)
    except OSError:
        pass
    gomod = os.path.join(ROOT, "harness", "go.mod")
    txt = open(gomod).read()
    want = "replace github.com/bilibili/gengine => %s" % REPO
    new = re.sub(r"replace github.com/bilibili/gengine => \S+", want, txt)
    if new != txt:
        open(gomod, "w").write(new)
    rc, out = sh(["go", "build", "-tags", "verif", "-o", hb, "."], cwd=os.path.join(ROOT, "harness"), env=GOENV)
    info["harness_build"] = (rc, out)
    return info


def setup(ROOT, REPO, LEAN, GOENV):
    with Lock(ROOT):
        info = build_tools(ROOT, REPO, LEAN, GOENV, ["GV"])
    bad = 0
    for k in ("extract_build", "extract_run", "lake", "harness_build"):
        if k in info:
            rc, out = info[k]
            print("== %s rc=%d" % (k, rc))
            if rc != 0:
                print(out[-4000:])
                bad = 1
        else:
            bad = 1
    return bad


def run_audit(LEAN, pid, mods=None):
    """#print-axioms audit of every theorem in the property's namespaces (= its GV.Props modules)."""
    mods = [m for m in (mods or ["GV.Props.%s" % pid]) if m.startswith("GV.Props.")]
    src = "import GV.Audit\n" + "".join("import %s\n" % m for m in mods) + "".join("#audit_ns %s\n" % m for m in mods)
    tmp = os.path.join(LEAN, ".audit_%s_%d.lean" % (pid, os.getpid()))
    open(tmp, "w").write(src)
    try:
        rc, out = sh(["lake", "env", "lean", tmp], cwd=LEAN, timeout=1200)
    finally:
        os.remove(tmp)
    thms = []
    for line in out.splitlines():
        if line.startswith("AUDIT "):
            thms.append(json.loads(line[6:]))
    return rc, out, thms


def grep_forbidden(LEAN):
    bad = []
    pat = re.compile(r"\b(sorry|admit|native_decide|bv_decide|implemented_by|unsafe)\b|^axiom\s|maxHeartbeats 0")
    for dp, dn, fn in os.walk(os.path.join(LEAN, "GV")):
        for f in fn:
            if not f.endswith(".lean"):
                continue
            p = os.path.join(dp, f)
            if p.endswith("GV/Audit.lean"):
                continue
            incomment = False
            for ln, line in enumerate(open(p), 1):
                s = line
                # strip block comments crudely
                if incomment:
                    if "-/" in s:
                        s = s.split("-/", 1)[1]
                        incomment = False
                    else:
                        continue
                while "/-" in s:
                    pre, rest = s.split("/-", 1)
                    if "-/" in rest:
                        s = pre + rest.split("-/", 1)[1]
                    else:
                        s = pre
                        incomment = True
                        break
                s = s.split("--", 1)[0]
                if pat.search(s):
                    bad.append("%s:%d: %s" % (os.path.relpath(p, LEAN), ln, line.strip()))
    return bad


def parse_race_reports(text, repo):
    """Go race detector reports: for each, the innermost non-runtime frame of both accesses."""
    reports = []
    for blk in text.split("=================="):
        if "WARNING: DATA RACE" not in blk:
            continue
        sides = []
        cur = None
        lines = blk.splitlines()
        for k, ln in enumerate(lines):
            if re.match(r"^(Read|Write|Previous read|Previous write|Atomic read|Atomic write|Previous atomic \w+) at ", ln.strip()):
                cur = {"what": ln.strip().split(" at ")[0], "frames": []}
                sides.append(cur)
                continue
            if ln.startswith("Goroutine ") or not ln.strip():
                if ln.startswith("Goroutine "):
                    cur = None
                continue
            if cur is not None and ln.startswith("  ") and not ln.startswith("      "):
                fn = ln.strip()
                loc = lines[k + 1].strip().split(" +")[0] if k + 1 < len(lines) else ""
                cur["frames"].append((fn, loc))
        tops = []
        for sd in sides[:2]:
            top = next(((fn, loc) for fn, loc in sd["frames"]
                        if not fn.startswith(("runtime.", "sync.", "sync/atomic.", "internal/race."))), ("?", "?"))
            tops.append({"what": sd["what"], "fn": top[0], "at": top[1]})
        if len(tops) == 2:
            own = [t["at"].startswith(repo.rstrip("/") + "/") for t in tops]
            # the engine writing a result map while the client that was handed it reads it: the map is
            # gengine's own state until it is returned, and the caller's afterwards
            handed = False
            if any(own) and not all(own):
                g = tops[0] if own[0] else tops[1]
                c = tops[1] if own[0] else tops[0]
                handed = (g["at"].startswith(repo.rstrip("/") + "/engine/") and "rite" in g["what"]
                          and "/harness/" in c["at"] and "ead" in c["what"])
            reports.append({"sides": tops, "gengine_both": all(own) or handed, "gengine_any": any(own),
                            "text": blk.strip()[:2500]})
    return reports


def run_harness(ROOT, GOENV, scn, seed, n, flt=None, extra=None, timeout=1800, race_out=None, repo="/repo", env_extra=None):
    """Run the harness for `n` cases, restarting after a crash.  Returns list of cases
    (dict); a crashed case gets obs.outcome = 'crash'.  With race_out (a list) the binary built
    with the race detector is used and its reports are appended to race_out."""
    hb = os.path.join(ROOT, "harness", "harness_race" if race_out is not None else "harness")
    run_harness.truncated = False
    cases = []
    start = 0
    crashes = 0
    t_end = time.time() + timeout
    while start < n and time.time() < t_end:
        cmd = [hb, "-scn", scn, "-seed", str(seed), "-n", str(n), "-start", str(start)]
        if flt:
            cmd += ["-filter", flt]
        if extra:
            cmd += extra
        env = dict(GOENV, GOMEMLIMIT="4GiB")
        env.update(env_extra or {})
        if race_out is not None:
            env["GORACE"] = "halt_on_error=0 exitcode=0"
        p = subprocess.Popen(cmd, stdout=subprocess.PIPE, stderr=subprocess.PIPE, env=env)
        pending = None
        last_i = start - 1
        timed_out = False
        try:
            out, err = p.communicate(timeout=max(10, t_end - time.time()))
        except subprocess.TimeoutExpired:
            p.kill()
            out, err = p.communicate()
            timed_out = True
        if race_out is not None:
            race_out.extend(parse_race_reports(err.decode("utf-8", "replace"), repo))
        for line in out.decode("utf-8", "replace").split("\n"):
            if line.startswith("#begin "):
                try:
                    pending = json.loads(line[7:])
                except ValueError:
                    pending = None
                continue
            if not line.startswith("{"):
                continue
            try:
                c = json.loads(line)
            except ValueError:
                continue
            cases.append(c)
            last_i = c.get("i", last_i)
            pending = None
        if p.returncode == 0:
            break
        if timed_out:
            # the time budget of this scenario is used up: keep what was run, blame no case
            run_harness.truncated = True
            break
        if p.returncode == 3 and pending is None:
            # the harness asked for a fresh process after a case that hung
            start = last_i + 1
            continue
        # crashed (or killed): attribute to the pending case
        crashes += 1
        if pending is not None:
            pending.setdefault("obs", {})
            pending["obs"] = dict(pending.get("obs") or {}, outcome="crash",
                                  note=err.decode("utf-8", "replace")[-1500:])
            cases.append(pending)
            last_i = pending.get("i", last_i + 1)
        else:
            cases.append({"i": last_i + 1, "scn": scn, "obs": {"outcome": "harness-crash",
                          "note": err.decode("utf-8", "replace")[-1500:]}})
            last_i += 1
        start = last_i + 1
        if crashes > 400:
            break
    return cases


def run_driver(LEAN, cases, timeout=1800):
    drv = os.path.join(LEAN, ".lake", "build", "bin", "driver")
    inp = "\n".join(json.dumps(c) for c in cases) + "\n"
    p = subprocess.run([drv], input=inp.encode(), stdout=subprocess.PIPE, stderr=subprocess.PIPE, timeout=timeout)
    outs = {}
    for line in p.stdout.decode("utf-8", "replace").split("\n"):
        try:
            o = json.loads(line)
        except ValueError:
            continue
        outs[(o.get("scn", None), o.get("i"))] = o
        outs[o.get("i")] = o
    return outs, p.returncode, p.stderr.decode("utf-8", "replace")


def load_known(ROOT):
    p = os.path.join(ROOT, "known_findings.json")
    if not os.path.exists(p):
        return {"findings": [], "fixed": []}
    return json.load(open(p))


def matches(issue, finding):
    m = finding.get("match", {})
    for k, v in m.items():
        iv = issue.get(k)
        if isinstance(v, list):
            if iv not in v:
                return False
        elif iv != v:
            return False
    return True


def write_replay(ROOT, pid, payload):
    os.makedirs(os.path.join(ROOT, "replays"), exist_ok=True)
    h = hashlib.sha256(json.dumps(payload, sort_keys=True).encode()).hexdigest()[:12]
    path = os.path.join(ROOT, "replays", "%s-%s.json" % (pid, h))
    json.dump(payload, open(path, "w"), indent=1, sort_keys=True)
    return path


def check(ROOT, REPO, LEAN, GOENV, pid, prop, tier, seed):
    import scenarios
    t0 = time.time()
    os.makedirs(os.path.join(ROOT, "evidence"), exist_ok=True)
    ev_path = os.path.join(ROOT, "evidence", "%s.json" % pid)
    try:
        os.remove(ev_path)
    except OSError:
        pass
    broken = []       # broken obligations / correspondence streams (names)
    with Lock(ROOT):
        info = build_tools(ROOT, REPO, LEAN, GOENV, prop["lean"])
        for k in ("extract_build", "extract_run", "harness_build"):
            rc, out = info.get(k, (1, "not run"))
            if rc != 0:
                broken.append("tool:%s: %s" % (k, out[-1500:]))
        lrc, lout = info.get("lake", (1, "not run"))
        thms = []
        if lrc != 0:
            errs = [l for l in lout.splitlines() if "error" in l][:20]
            broken.append("lean-build: " + " | ".join(errs))
            # which theorems still check?  (best effort: audit is skipped)
        else:
            arc, aout, thms = run_audit(LEAN, pid, prop["lean"])
            if arc != 0:
                broken.append("audit: " + aout[-1500:])
            for t in thms:
                extra = [a for a in t["axioms"] if a not in ALLOWED_AXIOMS]
                if extra:
                    broken.append("axioms:%s uses %s" % (t["name"], extra))
            if tier == "thorough":
                # independent re-check of the compiled property modules (and everything they import)
                # by the toolchain's leanchecker: replays every declaration through the kernel
                crc, cout = sh(["lake", "env", "leanchecker"] + prop["lean"], cwd=LEAN, timeout=1800)
                rechecked = crc == 0
                if crc != 0:
                    broken.append("leanchecker: " + cout[-1000:])
        forb = grep_forbidden(LEAN) if tier == "thorough" or True else []
        if forb:
            broken.append("forbidden tokens: " + "; ".join(forb[:10]))
    gen_changed = info.get("generated_changed", [])
    if "rechecked" not in dir():
        rechecked = False
    stale = [f for f in info.get("changed_funcs", []) if any(f.startswith(pfx) for pfx in prop.get("fingerprints", []))]
    harness_ok = info.get("harness_build", (1, ""))[0] == 0
    # ---- correspondence
    issues = []
    stats = {"evaluations": 0, "distinct": set(), "hist": {}, "samples": []}
    if harness_ok and os.path.exists(os.path.join(LEAN, ".lake", "build", "bin", "driver")):
        for sc in prop["scenarios"]:
            mod = scenarios.SCN[sc["scn"]]
            n = sc["n"][tier]
            boost = 3 if (broken or gen_changed or stale) else 1
            # corpus first
            corpus_dir = os.path.join(ROOT, "corpus")
            race_reports = [] if sc.get("race") else None
            if race_reports is not None:
                rrc, rout = sh(["go", "build", "-race", "-tags", "verif", "-o", "harness_race", "."],
                               cwd=os.path.join(ROOT, "harness"), env=GOENV, timeout=1200)
                if rrc != 0:
                    broken.append("tool:harness_race build: " + rout[-800:])
                    continue
            # time budget per scenario: many times what the unchanged tree needs (under a minute in
            # the quick tier); only a tree on which requests hang or time out can reach it
            cases = run_harness(ROOT, GOENV, sc["scn"], seed, n * boost, sc.get("filter"), sc.get("extra"),
                                timeout=600 if tier == "quick" else 5400,
                                race_out=race_reports, repo=REPO, env_extra=sc.get("env"))
            if run_harness.truncated:
                issues.append({"scn": sc["scn"], "aspect": "driver", "kind": "impl-vs-model", "method": sc.get("filter"),
                               "detail": "scenario %s/%s used up its time budget after %d of %d cases (the unchanged tree needs well under a minute): requests hang or time out"
                                         % (sc["scn"], sc.get("filter"), len(cases), n * boost),
                               "case": {"scn": sc["scn"], "filter": sc.get("filter"), "note": "time budget"}, "drv": None})
                n_run = len(cases)
            else:
                n_run = None
            if race_reports:
                seen_r = set()
                for rp in race_reports:
                    key = tuple(sorted((t["fn"], t["at"]) for t in rp["sides"]))
                    if key in seen_r or not rp["gengine_any"]:
                        continue
                    seen_r.add(key)
                    stats["hist"]["race-report"] = stats["hist"].get("race-report", 0) + 1
                    issues.append({"scn": sc["scn"], "aspect": "race", "method": sc.get("filter"),
                                   "kind": "impl-vs-spec" if rp["gengine_both"] else "impl-vs-model",
                                   "detail": "data race reported by the Go race detector between %s %s (%s) and %s %s (%s) while running scenario %s/%s"
                                             % (rp["sides"][0]["what"], rp["sides"][0]["fn"], rp["sides"][0]["at"],
                                                rp["sides"][1]["what"], rp["sides"][1]["fn"], rp["sides"][1]["at"], sc["scn"], sc.get("filter")),
                                   "case": {"scn": "race", "scenario": sc["scn"], "filter": sc.get("filter"), "seed": seed, "n": n * boost, "env": sc.get("env"),
                                            "report": rp["text"]},
                                   "drv": None})
            if n_run is None and len(cases) != n * boost:
                issues.append({"scn": sc["scn"], "aspect": "driver", "kind": "impl-vs-model", "method": sc.get("filter"),
                               "detail": "the harness returned %d cases of %d requested (a protocol line was lost)" % (len(cases), n * boost),
                               "case": {"scn": sc["scn"], "filter": sc.get("filter"), "note": "case count"}, "drv": None})
            outs, drc, derr = run_driver(LEAN, cases)
            if drc != 0:
                broken.append("driver rc=%d %s" % (drc, derr[-500:]))
            for c in cases:
                o = outs.get(c.get("i"))
                stats["evaluations"] += 1
                key, nontrivial = mod.classify(c)
                if nontrivial:
                    stats["distinct"].add(key)
                for hk in mod.histo(c):
                    stats["hist"][hk] = stats["hist"].get(hk, 0) + 1
                if len(stats["samples"]) < 3 and nontrivial:
                    stats["samples"].append(mod.sample(c, o))
                if o is None or "error" in (o or {}):
                    issues.append({"scn": sc["scn"], "aspect": "driver", "kind": "impl-vs-model",
                                   "detail": "no driver output: %s" % (o,), "case": c, "drv": o})
                    continue
                for iss in mod.compare(c, o):
                    if iss["aspect"] in sc["aspects"]:
                        iss["scn"] = sc["scn"]
                        iss["case"] = c
                        iss["drv"] = o
                        issues.append(iss)
    else:
        broken.append("harness or driver unavailable")
    # ---- verdict
    known = load_known(ROOT)
    kf = [f for f in known.get("findings", []) if f.get("property") == pid]
    known_hits = {}
    real = []       # impl-vs-spec issues not covered by known findings
    corr = []       # impl-vs-model only
    for iss in issues:
        hit = None
        for f in kf:
            if matches(iss, f):
                hit = f
                break
        if hit is not None:
            known_hits.setdefault(hit["key"], (hit, iss))
            continue
        if iss["kind"] == "impl-vs-spec":
            real.append(iss)
        else:
            corr.append(iss)
    # known findings attached to broken obligations (theorem known not to hold)
    unexplained_broken = []
    for b in broken:
        hit = None
        for f in kf:
            if f.get("match_obligation") and f["match_obligation"] in b:
                hit = f
        if hit is None:
            unexplained_broken.append(b)
    violation = None
    if real:
        iss = min(real, key=lambda x: len(json.dumps(x["case"])))
        path = write_replay(ROOT, pid, {"property": pid, "kind": iss["kind"], "aspect": iss["aspect"],
                                        "detail": iss["detail"], "case": iss["case"], "driver": iss["drv"],
                                        "broken_obligations": broken, "generated_changed": gen_changed,
                                        "seed": seed, "tier": tier})
        violation = "VIOLATION property=%s replay=%s" % (pid, path)
    elif corr or unexplained_broken:
        payload = {"property": pid, "kind": "no-failing-input-found", "broken_obligations": unexplained_broken,
                   "generated_changed": gen_changed, "seed": seed, "tier": tier}
        if corr:
            iss = min(corr, key=lambda x: len(json.dumps(x["case"])))
            payload.update({"correspondence": iss["kind"], "aspect": iss["aspect"], "detail": iss["detail"],
                            "case": iss["case"], "driver": iss["drv"]})
        path = write_replay(ROOT, pid, payload)
        violation = "VIOLATION property=%s replay=%s no-failing-input-found" % (pid, path)
    for key, (f, iss) in sorted(known_hits.items()):
        print("KNOWN-FINDING: property=%s %s — %s" % (pid, key, f.get("what", "")))
    # ---- evidence
    obligations = len(thms) + (1 if True else 0)
    discharged = len([t for t in thms if all(a in ALLOWED_AXIOMS for a in t["axioms"])]) + (0 if forb else 1)
    if lrc != 0:
        obligations = max(obligations, 1)
        discharged = 0
    axioms_used = sorted({a for t in thms for a in t["axioms"]})
    ev = {
        "property_id": pid, "tier": tier, "seed": seed, "level": prop.get("level", "proof"),
        "coverage": {
            "obligations": obligations, "discharged": discharged,
            "checker_cmd": "cd /verif/lean && lake build %s driver && lake env lean <audit: #audit_ns GV.Props.%s>%s" % (" ".join(prop["lean"]), pid, (" && lake env leanchecker " + " ".join(prop["lean"])) if tier == "thorough" else ""),
            "rechecked_by_leanchecker": bool(rechecked),
            "trusted_base": prop.get("trusted_base", []) + ["axioms used: " + ", ".join(axioms_used)],
            "theorems": [t["name"] for t in thms],
            "evaluations": stats["evaluations"],
            "distinct_nontrivial": len(stats["distinct"]),
            "rule": prop.get("rule", ""),
            "samples": stats["samples"] or [{"note": "no case generated"}],
            "histogram": stats["hist"],
            "traces_validated_against_impl": stats["evaluations"],
            "generated_changed": gen_changed,
            "model_may_be_stale_for": stale,
            "broken_obligations": broken,
            "known_findings_reproduced": sorted(known_hits.keys()),
            "exhaustive": False,
        },
        "assumptions": prop.get("assumptions", []),
        "wall_s": round(time.time() - t0, 2),
        "violations": (1 if violation else 0),
    }
    if discharged == 0:
        # the theorem module did not build: no proof was checked on this run
        del ev["coverage"]["discharged"]
        ev["coverage"]["proof_status"] = "theorem module failed to build; see broken_obligations"
    json.dump(ev, open(ev_path, "w"), indent=1, sort_keys=True)
    print("property=%s tier=%s seed=%d theorems=%d evaluations=%d distinct=%d issues=%d broken=%d wall=%.1fs" % (
        pid, tier, seed, len(thms), stats["evaluations"], len(stats["distinct"]), len(issues), len(broken), time.time() - t0))
    if violation:
        for b in broken[:5]:
            print("  broken:", b[:300])
        print(violation)
        return 1
    return 0


def replay(ROOT, REPO, LEAN, GOENV, path):
    import scenarios
    payload = json.load(open(path))
    case = payload.get("case")
    if not case:
        print("replay file has no concrete case (no-failing-input-found):")
        print(json.dumps(payload.get("broken_obligations"), indent=1))
        return 1
    with Lock(ROOT):
        info = build_tools(ROOT, REPO, LEAN, GOENV, ["GV"])
    if case.get("scn") == "race":
        sh(["go", "build", "-race", "-tags", "verif", "-o", "harness_race", "."], cwd=os.path.join(ROOT, "harness"), env=GOENV, timeout=1200)
        reports = []
        run_harness(ROOT, GOENV, case["scenario"], case.get("seed", 1), case.get("n", 50), case.get("filter"), None,
                    race_out=reports, repo=REPO, env_extra=case.get("env"))
        own = [r for r in reports if r["gengine_any"]]
        print("race detector reports involving gengine source: %d (of %d)" % (len(own), len(reports)))
        for r in own[:5]:
            print(json.dumps(r["sides"]))
            print(r["text"][:1500])
        return 1 if own else 0
    hb = os.path.join(ROOT, "harness", "harness")
    p = subprocess.run([hb, "-scn", case["scn"], "-replay", path, "-seed", str(payload.get("seed", 1))],
                       stdout=subprocess.PIPE, stderr=subprocess.PIPE, env=GOENV)
    cases = []
    pending = None
    for line in p.stdout.decode("utf-8", "replace").split("\n"):
        if line.startswith("#begin "):
            pending = json.loads(line[7:])
        elif line.startswith("{"):
            cases.append(json.loads(line))
            pending = None
    if p.returncode != 0 and pending is not None:
        pending["obs"] = {"outcome": "crash", "note": p.stderr.decode()[-800:]}
        cases.append(pending)
    outs, _, _ = run_driver(LEAN, cases)
    mod = scenarios.SCN[case["scn"]]
    bad = 0
    for c in cases:
        o = outs.get(c.get("i"))
        iss = mod.compare(c, o) if o else [{"aspect": "driver", "kind": "impl-vs-model", "detail": "no output"}]
        print(json.dumps({"obs": c.get("obs"), "driver": o}, indent=1)[:3000])
        print("ISSUES " + json.dumps(iss, indent=1)[:6000])
        if iss:
            bad = 1
    return bad
