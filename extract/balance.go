package main

// Lock skeletons (C09 / C17 / C18 / C19): for every function, method and function literal of the
// files below that takes or releases a mutex, its control structure reduced to lock / unlock /
// deferred unlock / calls / return / break / continue / branches / loops.
// Written to lean/GV/Generated/Balance.lean and judged by GV.Race.Balance.leakFree (kernel-decided).

import (
	"fmt"
	"go/ast"
	"go/parser"
	"go/token"
	"os"
	"path/filepath"
	"sort"
	"strings"
)

var balanceFiles = []string{
	"context/data_context.go", "engine/gengine_pool.go", "engine/gengine.go", "builder/rule_builder.go",
	"internal/base/conc_statement.go",
}

type bunit struct {
	name string
	body string
	ops  int
}

type bwalker struct {
	file  string
	fn    string
	nlit  int
	units *[]bunit
	ops   int // lock operations seen in the current unit
}

func lsSeq(a, b string) string {
	if a == ".skip" {
		return b
	}
	if b == ".skip" {
		return a
	}
	return fmt.Sprintf("(.seq %s %s)", a, b)
}

func lsSeqAll(xs []string) string {
	out := ".skip"
	for i := len(xs) - 1; i >= 0; i-- {
		out = lsSeq(xs[i], out)
	}
	return out
}

func paren(s string) string {
	if strings.HasPrefix(s, "(") || s == ".skip" || s == ".ret" || s == ".brk" || s == ".cont" {
		return s
	}
	return "(" + s + ")"
}

// a function literal becomes a unit of its own
func (w *bwalker) lit(fl *ast.FuncLit) {
	w.nlit++
	sub := &bwalker{file: w.file, fn: fmt.Sprintf("%s$%d", w.fn, w.nlit), units: w.units}
	body := sub.block(fl.Body.List)
	w.nlit += sub.nlit
	if sub.ops > 0 {
		*w.units = append(*w.units, bunit{w.file + ":" + sub.fn, body, sub.ops})
	}
}

// calls inside an expression, innermost first; function literals are split off
func (w *bwalker) calls(e ast.Node) []string {
	var out []string
	if e == nil {
		return out
	}
	var visit func(n ast.Node)
	visit = func(n ast.Node) {
		ast.Inspect(n, func(x ast.Node) bool {
			switch c := x.(type) {
			case *ast.FuncLit:
				w.lit(c)
				return false
			case *ast.CallExpr:
				for _, a := range c.Args {
					visit(a)
				}
				if fl, ok := c.Fun.(*ast.FuncLit); ok {
					w.lit(fl)
					out = append(out, ".call \"funclit\"")
					return false
				}
				if se, ok := c.Fun.(*ast.SelectorExpr); ok {
					visit(se.X)
				}
				name := exprStr(c.Fun)
				if name == "" {
					name = "?"
				}
				out = append(out, fmt.Sprintf(".call %q", name))
				return false
			}
			return true
		})
	}
	visit(e)
	return out
}

func wrapAll(xs []string) []string {
	for i := range xs {
		xs[i] = paren(xs[i])
	}
	return xs
}

func (w *bwalker) block(list []ast.Stmt) string {
	var xs []string
	for _, st := range list {
		xs = append(xs, w.stmt(st))
	}
	return lsSeqAll(xs)
}

func (w *bwalker) lockCall(c *ast.CallExpr) (string, bool) {
	if op, l := lockOp(c); op == "lock" {
		w.ops++
		return fmt.Sprintf("(.lock %q)", l), true
	} else if op == "unlock" {
		w.ops++
		return fmt.Sprintf("(.unlock %q)", l), true
	}
	return "", false
}

func (w *bwalker) stmt(st ast.Stmt) string {
	unsupported := func(what string) string {
		return fmt.Sprintf("(.unlock %q)", "?unsupported: "+what)
	}
	switch x := st.(type) {
	case nil:
		return ".skip"
	case *ast.ExprStmt:
		if c, ok := x.X.(*ast.CallExpr); ok {
			if s, ok := w.lockCall(c); ok {
				return s
			}
		}
		return lsSeqAll(wrapAll(w.calls(x.X)))
	case *ast.DeferStmt:
		if op, l := lockOp(x.Call); op == "unlock" {
			w.ops++
			return fmt.Sprintf("(.deferUnlock %q)", l)
		}
		if fl, ok := x.Call.Fun.(*ast.FuncLit); ok {
			w.lit(fl)
			return ".skip"
		}
		for _, a := range x.Call.Args {
			_ = w.calls(a)
		}
		return ".skip"
	case *ast.GoStmt:
		if fl, ok := x.Call.Fun.(*ast.FuncLit); ok {
			w.lit(fl)
		}
		var xs []string
		for _, a := range x.Call.Args {
			xs = append(xs, w.calls(a)...)
		}
		return lsSeqAll(wrapAll(xs))
	case *ast.AssignStmt:
		var xs []string
		for _, r := range x.Rhs {
			xs = append(xs, w.calls(r)...)
		}
		for _, l := range x.Lhs {
			xs = append(xs, w.calls(l)...)
		}
		return lsSeqAll(wrapAll(xs))
	case *ast.DeclStmt, *ast.IncDecStmt, *ast.SendStmt, *ast.EmptyStmt:
		return lsSeqAll(wrapAll(w.calls(x)))
	case *ast.ReturnStmt:
		var xs []string
		for _, r := range x.Results {
			xs = append(xs, w.calls(r)...)
		}
		return lsSeqAll(append(wrapAll(xs), ".ret"))
	case *ast.BlockStmt:
		return w.block(x.List)
	case *ast.LabeledStmt:
		return w.stmt(x.Stmt)
	case *ast.IfStmt:
		init := w.stmt(x.Init)
		cond := lsSeqAll(wrapAll(w.calls(x.Cond)))
		thn := w.block(x.Body.List)
		els := ".skip"
		if x.Else != nil {
			els = w.stmt(x.Else)
		}
		return lsSeq(init, lsSeq(cond, fmt.Sprintf("(.ite %s %s)", paren(thn), paren(els))))
	case *ast.ForStmt:
		init := w.stmt(x.Init)
		cond := ".skip"
		if x.Cond != nil {
			cond = lsSeqAll(wrapAll(w.calls(x.Cond)))
		}
		body := w.block(x.Body.List)
		post := w.stmt(x.Post)
		return lsSeq(init, lsSeq(cond, fmt.Sprintf("(.loop %s)", paren(lsSeq(body, lsSeq(post, cond))))))
	case *ast.RangeStmt:
		pre := lsSeqAll(wrapAll(w.calls(x.X)))
		return lsSeq(pre, fmt.Sprintf("(.loop %s)", paren(w.block(x.Body.List))))
	case *ast.SwitchStmt, *ast.TypeSwitchStmt, *ast.SelectStmt:
		// cases as a chain of alternatives inside a loop that runs once, so that `break` leaves the switch
		var pre string = ".skip"
		var clauses []ast.Stmt
		switch y := x.(type) {
		case *ast.SwitchStmt:
			pre = lsSeq(w.stmt(y.Init), lsSeqAll(wrapAll(w.calls(y.Tag))))
			clauses = y.Body.List
		case *ast.TypeSwitchStmt:
			pre = w.stmt(y.Init)
			clauses = y.Body.List
		case *ast.SelectStmt:
			clauses = y.Body.List
		}
		hasCont := false
		ast.Inspect(x, func(n ast.Node) bool {
			switch b := n.(type) {
			case *ast.ForStmt, *ast.RangeStmt, *ast.FuncLit:
				return false
			case *ast.BranchStmt:
				if b.Tok == token.CONTINUE || b.Tok == token.GOTO || b.Tok == token.FALLTHROUGH || b.Label != nil {
					hasCont = true
				}
			}
			return true
		})
		if hasCont {
			return unsupported("continue / goto / fallthrough inside switch")
		}
		alt := ".skip"
		for i := len(clauses) - 1; i >= 0; i-- {
			var body []ast.Stmt
			var guard string = ".skip"
			switch c := clauses[i].(type) {
			case *ast.CaseClause:
				body = c.Body
				var xs []string
				for _, e := range c.List {
					xs = append(xs, w.calls(e)...)
				}
				guard = lsSeqAll(wrapAll(xs))
			case *ast.CommClause:
				body = c.Body
				if c.Comm != nil {
					guard = w.stmt(c.Comm)
				}
			}
			alt = fmt.Sprintf("(.ite %s %s)", paren(lsSeq(guard, w.block(body))), paren(alt))
		}
		return lsSeq(pre, fmt.Sprintf("(.loop %s)", paren(lsSeq(alt, ".brk"))))
	case *ast.BranchStmt:
		if x.Label != nil {
			return unsupported("labelled branch")
		}
		switch x.Tok {
		case token.BREAK:
			return ".brk"
		case token.CONTINUE:
			return ".cont"
		}
		return unsupported(x.Tok.String())
	}
	return unsupported(fmt.Sprintf("%T", st))
}

func extractBalance(repo string) (string, error) {
	var units []bunit
	recvOf := map[string]string{}
	sites := 0
	for _, file := range balanceFiles {
		if src, err := os.ReadFile(filepath.Join(repo, file)); err == nil {
			for _, pat := range []string{".Lock()", ".Unlock()", ".RLock()", ".RUnlock()"} {
				sites += strings.Count(string(src), pat)
			}
		}
		fset := token.NewFileSet()
		f, err := parser.ParseFile(fset, filepath.Join(repo, file), nil, 0)
		if err != nil {
			return "", err
		}
		for _, d := range f.Decls {
			fd, ok := d.(*ast.FuncDecl)
			if !ok || fd.Body == nil {
				continue
			}
			name := fd.Name.Name
			if fd.Recv != nil && len(fd.Recv.List) == 1 {
				name = strings.TrimPrefix(exprStr(fd.Recv.List[0].Type), "*") + "." + name
				if len(fd.Recv.List[0].Names) == 1 {
					recvOf[file+":"+name] = fd.Recv.List[0].Names[0].Name
				}
			}
			w := &bwalker{file: file, fn: name, units: &units}
			body := w.block(fd.Body.List)
			if w.ops > 0 {
				units = append(units, bunit{file + ":" + name, body, w.ops})
			}
		}
	}
	sort.SliceStable(units, func(a, b int) bool { return units[a].name < units[b].name })
	var sb strings.Builder
	sb.WriteString("/- GENERATED by /verif/extract (lock skeletons of context/, engine/, builder/, internal/base/conc_statement.go) — do not edit. -/\n")
	sb.WriteString("import GV.Race.Balance\nnamespace GV.Generated.Balance\nopen GV.Race.Balance\n\n")
	nops := 0
	var names []string
	for i, u := range units {
		sb.WriteString(fmt.Sprintf("def u%d : LS :=\n  %s\n\n", i, u.body))
		names = append(names, fmt.Sprintf("(%q, u%d)", u.name, i))
		nops += u.ops
	}
	sb.WriteString(fmt.Sprintf("def units : List (String × LS) := [\n  %s]\n\n", strings.Join(names, ",\n  ")))
	// call-graph summaries of every function of those files (also the ones without a lock
	// operation): mutexes taken directly and callees named, on the function's own thread
	// (`go` closures excluded, other function literals included)
	var sums []string
	allLocks, allCallees := map[string]bool{}, map[string]bool{}
	for _, file := range balanceFiles {
		fset := token.NewFileSet()
		f, err := parser.ParseFile(fset, filepath.Join(repo, file), nil, 0)
		if err != nil {
			return "", err
		}
		for _, d := range f.Decls {
			fd, ok := d.(*ast.FuncDecl)
			if !ok || fd.Body == nil {
				continue
			}
			name := fd.Name.Name
			if fd.Recv != nil && len(fd.Recv.List) == 1 {
				name = strings.TrimPrefix(exprStr(fd.Recv.List[0].Type), "*") + "." + name
			}
			tk, cs := map[string]bool{}, map[string]bool{}
			var visit func(n ast.Node)
			visit = func(n ast.Node) {
				ast.Inspect(n, func(x ast.Node) bool {
					switch y := x.(type) {
					case *ast.GoStmt:
						for _, a := range y.Call.Args {
							visit(a)
						}
						if _, ok := y.Call.Fun.(*ast.FuncLit); ok {
							return false
						}
						cs[exprStr(y.Call.Fun)] = true
						return false
					case *ast.CallExpr:
						if op, l := lockOp(y); op == "lock" {
							tk[l] = true
						} else if op == "" {
							if n := exprStr(y.Fun); n != "" {
								cs[n] = true
							}
						}
					}
					return true
				})
			}
			visit(fd.Body)
			q := func(m map[string]bool) string {
				var l []string
				for k := range m {
					l = append(l, fmt.Sprintf("%q", k))
				}
				sort.Strings(l)
				return "[" + strings.Join(l, ", ") + "]"
			}
			recv := ""
			if fd.Recv != nil && len(fd.Recv.List) == 1 && len(fd.Recv.List[0].Names) == 1 {
				recv = fd.Recv.List[0].Names[0].Name
			}
			typ, meth := "", name
			if k := strings.Index(name, "."); k >= 0 {
				typ, meth = name[:k], name[k+1:]
			}
			for k := range tk {
				allLocks[k] = true
			}
			for k := range cs {
				allCallees[k] = true
			}
			sums = append(sums, fmt.Sprintf("⟨%q, %q, %q, %q, %s, %s⟩", file+":"+name, typ, meth, recv, q(tk), q(cs)))
		}
	}
	sort.Strings(sums)
	sb.WriteString("structure Summary where\n  name : String\n  typ : String\n  method : String\n  recv : String\n  takes : List String\n  callees : List String\nderiving Repr, DecidableEq\n\n")
	sb.WriteString(fmt.Sprintf("def summaries : List Summary := [\n  %s]\n\n", strings.Join(sums, ",\n  ")))
	// dotted names split into components, so that the Lean side needs no string surgery
	var cc, lf, ub []string
	for k := range allCallees {
		var comps []string
		for _, c := range strings.Split(k, ".") {
			comps = append(comps, fmt.Sprintf("%q", c))
		}
		cc = append(cc, fmt.Sprintf("(%q, [%s])", k, strings.Join(comps, ", ")))
	}
	sort.Strings(cc)
	sb.WriteString(fmt.Sprintf("def calleeComps : List (String × List String) := [\n  %s]\n\n", strings.Join(cc, ",\n  ")))
	for k := range allLocks {
		f := k
		if i := strings.LastIndex(k, "."); i >= 0 {
			f = k[i+1:]
		}
		lf = append(lf, fmt.Sprintf("(%q, %q)", k, f))
	}
	sort.Strings(lf)
	sb.WriteString(fmt.Sprintf("/-- mutex expression ↦ field (or variable) name -/\ndef lockField : List (String × String) := [%s]\n\n", strings.Join(lf, ", ")))
	for _, u := range units {
		base := u.name
		if k := strings.Index(base, "$"); k >= 0 {
			base = base[:k]
		}
		ub = append(ub, fmt.Sprintf("(%q, %q)", u.name, base))
	}
	sb.WriteString(fmt.Sprintf("/-- unit ↦ the function it is (part of) -/\ndef unitBase : List (String × String) := [\n  %s]\n\n", strings.Join(ub, ",\n  ")))
	var rs []string
	for _, u := range units {
		base := u.name
		if k := strings.Index(base, "$"); k >= 0 {
			base = base[:k]
		}
		rs = append(rs, fmt.Sprintf("(%q, %q)", u.name, recvOf[base]))
	}
	sb.WriteString(fmt.Sprintf("/-- the receiver variable of each unit's enclosing method (\"\" for a plain function) -/\ndef receivers : List (String × String) := [\n  %s]\n\n", strings.Join(rs, ",\n  ")))
	sb.WriteString(fmt.Sprintf("/-- lock / unlock operations translated -/\ndef lockOps : Nat := %d\n\n", nops))
	sb.WriteString(fmt.Sprintf("/-- textual occurrences of .Lock() / .Unlock() / .RLock() / .RUnlock() in those files -/\ndef lockSites : Nat := %d\n\n", sites))
	sb.WriteString("end GV.Generated.Balance\n")
	return sb.String(), nil
}
