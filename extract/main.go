package main

// /verif/extract: reads /repo's current working tree and regenerates lean/GV/Generated/*.lean
// (tie T1).  Files are rewritten only when their content changes so that lake does not
// rebuild needlessly.

import (
	"flag"
	"fmt"
	"os"
	"path/filepath"
)

func writeIfChanged(path, content string) (bool, error) {
	old, err := os.ReadFile(path)
	if err == nil && string(old) == content {
		return false, nil
	}
	if err := os.MkdirAll(filepath.Dir(path), 0o755); err != nil {
		return false, err
	}
	return true, os.WriteFile(path, []byte(content), 0o644)
}

func main() {
	repo := flag.String("repo", "/repo", "repository root")
	out := flag.String("out", "/verif/lean/GV/Generated", "output directory")
	flag.Parse()
	type gen struct {
		file string
		fn   func(string) (string, error)
	}
	gens := []gen{
		{"Orch.lean", extractOrch},
		{"fingerprints.json", extractFingerprints},
		{"Facts.lean", extractFacts},
		{"Compile.lean", extractCompile},
		{"Pool.lean", extractPool},
		{"Locks.lean", extractLocks},
		{"Math.lean", extractMath},
		{"Grammar.lean", extractGrammar},
		{"Lexer.lean", extractLexer},
		{"Balance.lean", extractBalance},
		{"Conc.lean", extractConc},
		{"Listener.lean", extractListener},
		{"Cmp.lean", extractCmp},
	}
	for _, g := range gens {
		s, err := g.fn(*repo)
		if err != nil {
			fmt.Fprintf(os.Stderr, "extract %s: %v\n", g.file, err)
			os.Exit(2)
		}
		ch, err := writeIfChanged(filepath.Join(*out, g.file), s)
		if err != nil {
			fmt.Fprintf(os.Stderr, "write %s: %v\n", g.file, err)
			os.Exit(2)
		}
		fmt.Printf("%s changed=%v\n", g.file, ch)
	}
}
