package main

// Facts the evaluator model is parametrised by: recover() sites, the loop cut-off constant,
// distinctness of the break / continue sentinels.  Written to lean/GV/Generated/Facts.lean.

import (
	"fmt"
	"go/ast"
	"go/parser"
	"go/token"
	"os"
	"path/filepath"
	"sort"
	"strings"
)

func hasRecover(fd *ast.FuncDecl) bool {
	if fd.Body == nil || fd.Type.Results == nil {
		return false
	}
	// named error result
	named := map[string]bool{}
	for _, r := range fd.Type.Results.List {
		for _, n := range r.Names {
			named[n.Name] = true
		}
	}
	for k, st := range fd.Body.List {
		// the recover must be installed before anything else runs: only the first statement counts
		if k > 0 {
			break
		}
		ds, ok := st.(*ast.DeferStmt)
		if !ok {
			continue
		}
		fl, ok := ds.Call.Fun.(*ast.FuncLit)
		if !ok {
			continue
		}
		rec, assigns := false, false
		ast.Inspect(fl, func(n ast.Node) bool {
			switch x := n.(type) {
			case *ast.CallExpr:
				if id, ok := x.Fun.(*ast.Ident); ok && id.Name == "recover" {
					rec = true
				}
			case *ast.AssignStmt:
				for _, l := range x.Lhs {
					if id, ok := l.(*ast.Ident); ok && named[id.Name] {
						assigns = true
					}
				}
			}
			return true
		})
		if rec && assigns {
			return true
		}
	}
	return false
}

func extractFacts(repo string) (string, error) {
	fset := token.NewFileSet()
	pkgs, err := parser.ParseDir(fset, filepath.Join(repo, "internal/base"), func(fi os.FileInfo) bool {
		return !strings.HasSuffix(fi.Name(), "_test.go")
	}, 0)
	if err != nil {
		return "", err
	}
	var sites []string
	maxExec := "0"
	sentinels := map[string]string{}
	for _, pkg := range pkgs {
		for _, f := range pkg.Files {
			for _, d := range f.Decls {
				switch x := d.(type) {
				case *ast.FuncDecl:
					if x.Recv != nil && len(x.Recv.List) == 1 && hasRecover(x) {
						sites = append(sites, strings.TrimPrefix(src(x.Recv.List[0].Type, fset), "*")+"."+x.Name.Name)
					}
				case *ast.GenDecl:
					for _, sp := range x.Specs {
						vs, ok := sp.(*ast.ValueSpec)
						if !ok {
							continue
						}
						for i, n := range vs.Names {
							if n.Name == "maxExecuteNum" && i < len(vs.Values) {
								maxExec = src(vs.Values[i], fset)
							}
							if (n.Name == "BREAKFLAG" || n.Name == "CONTINUEFLAG") && i < len(vs.Values) {
								sentinels[n.Name] = src(vs.Values[i], fset)
							}
						}
					}
				}
			}
		}
	}
	sort.Strings(sites)
	// C15: where the rule-local table comes from and who gets hold of it
	localsArg := "?"
	stores := map[string]bool{}
	passed := map[string]bool{}
	nodeWrites := map[string]bool{}
	scan := func(dir string) error {
		ps, err := parser.ParseDir(fset, filepath.Join(repo, dir), func(fi os.FileInfo) bool {
			return !strings.HasSuffix(fi.Name(), "_test.go")
		}, 0)
		if err != nil {
			return err
		}
		for _, pkg := range ps {
			for _, f := range pkg.Files {
				for _, d := range f.Decls {
					fd, ok := d.(*ast.FuncDecl)
					if !ok || fd.Body == nil {
						continue
					}
					fname := fd.Name.Name
					if fd.Recv != nil && len(fd.Recv.List) == 1 {
						fname = strings.TrimPrefix(src(fd.Recv.List[0].Type, fset), "*") + "." + fname
					}
					if fname == "RuleEntity.Execute" {
						ast.Inspect(fd.Body, func(n ast.Node) bool {
							if c, ok := n.(*ast.CallExpr); ok && strings.HasSuffix(src(c.Fun, fset), "RuleContent.Execute") && len(c.Args) == 2 {
								localsArg = src(c.Args[1], fset)
							}
							return true
						})
					}
					// writes of a method other than the parser's Accept* setters to its own node (the rule tree is shared by
					// every execution, sequential or concurrent, of every engine instance)
					if dir == "internal/base" && fd.Recv != nil && len(fd.Recv.List) == 1 && len(fd.Recv.List[0].Names) == 1 &&
						!strings.HasPrefix(fd.Name.Name, "Accept") {
						rn := fd.Recv.List[0].Names[0].Name
						rooted := func(e ast.Expr) bool {
							for {
								switch x := e.(type) {
								case *ast.SelectorExpr:
									e = x.X
								case *ast.IndexExpr:
									e = x.X
								case *ast.StarExpr:
									e = x.X
								case *ast.ParenExpr:
									e = x.X
								case *ast.Ident:
									return x.Name == rn
								default:
									return false
								}
							}
						}
						ast.Inspect(fd.Body, func(n ast.Node) bool {
							switch x := n.(type) {
							case *ast.AssignStmt:
								for _, l := range x.Lhs {
									if _, plain := l.(*ast.Ident); !plain && rooted(l) {
										nodeWrites[fname+": "+src(l, fset)+" "+x.Tok.String()] = true
									}
								}
							case *ast.IncDecStmt:
								if _, plain := x.X.(*ast.Ident); !plain && rooted(x.X) {
									nodeWrites[fname+": "+src(x.X, fset)+x.Tok.String()] = true
								}
							}
							return true
						})
					}
					isVars := func(e ast.Expr) bool {
						id, ok := e.(*ast.Ident)
						return ok && id.Name == "Vars"
					}
					ast.Inspect(fd.Body, func(n ast.Node) bool {
						switch x := n.(type) {
						case *ast.AssignStmt:
							for i, r := range x.Rhs {
								if isVars(r) && i < len(x.Lhs) {
									if _, local := x.Lhs[i].(*ast.Ident); !local || x.Tok == token.ASSIGN {
										stores[fname+": "+src(x.Lhs[i], fset)+" = Vars"] = true
									}
								}
							}
						case *ast.KeyValueExpr:
							if isVars(x.Value) {
								stores[fname+": field "+src(x.Key, fset)+": Vars"] = true
							}
						case *ast.CallExpr:
							for _, a := range x.Args {
								if isVars(a) {
									callee := src(x.Fun, fset)
									if k := strings.LastIndex(callee, "."); k >= 0 {
										callee = callee[k+1:]
									}
									passed[callee] = true
								}
							}
						}
						return true
					})
				}
			}
		}
		return nil
	}
	for _, d := range []string{"internal/base", "context"} {
		if err := scan(d); err != nil {
			return "", err
		}
	}
	keys := func(m map[string]bool) []string {
		var l []string
		for k := range m {
			l = append(l, k)
		}
		sort.Strings(l)
		return l
	}
	// both sentinels must be created by their own errors.New call (distinct pointers)
	distinct := strings.HasPrefix(sentinels["BREAKFLAG"], "errors.New(") && strings.HasPrefix(sentinels["CONTINUEFLAG"], "errors.New(")
	var b strings.Builder
	b.WriteString("/- GENERATED by /verif/extract from /repo/internal/base — do not edit. -/\nnamespace GV.Generated.Facts\n\n")
	fmt.Fprintf(&b, "def maxExecuteNum : Nat := %s\n\n", maxExec)
	b.WriteString("/-- methods that install `defer func(){ if e := recover(); e != nil { err = … } }()` -/\ndef recoverSites : List String := [")
	for i, s := range sites {
		if i > 0 {
			b.WriteString(", ")
		}
		b.WriteString(leanStr(s))
	}
	b.WriteString("]\n\n")
	fmt.Fprintf(&b, "def sentinelsDistinct : Bool := %v\n\n", distinct)
	fmt.Fprintf(&b, "/-- the rule-local table RuleEntity.Execute hands to the rule's statements -/\ndef localsArg : String := %s\n\n", leanStr(localsArg))
	b.WriteString("/-- places in internal/base and context that keep a reference to the rule-local table (a field, a package variable, a composite literal) -/\ndef varsStores : List String := [")
	for i, s := range keys(stores) {
		if i > 0 {
			b.WriteString(", ")
		}
		b.WriteString(leanStr(s))
	}
	b.WriteString("]\n\n/-- functions (last name component) the rule-local table is passed to -/\ndef varsPassedTo : List String := [")
	for i, s := range keys(passed) {
		if i > 0 {
			b.WriteString(", ")
		}
		b.WriteString(leanStr(s))
	}
	b.WriteString("]\n\n/-- assignments of a method of internal/base, other than the parse-time Accept* setters, to a field of its own node -/\ndef nodeWrites : List String := [")
	for i, s := range keys(nodeWrites) {
		if i > 0 {
			b.WriteString(", ")
		}
		b.WriteString(leanStr(s))
	}
	b.WriteString("]\n\nend GV.Generated.Facts\n")
	return b.String(), nil
}
