package main

// Lock table (C19): for every access to a piece of gengine's own shared state the set of
// mutexes the accessing function holds at that point (syntactic lock-region analysis: X.Lock()
// … X.Unlock(), defer X.Unlock(); a `go func` body starts with no lock held).
// Written to lean/GV/Generated/Locks.lean and judged by GV.Props.C19.

import (
	"fmt"
	"go/ast"
	"go/parser"
	"go/token"
	"path/filepath"
	"sort"
	"strings"
)

type lockRow struct {
	loc, fn string
	held    []string
	write   bool
}

// tracked locations: (file, pattern on the access expression) -> location name
type trackSpec struct {
	file string
	pat  string // substring of exprStr of a selector / index expression
	loc  string
}

var tracked = []trackSpec{
	{"engine/gengine_pool.go", "gp.freeGengines", "pool.freeGengines"},
	{"engine/gengine_pool.go", "gp.additionGengines", "pool.additionGengines"},
	{"engine/gengine_pool.go", "gp.clear", "pool.clear"},
	{"engine/gengine_pool.go", "gp.execModel", "pool.execModel"},
	{"engine/gengine_pool.go", "gp.ruleBuilder", "pool.ruleBuilder"},
	{"engine/gengine_pool.go", "gp.rbSlice", "pool.rbSlice"},
	{"engine/gengine.go", "g.returnResult", "engine.returnResult"},
	{"context/data_context.go", "dc.base", "dc.base"},
	{"context/data_context.go", "Vars", "dc.Vars"},
	{"builder/rule_builder.go", "builder.Kc", "builder.Kc"},
}

type lwalker struct {
	file string
	fn   string
	rows *[]lockRow
}

func lockOp(c *ast.CallExpr) (string, string) {
	se, ok := c.Fun.(*ast.SelectorExpr)
	if !ok {
		return "", ""
	}
	switch se.Sel.Name {
	case "Lock", "RLock":
		return "lock", exprStr(se.X)
	case "Unlock", "RUnlock":
		return "unlock", exprStr(se.X)
	}
	return "", ""
}

func copySet(s map[string]bool) map[string]bool {
	n := map[string]bool{}
	for k, v := range s {
		if v {
			n[k] = true
		}
	}
	return n
}

func setList(s map[string]bool) []string {
	var l []string
	for k, v := range s {
		if v {
			l = append(l, k)
		}
	}
	sort.Strings(l)
	return l
}

func (w *lwalker) record(e ast.Expr, held map[string]bool, write bool) {
	s := exprStr(e)
	for _, t := range tracked {
		if t.file != w.file {
			continue
		}
		match := s == t.pat || strings.HasPrefix(s, t.pat+".") || strings.HasPrefix(s, t.pat+"[")
		if match {
			*w.rows = append(*w.rows, lockRow{t.loc, w.fn, setList(held), write})
			return
		}
	}
}

// visit expressions for reads
func (w *lwalker) reads(n ast.Node, held map[string]bool) {
	if n == nil {
		return
	}
	ast.Inspect(n, func(x ast.Node) bool {
		switch e := x.(type) {
		case *ast.FuncLit:
			// a closure: `go func` / deferred function bodies are walked by the statement visitor
			return false
		case *ast.SelectorExpr:
			w.record(e, held, false)
			// do not descend into the selector's own prefix twice
			return false
		case *ast.IndexExpr:
			w.record(e, held, false)
			w.reads(e.Index, held)
			return false
		}
		return true
	})
}

func (w *lwalker) block(list []ast.Stmt, held map[string]bool) {
	for _, st := range list {
		w.stmt(st, held)
	}
}

func (w *lwalker) stmt(st ast.Stmt, held map[string]bool) {
	switch x := st.(type) {
	case *ast.ExprStmt:
		if c, ok := x.X.(*ast.CallExpr); ok {
			if op, l := lockOp(c); op == "lock" {
				held[l] = true
				return
			} else if op == "unlock" {
				held[l] = false
				return
			}
			if fl, ok := c.Fun.(*ast.FuncLit); ok {
				w.block(fl.Body.List, copySet(held))
				return
			}
		}
		w.reads(x.X, held)
	case *ast.DeferStmt:
		if op, _ := lockOp(x.Call); op == "unlock" {
			return // held until the function returns
		}
		if fl, ok := x.Call.Fun.(*ast.FuncLit); ok {
			// runs at return: locks released by then are unknown; analyse with the defer-held ones only
			w.block(fl.Body.List, copySet(held))
			return
		}
		w.reads(x.Call, held)
	case *ast.GoStmt:
		if fl, ok := x.Call.Fun.(*ast.FuncLit); ok {
			w.block(fl.Body.List, map[string]bool{})
			return
		}
		w.reads(x.Call, map[string]bool{})
	case *ast.AssignStmt:
		for _, r := range x.Rhs {
			if fl, ok := r.(*ast.FuncLit); ok {
				w.block(fl.Body.List, copySet(held))
			} else {
				w.reads(r, held)
			}
		}
		for _, l := range x.Lhs {
			switch le := l.(type) {
			case *ast.SelectorExpr:
				w.record(le, held, true)
			case *ast.IndexExpr:
				w.record(le, held, true)
				w.reads(le.Index, held)
			}
		}
	case *ast.IfStmt:
		if x.Init != nil {
			w.stmt(x.Init, held)
		}
		w.reads(x.Cond, held)
		w.block(x.Body.List, copySet(held))
		if x.Else != nil {
			w.stmt(x.Else, copySet(held))
		}
	case *ast.ForStmt:
		if x.Init != nil {
			w.stmt(x.Init, held)
		}
		if x.Cond != nil {
			w.reads(x.Cond, held)
		}
		// locks taken and released inside one iteration are balanced in this code base
		w.block(x.Body.List, held)
	case *ast.RangeStmt:
		w.reads(x.X, held)
		w.block(x.Body.List, copySet(held))
	case *ast.BlockStmt:
		w.block(x.List, held)
	case *ast.ReturnStmt:
		for _, r := range x.Results {
			w.reads(r, held)
		}
	case *ast.SwitchStmt:
		if x.Tag != nil {
			w.reads(x.Tag, held)
		}
		for _, c := range x.Body.List {
			if cc, ok := c.(*ast.CaseClause); ok {
				w.block(cc.Body, copySet(held))
			}
		}
	case *ast.DeclStmt, *ast.IncDecStmt, *ast.BranchStmt, *ast.EmptyStmt:
	default:
	}
}

func extractLocks(repo string) (string, error) {
	fset := token.NewFileSet()
	var rows []lockRow
	files := map[string]bool{}
	for _, t := range tracked {
		files[t.file] = true
	}
	var fl []string
	for f := range files {
		fl = append(fl, f)
	}
	sort.Strings(fl)
	for _, file := range fl {
		f, err := parser.ParseFile(fset, filepath.Join(repo, file), nil, 0)
		if err != nil {
			return "", err
		}
		for _, d := range f.Decls {
			fd, ok := d.(*ast.FuncDecl)
			if !ok || fd.Body == nil {
				continue
			}
			w := &lwalker{file: file, fn: fd.Name.Name, rows: &rows}
			w.block(fd.Body.List, map[string]bool{})
		}
	}
	// aggregate: one row per (location, function, lockset, write)
	type key struct {
		loc, fn, held string
		write         bool
	}
	seen := map[key]bool{}
	var out []lockRow
	for _, r := range rows {
		k := key{r.loc, r.fn, strings.Join(r.held, ","), r.write}
		if !seen[k] {
			seen[k] = true
			out = append(out, r)
		}
	}
	sort.Slice(out, func(a, b int) bool {
		if out[a].loc != out[b].loc {
			return out[a].loc < out[b].loc
		}
		if out[a].fn != out[b].fn {
			return out[a].fn < out[b].fn
		}
		if out[a].write != out[b].write {
			return !out[a].write
		}
		return strings.Join(out[a].held, ",") < strings.Join(out[b].held, ",")
	})
	var sb strings.Builder
	sb.WriteString("/- GENERATED by /verif/extract (lock-region analysis of engine/, context/, builder/) — do not edit. -/\n")
	sb.WriteString("namespace GV.Generated.Locks\n\n")
	sb.WriteString("structure Access where\n  loc   : String\n  fn    : String\n  held  : List String\n  write : Bool\nderiving Repr, DecidableEq\n\n")
	sb.WriteString("def accesses : List Access := [\n")
	for i, r := range out {
		var hs []string
		for _, h := range r.held {
			hs = append(hs, fmt.Sprintf("%q", h))
		}
		sep := ","
		if i == len(out)-1 {
			sep = ""
		}
		sb.WriteString(fmt.Sprintf("  ⟨%q, %q, [%s], %v⟩%s\n", r.loc, r.fn, strings.Join(hs, ", "), r.write, sep))
	}
	sb.WriteString("]\n\nend GV.Generated.Locks\n")
	return sb.String(), nil
}
