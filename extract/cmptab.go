package main

// The comparison block of Expression.Evaluate as data (C01): per operand class the operator
// table, the float three-way switch, and compareIntegers / toFloat64 / the kind predicates as
// normalised case lists.  Written to lean/GV/Generated/Cmp.lean.

import (
	"fmt"
	"go/ast"
	"go/parser"
	"go/token"
	"path/filepath"
	"strconv"
	"strings"
)

// evalPred evaluates a predicate over the integer variable c (==, !=, ||, &&, unary -, literals)
func evalPred(e ast.Expr, c int) (bool, bool) {
	var num func(e ast.Expr) (int, bool)
	num = func(e ast.Expr) (int, bool) {
		switch x := e.(type) {
		case *ast.BasicLit:
			n, err := strconv.Atoi(x.Value)
			return n, err == nil
		case *ast.Ident:
			if x.Name == "c" {
				return c, true
			}
		case *ast.UnaryExpr:
			if x.Op == token.SUB {
				n, ok := num(x.X)
				return -n, ok
			}
		case *ast.ParenExpr:
			return num(x.X)
		}
		return 0, false
	}
	switch x := e.(type) {
	case *ast.ParenExpr:
		return evalPred(x.X, c)
	case *ast.BinaryExpr:
		switch x.Op {
		case token.LOR, token.LAND:
			a, ok1 := evalPred(x.X, c)
			b, ok2 := evalPred(x.Y, c)
			if x.Op == token.LOR {
				return a || b, ok1 && ok2
			}
			return a && b, ok1 && ok2
		case token.EQL, token.NEQ:
			a, ok1 := num(x.X)
			b, ok2 := num(x.Y)
			if x.Op == token.EQL {
				return a == b, ok1 && ok2
			}
			return a != b, ok1 && ok2
		}
	}
	return false, false
}

// the single argument of reflect.ValueOf(…) assigned to b in a case body
func caseValue(body []ast.Stmt) ast.Expr {
	for _, st := range body {
		as, ok := st.(*ast.AssignStmt)
		if !ok || len(as.Lhs) != 1 || len(as.Rhs) != 1 || exprStr(as.Lhs[0]) != "b" {
			continue
		}
		if c, ok := as.Rhs[0].(*ast.CallExpr); ok && exprStr(c.Fun) == "reflect.ValueOf" && len(c.Args) == 1 {
			return c.Args[0]
		}
	}
	return nil
}

func extractCmp(repo string) (string, error) {
	fset := token.NewFileSet()
	f, err := parser.ParseFile(fset, filepath.Join(repo, "internal/base/expression.go"), nil, 0)
	if err != nil {
		return "", err
	}
	var strT, numT, boolT, flt3, helpers, logic []string
	classOf := func(sw *ast.SwitchStmt, guard string) string {
		switch {
		case strings.Contains(guard, "reflect.String"):
			return "str"
		case strings.Contains(guard, "reflect.Bool"):
			return "bool"
		case strings.Contains(guard, "TypeMap"):
			return "num"
		}
		return "?"
	}
	for _, d := range f.Decls {
		fd, ok := d.(*ast.FuncDecl)
		if !ok || fd.Body == nil {
			continue
		}
		switch fd.Name.Name {
		case "Evaluate":
			if fd.Recv == nil || !strings.Contains(exprStr(fd.Recv.List[0].Type), "Expression") {
				continue
			}
			// every `switch e.ComparisonOperator` with the guard of the nearest enclosing if
			var walk func(n ast.Node, guard string)
			walk = func(n ast.Node, guard string) {
				ast.Inspect(n, func(x ast.Node) bool {
					switch y := x.(type) {
					case *ast.AssignStmt:
						l := nodeSrc(fset, y)
						if strings.HasPrefix(l, "ll, rr :=") || strings.HasPrefix(l, "c = compareIntegers") {
							helpers = append(helpers, fmt.Sprintf("%q", "dispatch: "+l))
						}
					case *ast.IfStmt:
						if c := nodeSrc(fset, y.Cond); strings.Contains(c, "isFloatType") {
							helpers = append(helpers, fmt.Sprintf("%q", "dispatch: if "+c))
						}
						g := nodeSrc(fset, y.Cond)
						if y.Init != nil {
							g = nodeSrc(fset, y.Init) + "; " + g
						}
						if y.Init != nil {
							walk(y.Init, guard)
						}
						ng := guard
						if strings.Contains(g, "reflect.String") || strings.Contains(g, "reflect.Bool") || strings.Contains(g, "TypeMap") {
							ng = g
						}
						walk(y.Body, ng)
						if y.Else != nil {
							walk(y.Else, guard)
						}
						return false
					case *ast.SwitchStmt:
						if y.Tag != nil && exprStr(y.Tag) == "e.ComparisonOperator" {
							cls := classOf(y, guard)
							for _, cl := range y.Body.List {
								cc, ok := cl.(*ast.CaseClause)
								if !ok || len(cc.List) != 1 {
									continue
								}
								op := strings.Trim(nodeSrc(fset, cc.List[0]), "\"")
								v := caseValue(cc.Body)
								if v == nil {
									continue
								}
								switch cls {
								case "num":
									var acc []string
									good := true
									for _, c := range []int{-1, 0, 1, 2} {
										b, ok := evalPred(v, c)
										good = good && ok
										if b {
											acc = append(acc, strconv.Itoa(c))
										}
									}
									if !good {
										acc = []string{"99"}
									}
									numT = append(numT, fmt.Sprintf("(%q, [%s])", op, strings.Join(acc, ", ")))
								case "str":
									if be, ok := v.(*ast.BinaryExpr); ok && nodeSrc(fset, be.X) == "flv.String()" && nodeSrc(fset, be.Y) == "frv.String()" {
										strT = append(strT, fmt.Sprintf("(%q, %q)", op, be.Op.String()))
									} else {
										strT = append(strT, fmt.Sprintf("(%q, %q)", op, "?"+nodeSrc(fset, v)))
									}
								case "bool":
									if be, ok := v.(*ast.BinaryExpr); ok && nodeSrc(fset, be.X) == "flv.Bool()" && nodeSrc(fset, be.Y) == "frv.Bool()" {
										boolT = append(boolT, fmt.Sprintf("(%q, %q)", op, be.Op.String()))
									} else {
										boolT = append(boolT, fmt.Sprintf("(%q, %q)", op, "?"+nodeSrc(fset, v)))
									}
								default:
									numT = append(numT, fmt.Sprintf("(%q, [98])", op))
								}
							}
							return false
						}
						if y.Tag == nil {
							// the float three-way switch: case <cond>: c = k
							var rows []string
							isF := false
							for _, cl := range y.Body.List {
								cc, ok := cl.(*ast.CaseClause)
								if !ok || len(cc.Body) != 1 {
									continue
								}
								as, ok := cc.Body[0].(*ast.AssignStmt)
								if !ok || exprStr(as.Lhs[0]) != "c" {
									continue
								}
								cond := "default"
								if len(cc.List) == 1 {
									cond = nodeSrc(fset, cc.List[0])
									isF = isF || strings.Contains(cond, "ll")
								}
								rows = append(rows, fmt.Sprintf("(%q, %q)", cond, nodeSrc(fset, as.Rhs[0])))
							}
							if isF {
								flt3 = append(flt3, rows...)
							}
						}
					}
					return true
				})
			}
			walk(fd.Body, "")
			// the logical-operator block, one normalised statement each (errors' texts elided)
			for _, st := range fd.Body.List {
				is, ok := st.(*ast.IfStmt)
				if !ok || nodeSrc(fset, is.Cond) != "e.LogicalOperator != \"\"" {
					continue
				}
				for _, in := range is.Body.List {
					t := nodeSrc(fset, in)
					if k := strings.Index(t, "errors.New("); k >= 0 {
						t = t[:k] + "errors.New(…) }"
					}
					logic = append(logic, fmt.Sprintf("%q", t))
				}
			}
		case "compareIntegers", "toFloat64", "isFloatType", "isUintType":
			// normalised statements of the helper, one string per top-level statement / case
			for _, st := range fd.Body.List {
				if sw, ok := st.(*ast.SwitchStmt); ok {
					for _, cl := range sw.Body.List {
						helpers = append(helpers, fmt.Sprintf("%q", fd.Name.Name+": "+nodeSrc(fset, cl)))
					}
					continue
				}
				helpers = append(helpers, fmt.Sprintf("%q", fd.Name.Name+": "+nodeSrc(fset, st)))
			}
		}
	}
	var sb strings.Builder
	sb.WriteString("/- GENERATED by /verif/extract from internal/base/expression.go — do not edit. -/\n")
	sb.WriteString("import GV.Eval.CmpIR\nnamespace GV.Generated.Cmp\nopen GV.Eval.CmpIR\n\n")
	sb.WriteString("def tables : CmpTables := {\n")
	sb.WriteString("  str := [" + strings.Join(strT, ", ") + "],\n")
	sb.WriteString("  num := [" + strings.Join(numT, ", ") + "],\n")
	sb.WriteString("  bool := [" + strings.Join(boolT, ", ") + "],\n")
	sb.WriteString("  flt3 := [" + strings.Join(flt3, ", ") + "],\n")
	sb.WriteString("  logic := [\n    " + strings.Join(logic, ",\n    ") + "],\n")
	sb.WriteString("  helpers := [\n    " + strings.Join(helpers, ",\n    ") + "] }\n\n")
	sb.WriteString("end GV.Generated.Cmp\n")
	return sb.String(), nil
}
