package main

// Staleness fingerprints for hand-modelled functions: SHA-256 of the comment-free go/printer
// rendering of every function/method declaration of the modelled packages.  A changed
// fingerprint does not decide anything; it makes the check search harder (more cases) around
// a model that may have become stale.

import (
	"bytes"
	"crypto/sha256"
	"encoding/hex"
	"encoding/json"
	"go/ast"
	"go/parser"
	"go/printer"
	"go/token"
	"os"
	"path/filepath"
	"sort"
	"strings"
)

var fingerprintDirs = []string{"builder", "context", "engine", "internal/base", "internal/core", "internal/tool", "internal/iparser", "internal/iter"}

func extractFingerprints(repo string) (string, error) {
	out := map[string]string{}
	for _, d := range fingerprintDirs {
		fset := token.NewFileSet()
		pkgs, err := parser.ParseDir(fset, filepath.Join(repo, d), func(fi os.FileInfo) bool {
			return !strings.HasSuffix(fi.Name(), "_test.go") && !strings.HasPrefix(fi.Name(), "verif_")
		}, 0)
		if err != nil {
			return "", err
		}
		for _, pkg := range pkgs {
			for _, f := range pkg.Files {
				for _, decl := range f.Decls {
					fd, ok := decl.(*ast.FuncDecl)
					if !ok {
						continue
					}
					name := fd.Name.Name
					if fd.Recv != nil && len(fd.Recv.List) == 1 {
						var b bytes.Buffer
						printer.Fprint(&b, fset, fd.Recv.List[0].Type)
						name = strings.TrimPrefix(b.String(), "*") + "." + name
					}
					var b bytes.Buffer
					printer.Fprint(&b, fset, fd)
					h := sha256.Sum256(b.Bytes())
					out[d+":"+name] = hex.EncodeToString(h[:8])
				}
			}
		}
	}
	// the generated lexer / parser (serialised ATN included) and the grammar file, as whole files
	for _, f := range []string{"internal/iantlr/alr/gengine_parser.go", "internal/iantlr/alr/gengine_lexer.go", "internal/iantlr/gengine.g4"} {
		b, err := os.ReadFile(filepath.Join(repo, f))
		if err != nil {
			return "", err
		}
		h := sha256.Sum256(b)
		out["internal/iantlr:file:"+filepath.Base(f)] = hex.EncodeToString(h[:8])
	}
	keys := make([]string, 0, len(out))
	for k := range out {
		keys = append(keys, k)
	}
	sort.Strings(keys)
	ordered := make([][2]string, 0, len(keys))
	for _, k := range keys {
		ordered = append(ordered, [2]string{k, out[k]})
	}
	b, _ := json.MarshalIndent(ordered, "", " ")
	return string(b) + "\n", nil
}
