package main

// Orchestration skeleton extractor: engine/gengine.go -> lean/GV/Generated/Orch.lean
//
// Each `func (g *Gengine) Execute*(...) error` is normalised into a flat list of guarded
// statements of the IR defined in lean/GV/Orch/Skel.lean.  Anything that is not recognised
// becomes `Stmt.unknown "<source>"`, which the Lean semantics turns into `panicked`, so that
// no theorem about the method can be proved: unrecognised code fails closed.

import (
	"bytes"
	"fmt"
	"go/ast"
	"go/parser"
	"go/printer"
	"go/token"
	"sort"
	"strings"
)

type orchCtx struct {
	fset   *token.FileSet
	nName  string            // first int parameter
	mName  string            // second int parameter
	bName  string            // bool parameter
	names  string            // []string parameter
	dagNm  string            // [][]string parameter
	stag   string            // *Stag parameter
	rb     string            // *builder.RuleBuilder parameter
	recv   string            // receiver name
	srcOf  map[string]string // local slice variable -> "Src.x" (whole list alias)
	winOf  map[string][2]string
	lenOf  map[string]string // local int variable -> Src whose length it holds
	selVar string            // the local `rules` built by selection
	lastErr string           // error variable of the most recent single execution
	out    []string
}

func src(n ast.Node, fset *token.FileSet) string {
	var b bytes.Buffer
	printer.Fprint(&b, fset, n)
	s := strings.Join(strings.Fields(b.String()), " ")
	if len(s) > 160 {
		s = s[:160]
	}
	return s
}

func leanStr(s string) string {
	s = strings.ReplaceAll(s, "\\", "\\\\")
	s = strings.ReplaceAll(s, "\"", "\\\"")
	return "\"" + s + "\""
}

func isIdent(e ast.Expr, name string) bool {
	id, ok := e.(*ast.Ident)
	return ok && id.Name == name
}

func selPath(e ast.Expr) string {
	switch x := e.(type) {
	case *ast.Ident:
		return x.Name
	case *ast.SelectorExpr:
		p := selPath(x.X)
		if p == "" {
			return ""
		}
		return p + "." + x.Sel.Name
	case *ast.ParenExpr:
		return selPath(x.X)
	}
	return ""
}

// srcExpr: expression denoting a whole rule list.
func (c *orchCtx) srcExpr(e ast.Expr) (string, bool) {
	p := selPath(e)
	switch p {
	case c.rb + ".Kc.SortRules":
		return ".sortRules", true
	case c.rb + ".Kc.RuleEntities":
		return ".entities", true
	}
	if id, ok := e.(*ast.Ident); ok {
		if s, ok := c.srcOf[id.Name]; ok {
			return s, true
		}
	}
	return "", false
}

func intLit(e ast.Expr) (int, bool) {
	if p, ok := e.(*ast.ParenExpr); ok {
		return intLit(p.X)
	}
	if b, ok := e.(*ast.BasicLit); ok && b.Kind == token.INT {
		var v int
		fmt.Sscanf(b.Value, "%d", &v)
		return v, true
	}
	return 0, false
}

// lenExpr: `len(src)`, `len(src) - k`, `(len(src) - k)`, or an alias variable; returns src, minus
func (c *orchCtx) lenExpr(e ast.Expr) (string, int, bool) {
	switch x := e.(type) {
	case *ast.ParenExpr:
		return c.lenExpr(x.X)
	case *ast.CallExpr:
		if isIdent(x.Fun, "len") && len(x.Args) == 1 {
			if s, ok := c.srcExpr(x.Args[0]); ok {
				return s, 0, true
			}
		}
	case *ast.Ident:
		if s, ok := c.lenOf[x.Name]; ok {
			return s, 0, true
		}
	case *ast.BinaryExpr:
		if x.Op == token.SUB {
			if s, m, ok := c.lenExpr(x.X); ok {
				if k, ok := intLit(x.Y); ok {
					return s, m + k, true
				}
			}
		}
	}
	return "", 0, false
}

func cmpOp(t token.Token) (string, bool) {
	switch t {
	case token.EQL:
		return ".eq", true
	case token.NEQ:
		return ".ne", true
	case token.LSS:
		return ".lt", true
	case token.LEQ:
		return ".le", true
	case token.GTR:
		return ".gt", true
	case token.GEQ:
		return ".ge", true
	}
	return "", false
}

func (c *orchCtx) isNPlusM(e ast.Expr) bool {
	if p, ok := e.(*ast.ParenExpr); ok {
		return c.isNPlusM(p.X)
	}
	b, ok := e.(*ast.BinaryExpr)
	return ok && b.Op == token.ADD && c.nName != "" && isIdent(b.X, c.nName) && isIdent(b.Y, c.mName)
}

func (c *orchCtx) cond(e ast.Expr) string {
	unk := func() string { return "(.unknown " + leanStr(src(e, c.fset)) + ")" }
	switch x := e.(type) {
	case *ast.ParenExpr:
		return c.cond(x.X)
	case *ast.UnaryExpr:
		if x.Op == token.NOT {
			if c.bName != "" && isIdent(x.X, c.bName) {
				return ".notB"
			}
			if c.stag != "" && selPath(x.X) == c.stag+".StopTag" {
				return ".notStop"
			}
		}
		return unk()
	case *ast.BinaryExpr:
		op, ok := cmpOp(x.Op)
		if !ok {
			return unk()
		}
		if isIdent(x.X, c.rb) && isIdent(x.Y, "nil") && x.Op == token.EQL {
			return ".rbNil"
		}
		// len(eMsg) > 0
		if call, ok := x.X.(*ast.CallExpr); ok && isIdent(call.Fun, "len") && len(call.Args) == 1 {
			if isIdent(call.Args[0], "eMsg") {
				if k, ok := intLit(x.Y); ok && k == 0 && x.Op == token.GTR {
					return ".errs"
				}
				return unk()
			}
			if c.dagNm != "" && isIdent(call.Args[0], c.dagNm) {
				if k, ok := intLit(x.Y); ok {
					return fmt.Sprintf("(.dagLen %s %d)", op, k)
				}
				return unk()
			}
		}
		if c.isNPlusM(x.X) {
			if call, ok := x.Y.(*ast.CallExpr); ok && isIdent(call.Fun, "len") && len(call.Args) == 1 {
				if c.names != "" && isIdent(call.Args[0], c.names) {
					return fmt.Sprintf("(.nmNames %s)", op)
				}
				if s, ok := c.srcExpr(call.Args[0]); ok {
					return fmt.Sprintf("(.nmLen %s %s)", op, s)
				}
			}
			return unk()
		}
		if k, ok := intLit(x.Y); ok {
			if c.nName != "" && isIdent(x.X, c.nName) {
				return fmt.Sprintf("(.nCmp %s %d)", op, k)
			}
			if c.mName != "" && isIdent(x.X, c.mName) {
				return fmt.Sprintf("(.mCmp %s %d)", op, k)
			}
			if s, m, ok := c.lenExpr(x.X); ok {
				return fmt.Sprintf("(.len %s %d %s %d)", s, m, op, k)
			}
		}
		return unk()
	}
	return unk()
}

func (c *orchCtx) retKind(r *ast.ReturnStmt, errVar string) string {
	if len(r.Results) != 1 {
		return ""
	}
	e := r.Results[0]
	if isIdent(e, "nil") {
		return ".nil"
	}
	if call, ok := e.(*ast.CallExpr); ok {
		if p := selPath(call.Fun); p == "errors.New" || p == "fmt.Errorf" {
			return ".err"
		}
	}
	if id, ok := e.(*ast.Ident); ok && errVar != "" && id.Name == errVar {
		return ".lastE"
	}
	return ""
}

func (c *orchCtx) emit(conds []string, stmt string) {
	c.out = append(c.out, fmt.Sprintf("  ⟨[%s], %s⟩", strings.Join(conds, ", "), stmt))
}

func (c *orchCtx) unknown(conds []string, n ast.Node) {
	c.emit(conds, ".unknown "+leanStr(src(n, c.fset)))
}

// execAssign: `v, e, bx := X.Execute(rb.Dc)`; returns receiver expr, names of v,e,bx
func (c *orchCtx) execAssign(s ast.Stmt) (recv ast.Expr, v, e, bx string, ok bool) {
	as, isAs := s.(*ast.AssignStmt)
	if !isAs || len(as.Lhs) != 3 || len(as.Rhs) != 1 {
		return
	}
	call, isCall := as.Rhs[0].(*ast.CallExpr)
	if !isCall {
		return
	}
	sel, isSel := call.Fun.(*ast.SelectorExpr)
	if !isSel || sel.Sel.Name != "Execute" || len(call.Args) != 1 || selPath(call.Args[0]) != c.rb+".Dc" {
		return
	}
	ids := []string{}
	for _, l := range as.Lhs {
		id, isId := l.(*ast.Ident)
		if !isId {
			return
		}
		ids = append(ids, id.Name)
	}
	return sel.X, ids[0], ids[1], ids[2], true
}

// addResult statement: `if bx { g.addResult(R.RuleName, v) }` or plain call
func (c *orchCtx) addMode(s ast.Stmt, ruleExpr string, v, bx string) (string, bool) {
	isAdd := func(st ast.Stmt) bool {
		es, ok := st.(*ast.ExprStmt)
		if !ok {
			return false
		}
		call, ok := es.X.(*ast.CallExpr)
		if !ok || selPath(call.Fun) != c.recv+".addResult" || len(call.Args) != 2 {
			return false
		}
		return src(call.Args[0], c.fset) == ruleExpr+".RuleName" && isIdent(call.Args[1], v)
	}
	if isAdd(s) {
		return ".always", true
	}
	if ifs, ok := s.(*ast.IfStmt); ok && ifs.Init == nil && ifs.Else == nil && isIdent(ifs.Cond, bx) &&
		len(ifs.Body.List) == 1 && isAdd(ifs.Body.List[0]) {
		return ".ifFlag", true
	}
	return "", false
}

func exprKey(e ast.Expr, fset *token.FileSet) string { return src(e, fset) }

// symbolic evaluation of the error handling statements after a sequential rule execution
type armRes struct {
	act string
	ok  bool
}

func (c *orchCtx) evalArm(stmts []ast.Stmt, errVar string, b, failed bool) armRes {
	collected := false
	var walk func(list []ast.Stmt) (string, bool, bool) // act, returned, ok
	walk = func(list []ast.Stmt) (string, bool, bool) {
		for _, s := range list {
			switch x := s.(type) {
			case *ast.IfStmt:
				if x.Init != nil {
					return "", false, false
				}
				cv, ok := c.evalBool(x.Cond, errVar, b, failed)
				if !ok {
					return "", false, false
				}
				if cv {
					a, r, ok := walk(x.Body.List)
					if !ok || r {
						return a, r, ok
					}
				} else if x.Else != nil {
					var l []ast.Stmt
					switch el := x.Else.(type) {
					case *ast.BlockStmt:
						l = el.List
					default:
						l = []ast.Stmt{el}
					}
					a, r, ok := walk(l)
					if !ok || r {
						return a, r, ok
					}
				}
			case *ast.AssignStmt:
				// eMsg = append(eMsg, ...)
				if len(x.Lhs) == 1 && isIdent(x.Lhs[0], "eMsg") && len(x.Rhs) == 1 {
					if call, ok := x.Rhs[0].(*ast.CallExpr); ok && isIdent(call.Fun, "append") &&
						len(call.Args) >= 2 && isIdent(call.Args[0], "eMsg") {
						collected = true
						continue
					}
				}
				return "", false, false
			case *ast.ReturnStmt:
				k := c.retKind(x, errVar)
				switch k {
				case ".nil":
					return ".retNil", true, true
				case ".err":
					return ".retErr", true, true
				case ".lastE":
					return ".retE", true, true
				}
				return "", false, false
			default:
				return "", false, false
			}
		}
		return "", false, true
	}
	a, r, ok := walk(stmts)
	if !ok {
		return armRes{"", false}
	}
	if r {
		return armRes{a, true}
	}
	if collected {
		return armRes{".collect", true}
	}
	return armRes{".cont", true}
}

func (c *orchCtx) evalBool(e ast.Expr, errVar string, b, failed bool) (bool, bool) {
	switch x := e.(type) {
	case *ast.ParenExpr:
		return c.evalBool(x.X, errVar, b, failed)
	case *ast.Ident:
		if c.bName != "" && x.Name == c.bName {
			return b, true
		}
	case *ast.UnaryExpr:
		if x.Op == token.NOT {
			v, ok := c.evalBool(x.X, errVar, b, failed)
			return !v, ok
		}
	case *ast.BinaryExpr:
		if isIdent(x.X, errVar) && isIdent(x.Y, "nil") {
			if x.Op == token.NEQ {
				return failed, true
			}
			if x.Op == token.EQL {
				return !failed, true
			}
		}
	}
	return false, false
}

func (c *orchCtx) arm(stmts []ast.Stmt, errVar string) (string, bool) {
	var acts [4]string
	i := 0
	for _, b := range []bool{true, false} {
		for _, f := range []bool{true, false} {
			r := c.evalArm(stmts, errVar, b, f)
			if !r.ok {
				return "", false
			}
			acts[i] = r.act
			i++
		}
	}
	return fmt.Sprintf("⟨%s, %s, %s, %s⟩", acts[0], acts[1], acts[2], acts[3]), true
}

// slice expression -> (src, win)
func (c *orchCtx) sliceExpr(e ast.Expr) (string, string, bool) {
	if id, ok := e.(*ast.Ident); ok {
		if w, ok := c.winOf[id.Name]; ok {
			return w[0], w[1], true
		}
	}
	if s, ok := c.srcExpr(e); ok {
		return s, ".all", true
	}
	sl, ok := e.(*ast.SliceExpr)
	if !ok || sl.Slice3 {
		return "", "", false
	}
	// x[n:][:m]
	if inner, ok := sl.X.(*ast.SliceExpr); ok && !inner.Slice3 {
		if s, ok := c.srcExpr(inner.X); ok && c.nName != "" && inner.High == nil && inner.Low != nil && isIdent(inner.Low, c.nName) &&
			sl.Low == nil && sl.High != nil && isIdent(sl.High, c.mName) {
			return s, ".dropNTakeM", true
		}
		return "", "", false
	}
	s, ok := c.srcExpr(sl.X)
	if !ok {
		return "", "", false
	}
	switch {
	case sl.Low == nil && sl.High != nil:
		if c.nName != "" && isIdent(sl.High, c.nName) {
			return s, ".takeN", true
		}
		if s2, m, ok := c.lenExpr(sl.High); ok && s2 == s && m == 1 {
			return s, ".init", true
		}
	case sl.Low != nil && sl.High == nil:
		if k, ok := intLit(sl.Low); ok && k == 1 {
			return s, ".tail", true
		}
	}
	return "", "", false
}

// index expression rules[0] / rules[length-1] -> (src, win)
func (c *orchCtx) indexExpr(e ast.Expr) (string, string, bool) {
	ix, ok := e.(*ast.IndexExpr)
	if !ok {
		return "", "", false
	}
	s, ok := c.srcExpr(ix.X)
	if !ok {
		return "", "", false
	}
	if k, ok := intLit(ix.Index); ok && k == 0 {
		return s, ".head", true
	}
	if s2, m, ok := c.lenExpr(ix.Index); ok && s2 == s && m == 1 {
		return s, ".last", true
	}
	return "", "", false
}

func (c *orchCtx) cntExpr(e ast.Expr, s string) string {
	if c.nName != "" && isIdent(e, c.nName) {
		return ".n"
	}
	if c.mName != "" && isIdent(e, c.mName) {
		return ".m"
	}
	if s2, m, ok := c.lenExpr(e); ok && s2 == s {
		if m == 0 {
			return ".len"
		}
		if m == 1 {
			return ".lenMinus1"
		}
	}
	return ".unknown"
}

// goroutine loop: for _, r := range X { rr := r; go func(){...}() }
// returns src, win, mode, collects, done(wgName)
func (c *orchCtx) parLoop(s ast.Stmt) (srcS, win, mode string, collects bool, doneWg string, ok bool) {
	rs, isR := s.(*ast.RangeStmt)
	if !isR || rs.Value == nil {
		return
	}
	loopVar, isId := rs.Value.(*ast.Ident)
	if !isId {
		return
	}
	srcS, win, ok = c.sliceExpr(rs.X)
	if !ok {
		return
	}
	ok = false
	body := rs.Body.List
	ruleVar := loopVar.Name
	if len(body) == 2 {
		as, isAs := body[0].(*ast.AssignStmt)
		if !isAs || as.Tok != token.DEFINE || len(as.Lhs) != 1 || len(as.Rhs) != 1 || !isIdent(as.Rhs[0], loopVar.Name) {
			return
		}
		ruleVar = as.Lhs[0].(*ast.Ident).Name
		body = body[1:]
	}
	if len(body) != 1 {
		return
	}
	gs, isGo := body[0].(*ast.GoStmt)
	if !isGo || len(gs.Call.Args) != 0 {
		return
	}
	fl, isFl := gs.Call.Fun.(*ast.FuncLit)
	if !isFl {
		return
	}
	gb := fl.Body.List
	if len(gb) < 2 {
		return
	}
	i := 0
	// optional leading `defer wg.Done()`
	if ds, isD := gb[0].(*ast.DeferStmt); isD {
		p := selPath(ds.Call.Fun)
		if strings.HasSuffix(p, ".Done") {
			doneWg = strings.TrimSuffix(p, ".Done")
			i = 1
		} else {
			return
		}
	}
	recv, v, e, bx, isEx := c.execAssign(gb[i])
	if !isEx || !isIdent(recv, ruleVar) {
		return
	}
	i++
	mode = ".never"
	if i < len(gb) {
		if m, isAdd := c.addMode(gb[i], ruleVar, v, bx); isAdd {
			mode = m
			i++
		}
	}
	// optional error collection
	if i < len(gb) {
		if ifs, isIf := gb[i].(*ast.IfStmt); isIf && ifs.Init == nil && ifs.Else == nil {
			if be, isB := ifs.Cond.(*ast.BinaryExpr); isB && be.Op == token.NEQ && isIdent(be.X, e) && isIdent(be.Y, "nil") {
				hasAppend := false
				for _, st := range ifs.Body.List {
					switch y := st.(type) {
					case *ast.ExprStmt: // Lock / Unlock
						call, isC := y.X.(*ast.CallExpr)
						if !isC {
							return
						}
						p := selPath(call.Fun)
						if !(strings.HasSuffix(p, ".Lock") || strings.HasSuffix(p, ".Unlock")) {
							return
						}
					case *ast.AssignStmt:
						if len(y.Lhs) == 1 && isIdent(y.Lhs[0], "eMsg") {
							hasAppend = true
						} else {
							return
						}
					default:
						return
					}
				}
				collects = hasAppend
				i++
			}
		}
	}
	// trailing wg.Done()
	if i < len(gb) {
		if es, isE := gb[i].(*ast.ExprStmt); isE {
			if call, isC := es.X.(*ast.CallExpr); isC {
				p := selPath(call.Fun)
				if strings.HasSuffix(p, ".Done") && len(call.Args) == 0 {
					if doneWg == "" {
						doneWg = strings.TrimSuffix(p, ".Done")
					}
					i++
				}
			}
		}
	}
	if i != len(gb) {
		return
	}
	ok = true
	return
}

func wgCall(s ast.Stmt, method string) (string, []ast.Expr, bool) {
	es, ok := s.(*ast.ExprStmt)
	if !ok {
		return "", nil, false
	}
	call, ok := es.X.(*ast.CallExpr)
	if !ok {
		return "", nil, false
	}
	p := selPath(call.Fun)
	if !strings.HasSuffix(p, "."+method) {
		return "", nil, false
	}
	return strings.TrimSuffix(p, "."+method), call.Args, true
}

func (c *orchCtx) parSpec(add, mode string, collects, done, waits bool) string {
	return fmt.Sprintf("⟨%s, %s, %v, %v, %v⟩", add, mode, collects, done, waits)
}

// tryPar consumes [wg.Add(k)] for..go.. [wg.Wait()] starting at list[i]; returns #consumed
func (c *orchCtx) tryPar(list []ast.Stmt, i int, conds []string, emit bool) (string, string, string, int) {
	j := i
	addWg, add := "", ".unknown"
	var addArgs []ast.Expr
	if w, args, ok := wgCall(list[j], "Add"); ok && len(args) == 1 {
		addWg, addArgs = w, args
		j++
	}
	if j >= len(list) {
		return "", "", "", 0
	}
	s, win, mode, collects, doneWg, ok := c.parLoop(list[j])
	if !ok {
		return "", "", "", 0
	}
	j++
	if addWg != "" {
		add = c.cntExpr(addArgs[0], s)
	}
	waits := false
	if j < len(list) {
		if w, args, ok := wgCall(list[j], "Wait"); ok && len(args) == 0 && w == addWg && addWg != "" {
			waits = true
			j++
		}
	}
	done := doneWg != "" && doneWg == addWg
	return s, win, c.parSpec(add, mode, collects, done, waits), j - i
}

func (c *orchCtx) block(list []ast.Stmt, conds []string) {
	for i := 0; i < len(list); i++ {
		s := list[i]
		switch x := s.(type) {
		case *ast.DeclStmt:
			// var eMsg []string / var errLock sync.Mutex / var wg sync.WaitGroup / var rules []*base.RuleEntity
			gd, ok := x.Decl.(*ast.GenDecl)
			if !ok || gd.Tok != token.VAR {
				c.unknown(conds, s)
				continue
			}
			for _, sp := range gd.Specs {
				vs := sp.(*ast.ValueSpec)
				if len(vs.Values) != 0 {
					c.unknown(conds, s)
				}
			}
			continue
		case *ast.ReturnStmt:
			k := c.retKind(x, c.lastErr)
			if k == "" {
				c.unknown(conds, s)
			} else {
				c.emit(conds, ".ret "+k)
			}
			continue
		case *ast.AssignStmt:
			// g.returnResult = make(map[string]interface{})
			if len(x.Lhs) == 1 && selPath(x.Lhs[0]) == c.recv+".returnResult" && x.Tok == token.ASSIGN {
				if call, ok := x.Rhs[0].(*ast.CallExpr); ok && isIdent(call.Fun, "make") {
					c.emit(conds, ".reset")
					continue
				}
				c.unknown(conds, s)
				continue
			}
			// single execution: v, e, bx := rules[0].Execute(rb.Dc)
			if recv, v, e, bx, ok := c.execAssign(s); ok {
				sS, win, ok2 := c.indexExpr(recv)
				if !ok2 {
					c.unknown(conds, s)
					continue
				}
				mode := ".never"
				j := i + 1
				if j < len(list) {
					if m, ok := c.addMode(list[j], src(recv, c.fset), v, bx); ok {
						mode = m
						j++
					}
				}
				// error handling ifs that mention only e / b
				var errStmts []ast.Stmt
				for j < len(list) {
					ifs, ok := list[j].(*ast.IfStmt)
					if !ok || ifs.Init != nil {
						break
					}
					if _, ok := c.evalBool(ifs.Cond, e, true, true); !ok {
						break
					}
					errStmts = append(errStmts, ifs)
					j++
				}
				armS, ok3 := c.arm(errStmts, e)
				if !ok3 {
					c.unknown(conds, s)
					continue
				}
				c.emit(conds, fmt.Sprintf(".seq %s %s %s %s false", sS, win, mode, armS))
				c.lastErr = e
				i = j - 1
				continue
			}
			// aliases
			if x.Tok == token.DEFINE && len(x.Lhs) == 1 && len(x.Rhs) == 1 {
				if id, ok := x.Lhs[0].(*ast.Ident); ok {
					if sS, ok := c.srcExpr(x.Rhs[0]); ok {
						c.srcOf[id.Name] = sS
						continue
					}
					if sS, m, ok := c.lenExpr(x.Rhs[0]); ok && m == 0 {
						c.lenOf[id.Name] = sS
						continue
					}
					if sS, w, ok := c.sliceExpr(x.Rhs[0]); ok {
						c.winOf[id.Name] = [2]string{sS, w}
						continue
					}
				}
			}
			c.unknown(conds, s)
			continue
		case *ast.ExprStmt:
			// wg.Add(..) starts a fan-out; sort.SliceStable(rules, ...) unconditional
			if _, _, ok := wgCall(s, "Add"); ok {
				sS, win, spec, n := c.tryPar(list, i, conds, true)
				if n == 0 {
					c.unknown(conds, s)
					continue
				}
				c.emit(conds, fmt.Sprintf(".par %s %s %s", sS, win, spec))
				i += n - 1
				continue
			}
			if c.isSort(x.X) {
				c.emit(conds, ".sort")
				continue
			}
			c.unknown(conds, s)
			continue
		case *ast.RangeStmt:
			// selection loop
			if m, ok := c.selectLoop(x); ok {
				c.emit(conds, ".select "+m)
				continue
			}
			// fan-out without Add
			if sS, win, spec, n := c.tryPar(list, i, conds, true); n > 0 {
				c.emit(conds, fmt.Sprintf(".par %s %s %s", sS, win, spec))
				i += n - 1
				continue
			}
			// sequential loop
			if st, ok := c.seqLoop(x); ok {
				c.emit(conds, st)
				continue
			}
			c.unknown(conds, s)
			continue
		case *ast.ForStmt:
			if st, ok := c.dagLoop(x); ok {
				c.emit(conds, st)
				continue
			}
			c.unknown(conds, s)
			continue
		case *ast.IfStmt:
			if x.Init != nil || x.Else != nil {
				c.unknown(conds, s)
				continue
			}
			cd := c.cond(x.Cond)
			// if c { return k }
			if len(x.Body.List) == 1 {
				if r, ok := x.Body.List[0].(*ast.ReturnStmt); ok {
					k := c.retKind(r, c.lastErr)
					if k == "" {
						c.unknown(conds, s)
					} else {
						c.emit(conds, fmt.Sprintf(".retIf %s %s", cd, k))
					}
					continue
				}
			}
			nc := append(append([]string{}, conds...), cd)
			c.block(x.Body.List, nc)
			continue
		default:
			c.unknown(conds, s)
		}
	}
}

func (c *orchCtx) isSort(e ast.Expr) bool {
	call, ok := e.(*ast.CallExpr)
	if !ok || selPath(call.Fun) != "sort.SliceStable" || len(call.Args) != 2 {
		return false
	}
	id, ok := call.Args[0].(*ast.Ident)
	if !ok || id.Name != c.selVar {
		return false
	}
	fl, ok := call.Args[1].(*ast.FuncLit)
	if !ok || len(fl.Body.List) != 1 || len(fl.Type.Params.List) != 1 || len(fl.Type.Params.List[0].Names) != 2 {
		return false
	}
	pi, pj := fl.Type.Params.List[0].Names[0].Name, fl.Type.Params.List[0].Names[1].Name
	r, ok := fl.Body.List[0].(*ast.ReturnStmt)
	if !ok || len(r.Results) != 1 {
		return false
	}
	want := fmt.Sprintf("%s[%s].Salience > %s[%s].Salience", id.Name, pi, id.Name, pj)
	return src(r.Results[0], c.fset) == want
}

// for _, name := range names { if r, ok := rb.Kc.RuleEntities[name]; ok { rules = append(rules, r) } else {...} }
func (c *orchCtx) selectLoop(rs *ast.RangeStmt) (string, bool) {
	if c.names == "" || !isIdent(rs.X, c.names) || rs.Value == nil || len(rs.Body.List) != 1 {
		return "", false
	}
	nameVar := rs.Value.(*ast.Ident).Name
	ifs, ok := rs.Body.List[0].(*ast.IfStmt)
	if !ok || ifs.Init == nil {
		return "", false
	}
	as, ok := ifs.Init.(*ast.AssignStmt)
	if !ok || len(as.Lhs) != 2 || len(as.Rhs) != 1 {
		return "", false
	}
	ix, ok := as.Rhs[0].(*ast.IndexExpr)
	if !ok || selPath(ix.X) != c.rb+".Kc.RuleEntities" || !isIdent(ix.Index, nameVar) {
		return "", false
	}
	found := as.Lhs[0].(*ast.Ident).Name
	okVar := as.Lhs[1].(*ast.Ident).Name
	if !isIdent(ifs.Cond, okVar) {
		return "", false
	}
	// then-branch: [rr := found;] rules = append(rules, rr|found)
	tb := ifs.Body.List
	elem := found
	if len(tb) == 2 {
		a0, ok := tb[0].(*ast.AssignStmt)
		if !ok || a0.Tok != token.DEFINE || len(a0.Lhs) != 1 || !isIdent(a0.Rhs[0], found) {
			return "", false
		}
		elem = a0.Lhs[0].(*ast.Ident).Name
		tb = tb[1:]
	}
	if len(tb) != 1 {
		return "", false
	}
	a1, ok := tb[0].(*ast.AssignStmt)
	if !ok || len(a1.Lhs) != 1 || len(a1.Rhs) != 1 {
		return "", false
	}
	dst, ok := a1.Lhs[0].(*ast.Ident)
	if !ok {
		return "", false
	}
	call, ok := a1.Rhs[0].(*ast.CallExpr)
	if !ok || !isIdent(call.Fun, "append") || len(call.Args) != 2 || !isIdent(call.Args[0], dst.Name) || !isIdent(call.Args[1], elem) {
		return "", false
	}
	c.selVar = dst.Name
	c.srcOf[dst.Name] = ".selected"
	// else-branch
	if ifs.Else == nil {
		return ".skip", true
	}
	eb, ok := ifs.Else.(*ast.BlockStmt)
	if !ok || len(eb.List) != 1 {
		return "", false
	}
	switch y := eb.List[0].(type) {
	case *ast.ExprStmt: // log.Errorf(...)
		if call, ok := y.X.(*ast.CallExpr); ok && strings.HasPrefix(selPath(call.Fun), "log.") {
			return ".skip", true
		}
	case *ast.ReturnStmt:
		if c.retKind(y, "") == ".err" {
			// does the error expression dereference the (nil) found variable?
			deref := false
			ast.Inspect(y, func(n ast.Node) bool {
				if se, ok := n.(*ast.SelectorExpr); ok && isIdent(se.X, found) {
					deref = true
				}
				return true
			})
			if deref {
				return ".derefNil", true
			}
			return ".fail", true
		}
	}
	return "", false
}

// for _, r := range X { [rr := r]; v, e, bx := r.Execute(rb.Dc); if bx {..}; <err arms>; [if sTag.StopTag { break }] }
func (c *orchCtx) seqLoop(rs *ast.RangeStmt) (string, bool) {
	if rs.Value == nil {
		return "", false
	}
	loopVar := rs.Value.(*ast.Ident).Name
	sS, win, ok := c.sliceExpr(rs.X)
	if !ok {
		return "", false
	}
	body := rs.Body.List
	ruleVar := loopVar
	if len(body) > 0 {
		if as, ok := body[0].(*ast.AssignStmt); ok && as.Tok == token.DEFINE && len(as.Lhs) == 1 && len(as.Rhs) == 1 && isIdent(as.Rhs[0], loopVar) {
			ruleVar = as.Lhs[0].(*ast.Ident).Name
			body = body[1:]
		}
	}
	if len(body) < 1 {
		return "", false
	}
	recv, v, e, bx, ok := c.execAssign(body[0])
	if !ok || !isIdent(recv, ruleVar) {
		return "", false
	}
	i := 1
	mode := ".never"
	if i < len(body) {
		if m, ok := c.addMode(body[i], ruleVar, v, bx); ok {
			mode = m
			i++
		}
	}
	rest := body[i:]
	stopBreak := false
	if len(rest) > 0 {
		if ifs, ok := rest[len(rest)-1].(*ast.IfStmt); ok && ifs.Init == nil && ifs.Else == nil &&
			c.stag != "" && selPath(ifs.Cond) == c.stag+".StopTag" && len(ifs.Body.List) == 1 {
			if br, ok := ifs.Body.List[0].(*ast.BranchStmt); ok && br.Tok == token.BREAK && br.Label == nil {
				stopBreak = true
				rest = rest[:len(rest)-1]
			}
		}
	}
	armS, ok := c.arm(rest, e)
	if !ok {
		return "", false
	}
	return fmt.Sprintf(".seq %s %s %s %s %v", sS, win, mode, armS, stopBreak), true
}

// the DAG's counted loops
func (c *orchCtx) dagLoop(fs *ast.ForStmt) (string, bool) {
	if c.dagNm == "" || fs.Init == nil || fs.Cond == nil || fs.Post == nil {
		return "", false
	}
	init, ok := fs.Init.(*ast.AssignStmt)
	if !ok || len(init.Lhs) != 1 {
		return "", false
	}
	iv := init.Lhs[0].(*ast.Ident).Name
	if k, ok := intLit(init.Rhs[0]); !ok || k != 0 {
		return "", false
	}
	if src(fs.Cond, c.fset) != fmt.Sprintf("%s < len(%s)", iv, c.dagNm) || src(fs.Post, c.fset) != iv+"++" {
		return "", false
	}
	body := fs.Body.List
	// var rules []*base.RuleEntity
	if len(body) < 3 {
		return "", false
	}
	ds, ok := body[0].(*ast.DeclStmt)
	if !ok {
		return "", false
	}
	rulesVar := ds.Decl.(*ast.GenDecl).Specs[0].(*ast.ValueSpec).Names[0].Name
	// inner selection loop
	in, ok := body[1].(*ast.ForStmt)
	if !ok || in.Init == nil || in.Cond == nil || in.Post == nil {
		return "", false
	}
	jv := in.Init.(*ast.AssignStmt).Lhs[0].(*ast.Ident).Name
	if k, ok := intLit(in.Init.(*ast.AssignStmt).Rhs[0]); !ok || k != 0 {
		return "", false
	}
	if src(in.Cond, c.fset) != fmt.Sprintf("%s < len(%s[%s])", jv, c.dagNm, iv) || src(in.Post, c.fset) != jv+"++" {
		return "", false
	}
	if len(in.Body.List) != 1 {
		return "", false
	}
	ifs, ok := in.Body.List[0].(*ast.IfStmt)
	if !ok || ifs.Init == nil || ifs.Else != nil || len(ifs.Body.List) != 1 {
		return "", false
	}
	wantInit := fmt.Sprintf("rule, ok := %s.Kc.RuleEntities[%s[%s][%s]]", c.rb, c.dagNm, iv, jv)
	if src(ifs.Init, c.fset) != wantInit || !isIdent(ifs.Cond, "ok") ||
		src(ifs.Body.List[0], c.fset) != fmt.Sprintf("%s = append(%s, rule)", rulesVar, rulesVar) {
		return "", false
	}
	c.srcOf[rulesVar] = ".selected"
	defer delete(c.srcOf, rulesVar)
	rest := body[2:]
	guard := false
	var parList []ast.Stmt
	k := 0
	if gi, ok := rest[0].(*ast.IfStmt); ok && gi.Init == nil && gi.Else == nil && c.cond(gi.Cond) == "(.len .selected 0 .gt 0)" {
		guard = true
		parList = gi.Body.List
		k = 1
	} else {
		parList = rest
	}
	// skip var decl of the WaitGroup
	pl := []ast.Stmt{}
	for _, st := range parList {
		if _, ok := st.(*ast.DeclStmt); ok {
			continue
		}
		pl = append(pl, st)
	}
	_, win, spec, n := c.tryPar(pl, 0, nil, false)
	if n == 0 || win != ".all" {
		return "", false
	}
	if guard {
		if n != len(pl) {
			return "", false
		}
	} else {
		k = n
	}
	retEach := false
	tail := rest[k:]
	if len(tail) == 1 {
		if ri, ok := tail[0].(*ast.IfStmt); ok && ri.Init == nil && ri.Else == nil && c.cond(ri.Cond) == ".errs" && len(ri.Body.List) == 1 {
			if r, ok := ri.Body.List[0].(*ast.ReturnStmt); ok && c.retKind(r, "") == ".err" {
				retEach = true
				tail = nil
			}
		}
	}
	if len(tail) != 0 {
		return "", false
	}
	return fmt.Sprintf(".dag %s %v %v", spec, guard, retEach), true
}

func extractOrch(repo string) (string, error) {
	fset := token.NewFileSet()
	f, err := parser.ParseFile(fset, repo+"/engine/gengine.go", nil, 0)
	if err != nil {
		return "", err
	}
	type meth struct {
		name string
		body string
	}
	var ms []meth
	for _, d := range f.Decls {
		fd, ok := d.(*ast.FuncDecl)
		if !ok || fd.Recv == nil || len(fd.Recv.List) != 1 || !strings.HasPrefix(fd.Name.Name, "Execute") {
			continue
		}
		star, ok := fd.Recv.List[0].Type.(*ast.StarExpr)
		if !ok || !isIdent(star.X, "Gengine") {
			continue
		}
		c := &orchCtx{fset: fset, srcOf: map[string]string{}, winOf: map[string][2]string{}, lenOf: map[string]string{}}
		if len(fd.Recv.List[0].Names) == 1 {
			c.recv = fd.Recv.List[0].Names[0].Name
		}
		for _, p := range fd.Type.Params.List {
			t := src(p.Type, fset)
			for _, nm := range p.Names {
				switch t {
				case "int":
					if c.nName == "" {
						c.nName = nm.Name
					} else if c.mName == "" {
						c.mName = nm.Name
					}
				case "bool":
					c.bName = nm.Name
				case "[]string":
					c.names = nm.Name
				case "[][]string":
					c.dagNm = nm.Name
				case "*Stag":
					c.stag = nm.Name
				case "*builder.RuleBuilder":
					c.rb = nm.Name
				}
			}
		}
		c.block(fd.Body.List, nil)
		ms = append(ms, meth{fd.Name.Name, "[\n" + strings.Join(c.out, ",\n") + "\n]"})
	}
	sort.Slice(ms, func(i, j int) bool { return ms[i].name < ms[j].name })
	var b strings.Builder
	b.WriteString("/- GENERATED by /verif/extract from /repo/engine/gengine.go — do not edit. -/\nimport GV.Orch.Skel\nnamespace GV.Generated.Orch\nopen GV.Orch\n\n")
	for _, m := range ms {
		fmt.Fprintf(&b, "def %s : Skel := %s\n\n", m.name, m.body)
	}
	b.WriteString("def all : List (String × Skel) := [\n")
	for i, m := range ms {
		sep := ","
		if i == len(ms)-1 {
			sep = ""
		}
		fmt.Fprintf(&b, "  (%s, %s)%s\n", leanStr(m.name), m.name, sep)
	}
	b.WriteString("]\n\nend GV.Generated.Orch\n")
	return b.String(), nil
}
