package main

// Compile entry points (C10): for every function that compiles rule text the ordered list of
// events that decide acceptance and all-or-nothing — which ANTLR error listeners are attached,
// which error lists are checked before returning, where the installed state is first written,
// which other compile function is called with its error propagated.
// Written to lean/GV/Generated/Compile.lean and interpreted by GV.Compile.Model.

import (
	"fmt"
	"go/ast"
	"go/parser"
	"go/token"
	"path/filepath"
	"sort"
	"strings"
)

type compileFn struct {
	file, name string // file relative to repo, function (or method) name
}

var compileFns = []compileFn{
	{"builder/rule_builder.go", "BuildRuleFromString"},
	{"builder/rule_builder.go", "BuildRuleWithIncremental"},
	{"engine/gengine_pool.go", "getKc"},
	{"engine/gengine_pool.go", "makeRuleBuilder"},
	{"engine/gengine_pool.go", "NewGenginePool"},
	{"engine/gengine_pool.go", "UpdatePooledRules"},
	{"engine/gengine_pool.go", "UpdatePooledRulesIncremental"},
}

var compileCallees = map[string]bool{"BuildRuleFromString": true, "BuildRuleWithIncremental": true, "getKc": true, "makeRuleBuilder": true}

type cwalker struct {
	recv     string            // receiver name ("" for plain functions)
	params   map[string]bool   // pointer parameters whose state counts as installed (none for compile fns)
	kind     map[string]string // local var -> lexer | parser | errl
	attached map[string]string // error listener var -> lexer | parser
	evs      []string
	mutated  bool
}

func exprStr(e ast.Expr) string {
	switch x := e.(type) {
	case *ast.Ident:
		return x.Name
	case *ast.SelectorExpr:
		return exprStr(x.X) + "." + x.Sel.Name
	case *ast.IndexExpr:
		return exprStr(x.X) + "[]"
	case *ast.CallExpr:
		return exprStr(x.Fun) + "()"
	case *ast.StarExpr:
		return exprStr(x.X)
	}
	return "?"
}

func rootOf(e ast.Expr) string {
	switch x := e.(type) {
	case *ast.Ident:
		return x.Name
	case *ast.SelectorExpr:
		return rootOf(x.X)
	case *ast.IndexExpr:
		return rootOf(x.X)
	case *ast.StarExpr:
		return rootOf(x.X)
	}
	return ""
}

func returnsError(body *ast.BlockStmt) bool {
	// the block ends in a return whose last result is not the identifier nil
	if len(body.List) == 0 {
		return false
	}
	rs, ok := body.List[len(body.List)-1].(*ast.ReturnStmt)
	if !ok || len(rs.Results) == 0 {
		return false
	}
	last := rs.Results[len(rs.Results)-1]
	if id, ok := last.(*ast.Ident); ok && id.Name == "nil" {
		return false
	}
	return true
}

func (w *cwalker) emit(e string) { w.evs = append(w.evs, e) }

func (w *cwalker) callEvent(c *ast.CallExpr) {
	fn := exprStr(c.Fun)
	parts := strings.Split(fn, ".")
	last := parts[len(parts)-1]
	switch {
	case last == "AddErrorListener" && len(c.Args) == 1:
		tgt := rootOf(c.Fun.(*ast.SelectorExpr).X)
		l := exprStr(c.Args[0])
		switch w.kind[tgt] {
		case "lexer":
			w.attached[l] = "lexer"
			w.emit(".attachLexer")
		case "parser":
			w.attached[l] = "parser"
			w.emit(".attachParser")
		}
	case last == "Walk":
		w.emit(".walk")
	case last == "updateIncremental":
		if !w.mutated {
			w.mutated = true
			w.emit(".mutate")
		}
	}
}

func (w *cwalker) isInstalled(lhs ast.Expr) bool {
	// a store into the receiver's (or the pool's) state
	r := rootOf(lhs)
	if r == "" {
		return false
	}
	if _, isIdent := lhs.(*ast.Ident); isIdent {
		return false // a local variable
	}
	return r == w.recv || w.params[r]
}

func (w *cwalker) condEvent(cond ast.Expr) string {
	s := exprStr2(cond)
	switch {
	case strings.Contains(s, "TrimSpace"):
		return ".checkBlank"
	case strings.Contains(s, ".GrammarErrors"):
		// len(x.GrammarErrors) > 0
		v := ""
		ast.Inspect(cond, func(n ast.Node) bool {
			if se, ok := n.(*ast.SelectorExpr); ok && se.Sel.Name == "GrammarErrors" {
				v = exprStr(se.X)
			}
			return true
		})
		switch w.attached[v] {
		case "lexer":
			return ".checkLexer"
		case "parser":
			return ".checkParser"
		}
		return "" // a listener that was never attached collects nothing
	case strings.Contains(s, ".ParseErrors"):
		return ".checkListener"
	case strings.Contains(s, "RuleEntities") && strings.Contains(s, "== ") && strings.HasSuffix(strings.TrimSpace(s), " 0"):
		return ".checkNoRules"
	}
	return ""
}

func exprStr2(e ast.Expr) string {
	var sb strings.Builder
	ast.Inspect(e, func(n ast.Node) bool {
		switch x := n.(type) {
		case *ast.Ident:
			sb.WriteString(x.Name + " ")
		case *ast.BasicLit:
			sb.WriteString(x.Value + " ")
		case *ast.BinaryExpr:
			sb.WriteString(x.Op.String() + " ")
		case *ast.SelectorExpr:
			sb.WriteString("." + x.Sel.Name + " ")
		}
		return true
	})
	return sb.String()
}

func (w *cwalker) stmts(list []ast.Stmt) {
	for _, st := range list {
		w.stmt(st)
	}
}

func (w *cwalker) compileCall(e ast.Expr) string {
	c, ok := e.(*ast.CallExpr)
	if !ok {
		return ""
	}
	parts := strings.Split(exprStr(c.Fun), ".")
	last := parts[len(parts)-1]
	if compileCallees[last] {
		return last
	}
	return ""
}

func (w *cwalker) stmt(st ast.Stmt) {
	switch x := st.(type) {
	case *ast.AssignStmt:
		// kinds of locals
		if len(x.Lhs) >= 1 && len(x.Rhs) == 1 {
			if c, ok := x.Rhs[0].(*ast.CallExpr); ok {
				fn := exprStr(c.Fun)
				name := exprStr(x.Lhs[0])
				switch {
				case strings.HasSuffix(fn, "NewgengineLexer"):
					w.kind[name] = "lexer"
				case strings.HasSuffix(fn, "NewgengineParser"):
					w.kind[name] = "parser"
				}
				if cc := w.compileCall(c); cc != "" {
					// x, e := compile(...) ; the error check follows as an if statement.  When the
					// result is stored straight into installed state the store happens whatever the error.
					for _, l := range x.Lhs {
						if w.isInstalled(l) && !w.mutated {
							w.mutated = true
							w.emit(".mutate")
						}
					}
					w.emit(fmt.Sprintf("(.call %q)", cc))
				} else {
					w.callEvent(c)
				}
			}
		}
		for _, l := range x.Lhs {
			if w.isInstalled(l) && !w.mutated {
				w.mutated = true
				w.emit(".mutate")
			}
		}
	case *ast.ExprStmt:
		if c, ok := x.X.(*ast.CallExpr); ok {
			w.callEvent(c)
		}
	case *ast.IfStmt:
		if x.Init != nil {
			// if e := rb.BuildRuleFromString(s); e != nil { return … }
			if as, ok := x.Init.(*ast.AssignStmt); ok && len(as.Rhs) == 1 {
				if cc := w.compileCall(as.Rhs[0]); cc != "" {
					for _, l := range as.Lhs {
						if w.isInstalled(l) && !w.mutated {
							w.mutated = true
							w.emit(".mutate")
						}
					}
					w.emit(fmt.Sprintf("(.call %q)", cc))
				}
			}
		}
		ev := w.condEvent(x.Cond)
		if ev != "" && returnsError(x.Body) {
			w.emit(ev)
			return
		}
		// ruleStr != "" { … } else { return err }  /  generic nesting
		w.stmts(x.Body.List)
		if x.Else != nil {
			if b, ok := x.Else.(*ast.BlockStmt); ok {
				w.stmts(b.List)
			} else if i, ok := x.Else.(*ast.IfStmt); ok {
				w.stmt(i)
			}
		}
	case *ast.ForStmt:
		w.stmts(x.Body.List)
	case *ast.RangeStmt:
		w.stmts(x.Body.List)
	case *ast.BlockStmt:
		w.stmts(x.List)
	}
}

func extractCompile(repo string) (string, error) {
	fset := token.NewFileSet()
	files := map[string]*ast.File{}
	var sb strings.Builder
	sb.WriteString("/- GENERATED by /verif/extract from builder/rule_builder.go and engine/gengine_pool.go — do not edit. -/\n")
	sb.WriteString("import GV.Compile.Model\nnamespace GV.Generated.Compile\nopen GV.Compile\n\n")
	var names []string
	for _, cf := range compileFns {
		f, ok := files[cf.file]
		if !ok {
			var err error
			f, err = parser.ParseFile(fset, filepath.Join(repo, cf.file), nil, 0)
			if err != nil {
				return "", err
			}
			files[cf.file] = f
		}
		var fd *ast.FuncDecl
		for _, d := range f.Decls {
			if x, ok := d.(*ast.FuncDecl); ok && x.Name.Name == cf.name {
				fd = x
			}
		}
		if fd == nil {
			sb.WriteString(fmt.Sprintf("def %s : List Ev := [.missing]\n", cf.name))
			names = append(names, cf.name)
			continue
		}
		w := &cwalker{kind: map[string]string{}, attached: map[string]string{}, params: map[string]bool{}}
		if fd.Recv != nil && len(fd.Recv.List) == 1 && len(fd.Recv.List[0].Names) == 1 {
			w.recv = fd.Recv.List[0].Names[0].Name
		}
		w.stmts(fd.Body.List)
		sb.WriteString(fmt.Sprintf("def %s : List Ev := [%s]\n", cf.name, strings.Join(w.evs, ", ")))
		names = append(names, cf.name)
	}
	sort.Strings(names)
	sb.WriteString("\ndef all : List (String × List Ev) := [")
	for i, n := range names {
		if i > 0 {
			sb.WriteString(", ")
		}
		sb.WriteString(fmt.Sprintf("(%q, %s)", n, n))
	}
	sb.WriteString("]\n\n")
	// the listener's duplicate-name check
	lf, err := parser.ParseFile(fset, filepath.Join(repo, "internal/iparser/gengine_parser_listener.go"), nil, 0)
	if err != nil {
		return "", err
	}
	dup := false
	for _, d := range lf.Decls {
		fd, ok := d.(*ast.FuncDecl)
		if !ok || fd.Name.Name != "ExitRuleEntity" {
			continue
		}
		// if _, ok := g.KnowledgeContext.RuleEntities[name]; ok { g.AddError(…); return } before the store
		for _, st := range fd.Body.List {
			is, ok := st.(*ast.IfStmt)
			if !ok || is.Init == nil {
				continue
			}
			as, ok := is.Init.(*ast.AssignStmt)
			if !ok || len(as.Rhs) != 1 {
				continue
			}
			if ix, ok := as.Rhs[0].(*ast.IndexExpr); ok && strings.HasSuffix(exprStr(ix.X), "RuleEntities") {
				addErr, ret := false, false
				for _, b := range is.Body.List {
					if es, ok := b.(*ast.ExprStmt); ok {
						if c, ok := es.X.(*ast.CallExpr); ok && strings.HasSuffix(exprStr(c.Fun), "AddError") {
							addErr = true
						}
					}
					if _, ok := b.(*ast.ReturnStmt); ok {
						ret = true
					}
				}
				dup = addErr && ret
			}
		}
	}
	sb.WriteString(fmt.Sprintf("/-- ExitRuleEntity records an error and does not store when the name is already defined -/\ndef duplicateCheck : Bool := %v\n\n", dup))
	sb.WriteString("end GV.Generated.Compile\n")
	return sb.String(), nil
}
