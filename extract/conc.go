package main

// Goroutine hygiene of the fan-out sites (C05 / C13 / C18 / C11 / C19): for every `go func(){…}()`
// in engine/gengine.go, engine/gengine_pool.go and internal/base/conc_statement.go
//   * the variables of enclosing loops the closure refers to (the module is `go 1.13`: a loop
//     variable is shared by all iterations, so a closure must work on a per-iteration copy),
//   * how many `X.Done()` calls it contains, whether one is deferred, and whether a `return`
//     precedes the first undeferred one;
// and every `X.Done()` outside any goroutine closure.
// Written to lean/GV/Generated/Conc.lean and judged in GV.Props.C18 / C05.

import (
	"fmt"
	"go/ast"
	"go/parser"
	"go/token"
	"path/filepath"
	"sort"
	"strings"
)

var concFiles = []string{"engine/gengine.go", "engine/gengine_pool.go", "internal/base/conc_statement.go"}

func declaredIn(fl *ast.FuncLit) map[string]bool {
	d := map[string]bool{}
	if fl.Type.Params != nil {
		for _, f := range fl.Type.Params.List {
			for _, n := range f.Names {
				d[n.Name] = true
			}
		}
	}
	ast.Inspect(fl.Body, func(n ast.Node) bool {
		switch x := n.(type) {
		case *ast.AssignStmt:
			if x.Tok == token.DEFINE {
				for _, l := range x.Lhs {
					if id, ok := l.(*ast.Ident); ok {
						d[id.Name] = true
					}
				}
			}
		case *ast.RangeStmt:
			if x.Tok == token.DEFINE {
				for _, e := range []ast.Expr{x.Key, x.Value} {
					if id, ok := e.(*ast.Ident); ok {
						d[id.Name] = true
					}
				}
			}
		case *ast.ValueSpec:
			for _, n := range x.Names {
				d[n.Name] = true
			}
		}
		return true
	})
	return d
}

func extractConc(repo string) (string, error) {
	var captures, doneOutside, addInside []string
	type gc struct {
		where          string
		done           int
		deferred, early bool
	}
	var closures []gc
	for _, file := range concFiles {
		fset := token.NewFileSet()
		f, err := parser.ParseFile(fset, filepath.Join(repo, file), nil, 0)
		if err != nil {
			return "", err
		}
		for _, d := range f.Decls {
			fd, ok := d.(*ast.FuncDecl)
			if !ok || fd.Body == nil {
				continue
			}
			fname := fd.Name.Name
			nlit := 0
			var walk func(n ast.Node, loopVars map[string]bool, inGo bool)
			walk = func(n ast.Node, loopVars map[string]bool, inGo bool) {
				if n == nil {
					return
				}
				ast.Inspect(n, func(x ast.Node) bool {
					switch y := x.(type) {
					case *ast.RangeStmt:
						lv := map[string]bool{}
						for k := range loopVars {
							lv[k] = true
						}
						if y.Tok == token.DEFINE {
							for _, e := range []ast.Expr{y.Key, y.Value} {
								if id, ok := e.(*ast.Ident); ok && id.Name != "_" {
									lv[id.Name] = true
								}
							}
						}
						walk(y.X, loopVars, inGo)
						walk(y.Body, lv, inGo)
						return false
					case *ast.ForStmt:
						lv := map[string]bool{}
						for k := range loopVars {
							lv[k] = true
						}
						if as, ok := y.Init.(*ast.AssignStmt); ok && as.Tok == token.DEFINE {
							for _, l := range as.Lhs {
								if id, ok := l.(*ast.Ident); ok {
									lv[id.Name] = true
								}
							}
						}
						walk(y.Body, lv, inGo)
						return false
					case *ast.GoStmt:
						for _, a := range y.Call.Args {
							walk(a, loopVars, inGo)
						}
						fl, ok := y.Call.Fun.(*ast.FuncLit)
						if !ok {
							return false
						}
						nlit++
						where := fmt.Sprintf("%s:%s$%d", file, fname, nlit)
						decl := declaredIn(fl)
						used := map[string]bool{}
						ast.Inspect(fl.Body, func(z ast.Node) bool {
							if id, ok := z.(*ast.Ident); ok {
								used[id.Name] = true
							}
							return true
						})
						var caps []string
						for v := range loopVars {
							if used[v] && !decl[v] {
								caps = append(caps, v)
							}
						}
						sort.Strings(caps)
						for _, v := range caps {
							captures = append(captures, where+": "+v)
						}
						// Done bookkeeping: statements of the closure's top-level list
						c := gc{where: where}
						sawDone := false
						for _, st := range fl.Body.List {
							switch s := st.(type) {
							case *ast.DeferStmt:
								if se, ok := s.Call.Fun.(*ast.SelectorExpr); ok && se.Sel.Name == "Done" {
									c.done++
									c.deferred = true
								}
							case *ast.ExprStmt:
								if ce, ok := s.X.(*ast.CallExpr); ok {
									if se, ok := ce.Fun.(*ast.SelectorExpr); ok && se.Sel.Name == "Done" {
										c.done++
										sawDone = true
									}
								}
							}
							if !sawDone && !c.deferred {
								ast.Inspect(st, func(z ast.Node) bool {
									if _, ok := z.(*ast.FuncLit); ok {
										return false
									}
									if _, ok := z.(*ast.ReturnStmt); ok {
										c.early = true
									}
									return true
								})
							}
						}
						// Done calls nested deeper inside the closure (inside an if, …) are counted too
						total := 0
						ast.Inspect(fl.Body, func(z ast.Node) bool {
							if ce, ok := z.(*ast.CallExpr); ok {
								if se, ok := ce.Fun.(*ast.SelectorExpr); ok && se.Sel.Name == "Done" {
									total++
								}
							}
							return true
						})
						if total != c.done {
							c.done = 100 + total // some Done is not a top-level statement of the closure
						}
						closures = append(closures, c)
						walk(fl.Body, map[string]bool{}, true)
						return false
					case *ast.CallExpr:
						if se, ok := y.Fun.(*ast.SelectorExpr); ok && se.Sel.Name == "Done" && !inGo {
							doneOutside = append(doneOutside, file+":"+fname+": "+exprStr(se.X)+".Done()")
						}
						if se, ok := y.Fun.(*ast.SelectorExpr); ok && se.Sel.Name == "Add" && inGo && len(y.Args) == 1 {
							addInside = append(addInside, file+":"+fname+": "+exprStr(se.X)+".Add(…)")
						}
					}
					return true
				})
			}
			walk(fd.Body, map[string]bool{}, false)
		}
	}
	q := func(l []string) string {
		var o []string
		for _, s := range l {
			o = append(o, fmt.Sprintf("%q", s))
		}
		return "[" + strings.Join(o, ", ") + "]"
	}
	var sb strings.Builder
	sb.WriteString("/- GENERATED by /verif/extract (goroutine closures of engine/gengine.go, engine/gengine_pool.go, internal/base/conc_statement.go) — do not edit. -/\n")
	sb.WriteString("namespace GV.Generated.Conc\n\n")
	sb.WriteString("/-- `go func` closures that refer to a variable of an enclosing loop (shared by all iterations under go 1.13) -/\n")
	sb.WriteString("def loopCaptures : List String := " + q(captures) + "\n\n")
	sb.WriteString("/-- `Done()` calls that are not inside a goroutine closure -/\n")
	sb.WriteString("def doneOutsideGo : List String := " + q(doneOutside) + "\n\n")
	sb.WriteString("/-- one-argument `X.Add(n)` calls inside a goroutine closure (a WaitGroup raised by a spawned goroutine races with the waiter) -/\n")
	sb.WriteString("def addInsideGo : List String := " + q(addInside) + "\n\n")
	sb.WriteString("structure GoClosure where\n  site : String\n  dones : Nat          -- `X.Done()` statements at the top level of the closure (100 + n: some are nested deeper)\n  deferred : Bool\n  returnBeforeDone : Bool\nderiving Repr, DecidableEq\n\n")
	sb.WriteString("def closures : List GoClosure := [\n")
	for i, c := range closures {
		sep := ","
		if i == len(closures)-1 {
			sep = ""
		}
		sb.WriteString(fmt.Sprintf("  ⟨%q, %d, %v, %v⟩%s\n", c.where, c.done, c.deferred, c.early, sep))
	}
	sb.WriteString("]\n\nend GV.Generated.Conc\n")
	return sb.String(), nil
}
