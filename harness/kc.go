package main

import (
	"fmt"
	"sort"
	"strings"
	"sync"

	"github.com/bilibili/gengine/builder"
	"github.com/bilibili/gengine/context"
	"github.com/bilibili/gengine/engine"
)

// Rule-container scenario (C08, the builder part of C10, C04's "installed list is sorted"):
// random histories of BuildRuleFromString / BuildRuleWithIncremental / RemoveRules on one
// RuleBuilder; after every operation the container is dumped and the sort model is executed.

type kcRule struct {
	Name string `json:"name"`
	Sal  int64  `json:"sal"`
	Ver  int64  `json:"ver"`
}

type kcDump struct {
	Entities []kcRule        `json:"entities"` // sorted by name
	Sort     []kcRule        `json:"sort"`
	Index    [][2]interface{} `json:"index"` // sorted by name
	Trace    []string        `json:"trace"`   // rules executed by Execute(rb, true), in order
	Results  [][2]interface{} `json:"results"`
	Exists   []bool          `json:"exists"` // IsExist(pool names)
	ExecErr  bool            `json:"execErr"`
}

type kcOp struct {
	Kind  string   `json:"kind"` // full | incr | remove
	Rules []kcRule `json:"rules"`
	Names []string `json:"names"`
	Bad   string   `json:"bad"` // "" | dup | syntax | lex | empty
	Text  string   `json:"text"`
	Err   bool     `json:"err"`
	Panic string   `json:"panic,omitempty"`
	After kcDump   `json:"after"`
}

type kcCase struct {
	I    int      `json:"i"`
	Scn  string   `json:"scn"`
	Pool []string `json:"pool"`
	Ops  []kcOp   `json:"ops"`
}

var kcPool = []string{"a", "b", "c", "d", "e", "f", "g"}

func kcRuleText(r kcRule) string {
	return fmt.Sprintf("rule \"%s\" \"v%d\" salience %d\nbegin\nobs(\"%s\")\nreturn %d\nend\n", r.Name, r.Ver, r.Sal, r.Name, r.Ver)
}

func genKcCase(r *rng, i int, maxOps int) *kcCase {
	c := &kcCase{I: i, Scn: "kc", Pool: kcPool}
	nops := 1 + r.intn(maxOps)
	ver := int64(0)
	wide := r.chance(1, 8)
	mkRules := func(n int, allowDup bool) []kcRule {
		var rs []kcRule
		p := r.perm(len(kcPool))
		for j := 0; j < n && j < len(p); j++ {
			ver++
			ru := kcRule{Name: kcPool[p[j]], Ver: ver}
			if wide {
				ru.Sal = int64(r.next())
			} else {
				ru.Sal = int64(r.intn(5)) - 2
			}
			rs = append(rs, ru)
		}
		if allowDup && len(rs) > 0 {
			ver++
			d := rs[r.intn(len(rs))]
			d.Ver = ver
			d.Sal = int64(r.intn(5)) - 2
			pos := r.intn(len(rs) + 1)
			rs = append(rs[:pos], append([]kcRule{d}, rs[pos:]...)...)
		}
		return rs
	}
	for k := 0; k < nops; k++ {
		op := kcOp{Rules: []kcRule{}, Names: []string{}}
		p := r.intn(100)
		switch {
		case p < 25 || k == 0 && p < 60:
			op.Kind = "full"
		case p < 70:
			op.Kind = "incr"
		default:
			op.Kind = "remove"
		}
		if op.Kind == "remove" {
			n := r.intn(4)
			pp := r.perm(len(kcPool))
			for j := 0; j < n; j++ {
				op.Names = append(op.Names, kcPool[pp[j]])
			}
			if r.chance(1, 6) {
				op.Names = append(op.Names, "zz")
			}
			if len(op.Names) == 0 {
				op.Bad = "empty"
			}
		} else {
			q := r.intn(100)
			switch {
			case q < 8:
				op.Bad = "dup"
				op.Rules = mkRules(1+r.intn(3), true)
			case q < 14:
				op.Bad = "syntax"
				op.Rules = mkRules(1+r.intn(3), false)
			case q < 18:
				op.Bad = "lex"
				op.Rules = mkRules(1+r.intn(3), false)
			case q < 21:
				op.Bad = "empty"
			default:
				op.Rules = mkRules(1+r.intn(4), false)
			}
			var tb strings.Builder
			for _, ru := range op.Rules {
				tb.WriteString(kcRuleText(ru))
			}
			op.Text = tb.String()
			switch op.Bad {
			case "syntax":
				// drop the final `end`
				op.Text = strings.TrimSuffix(op.Text, "end\n")
			case "lex":
				op.Text = strings.Replace(op.Text, "begin\n", "begin\nzz = 1 #\n", 1)
			case "empty":
				op.Text = "  \n"
			}
		}
		c.Ops = append(c.Ops, op)
	}
	return c
}

type obsLog struct {
	mu  sync.Mutex
	log []string
}

func (o *obsLog) obs(name string) {
	o.mu.Lock()
	o.log = append(o.log, name)
	o.mu.Unlock()
}

func verOfDesc(d string) int64 {
	var v int64
	fmt.Sscanf(d, "v%d", &v)
	return v
}

func dumpKc(rb *builder.RuleBuilder, ol *obsLog, pool []string) kcDump {
	d := kcDump{Entities: []kcRule{}, Sort: []kcRule{}, Index: [][2]interface{}{}, Trace: []string{}, Results: [][2]interface{}{}}
	for n, re := range rb.Kc.RuleEntities {
		_ = n
		d.Entities = append(d.Entities, kcRule{re.RuleName, re.Salience, verOfDesc(re.RuleDescription)})
	}
	sort.Slice(d.Entities, func(i, j int) bool { return d.Entities[i].Name < d.Entities[j].Name })
	for _, re := range rb.Kc.SortRules {
		d.Sort = append(d.Sort, kcRule{re.RuleName, re.Salience, verOfDesc(re.RuleDescription)})
	}
	var keys []string
	for k := range rb.Kc.SortRulesIndexMap {
		keys = append(keys, k)
	}
	sort.Strings(keys)
	for _, k := range keys {
		d.Index = append(d.Index, [2]interface{}{k, rb.Kc.SortRulesIndexMap[k]})
	}
	ol.mu.Lock()
	ol.log = nil
	ol.mu.Unlock()
	g := engine.NewGengine()
	e := g.Execute(rb, true)
	d.ExecErr = e != nil
	ol.mu.Lock()
	d.Trace = append(d.Trace, ol.log...)
	ol.mu.Unlock()
	m, _ := g.GetRulesResultMap()
	d.Results = resultPairs(m)
	d.Exists = rb.IsExist(pool)
	return d
}

func runKcCase(c *kcCase) {
	ol := &obsLog{}
	dc := context.NewDataContext()
	dc.Add("obs", ol.obs)
	rb := builder.NewRuleBuilder(dc)
	for k := range c.Ops {
		op := &c.Ops[k]
		func() {
			defer func() {
				if p := recover(); p != nil {
					op.Panic = fmt.Sprint(p)
				}
			}()
			var e error
			switch op.Kind {
			case "full":
				e = rb.BuildRuleFromString(op.Text)
			case "incr":
				e = rb.BuildRuleWithIncremental(op.Text)
			case "remove":
				e = rb.RemoveRules(op.Names)
			}
			op.Err = e != nil
		}()
		op.After = dumpKc(rb, ol, c.Pool)
	}
}
