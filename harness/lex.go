package main

import (
	"fmt"
	"strings"

	"github.com/bilibili/gengine/builder"
)

// lexCase: one text given to the real lexer (hook builder.VerifTokens) and to the Lean lexer model.
type lexCase struct {
	Scn   string     `json:"scn"`
	I     int        `json:"i"`
	Kind  string     `json:"kind"`
	Text  string     `json:"text"`
	Toks  [][]string `json:"toks"`
	Errs  []string   `json:"errs"`
	Panic string     `json:"panic,omitempty"`
}

var lexWords = []string{"rule", "RULE", "Rule", "nil", "NIL", "conc", "if", "IF", "else", "return", "for", "forRange", "FORRANGE", "break",
	"continue", "true", "TRUE", "false", "null", "salience", "begin", "end", "END", "x", "ab", "_", "_a1", "a1b2", "forx", "iff", "endx", "rules",
	"S", "S.A", "S.A.B", "S.A.B.C", "if.x", "a.end", "a._", "A9.b", "x.y.z.w.v"}
var lexNums = []string{"0", "1", "42", "007", "9223372036854775808", "1.5", ".5", "1.", "1.e5", "1.5e3", "1e5", "1E-5", "1e-", "1e", "1.e", ".e5",
	"5.", "1.2.3", "1..2", ".5.5", "3e5e5", "1e5.3", "2E+5", "1.5E-07", "0.0"}
var lexOps = []string{"+", "-", "*", "/", "==", "=", ":=", "+=", "-=", "*=", "/=", "!=", "!", ">", ">=", "<", "<=", "&&", "||", "(", ")", "[", "]",
	"{", "}", ";", ".", ",", "@name", "@id", "@desc", "@sal", "@names", "@idx", "===", "=!", "<==", ">>=", "!!", "&&&", "|||", "-=-", "//", "/*", "=:"}
var lexBad = []string{"&", "|", ":", "@", "@nam", "@i", "#", "$", "'", "`", "~", "^", "%", "?", "\\", "é", "→", "\u0085", "\x00"}
var lexStrs = []string{`""`, `"a"`, `"a b"`, `"a""b"`, `""""`, `"""`, `"a\"b"`, `"a\\"`, `"a\\\"`, `"a\nb"`, "\"a\nb\"", `"é"`, `"//"`, `"/* x"`, `"a"b"`,
	`"a" "b"`, `"`, `"abc`, `"abc\`, `"a""`, `"a"""`, `"\x"`, `"1+2"`}
var lexWs = []string{" ", " ", " ", "  ", "\t", "\n", "\r\n", " \n ", ""}
var lexComments = []string{"// c\n", "//\n", "// a // b\n", "//x", "// \"s\"\n", "///\n", "// é\n", "//\r\n"}

func genLexCase(r *rng, i int) *lexCase {
	c := &lexCase{Scn: "lex", I: i}
	var sb strings.Builder
	n := 1 + r.intn(12)
	glue := r.intn(3) // 0: always separated, 1: mostly, 2: mostly glued (maximal munch across fragments)
	c.Kind = []string{"spaced", "mixed", "glued"}[glue]
	bad := r.chance(1, 4)
	if bad {
		c.Kind += "+bad"
	}
	for k := 0; k < n; k++ {
		var f string
		switch x := r.intn(20); {
		case x < 5:
			f = lexWords[r.intn(len(lexWords))]
		case x < 9:
			f = lexNums[r.intn(len(lexNums))]
		case x < 14:
			f = lexOps[r.intn(len(lexOps))]
		case x < 17:
			f = lexStrs[r.intn(len(lexStrs))]
		case x < 18:
			f = lexComments[r.intn(len(lexComments))]
		case x < 19:
			// random name / number made of random characters
			m := 1 + r.intn(5)
			al := "abzEe_.09-"
			b := make([]byte, m)
			for j := range b {
				b[j] = al[r.intn(len(al))]
			}
			f = string(b)
		default:
			if bad {
				f = lexBad[r.intn(len(lexBad))]
			} else {
				f = lexWords[r.intn(len(lexWords))]
			}
		}
		sb.WriteString(f)
		switch glue {
		case 0:
			sb.WriteString(lexWs[r.intn(len(lexWs)-1)])
		case 1:
			if r.chance(2, 3) {
				sb.WriteString(lexWs[r.intn(len(lexWs))])
			}
		default:
			if r.chance(1, 4) {
				sb.WriteString(lexWs[r.intn(len(lexWs))])
			}
		}
	}
	c.Text = sb.String()
	return c
}

func runLexCase(c *lexCase) {
	defer func() {
		if e := recover(); e != nil {
			c.Panic = fmt.Sprint(e)
		}
	}()
	kinds, texts, errs := builder.VerifTokens(c.Text)
	c.Toks = make([][]string, 0, len(kinds))
	for i := range kinds {
		c.Toks = append(c.Toks, []string{kinds[i], texts[i]})
	}
	c.Errs = errs
}
